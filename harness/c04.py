"""
C04 — GET / GETNEXT / SET / GETBULK results are exactly the agent's answers, in order.
End-to-end correspondence: every single-exchange operation of the real Client through the
sender seam (v1, v2c, v3 x security levels) against the reference agent, vs. the Lean model
`Snmp.Ops` fed with the request-id clock and the answer the agent actually gave: emitted
request (type, id, fields, bindings in order), number of clock reads, result or exception.
Faults: the agent adds a binding for a further OID or drops one.

Direct oracle (computed from the agent's database and its logged answer, never from the
model): values for exactly the requested OIDs in order, successors up to end of view, typed SET
values delivered verbatim, bulk scalars/listing split, NoSuchOID for a missing single object,
SnmpError for a wrong binding count or an oversized GETBULK response.

Non-trivial: any operation reaching the agent; distinct = distinct (db, op, args, proto, fault).
"""
from harness import opslib as O
from harness import refagent as RA
from harness.common import Result, run_driver
from harness.knownsig import auth_len127

ASSUMPTIONS = ["the reference agent's GET/GETNEXT/GETBULK semantics (harness/refagent.py) are the conformant ones"]


def fault_hook(kind):
    def hook(agent, msg, out):
        if not isinstance(out, dict):
            return out
        vbs = list(out["varbinds"])
        if kind == "extra":
            vbs.append(([1, 3, 6, 1, 9, 9, 9], ["int", 99]))
        elif kind == "drop" and vbs:
            vbs.pop()
        out["varbinds"] = vbs
        return out

    return hook


def expected(name, args, agent, fault, sent_ok):
    """What the property demands, from the agent's answer (agent.resp_log[-1])."""
    if not agent.resp_log:
        return None
    resp = [[list(o), v] for o, v in agent.resp_log[-1]["varbinds"]]
    eom, missing = ["endOfMibView"], (["noSuchObject"], ["noSuchInstance"])
    if name == "multiget":
        if len(resp) != len(args["oids"]):
            return ["error", ["snmpError"]]
        return ["ok", [v for _o, v in resp]]
    if name == "get":
        if len(resp) != 1:
            return ["error", ["snmpError"]]
        if resp[0][1] in missing:
            return ["error", ["errorResponse", 2, "NoSuchOID", args["oid"]]]
        return ["ok", resp[0][1]]
    if name in ("multigetnext", "getnext"):
        oids = args["oids"] if name == "multigetnext" else [args["oid"]]
        if len(resp) != len(oids):
            return ["error", ["snmpError"]]
        out = []
        for vb in resp:
            if vb[1] == eom:
                break
            out.append(vb)
        if name == "multigetnext":
            return ["ok", out]
        if not out:
            return ["error-any"]  # the property only rules out a placeholder result
        return ["ok", out[0]]
    if name in ("multiset", "set"):
        mapping = args["vbs"] if name == "multiset" else [args["vb"]]
        d = {}
        for o, v in resp:
            d[tuple(o)] = v
        if len(d) != len(mapping):
            return ["error", ["snmpError"]]
        if name == "multiset":
            return ["ok", [[list(o), v] for o, v in d.items()]]
        if tuple(mapping[0][0]) not in d:
            return ["error-any"]
        return ["ok", d[tuple(mapping[0][0])]]
    if name == "bulkget":
        n = len(args["scalars"])
        total = n + len(args["reps"])
        bound = min(n, total) + args["max"] * max(total - n, 0)
        if len(resp) > bound:
            return ["error", ["snmpError"]]
        sc, li = {}, {}
        for o, v in resp[:n]:
            sc[tuple(o)] = v
        for o, v in resp[n:]:
            if v == eom:
                break
            li[tuple(o)] = v
        return ["ok", {"scalars": [[list(o), v] for o, v in sc.items()], "listing": [[list(o), v] for o, v in li.items()]}]
    return None


def expected_request(name, args):
    nul = ["null"]
    if name == "multiget":
        return "get", 0, 0, [[o, nul] for o in args["oids"]]
    if name == "get":
        return "get", 0, 0, [[args["oid"], nul]]
    if name == "multigetnext":
        return "getnext", 0, 0, [[o, nul] for o in args["oids"]]
    if name == "getnext":
        return "getnext", 0, 0, [[args["oid"], nul]]
    if name == "multiset":
        return "set", 0, 0, args["vbs"]
    if name == "set":
        return "set", 0, 0, [args["vb"]]
    return "getbulk", len(args["scalars"]), args["max"], [[o, nul] for o in args["scalars"] + args["reps"]]


def one_case(ctx, res, db, name, args, version, level, fault, reqs, impls):
    agent = RA.Agent(db=db, hook=fault_hook(fault) if fault else None)
    clock = (ctx.rng.randrange(1, 2**31),)
    obs, _client = O.impl_op(name, args, agent, version, level, clock=clock)
    case = {"db": [[list(o), v] for o, v in db], "op": name, "args": args, "version": version, "level": level, "fault": fault, "clock": list(clock)}
    res.count(f"op:{name}")
    res.count(f"proto:{version}/{level}")
    res.count(f"fault:{fault or 'none'}")
    res.count(f"result:{obs['result'][0] if obs['result'][0]=='ok' else obs['result'][1][0]}")
    if obs["result"] == ["error", ["authError"]] and agent.raw_log and auth_len127(agent.raw_log[-1][1]):
        res.count("hit:C10-len127")
        res.violate("e2e-ops", case, "authentic response accepted", obs, "authentic response rejected", {"kind": "auth-reject-len127"})
        return
    # oracle: request as intended
    t, a, b, vbs = expected_request(name, args)
    if len(obs["sent"]) != 1 or (obs["sent"][0]["type"], obs["sent"][0]["a"], obs["sent"][0]["b"], obs["sent"][0]["vbs"]) != (t, a, b, vbs):
        res.violate("e2e-ops", case, [t, a, b, vbs], obs["sent"], "the request sent is not the intended one", {"kind": "ops-wrong-request", "op": name})
    want = expected(name, args, agent, fault, True)
    if want is not None:
        ok = (obs["result"][0] == "error") if want == ["error-any"] else (obs["result"] == want)
        if not ok:
            res.violate("e2e-ops", case, want, obs["result"], f"{name} did not return exactly the agent's answer", {"kind": "ops-wrong-result", "op": name, "fault": fault})
    reqs.append(O.model_req(name, args, agent, version, clock))
    impls.append((case, obs))


def run(ctx):
    res = Result()
    reqs, impls = [], []
    n = ctx.budget(1800, 40000)
    for i in range(n):
        db = O.random_db(ctx.rng)
        name, args = O.random_op(ctx.rng, db)
        version, level = O.PROTOS[i % len(O.PROTOS)] if i % 2 else ("v2c", "noauth")
        fault = ctx.rng.choice([None, None, None, "extra", "drop"])
        one_case(ctx, res, db, name, args, version, level, fault, reqs, impls)
    # every value kind through get / set at least once per protocol
    for version, level in O.PROTOS:
        for v in O.ALL_VALUES:
            db = [((1, 3, 6, 1, 2, 1, 1, 5, 0), v)]
            one_case(ctx, res, db, "get", {"oid": [1, 3, 6, 1, 2, 1, 1, 5, 0]}, version, level, None, reqs, impls)
            one_case(ctx, res, db, "set", {"vb": [[1, 3, 6, 1, 2, 1, 1, 6, 0], v]}, version, level, None, reqs, impls)
    if ctx.driver_ok:
        for (case, obs), ans in zip(impls, run_driver(reqs)):
            res.case("e2e-ops", case)
            model = O.canon_model(ans)
            if model != obs:
                res.disagree("e2e-ops", case, obs, model)
    else:
        for case, _ in impls:
            res.case("e2e-ops", case)
    return res


def replay(ctx, payload):
    c = payload["case"]
    res = Result()
    one_case(ctx, res, [(tuple(o), v) for o, v in c["db"]], c["op"], c["args"], c["version"], c["level"], c["fault"], [], [])
    for v in res.violations:
        print(v["what"], v["expected"], v["observed"])
    return 1 if res.violations else 0
