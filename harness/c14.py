"""
C14 — concurrent operations on a shared client do not disturb one another.

2..4 real operations (gets, multigets, walks, bulk walks, sets on OIDs disjoint from the reads)
run concurrently (`asyncio.gather`-style tasks) on one client, or on two clients with different
users on one event loop.  The sender seam is a controllable scheduler: every sender call parks on
a future, and the harness decides which pending call is answered next.  All orders of answering
are enumerated systematically (depth-first with replay, bounded per operation set), sampled for
larger sets; v2c and v3 authPriv.

Compared with the Lean model `Snmp.Conc` (driver op `conc.run`): each operation becomes the
coroutine tree of its solo run (discovery-cache read before every v3 request, one exchange per
request); the global order of wire events (which operation emits a probe / its k-th request after
each delivery) under the same schedule must coincide.

Direct oracle: under every schedule each operation returns exactly its solo result (or raises
the same exception), emits exactly the requests of its solo run (type, OIDs, values, user), probes
only before its first request, and the agent never sees a wrong digest / unknown user.

Non-trivial: schedules other than "finish operation 0, then 1, ..."; distinct = (op set, schedule).
"""
import asyncio
import contextvars

from harness import indep_ber as B
from harness import refagent as RA
from harness import walklib as W
from harness.common import Result, run_driver

ASSUMPTIONS = [
    "asyncio runs a task without preemption until an await that suspends (modelling assumption of Snmp.Conc)",
    "the agent's answer is a function of the request (sets touch OIDs disjoint from concurrent reads)",
    "reconfiguration while a request is pending is outside the property",
]

OP_INDEX = contextvars.ContextVar("op_index", default=None)
DB = (
    [((1, 3, 6, 1, 2, 1, 1, i, 0), ["str", "%02x" % i]) for i in range(1, 6)]
    + [((1, 3, 6, 1, 2, 1, 2, 2, 1, c, r), ["int", c * 10 + r]) for c in (1, 2) for r in (1, 2, 3)]
    + [((1, 3, 6, 1, 2, 1, 4, 1, 0), ["counter32", 7])]
)
WRITABLE = [1, 3, 6, 1, 4, 1, 99]
READONLY = [1, 3, 6, 1, 4, 1, 98, 1, 0]


def ro_hook(agent, msg, out):
    """a SET of the read-only object is answered with notWritable(17), error-index 1"""
    if isinstance(out, dict) and agent.log and agent.log[-1].get("type") == "set" and any(list(o) == READONLY for o, _ in agent.log[-1].get("varbinds", [])):
        out["a"], out["b"] = 17, 1
    return out


class SchedSender:
    def __init__(self, agent):
        self.agent = agent
        self.pending = {}  # op index -> (future, datagram)
        self.events = []  # (op index, "probe" | "req", parsed)
        self.kwargs = []  # (op index, timeout, retries) of every call, probes included
        self.corrupt = set()  # op indices whose replies (not the discovery reports) are damaged in transit

    async def __call__(self, endpoint, data, timeout=None, retries=None, **kw):
        i = OP_INDEX.get()
        fut = asyncio.get_running_loop().create_future()
        m = B.parse_message(bytes(data))
        probe = m.get("version") == 3 and m.get("engine_id") == b""
        self.events.append((i, "probe" if probe else "req", bytes(data)))
        self.kwargs.append((i, timeout, retries))
        self.pending[i] = (fut, bytes(data))
        return await fut

    def release(self, i):
        fut, data = self.pending.pop(i)
        if not fut.done():  # a cancelled caller took its future with it
            resp = self.agent.respond(data)
            probe = B.parse_message(bytes(data)).get("engine_id") == b"" and B.parse_message(bytes(data)).get("version") == 3
            if i in self.corrupt and not probe and resp:
                resp = resp[:-1] + bytes([resp[-1] ^ 0x01])  # the last octet of the payload: digest / decryption no longer fit
            fut.set_result(resp)


def op_coro(client, op):
    O = RA.OID
    k = op[0]
    if k in ("get", "get-damaged"):
        return client.get(O(op[1]))
    if k == "multiget":
        return client.multiget([O(o) for o in op[1]])
    if k == "set":
        return client.set(O(op[1]), RA.make_value(op[2]))
    if k == "getnext":
        return client.getnext(O(op[1]))

    async def collect(agen):
        return [x async for x in agen]

    if k == "walk":
        return collect(client.walk(O(op[1])))
    if k == "multiwalk":
        return collect(client.multiwalk([O(o) for o in op[1]]))
    if k == "bulkwalk":
        return collect(client.bulkwalk([O(o) for o in op[1]], bulk_size=op[2]))
    raise ValueError(k)


def canon(op, r):
    if op[0] in ("get", "set", "get-damaged"):
        return RA.canon_value(r)
    if op[0] == "multiget":
        return [RA.canon_value(v) for v in r]
    if op[0] == "getnext":
        return [list(r.oid.nodes), RA.canon_value(r.value)]
    return [[list(vb.oid.nodes), RA.canon_value(vb.value)] for vb in r]


def describe(agent_log_entry):
    e = agent_log_entry
    return [e.get("type"), [[list(o), v] for o, v in e.get("varbinds", [])], bytes(e.get("user", e.get("community", b""))).hex(), e.get("a"), e.get("b")]


def run_schedule(opset, proto, prefix, policy="lowest", cancel=None):
    """opset: list of (client index, op).  Returns trace of (chosen, enabled), per-op outcome.
    cancel = (step, op index): that operation's task is cancelled at that scheduling point."""
    from harness import opslib as OL

    with OL.with_clock([1000 + k for k in range(4000)]):  # distinct request ids for every request
        return _run_schedule(opset, proto, prefix, policy, cancel)


def _run_schedule(opset, proto, prefix, policy, cancel):
    version, level = proto
    agent = RA.Agent(db=list(DB), hook=ro_hook)
    sender = SchedSender(agent)
    nclients = max(c for c, _ in opset) + 1
    from puresnmp import Client

    # make_client registers the user with the agent; the real client gets the scheduler as sender
    clients = [Client("127.0.0.1", W.make_client(agent, version, level, user=f"usr{c}").config.credentials, sender=sender) for c in range(nclients)]
    results = [None] * len(opset)
    sender.corrupt = {i for i, (_c, op) in enumerate(opset) if op[0] == "get-damaged"}

    async def wrap(i, c, op):
        OP_INDEX.set(i)
        try:
            results[i] = ["ok", canon(op, await op_coro(clients[c], op))]
        except Exception as exc:  # noqa: BLE001
            results[i] = ["error", RA.canon_exc(exc)]

    trace = []
    last_served = {}

    async def main():
        tasks = [asyncio.ensure_future(wrap(i, c, op)) for i, (c, op) in enumerate(opset)]
        step = 0
        while True:
            for _ in range(12):
                await asyncio.sleep(0)
            if cancel and cancel[0] == step and not tasks[cancel[1]].done():
                tasks[cancel[1]].cancel()
                sender.pending.pop(cancel[1], None)
                results[cancel[1]] = ["cancelled"]
                for _ in range(12):
                    await asyncio.sleep(0)
            for k in [k for k, (f, _d) in sender.pending.items() if f.done()]:
                sender.pending.pop(k)
            enabled = sorted(sender.pending)
            if not enabled:
                break
            if step < len(prefix) and prefix[step] in enabled:
                choice = prefix[step]
            else:
                if policy == "rr":  # the operation that was served least recently: as many requests in flight as possible
                    choice = min(enabled, key=lambda k: (last_served.get(k, -1), k))
                else:
                    choice = enabled[0] if policy == "lowest" else enabled[-1]
            last_served[choice] = step
            trace.append((choice, enabled))
            sender.release(choice)
            step += 1
            if step > 400:
                break
        for t in tasks:
            if not t.done():
                t.cancel()

    loop = asyncio.new_event_loop()
    try:
        loop.run_until_complete(main())
    finally:
        loop.close()
    # per-op request descriptions, from the agent's own parse (in arrival = release order per op)
    per_op = [[] for _ in opset]
    log = []
    probes_after_req = False
    seen_req = [False] * len(opset)
    for i, kind, data in sender.events:
        if kind == "probe":
            log.append([i, "probe"])
            if seen_req[i]:
                probes_after_req = True
        else:
            k = len(per_op[i])
            per_op[i].append(data)
            seen_req[i] = True
            log.append([i, 100 * i + k])
    bad_agent = [e.get("kind") for e in agent.log if e.get("version") == 3 and e.get("kind") not in ("request", "discovery")]
    kw = [sorted({(t, r) for j, t, r in sender.kwargs if j == i}) for i in range(len(opset))]
    configs = [(cl.config.timeout, cl.config.retries) for cl in clients]
    return {"trace": trace, "results": results, "requests": per_op, "log": log, "bad_agent": bad_agent, "late_probe": probes_after_req, "agent": agent, "kwargs": kw, "configs": configs}


def request_view(agent, datagram, version):
    """what an independent reader sees in a request datagram (decrypting with the agent's keys)"""
    a2 = RA.Agent(db=list(DB), v3=agent.v3)
    a2.respond(datagram)
    return describe(a2.log[-1]) if a2.log else None


def run_schedule_user(op, proto, c):
    """solo run of `op` on the client with user index c"""
    opset = [(c, op)]
    version, level = proto
    agent = RA.Agent(db=list(DB), hook=ro_hook)
    sender = SchedSender(agent)
    from puresnmp import Client

    clients = {}
    for cc in range(c + 1):
        cl = W.make_client(agent, version, level, user=f"usr{cc}")
        clients[cc] = Client("127.0.0.1", cl.config.credentials, sender=sender)
    results = [None]
    if op[0] == "get-damaged":
        sender.corrupt = {0}

    async def main():
        OP_INDEX.set(0)

        async def w():
            OP_INDEX.set(0)
            try:
                results[0] = ["ok", canon(op, await op_coro(clients[c], op))]
            except Exception as exc:  # noqa: BLE001
                results[0] = ["error", RA.canon_exc(exc)]

        t = asyncio.ensure_future(w())
        for _ in range(400):
            for _ in range(12):
                await asyncio.sleep(0)
            if not sender.pending:
                break
            sender.release(0)
        if not t.done():
            t.cancel()

    from harness import opslib as OL

    loop = asyncio.new_event_loop()
    try:
        with OL.with_clock([1000 + k for k in range(4000)]):
            loop.run_until_complete(main())
    finally:
        loop.close()
    per_op = [d for _i, k, d in sender.events if k == "req"]
    return {"results": results, "requests": [per_op], "agent": agent, "kwargs": [sorted({(t, r) for _j, t, r in sender.kwargs})], "configs": [(clients[c].config.timeout, clients[c].config.retries)]}


def views(run, idx, version):
    return [request_view(run["agent"], d, version) for d in run["requests"][idx]]


def check_run(res, case, run, solos, proto):
    version = proto[0]
    for i, s in enumerate(solos):
        if run["results"][i] == ["cancelled"]:
            continue
        if run["results"][i] != s["results"][0]:
            res.violate("sched-enum", case, s["results"][0], run["results"][i], f"operation {i} returned something else than when run alone", {"kind": "conc", "what": "result-differs"})
            return False
        if run["kwargs"][i] != s["kwargs"][0]:
            res.violate("sched-enum", case, s["kwargs"][0], run["kwargs"][i], f"operation {i} reached the transport with other (timeout, retries) than when run alone", {"kind": "conc", "what": "transport-settings-differ"})
            return False
        if views(run, i, version) != views(s, 0, version):
            res.violate("sched-enum", case, "solo requests", "other requests", f"operation {i} emitted other requests than when run alone", {"kind": "conc", "what": "requests-differ"})
            return False
    if any(cfg != solos[0]["configs"][0] for cfg in run["configs"]):
        res.violate("sched-enum", case, solos[0]["configs"][0], run["configs"], "a client's timeout / retries differ from the configured ones after all operations have ended", {"kind": "conc", "what": "config-changed"})
        return False
    if run["bad_agent"]:
        res.violate("sched-enum", case, "agent accepts every request", run["bad_agent"], "the agent rejected a request (wrong digest / unknown user / decryption)", {"kind": "conc", "what": "agent-rejects"})
        return False
    # (after an error-class reply the client re-discovers, so probes may then appear anywhere; their
    # exact places are compared with the model's trace)
    if run["late_probe"] and not any(r and r[0] == "error" for r in run["results"]):
        res.violate("sched-enum", case, "probes only before an operation's first request", run["log"], "a discovery probe was emitted after the operation's first request", {"kind": "conc", "what": "late-probe"})
        return False
    return True


def model_req(opset, solos, proto, chosen, nclients):
    reqs = []
    for c in range(nclients):
        idx = [i for i, (cc, _) in enumerate(opset) if cc == c]
        procs = [{"v3": proto[0] == "v3", "reqs": [100 * i + k for k in range(len(solos[i]["requests"][0]))], "res": i} for i in idx]
        sched = [idx.index(i) for i in chosen if i in idx]
        # replies on which V3MPM.decode forgets the discovery data: an SnmpError raised while the
        # message is processed, i.e. USM reports.  (Error-status responses were among them until the
        # usmStats repair: validate_usm_message used to force every PDU; now only Reports are read
        # there and an ErrorResponse surfaces in _send, outside decode.)  The same holds for a reply
        # damaged in transit (wrong digest / undecipherable): the operations marked "get-damaged".
        forget = [100 * i + k for i in idx if opset[i][1][0] == "get-damaged" and proto[0] == "v3" for k in range(len(solos[i]["requests"][0]))]
        reqs.append(({"op": "conc.run", "procs": procs, "schedule": sched, "forget": forget}, idx))
    return reqs


def explore(opset, proto, limit, rng=None):
    """systematic enumeration of schedules (depth-first with replay), at most `limit` runs"""
    runs = []
    stack = [[]]
    seen = set()
    while stack and len(runs) < limit:
        prefix = stack.pop() if rng is None else stack.pop(rng.randrange(len(stack)))
        r = run_schedule(opset, proto, prefix)
        chosen = tuple(c for c, _ in r["trace"])
        if chosen in seen:
            continue
        seen.add(chosen)
        runs.append(r)
        for k in range(len(prefix), len(r["trace"])):
            for alt in r["trace"][k][1]:
                if alt != r["trace"][k][0]:
                    stack.append(list(chosen[:k]) + [alt])
    return runs, not stack


OPS = [
    ("get", [1, 3, 6, 1, 2, 1, 1, 1, 0]),
    ("get", [1, 3, 6, 1, 2, 1, 1, 9, 0]),
    ("multiget", [[1, 3, 6, 1, 2, 1, 1, 2, 0], [1, 3, 6, 1, 2, 1, 4, 1, 0]]),
    ("getnext", [1, 3, 6, 1, 2, 1, 1, 3]),
    ("walk", [1, 3, 6, 1, 2, 1, 1]),
    ("walk", [1, 3, 6, 1, 2, 1, 2, 2, 1, 1]),
    ("multiwalk", [[1, 3, 6, 1, 2, 1, 2, 2, 1, 2], [1, 3, 6, 1, 2, 1, 2, 2, 1, 1]]),
    ("bulkwalk", [[1, 3, 6, 1, 2, 1, 2, 2, 1]], 2),
    ("bulkwalk", [[1, 3, 6, 1, 2, 1, 1]], 10),
    ("set", WRITABLE + [1, 0], ["int", 5]),
    ("set", WRITABLE + [2, 0], ["str", "6869"]),
    ("set", READONLY, ["int", 1]),  # answered with notWritable: an error-status reply among the others
]


def _after_restart(ctx, res):
    """A client that already holds discovery data, a restart of the remote engine, then 2..4
    operations in flight at once: every one of them gets a notInTimeWindow report for its first
    request and has to recover by itself (re-discovery + one retransmission) — whatever the
    others are doing in the meantime (seeded C14-41: a per-client "resyncing" flag).  Oracle only:
    each operation returns its solo result."""
    from puresnmp import Client
    from harness import opslib as OL

    rng = ctx.rng
    pool = [OPS[0], OPS[2], OPS[3], OPS[5], OPS[7], OPS[1]]
    for level in ("auth", "authpriv"):
        proto = ("v3", level)
        solo = {}
        for nops in (2, 3, 4):
            for policy in ("lowest", "highest", "rr", "random"):
                for rep in range(ctx.budget(1, 4)):
                    ops = [pool[(k + rep) % len(pool)] for k in range(nops)] if policy != "random" else [rng.choice(pool) for _ in range(nops)]
                    for op in ops:
                        if repr(op) not in solo:
                            solo[repr(op)] = run_schedule_user(op, proto, 0)["results"][0]
                    agent = RA.Agent(db=list(DB), hook=ro_hook)
                    sender = SchedSender(agent)
                    client = Client("127.0.0.1", W.make_client(agent, "v3", level, user="usr0").config.credentials, sender=sender)
                    results = [None] * nops
                    chosen = []

                    async def wrap(i, op, client=client, results=results):
                        OP_INDEX.set(i)
                        try:
                            results[i] = ["ok", canon(op, await op_coro(client, op))]
                        except Exception as exc:  # noqa: BLE001
                            results[i] = ["error", RA.canon_exc(exc)]

                    async def main(ops=ops, agent=agent, sender=sender, policy=policy, chosen=chosen):
                        warm = [None]

                        async def w0():
                            OP_INDEX.set(99)
                            warm[0] = await client.get(RA.OID(OPS[0][1]))

                        t0 = asyncio.ensure_future(w0())
                        for _ in range(50):
                            for _ in range(12):
                                await asyncio.sleep(0)
                            if not sender.pending:
                                break
                            sender.release(99)
                        await t0
                        agent.v3.boots += 1  # the engine restarts
                        tasks = [asyncio.ensure_future(wrap(i, op)) for i, op in enumerate(ops)]
                        last = {}
                        for step in range(400):
                            for _ in range(12):
                                await asyncio.sleep(0)
                            enabled = sorted(sender.pending)
                            if not enabled:
                                break
                            if policy == "rr":
                                c = min(enabled, key=lambda k: (last.get(k, -1), k))
                            elif policy == "random":
                                c = rng.choice(enabled)
                            else:
                                c = enabled[0] if policy == "lowest" else enabled[-1]
                            last[c] = step
                            chosen.append(c)
                            sender.release(c)
                        for t in tasks:
                            if not t.done():
                                t.cancel()

                    loop = asyncio.new_event_loop()
                    try:
                        with OL.with_clock([1000 + k for k in range(4000)]):
                            loop.run_until_complete(main())
                    finally:
                        loop.close()
                    res.evaluations += 1
                    res.count(f"after-restart:{nops}-ops:{policy}")
                    case = {"suite": "after-restart", "level": level, "ops": [list(op) for op in ops], "policy": policy, "schedule": chosen}
                    for i, op in enumerate(ops):
                        if results[i] != solo[repr(op)]:
                            res.violate("after-restart", case, {"op": i, "solo": solo[repr(op)]}, {"op": i, "got": results[i]},
                                        "an operation started after an engine restart, next to others, did not return its solo result",
                                        {"kind": "conc-after-restart"})
                            break


def run(ctx):
    res = Result()
    _after_restart(ctx, res)
    sets = []
    rng = ctx.rng
    # small sets, fully enumerated (bounded)
    for proto in (("v2c", "noauth"), ("v3", "authpriv")):
        # corpus: an error-status reply to one operation while another one is still discovering /
        # waiting, and two overlapping SETs next to a read
        sets.append(([(0, OPS[0]), (0, OPS[-1])], proto, ctx.budget(60, 600), None))
        sets.append(([(0, OPS[-3]), (0, OPS[-2]), (0, OPS[0])], proto, ctx.budget(60, 600), None))
        # overlapping and identical walks in flight at once (what one has been handed must not be
        # withheld from the other)
        sets.append(([(0, OPS[5]), (0, OPS[6])], proto, ctx.budget(40, 600), None))
        sets.append(([(0, OPS[7]), (0, OPS[5]), (0, OPS[5])], proto, ctx.budget(40, 400), None))
        sets.append(([(0, OPS[4]), (0, OPS[8])], proto, ctx.budget(40, 400), None))
        # a reply damaged in transit (rejected by the security model / a foreign id for v2c... ) while
        # another operation is still in its discovery or waiting for its answer
        sets.append(([(0, OPS[0]), (0, ("get-damaged", [1, 3, 6, 1, 2, 1, 1, 2, 0]))], proto, ctx.budget(80, 600), None))
        sets.append(([(0, OPS[5]), (0, ("get-damaged", [1, 3, 6, 1, 2, 1, 1, 2, 0])), (0, OPS[1])], proto, ctx.budget(60, 600), None))
        for _ in range(ctx.budget(5, 16)):
            n = rng.choice([2, 2, 3])
            ops = [rng.choice(OPS) for _ in range(n)]
            two = rng.random() < 0.3
            opset = [((i % 2) if two else 0, op) for i, op in enumerate(ops)]
            sets.append((opset, proto, ctx.budget(60, 600), None))
        for _ in range(ctx.budget(2, 8)):  # larger sets: sampled schedules
            n = rng.choice([5, 6, 8])
            ops = [rng.choice(OPS[:4] + OPS[-2:] + OPS[5:6]) for _ in range(n)]
            opset = [(0, op) for op in ops]
            sets.append((opset, proto, ctx.budget(25, 150), rng))
    model_batch, model_meta = [], []
    for opset, proto, limit, sampler in sets:
        nclients = max(c for c, _ in opset) + 1
        solos = [run_schedule_user(op, proto, c) for c, op in opset]
        runs, complete = explore(opset, proto, limit, sampler)
        # one operation is cancelled (task.cancel / wait_for timeout) at a random scheduling point:
        # the others must still behave as when run alone
        for _ in range(ctx.budget(4, 20)):
            pre = [rng.randrange(len(opset)) for _ in range(rng.randint(0, 6))]
            r = run_schedule(opset, proto, pre, policy=rng.choice(["lowest", "highest"]), cancel=(rng.randint(0, 3), rng.randrange(len(opset))))
            runs.append(r)
            res.count("schedules-with-cancellation")
        # every operation served in turn: as many requests outstanding at once as there are operations
        runs.append(run_schedule(opset, proto, [], policy="rr"))
        res.count("schedules-round-robin")
        res.count(f"opsets:{proto[0]}")
        res.count("exhaustive-sets" if complete else "bounded-sets")
        for r in runs:
            chosen = [c for c, _ in r["trace"]]
            case = {"ops": [[c, list(op)] for c, op in opset], "proto": list(proto), "schedule": chosen}
            res.count("schedules")
            res.count(f"n-ops:{len(opset)}")
            check_run(res, case, r, solos, proto)
            for req, idx in model_req(opset, solos, proto, chosen, nclients):
                model_batch.append(req)
                model_meta.append((case, [e for e in r["log"] if e[0] in idx], idx, [r["results"][i] is not None for i in idx]))
    if ctx.driver_ok:
        for (case, log, idx, done), ans in zip(model_meta, run_driver(model_batch)):
            trivial = case["schedule"] == sorted(case["schedule"])
            res.case("sched-enum", case, nontrivial=not trivial)
            if "ok" not in ans:
                res.disagree("sched-enum", case, log, ans)
                continue
            mlog = [[idx[e[0]], e[1]] for e in ans["ok"]["log"]]
            if mlog != log:
                res.disagree("sched-enum", case, log, mlog)
    else:
        for case, *_ in model_meta:
            res.case("sched-enum", case)
    return res


def replay(ctx, payload):
    c = payload["case"]
    opset = [(cc, tuple(op) if not isinstance(op, tuple) else op) for cc, op in c["ops"]]
    proto = tuple(c["proto"])
    solos = [run_schedule_user(op, proto, cc) for cc, op in opset]
    r = run_schedule(opset, proto, c["schedule"])
    res = Result()
    ok = check_run(res, c, r, solos, proto)
    for v in res.violations:
        print(v["what"])
    print("results", r["results"])
    return 0 if ok else 1
