"""
Unit-level correspondence for `puresnmp_plugins.security.usm.reset_raw_digest` (the MAC input of
an incoming SNMPv3 message) against `Snmp.RawDigest.resetRawDigest` (driver op `usm.reset`), and an
independent oracle on well-formed messages: the result is the datagram as received with exactly
the octets of msgAuthenticationParameters replaced by zeroes (RFC 3414 6.3.2).

Inputs: authentic responses of the reference agent at every level, written with every length
form the independent encoder knows (minimal, long form with 1..4 length octets), swept over
payload sizes around the 127/128 boundary; the same datagrams with a wrong-sized digest field;
and a malformed stream derived from them (octet flips, truncations, insertions, length octets
replaced by 0x80 / 0xff / long forms, random octets).
"""
from harness import berlib as BL
from harness import indep_ber as B
from harness import opslib as O
from harness import refagent as RA
from harness import usmlib as UL

ERR = {"AuthenticationError": "digestLength", "IndexError": "index", "NotImplementedError": "notImplemented", "X690Error": "x690", "ValueError": "value", "TypeError": "type"}
OID = [1, 3, 6, 1, 2, 1, 1, 1, 0]


def real(dg):
    from puresnmp_plugins.security.usm import reset_raw_digest

    r = BL.guarded(lambda: reset_raw_digest(bytes(dg)), 1.0)
    if r[0] == "ok":
        return ["ok", bytes(r[1]).hex()]
    if r[0] == "hang":
        return ["hang"]
    return ["error", ERR.get(r[1], r[1])]


def base_datagrams(ctx):
    """(label, datagram) — authentic responses in every length form"""
    out = []
    forms = ["min", "long1", "long2", "long3", "long4"]
    pads = [0, 1, 20, 60, 61, 62, 63, 64, 90, 100, 127, 128, 200, 260] if ctx.quick else list(range(0, 140)) + [200, 255, 256, 260, 300, 1000, 70000]
    for level in ("auth", "authpriv", "auth-sha1", "noauth"):
        for form in forms:
            for pad in pads if form in ("min", "long2") or ctx.quick is False else pads[::3]:
                agent = RA.Agent(db=[(tuple(OID), ["str", "61" * pad])], form=form)
                O.impl_op("get", {"oid": OID}, agent, "v3", level)
                if agent.raw_log:
                    out.append((f"{level}/{form}/pad{pad}", bytes(agent.raw_log[-1][1])))
    return out


def indefinite_variants(ctx):
    """(label, datagram, expected) — correctly signed responses of an auth user in which one field of
    the USM parameter block (or the block / the message itself) is written in the indefinite
    length form, `tag 80 content 00 00`, which x690 reads; content without an inner `00 00`"""
    from harness import indep_usm as U

    out = []
    eid = RA.V3Config().engine_id
    method, pw = "md5", b"authpass-usr"
    pdu = B.enc_pdu(0xA2, 77, 0, 0, [(OID, ["str", "6f6b"])])
    scoped = B.enc_scoped(eid, b"", pdu)
    header = B.tlv(0x30, B.enc_int(77) + B.enc_int(65507) + B.tlv(4, bytes([1])) + B.enc_int(3))

    def ind(tag, content):
        return bytes([tag, 0x80]) + content + b"\x00\x00"

    contents = {"engine_id": (4, eid), "boots": (2, bytes([3])), "time": (2, bytes([3, 232])), "user": (4, b"usr"), "priv": (4, b"")}
    specials = [("engine_id", b"\x80" * 6), ("user", b"\x80\x80\x81\x82"), ("priv", b"\x80" * 8), ("engine_id", b"\x81\x01" * 4)]
    todo = [(k, None) for k in contents] + specials + [("block", None), ("octets", None), ("message", None)]
    for which, special in todo:
        parts = []
        engine = eid
        for k in ("engine_id", "boots", "time", "user", "auth", "priv"):
            if k == "auth":
                parts.append(("auth", B.tlv(4, b"\x00" * 12)))
                continue
            tag, c = contents[k]
            if k == which and special is not None:
                c = special
                if k == "engine_id":
                    engine = special
            parts.append((k, ind(tag, c) if k == which else B.tlv(tag, c)))
        inner = b"".join(t for _k, t in parts)
        block = ind(0x30, inner) if which == "block" else B.tlv(0x30, inner)
        octets = ind(0x04, block) if which == "octets" else B.tlv(0x04, block)
        sc = B.enc_scoped(engine, b"", pdu) if engine != eid else scoped
        body = B.enc_int(3) + header + octets + sc
        dg = ind(0x30, body) if which == "message" else B.tlv(0x30, body)
        # where the twelve digest octets are
        off0 = dg.index(inner) + sum(len(t) for k, t in parts[:4]) + 2
        assert dg[off0 - 2 : off0] == b"\x04\x0c"
        digest = U.sign(method, pw, engine, dg, (off0, off0 + 12))
        signed = dg[:off0] + digest + dg[off0 + 12 :]
        out.append((f"indefinite/{which}" + ("/0x80-octets" if special else ""), signed, ["ok", dg.hex()]))
    return out


def expected(dg):
    """independent: digest window from the harness's own parser"""
    m = B.parse_message(dg)
    off = m["auth_params_offset"]
    if off[1] - off[0] != 12:
        return ["error", "digestLength"]
    return ["ok", (dg[: off[0]] + b"\x00" * 12 + dg[off[1] :]).hex()]


def resize_digest(dg, n):
    """the same message with an n-octet digest field (re-encoded with the independent encoder)"""
    m = B.parse_message(dg)
    payload = UL.payload_tlv(dg)
    return UL.rebuild(m, auth_params=bytes(range(1, n + 1)), msg_data=payload)


def mutations(rng, dg, n):
    out = []
    for _ in range(n):
        b = bytearray(dg)
        k = rng.random()
        if k < 0.25:
            i = rng.randrange(len(b))
            b[i] ^= 1 << rng.randrange(8)
        elif k < 0.4:
            b = b[: rng.randrange(len(b))]
        elif k < 0.55:
            i = rng.randrange(len(b))
            b[i:i] = bytes([rng.randrange(256)])
        elif k < 0.8:
            # a length octet near the front (the ten TLVs the function walks are in the first ~60 octets)
            i = rng.randrange(1, min(len(b), 70))
            b[i] = rng.choice([0x80, 0xFF, 0x81, 0x82, 0x84, 0x00, 0x7F, b[i] + 1 & 0xFF])
        elif k < 0.9:
            i = rng.randrange(len(b))
            del b[i : i + rng.randint(1, 4)]
        else:
            b = bytearray(rng.randrange(256) for _ in range(rng.randint(0, 40)))
        out.append(bytes(b))
    return out


def run(ctx, res, reqs, impls):
    bases = base_datagrams(ctx)
    for label, dg in bases:
        got = real(dg)
        res.evaluations += 1
        res.count("rawdigest:authentic")
        res.count("rawdigest-form:" + label.split("/")[1])
        case = {"input": label, "datagram": dg.hex()}
        want = expected(dg)
        if got != want:
            res.violate("unit-rawdigest", case, want[0:1] + [str(want[1])[:200]], got[0:1] + [str(got[1:])[:200]],
                        "the MAC input is not the datagram as received with exactly the digest octets zeroed", {"kind": "usm-in", "what": "raw-digest"})
        reqs.append({"op": "usm.reset", "datagram": dg.hex()})
        impls.append(("unit-rawdigest", case, got))
    # indefinite-length forms on the way to the digest (x690 reads them)
    for label, dg, want in indefinite_variants(ctx):
        got = real(dg)
        res.evaluations += 1
        res.count("rawdigest:indefinite")
        case = {"input": label, "datagram": dg.hex()}
        if got[0] == "hang":
            res.violate("unit-rawdigest", case, "a result or an exception", "no return", "locating the digest did not finish within the time budget", {"kind": "hang", "x690_loop_predicted": False})
            continue
        if got != want:
            res.violate("unit-rawdigest", case, want[0:1] + [str(want[1])[:200]], got[0:1] + [str(got[1:])[:200]],
                        "the MAC input is not the datagram as received with exactly the digest octets zeroed", {"kind": "usm-in", "what": "raw-digest"})
        reqs.append({"op": "usm.reset", "datagram": dg.hex()})
        impls.append(("unit-rawdigest", case, got))
    # wrong-sized digest fields
    for label, dg in bases[:: max(1, len(bases) // 12)]:
        for n in (0, 1, 11, 13, 16, 24):
            try:
                d2 = resize_digest(dg, n)
            except Exception:  # noqa: BLE001
                continue
            got = real(d2)
            res.evaluations += 1
            res.count("rawdigest:wrong-size")
            case = {"input": f"{label}/digest{n}", "datagram": d2.hex()}
            if got != ["error", "digestLength"]:
                res.violate("unit-rawdigest", case, ["error", "digestLength"], got[0:1] + [str(got[1:])[:200]],
                            "a digest field that is not 12 octets long was not refused", {"kind": "usm-in", "what": "raw-digest"})
            reqs.append({"op": "usm.reset", "datagram": d2.hex()})
            impls.append(("unit-rawdigest", case, got))
    # malformed stream: correspondence only
    per = ctx.budget(6, 60)
    for label, dg in bases[:: max(1, len(bases) // ctx.budget(40, 400))]:
        for d2 in mutations(ctx.rng, dg, per):
            got = real(d2)
            res.count("rawdigest:malformed")
            res.count("rawdigest-outcome:" + (got[1] if got[0] == "error" else got[0]))
            reqs.append({"op": "usm.reset", "datagram": d2.hex()})
            impls.append(("unit-rawdigest", {"input": label + "/mutated", "datagram": d2.hex()}, got))


def canon_model(ans):
    m = ans.get("ok", ans) if isinstance(ans, dict) else ans
    return m
