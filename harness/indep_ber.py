"""
Independent BER / SNMP message reader and writer, written from X.690 section 8, RFC 1157,
RFC 3416 and RFC 3412.  Shares no code with x690 or puresnmp.  Used by the reference agent
and by the property oracles.  Strict: definite lengths only, trailing garbage rejected.

Canonical value form (JSON-able):  ["int", n] ["str", hex] ["null"] ["oid", [..]] ["ip", hex]
["counter32", n] ["gauge32", n] ["ticks", n] ["opaque", hex] ["nsap", n] ["counter64", n]
["noSuchObject"] ["noSuchInstance"] ["endOfMibView"] ["unknown", tag, hex]
"""


class BerError(Exception):
    pass


# ---------------------------------------------------------------- writer
def enc_len(n, form="min"):
    """form: 'min' (X.690 minimal), or 'long1'..'long4' (long form with k length octets)."""
    if form == "min":
        if n < 128:
            return bytes([n])
        k = (n.bit_length() + 7) // 8
        return bytes([0x80 | k]) + n.to_bytes(k, "big")
    k = int(form[4:])
    while n >= 256**k:  # does not fit: use the next longer long form
        k += 1
    return bytes([0x80 | k]) + n.to_bytes(k, "big")


def tlv(tag, content, form="min"):
    return bytes([tag]) + enc_len(len(content), form) + bytes(content)


def int_content(v):
    """two's complement, minimal number of octets (X.690 8.3)"""
    n = 1
    while not -(1 << (8 * n - 1)) <= v < (1 << (8 * n - 1)):
        n += 1
    return v.to_bytes(n, "big", signed=True)


def uint_content(v):
    """non-negative INTEGER (application types): minimal two's complement, i.e. with a
    leading 00 when the top bit would be set"""
    if v < 0:
        raise BerError("negative unsigned")
    return int_content(v)


def oid_content(oid):
    oid = list(oid)
    if len(oid) == 0:
        return b""
    if len(oid) < 2:
        raise BerError("OID needs two arcs")
    first = oid[0] * 40 + oid[1]
    out = bytearray()
    for sub in [first] + oid[2:]:
        chunk = [sub & 0x7F]
        sub >>= 7
        while sub:
            chunk.append((sub & 0x7F) | 0x80)
            sub >>= 7
        out += bytes(reversed(chunk))
    return bytes(out)


TAGS = {
    "int": 0x02,
    "str": 0x04,
    "null": 0x05,
    "oid": 0x06,
    "ip": 0x40,
    "counter32": 0x41,
    "gauge32": 0x42,
    "ticks": 0x43,
    "opaque": 0x44,
    "nsap": 0x45,
    "counter64": 0x46,
    "noSuchObject": 0x80,
    "noSuchInstance": 0x81,
    "endOfMibView": 0x82,
}


def enc_val(v, form="min"):
    kind = v[0]
    if kind == "unknown":
        return tlv(v[1], bytes.fromhex(v[2]), form)
    tag = TAGS[kind]
    if kind in ("int", "nsap"):
        c = int_content(v[1])
    elif kind in ("counter32", "gauge32", "ticks", "counter64"):
        c = uint_content(v[1])
    elif kind in ("str", "ip", "opaque"):
        c = bytes.fromhex(v[1])
    elif kind == "oid":
        c = oid_content(v[1])
    else:
        c = b""
    return tlv(tag, c, form)


def enc_oid(oid, form="min"):
    return tlv(0x06, oid_content(oid), form)


def enc_int(v, form="min"):
    return tlv(0x02, int_content(v), form)


def enc_varbinds(vbs, form="min"):
    return tlv(0x30, b"".join(tlv(0x30, enc_oid(o, form) + enc_val(v, form), form) for o, v in vbs), form)


def enc_pdu(tag, request_id, a, b, vbs, form="min"):
    return tlv(tag, enc_int(request_id, form) + enc_int(a, form) + enc_int(b, form) + enc_varbinds(vbs, form), form)


def enc_community_msg(version, community, pdu_bytes, form="min"):
    return tlv(0x30, enc_int(version, form) + tlv(0x04, community, form) + pdu_bytes, form)


# ---------------------------------------------------------------- reader
def dec_tlv(b, i=0):
    if i + 2 > len(b):
        raise BerError("truncated header")
    tag = b[i]
    if tag & 0x1F == 0x1F:
        raise BerError("high tag numbers not used in SNMP")
    l0 = b[i + 1]
    i += 2
    if l0 < 0x80:
        n = l0
    elif l0 == 0x80:
        raise BerError("indefinite length")
    elif l0 == 0xFF:
        raise BerError("reserved length")
    else:
        k = l0 & 0x7F
        if i + k > len(b):
            raise BerError("truncated length")
        n = int.from_bytes(b[i : i + k], "big")
        i += k
    if i + n > len(b):
        raise BerError("truncated content")
    return tag, bytes(b[i : i + n]), i + n


def dec_seq(content):
    out, i = [], 0
    while i < len(content):
        tag, c, i = dec_tlv(content, i)
        out.append((tag, c))
    return out


def dec_int(c):
    if not c:
        raise BerError("empty integer")
    return int.from_bytes(c, "big", signed=True)


def dec_uint(c):
    return int.from_bytes(c, "big", signed=False)


def dec_oid(c):
    if not c:
        return []
    subs, acc, pending = [], 0, False
    for ch in c:
        acc = acc * 128 + (ch & 0x7F)
        pending = True
        if not ch & 0x80:
            subs.append(acc)
            acc, pending = 0, False
    if pending:
        raise BerError("truncated sub-identifier")
    first = subs[0]
    if first < 40:
        head = [0, first]
    elif first < 80:
        head = [1, first - 40]
    else:
        head = [2, first - 80]
    return head + subs[1:]


RTAGS = {v: k for k, v in TAGS.items()}


def dec_val(tag, c):
    kind = RTAGS.get(tag)
    if kind is None:
        return ["unknown", tag, c.hex()]
    if kind in ("int", "nsap"):
        return [kind, dec_int(c)]
    if kind in ("counter32", "gauge32", "ticks", "counter64"):
        return [kind, dec_uint(c)]
    if kind in ("str", "ip", "opaque"):
        return [kind, c.hex()]
    if kind == "oid":
        return [kind, dec_oid(c)]
    return [kind]


def dec_varbinds(c):
    out = []
    for tag, vb in dec_seq(c):
        if tag != 0x30:
            raise BerError("varbind is not a SEQUENCE")
        items = dec_seq(vb)
        if len(items) != 2 or items[0][0] != 0x06:
            raise BerError("malformed varbind")
        out.append((dec_oid(items[0][1]), dec_val(items[1][0], items[1][1])))
    return out


PDU_NAMES = {0xA0: "get", 0xA1: "getnext", 0xA2: "response", 0xA3: "set", 0xA5: "getbulk", 0xA6: "inform", 0xA7: "trap", 0xA8: "report"}


def dec_pdu(tag, c):
    items = dec_seq(c)
    if len(items) != 4 or [t for t, _ in items[:3]] != [2, 2, 2] or items[3][0] != 0x30:
        raise BerError("malformed PDU")
    return {
        "type": PDU_NAMES.get(tag, f"tag{tag:#x}"),
        "tag": tag,
        "request_id": dec_int(items[0][1]),
        "a": dec_int(items[1][1]),
        "b": dec_int(items[2][1]),
        "varbinds": dec_varbinds(items[3][1]),
    }


def parse_message(b):
    """Decode a whole SNMP datagram (v1/v2c community message or v3 message).  For v3 the
    scoped PDU is returned decoded when in clear, or as ciphertext bytes."""
    tag, c, end = dec_tlv(b, 0)
    if tag != 0x30 or end != len(b):
        raise BerError("not a single SEQUENCE")
    items = dec_seq(c)
    if not items or items[0][0] != 2:
        raise BerError("no version")
    version = dec_int(items[0][1])
    if version in (0, 1):
        if len(items) != 3 or items[1][0] != 4:
            raise BerError("malformed community message")
        return {"version": version, "community": items[1][1], "pdu": dec_pdu(items[2][0], items[2][1])}
    if version == 3:
        if len(items) != 4 or items[1][0] != 0x30 or items[2][0] != 4:
            raise BerError("malformed v3 message")
        h = dec_seq(items[1][1])
        if [t for t, _ in h] != [2, 2, 4, 2] or len(h[2][1]) != 1:
            raise BerError("malformed header data")
        flags = h[2][1][0]
        sp_tag, sp_c, sp_end = dec_tlv(items[2][1], 0)
        if sp_tag != 0x30 or sp_end != len(items[2][1]):
            raise BerError("malformed security parameters")
        sp = dec_seq(sp_c)
        if [t for t, _ in sp] != [4, 2, 2, 4, 4, 4]:
            raise BerError("malformed USM parameters")
        out = {
            "version": 3,
            "msg_id": dec_int(h[0][1]),
            "max_size": dec_int(h[1][1]),
            "flags": flags,
            "security_model": dec_int(h[3][1]),
            "engine_id": sp[0][1],
            "boots": dec_int(sp[1][1]),
            "time": dec_int(sp[2][1]),
            "user": sp[3][1],
            "auth_params": sp[4][1],
            "priv_params": sp[5][1],
        }
        # locate the auth parameter octets inside the datagram (for digest verification)
        out["auth_params_offset"] = _find_auth_offset(b)
        if items[3][0] == 0x04:
            out["ciphertext"] = items[3][1]
        elif items[3][0] == 0x30:
            out["scoped"] = dec_scoped(items[3][1])
        else:
            raise BerError("malformed msgData")
        return out
    raise BerError(f"unknown version {version}")


def dec_scoped(c):
    s = dec_seq(c)
    if len(s) != 3 or s[0][0] != 4 or s[1][0] != 4:
        raise BerError("malformed scoped PDU")
    return {"context_engine_id": s[0][1], "context_name": s[1][1], "pdu": dec_pdu(s[2][0], s[2][1])}


def dec_scoped_tlv(b):
    tag, c, _end = dec_tlv(b, 0)  # trailing padding from block ciphers is tolerated
    if tag != 0x30:
        raise BerError("scoped PDU is not a SEQUENCE")
    return dec_scoped(c)


def _hdr(b, i):
    """(content start, content end) of the TLV starting at i"""
    tag, c, end = dec_tlv(b, i)
    return end - len(c), end


def _find_auth_offset(b):
    s, _e = _hdr(b, 0)  # message
    _, i = _hdr(b, s)  # version
    _, i = _hdr(b, i)  # header
    sp_s, _ = _hdr(b, i)  # security parameters OCTET STRING content
    seq_s, _ = _hdr(b, sp_s)  # inner SEQUENCE
    _, j = _hdr(b, seq_s)  # engine id
    _, j = _hdr(b, j)  # boots
    _, j = _hdr(b, j)  # time
    _, j = _hdr(b, j)  # user
    a_s, a_e = _hdr(b, j)
    return (a_s, a_e)


def enc_v3_message(msg_id, max_size, flags, engine_id, boots, time_, user, auth_params, priv_params, msg_data, form="min"):
    """msg_data: already-encoded scoped PDU TLV (plain) or OCTET STRING TLV (encrypted)."""
    header = tlv(0x30, enc_int(msg_id, form) + enc_int(max_size, form) + tlv(4, bytes([flags]), form) + enc_int(3, form), form)
    sp = tlv(
        0x30,
        tlv(4, engine_id, form) + enc_int(boots, form) + enc_int(time_, form) + tlv(4, user, form) + tlv(4, auth_params, form) + tlv(4, priv_params, form),
        form,
    )
    return tlv(0x30, enc_int(3, form) + header + tlv(4, sp, form) + msg_data, form)


def enc_scoped(context_engine_id, context_name, pdu_bytes, form="min"):
    return tlv(0x30, tlv(4, context_engine_id, form) + tlv(4, context_name, form) + pdu_bytes, form)
