"""
C08 — agent error-status always surfaces as the documented exception, never as data.
Unit: GetResponse decoding on the full matrix status x index x binding-list length (bytes
built by the independent encoder).  End-to-end: every operation x v1/v2c/v3 levels against an
agent that sets error-status / error-index, vs. the Lean model `Snmp.Ops`.

Direct oracle (table written from RFC 3416 + puresnmp's documented class names, not from the
code): the call raises the class documented for the status (generic ErrorResponse carrying the
raw status otherwise), offending OID = binding[index-1] if 1 <= index <= len else the empty
OID, and never returns data.

Non-trivial: every case (status != 0); distinct = distinct (status, index, bindings, op, proto).
"""
from harness import indep_ber as B
from harness import opslib as O
from harness import refagent as RA
from harness import walklib as W
from harness.common import Result, run_driver
from harness.knownsig import auth_len127

ASSUMPTIONS = []

DOCUMENTED = {
    1: "TooBig", 2: "NoSuchOID", 3: "BadValue", 4: "ReadOnly", 5: "GenErr", 6: "NoAccess", 7: "WrongType",
    8: "WrongLength", 9: "WrongEncoding", 10: "WrongValue", 11: "NoCreation", 12: "InconsistentValue",
    13: "ResourceUnavailable", 14: "CommitFailed", 15: "UndoFailed", 16: "AuthorizationError", 17: "NotWritable",
    18: "InconsistentName",
}  # fmt: skip


def want_exc(status, index, vbs):
    off = list(vbs[index - 1][0]) if 1 <= index <= len(vbs) else []
    return ["error", ["errorResponse", status, DOCUMENTED.get(status, "ErrorResponse"), off]]


def err_hook(status, index, nvb):
    def hook(agent, msg, out):
        if not isinstance(out, dict):
            return out
        out["a"], out["b"] = status, index
        if nvb is not None:
            vbs = list(out["varbinds"])
            while len(vbs) < nvb:
                vbs.append(([1, 3, 6, 1, 7, len(vbs)], ["null"]))
            out["varbinds"] = vbs[:nvb]
        return out

    return hook


def run(ctx):
    from puresnmp.pdu import GetResponse

    res = Result()
    # unit matrix on PDU.decode_raw --------------------------------------------------------
    statuses = list(range(-2, 21)) + [255, 2**31 - 1, -(2**31)]
    for status in statuses:
        if status == 0:
            continue
        for nvb in range(0, 4):
            vbs = [([1, 3, 6, 1, 2, 1, i + 1, 0], ["int", i]) for i in range(nvb)]
            for index in range(-1, nvb + 3):
                content = B.enc_int(77) + B.enc_int(status) + B.enc_int(index) + B.enc_varbinds(vbs)
                try:
                    got = ["ok", repr(GetResponse.decode_raw(content))[:60]]
                except Exception as exc:  # noqa: BLE001
                    got = ["error", RA.canon_exc(exc)]
                want = want_exc(status, index, vbs)
                res.evaluations += 1
                res.count("unit-matrix")
                if got != want:
                    res.violate("unit-pdu-err", {"status": status, "index": index, "bindings": nvb}, want, got, "error response did not surface as the documented exception", _sig(index, nvb, got))
    # end to end --------------------------------------------------------------------------
    reqs, impls = [], []
    for i in range(ctx.budget(900, 20000)):
        db = O.random_db(ctx.rng, ctx.rng.randint(1, 6))
        name, args = O.random_op(ctx.rng, db)
        version, level = O.PROTOS[i % len(O.PROTOS)]
        status = ctx.rng.choice(list(range(1, 19)) + [19, 255, -1, 2**31 - 1])
        nvb = ctx.rng.choice([None, None, 0, 1, 2])
        index = ctx.rng.choice([0, 1, 2, 3, 9, -1])
        agent = RA.Agent(db=db, hook=err_hook(status, index, nvb))
        clock = (ctx.rng.randrange(1, 2**31),)
        obs, _ = O.impl_op(name, args, agent, version, level, clock=clock)
        case = {"db": [[list(o), v] for o, v in db], "op": name, "args": args, "version": version, "level": level, "status": status, "index": index, "nvb": nvb, "clock": list(clock)}
        res.count(f"op:{name}")
        res.count(f"proto:{version}/{level}")
        res.count("status:" + ("1-18" if 1 <= status <= 18 else "undefined"))
        if obs["result"] == ["error", ["authError"]] and agent.raw_log and auth_len127(agent.raw_log[-1][1]):
            res.violate("e2e-error", case, "authentic response accepted", obs, "authentic response rejected", {"kind": "auth-reject-len127"})
            continue
        if agent.resp_log:
            vbs = agent.resp_log[-1]["varbinds"]
            want = want_exc(status, index, vbs)
            if obs["result"] != want:
                res.violate("e2e-error", case, want, obs["result"], "error response did not surface as the documented exception", _sig(index, len(vbs), obs["result"]))
        reqs.append(O.model_req(name, args, agent, version, clock))
        impls.append((case, obs))
    walk_cases(ctx, res)
    if ctx.driver_ok:
        for (case, obs), ans in zip(impls, run_driver(reqs)):
            res.case("e2e-error", case)
            model = O.canon_model(ans)
            if model != obs:
                res.disagree("e2e-error", case, obs, model)
    else:
        for case, _ in impls:
            res.case("e2e-error", case)
    return res


def walk_cases(ctx, res):
    """walk-style operations: the k-th request of the walk is answered with an error-status"""
    reqs, impls = [], []
    protos = [("v2c", "noauth"), ("v1", "noauth"), ("v3", "auth"), ("v3", "authpriv"), ("v2c", "noauth")]
    for i in range(ctx.budget(400, 8000)):
        db, roots = W.random_case(ctx.rng, max_inst=16, max_roots=3)
        version, level = protos[i % len(protos)]
        kind = "bulk" if (i % 3 == 1 and version != "v1") else "getnext"
        lenient = kind == "getnext" and i % 4 == 0
        size = ctx.rng.choice([1, 2, 5])
        spec = {"db": db}
        if kind == "bulk" and i % 2 == 0 and len(roots) > 1:
            # an agent that answers with less than one repetition: the fetcher's completion requests
            # are requests like any other — an error-status answer to one of them must surface too
            spec["policy"] = {"deep": True, "cut": ctx.rng.choice([1, 2, 5]), "rows": ctx.rng.choice([1, 2])}
            res.count("walk-fault:truncating-agent")
        clean, _ = W.impl_walk(spec, roots, kind, size=size, lenient=lenient, budget=(len(db) + 8) * 3)
        rq = [e[1] for e in clean["events"] if e[0] == "req"]
        if not rq:
            continue
        k = 0 if (i % 2 == 0 and "policy" not in spec) else ctx.rng.randrange(len(rq))
        foids = rq[k]
        status = ctx.rng.choice([2, 2, 1, 5, 16, 19, 255, -1, 13])
        index = ctx.rng.choice([0, 1, 1, 2, 7, -1])

        def hook(agent, msg, out, foids=foids, status=status, index=index):
            if isinstance(out, dict) and agent.log and [list(o) for o, _ in agent.log[-1].get("varbinds", [])] == foids:
                out["a"], out["b"] = status, index
            return out

        walk, agent = W.impl_walk(spec, roots, kind, size=size, lenient=lenient, version=version, level=level, hook=hook, budget=(len(db) + 8) * 3)
        case = {"db": db, "policy": spec.get("policy"), "roots": roots, "kind": kind, "size": size, "lenient": lenient, "version": version, "level": level, "fault_request": k, "oids": foids, "status": status, "index": index}
        res.count(f"walk-fault:{'first' if k == 0 else 'later'}:{'nosuchname' if status == 2 else 'other'}")
        faulted = [r for r in agent.resp_log if r["a"] == status and r["b"] == index]
        if walk["outcome"] == ["error", ["authError"]] and agent.raw_log and auth_len127(agent.raw_log[-1][1]):
            res.violate("e2e-walk-error", case, "authentic response accepted", walk["outcome"], "authentic response rejected", {"kind": "auth-reject-len127"})
            continue
        if faulted:
            want = want_exc(status, index, faulted[0]["varbinds"])
            ok = walk["outcome"] == want or (status == 2 and k > 0 and walk["outcome"] == ["done"])
            # nothing may be yielded after the faulted request went out
            reqs_seen, late = 0, False
            for e in walk["events"]:
                if e[0] == "req":
                    reqs_seen += 1
                elif reqs_seen > k:
                    late = True
            if not ok or late:
                res.violate("e2e-walk-error", case, want, walk["outcome"], "error response inside a walk did not surface as the documented exception" if not ok else "data yielded from an error response", {"kind": "error-not-surfaced", "walk": True, "first_request": k == 0, "returned_data": late})
        reqs.append(W.model_request(spec, roots, kind, size=size, lenient=lenient, fuel=(len(db) + 10) * 3, fault={"oids": foids, "status": status, "index": index}))
        impls.append((case, W.canon_impl_walk(walk)))
    if ctx.driver_ok:
        for (case, obs), ans in zip(impls, run_driver(reqs)):
            res.case("e2e-walk-error", case)
            model = W.canon_model_walk(ans)
            if model != obs:
                res.disagree("e2e-walk-error", case, obs, model)
    else:
        for case, _ in impls:
            res.case("e2e-walk-error", case)


def _sig(index, nvb, got):
    return {"kind": "error-not-surfaced", "index_in_range": 1 <= index <= nvb or index == 0, "returned_data": got[0] == "ok"}


def replay(ctx, payload):
    from puresnmp.pdu import GetResponse

    c = payload["case"]
    if "bindings" in c:
        vbs = [([1, 3, 6, 1, 2, 1, i + 1, 0], ["int", i]) for i in range(c["bindings"])]
        content = B.enc_int(77) + B.enc_int(c["status"]) + B.enc_int(c["index"]) + B.enc_varbinds(vbs)
        try:
            got = ["ok", repr(GetResponse.decode_raw(content))[:60]]
        except Exception as exc:  # noqa: BLE001
            got = ["error", RA.canon_exc(exc)]
        print("got", got, "want", want_exc(c["status"], c["index"], vbs))
        return 0 if got == want_exc(c["status"], c["index"], vbs) else 1
    print("re-run the check with the recorded seed")
    return 2
