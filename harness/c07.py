"""
C07 — only the response to the request actually sent is ever returned.  End-to-end with
`puresnmp.util.time` replaced by a scripted clock (constant, +1 per read, random jumps) and an
agent that echoes / is off by one / answers an arbitrary request-id, or another community /
version.  Compared with the Lean model `Snmp.Ops` (request id in the datagram, number of clock
reads, result).  Walks: every request inside a walk is one more exchange under the same rule.

Direct oracle: (a) a result is returned only if the response id equals the id in the request as
sent; (b) an echoing conformant agent is accepted whatever the clock does; (c) any other id
raises InvalidResponseId; (d) another community / version is refused; (e) discovery message id.

Non-trivial: an exchange whose clock advances between reads or whose response id / community /
version was perturbed; distinct = distinct (op, args, proto, clock, perturbation).
"""
from harness import opslib as O
from harness import berlib as BL
from harness import refagent as RA
from harness import walklib as W
from harness.common import Result, run_driver
from harness.knownsig import auth_len127

ASSUMPTIONS = ["get_request_id() reads the module-level `time` of puresnmp.util, which the harness replaces"]


def perturb(kind, delta):
    def hook(agent, msg, out):
        if not isinstance(out, dict):
            return out
        if kind == "rid":
            out["request_id"] = out["request_id"] + delta
        elif kind == "community" and "community" in out:
            c = bytes(out["community"])
            out["community"] = COMMUNITY_VARIANTS[delta % len(COMMUNITY_VARIANTS)](c)
        elif kind == "version" and "community" in out:
            out["version"] = [1 - out["version"], 2, 255, -1, 256 + out["version"]][delta % 5]
        return out

    return hook


COMMUNITY_VARIANTS = [
    lambda c: b"other",
    lambda c: c + b"\xff",
    lambda c: b"\x80" + c,
    lambda c: c[:-1],
    lambda c: c + b"\x00",
    lambda c: c.upper(),
    lambda c: b"",
    lambda c: c[:3] + b"\xc3\xa9" + c[3:],
    lambda c: c + b" ",
    lambda c: c + c,
]
RID_DELTAS = [1, -1, 12345, 2**32, -(2**32), 2**33, 2**31, -(2**31), 256, 65536, 2**40, 2**64, 3 * 2**32]


def clocks(rng):
    base = rng.randrange(1, 2**31 - 100)
    kind = rng.choice(["const", "step", "jump"])
    if kind == "const":
        return kind, [base] * 6
    if kind == "step":
        return kind, [base + i for i in range(6)]
    out, t = [], base
    for _ in range(6):
        out.append(t)
        t += rng.choice([0, 1, 1, 5, 3600])
    return kind, out


def one_case(ctx, res, db, name, args, version, level, pert, clk_kind, clock, reqs, impls):
    kind, delta = pert
    agent = RA.Agent(db=db, hook=perturb(kind, delta) if kind else None)
    obs, _ = O.impl_op(name, args, agent, version, level, clock=clock)
    case = {"db": [[list(o), v] for o, v in db], "op": name, "args": args, "version": version, "level": level, "perturb": [kind, delta], "clock": clock, "clock_kind": clk_kind}
    res.count(f"op:{name}")
    res.count(f"clock:{clk_kind}")
    res.count(f"perturb:{kind or 'echo'}")
    res.count(f"proto:{version}/{level}")
    if obs["result"] == ["error", ["authError"]] and agent.raw_log and auth_len127(agent.raw_log[-1][1]):
        res.violate("e2e-clock", case, "authentic response accepted", obs, "authentic response rejected", {"kind": "auth-reject-len127"})
        return
    if len(obs["sent"]) == 1 and agent.resp_log:
        sent_id = obs["sent"][0]["rid"]
        resp_id = agent.resp_log[-1]["request_id"]
        got = obs["result"]
        if resp_id != sent_id:
            if got[0] == "ok":
                res.violate("e2e-clock", case, "InvalidResponseId", got, "a response with a foreign request-id was returned as a result", {"kind": "foreign-response-accepted", "op": name})
            elif kind == "rid" and got != ["error", ["invalidResponseId"]]:
                res.violate("e2e-clock", case, ["error", ["invalidResponseId"]], got, "foreign request-id did not raise InvalidResponseId", {"kind": "foreign-response-other-error", "op": name})
        elif kind is None and got == ["error", ["invalidResponseId"]]:
            res.violate(
                "e2e-clock",
                case,
                "echoing conformant agent accepted",
                got,
                f"conformant echo refused: request carried id {sent_id}, agent echoed it, clock={clk_kind}",
                {"kind": "echo-refused", "op": name if name in ("set", "multiset") else "other"},
            )
        elif kind in ("community", "version") and version in ("v1", "v2c") and got[0] == "ok":
            res.violate("e2e-clock", case, "refused", got, f"response with another {kind} was accepted", {"kind": "foreign-community-accepted"})
    reqs.append(O.model_req(name, args, agent, version, clock))
    impls.append((case, obs))


def run(ctx):
    res = Result()
    reqs, impls = [], []
    for i in range(ctx.budget(1800, 30000)):
        perts = [(None, 0), (None, 0), ("rid", RID_DELTAS[(i // 7) % len(RID_DELTAS)]), ("rid", ctx.rng.choice(RID_DELTAS)), ("rid", ctx.rng.randrange(-(2**33), 2**33) or 1), ("community", ctx.rng.randrange(10**6)), ("version", ctx.rng.randrange(10**6))]
        db = O.random_db(ctx.rng, ctx.rng.randint(1, 8))
        name, args = O.random_op(ctx.rng, db)
        version, level = O.PROTOS[i % len(O.PROTOS)] if i % 2 else ("v2c", "noauth")
        if perts[i % len(perts)][0] in ("community", "version"):
            # community-based versions in turn (index arithmetic alone kept SNMPv1 on one variant)
            version, level = (("v1", "noauth"), ("v2c", "noauth"))[(i // len(perts)) % 2]
        ck, clock = clocks(ctx.rng)
        one_case(ctx, res, db, name, args, version, level, perts[i % len(perts)], ck, clock, reqs, impls)
    # SNMPv3 retransmission after a notInTimeWindow report (agent restarted) under an advancing clock:
    # the retransmitted PDU and the id the response is validated against must be the same id
    for i in range(ctx.budget(40, 600)):
        level = ["noauth", "auth", "authpriv", "auth-sha1"][i % 4]
        db = [((1, 3, 6, 1, 2, 1, 1, 1, 0), ["str", "6f6b"])]
        agent = RA.Agent(db=db, v3=RA.V3Config())
        client = W.make_client(agent, "v3", level)
        base = ctx.rng.randrange(1, 2**31 - 1000)
        step = ctx.rng.choice([1, 1, 5, 3600])
        with O.with_clock([base + j * step for j in range(64)]):
            first = BL.guarded(lambda: W.run(client.get(RA.OID([1, 3, 6, 1, 2, 1, 1, 1, 0]))), 5.0)
            agent.v3.boots += 1  # the agent restarts: the next authenticated request is outside its window
            second = BL.guarded(lambda: W.run(client.get(RA.OID([1, 3, 6, 1, 2, 1, 1, 1, 0]))), 5.0)
        res.evaluations += 1
        res.count("retransmission-under-stepping-clock")
        case = {"level": level, "clock_base": base, "clock_step": step}
        if first[0] != "ok" or second[0] != "ok":
            res.violate("e2e-retry-id", case, "both requests succeed (the agent echoes the id of every PDU it answers)", [list(first)[:2], list(second)[:2]],
                        "a conformant echoing agent was refused around a retransmission", {"kind": "echo-refused", "op": "retransmission"})
        # ... and the answer to the retransmitted request is subject to the same rule: a foreign
        # request-id there (the report and the re-discovery before it are left alone) is refused
        delta = RID_DELTAS[i % len(RID_DELTAS)]
        agent.v3.boots += 1
        agent.hook = perturb("rid", delta)
        n_before = len(agent.resp_log)
        with O.with_clock([base + 1000 + j * step for j in range(64)]):
            third = BL.guarded(lambda: W.run(client.get(RA.OID([1, 3, 6, 1, 2, 1, 1, 1, 0]))), 5.0)
        agent.hook = None
        res.evaluations += 1
        res.count("foreign-id-on-retransmission")
        answered = len(agent.resp_log) - n_before  # responses (not reports) sent: the one to the retransmission
        if answered >= 1 and third[0] == "ok":
            res.violate("e2e-retry-id", {**case, "delta": delta}, "InvalidResponseId", list(third)[:2],
                        "a response with a foreign request-id was returned as the result of a retransmitted request", {"kind": "foreign-response-accepted", "op": "retransmission"})
        elif answered >= 1 and (third[0] != "error" or third[1] != "InvalidResponseId"):
            res.violate("e2e-retry-id", {**case, "delta": delta}, "InvalidResponseId", list(third)[:2],
                        "foreign request-id on a retransmitted request did not raise InvalidResponseId", {"kind": "foreign-response-other-error", "op": "retransmission"})
        elif answered == 0:
            res.count("foreign-id-on-retransmission:no-response-seen")
    # walks under a stepping clock: echoing agent must be accepted at every request; a perturbed k-th answer must raise
    for i in range(ctx.budget(120, 3000)):
        db, roots = W.random_case(ctx.rng, max_inst=20, max_roots=3)
        kind = "bulk" if i % 2 else "getnext"
        with O.with_clock([1000 + j for j in range(400)]):
            walk, agent = W.impl_walk({"db": db}, roots, kind, size=3, budget=len(db) + 8)
        res.evaluations += 1
        res.count("walk-under-stepping-clock")
        bad = W.oracle_exact(db, roots, walk)
        if bad:
            res.violate("e2e-clock-walk", {"db": db, "roots": roots, "kind": kind}, "walk completes under an advancing clock", walk, bad, {"kind": "echo-refused", "op": "walk"})
        k = ctx.rng.randint(0, 3)
        wdelta = ctx.rng.choice(RID_DELTAS)
        agent2 = RA.Agent(db=[(tuple(o), v) for o, v in db])
        cnt = {"n": 0}

        def hook(agent, msg, out, k=k, cnt=cnt, wdelta=wdelta):
            if isinstance(out, dict):
                if cnt["n"] == k:
                    out["request_id"] += wdelta
                cnt["n"] += 1
            return out

        agent2.hook = hook
        client = W.make_client(agent2)
        rec = W.Recorder(agent2)
        agen = client.multiwalk([RA.OID(r) for r in roots]) if kind == "getnext" else client.bulkwalk([RA.OID(r) for r in roots], bulk_size=3)
        out = W.run(W._consume(rec, agen))
        res.evaluations += 1
        if cnt["n"] > k and out != ["error", ["invalidResponseId"]]:
            res.violate("e2e-clock-walk", {"db": db, "roots": roots, "kind": kind, "perturbed_request": k, "delta": wdelta}, ["error", ["invalidResponseId"]], out, "a walk accepted a response with a foreign request-id", {"kind": "foreign-response-accepted", "op": "walk"})
    # discovery exchange: a reply whose message id does not match the probe must be refused
    for i in range(ctx.budget(60, 600)):
        delta = [0, 1, -1, 777, 2**32, -(2**32), 2**31, 2**40, 0, 65536][i % 10]
        agent = RA.Agent(db=[((1, 3, 6, 1, 2, 1, 1, 1, 0), ["int", 1])])

        def dhook(agent, msg, out, delta=delta):
            if isinstance(out, bytes) and msg.get("engine_id") == b"":
                m = RA.B.parse_message(out)
                sc = m["scoped"]
                pdu = RA.B.enc_pdu(0xA8, sc["pdu"]["request_id"], 0, 0, sc["pdu"]["varbinds"])
                return RA.B.enc_v3_message(m["msg_id"] + delta, 65507, 0, m["engine_id"], m["boots"], m["time"], b"", b"", b"", RA.B.enc_scoped(sc["context_engine_id"], b"", pdu))
            return out

        agent.hook = dhook
        client = W.make_client(agent, "v3", ["noauth", "auth", "authpriv"][i % 3])
        try:
            W.run(client.multiget([RA.OID([1, 3, 6, 1, 2, 1, 1, 1, 0])]))
            got = ["ok"]
        except Exception as exc:  # noqa: BLE001
            got = ["error", RA.canon_exc(exc)]
        res.evaluations += 1
        res.count(f"discovery-id-delta:{delta}")
        if delta != 0 and got != ["error", ["invalidResponseId"]]:
            res.violate("e2e-disco-id", {"delta": delta}, ["error", ["invalidResponseId"]], got, "discovery reply with a foreign message id was not refused", {"kind": "disco-foreign-id"})
        if delta == 0 and got == ["error", ["authError"]] and agent.raw_log and auth_len127(agent.raw_log[-1][1]):
            res.violate("e2e-disco-id", {"delta": delta}, ["ok"], got, "authentic response rejected", {"kind": "auth-reject-len127"})
        elif delta == 0 and got != ["ok"]:
            res.violate("e2e-disco-id", {"delta": delta}, ["ok"], got, "matching discovery reply refused", {"kind": "disco-refused"})
    if ctx.driver_ok:
        for (case, obs), ans in zip(impls, run_driver(reqs)):
            res.case("e2e-clock", case, case["perturb"][0] is not None or case["clock_kind"] != "const")
            model = O.canon_model(ans)
            if model != obs:
                res.disagree("e2e-clock", case, obs, model)
    else:
        for case, _ in impls:
            res.case("e2e-clock", case)
    return res


def replay(ctx, payload):
    c = payload["case"]
    res = Result()
    one_case(ctx, res, [(tuple(o), v) for o, v in c["db"]], c["op"], c["args"], c["version"], c["level"], tuple(c["perturb"]), c["clock_kind"], c["clock"], [], [])
    for v in res.violations:
        print(v["what"], v["expected"], v["observed"])
    return 1 if res.violations else 0
