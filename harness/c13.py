"""
C13 — UDP sender: bounded retries, exact timeout behaviour, no socket left open.

The real `puresnmp.transport.send_udp` runs on the virtual-time loop of harness/vloop.py whose
datagram-endpoint factory records every `sendto` / `close` / `abort` and plays one scripted
outcome per attempt: reply in time, no reply, reply after the timeout, two replies, ICMP/OS
error, connection lost (with and without exception).  Exhaustive over all outcome sequences up
to the retry budget for retries 1..3 (quick) / 1..4 (thorough) x timeouts {1 s, 6 s}, plus
random delays; compared with the Lean model `Snmp.Udp.sendUdp` (driver op `udp.run`;
1 tick = 0.25 s).  A loopback part uses real sockets and counts /proc/self/fd.

Direct oracle (written from the property): at most `retries` sends, all identical to the
request; the first reply inside its attempt's window is returned unmodified at its arrival time;
Timeout iff `retries` attempts in a row stay unanswered, then after exactly retries x timeout;
no endpoint open once the call is over and the loop has run.

Non-trivial: every run; distinct = distinct (retries, timeout, outcome sequence).
"""
import asyncio
import itertools
import os
import socket

from harness.common import Result, run_driver
from harness.vloop import VLoop

ASSUMPTIONS = [
    "kernel socket behaviour, ICMP delivery timing and garbage collection are outside the model (observed on loopback only)",
    "a reply arriving at exactly the timeout instant is not generated (the order of two timers with equal deadlines is an asyncio detail)",
]
PACKET = bytes.fromhex("302602010104067075626c6963a01902047f000001020100020100300b300906052b060102010500")
TICK = 0.25


def kinds(timeout_ticks):
    t = timeout_ticks
    return [
        ["reply", max(0, t - 2), "aa01"],
        ["reply", 1, ""],  # a zero-length datagram is a reply too
        ["none"],
        ["reply", t + 3, "bb02"],  # after the timeout
        ["two", 1, "cc03", 2, "dd04"],
        ["oserror", 1],
        ["lost", 2, True],
        ["lost", 1, False],
    ]


def to_script(outs):
    s = []
    for o in outs:
        if o[0] == "reply":
            s.append(["reply", o[1] * TICK, bytes.fromhex(o[2])])
        elif o[0] == "two":
            s.append(["two", o[1] * TICK, bytes.fromhex(o[2]), o[3] * TICK, bytes.fromhex(o[4])])
        elif o[0] in ("oserror",):
            s.append(["oserror", o[1] * TICK])
        elif o[0] == "lost":
            s.append(["lost", o[1] * TICK, o[2]])
        else:
            s.append(["none"])
    return s


def impl_run(timeout_ticks, retries, outs, cancel=None):
    from puresnmp.exc import Timeout
    from puresnmp.transport import Endpoint, send_udp

    loop = VLoop(to_script(outs))
    try:
        try:
            call = send_udp(Endpoint("192.0.2.1", 161), PACKET, timeout=timeout_ticks * TICK, loop=loop, retries=retries)
            if cancel is not None:
                # the caller's own deadline, half a tick after `cancel` ticks (never at the instant of another event)
                async def bounded(call=call):
                    return await asyncio.wait_for(call, (cancel + 0.5) * TICK)

                call = bounded()
            data = loop.run_until_complete(call)
            result = ["ok", bytes(data).hex()]
        except asyncio.TimeoutError if cancel is not None else ():
            result = ["cancelled"]
        except Timeout:
            result = ["error", "timeout"]
        except ConnectionRefusedError:
            result = ["error", "oserror"]
        except UnboundLocalError:
            result = ["error", "unbound"]
        except OSError:
            result = ["error", "lost"]
        except Exception as exc:  # noqa: BLE001
            result = ["error", type(exc).__name__]
        elapsed = loop.time()
        for _ in range(3):  # control is back in the event loop
            loop.run_until_complete(asyncio.sleep(0))
        log = loop.log
        return {
            "sends": len(log["sends"]),
            "all_same": all(p == PACKET for _, p in log["sends"]),
            "open": log["open"],
            "opened": log["opened"],
            "elapsed": int(elapsed / TICK) if result == ["cancelled"] else round(elapsed / TICK),
            "result": result,
        }, log
    finally:
        loop.close()


def expected(timeout_ticks, retries, outs):
    """written from the property statement"""
    t, sends = 0, 0
    for i in range(retries):
        o = outs[i] if i < len(outs) else ["none"]
        sends += 1
        events = []
        if o[0] == "reply":
            events = [(o[1], ["ok", o[2]])]
        elif o[0] == "two":
            events = [(o[1], ["ok", o[2]]), (o[3], ["ok", o[4]])]
        elif o[0] == "oserror":
            events = [(o[1], ["error", "oserror"])]
        elif o[0] == "lost" and o[2]:
            events = [(o[1], ["error", "lost"])]
        events = [e for e in events if e[0] < timeout_ticks]
        if events:
            return {"sends": sends, "result": events[0][1], "elapsed": t + events[0][0]}
        t += timeout_ticks
    return {"sends": sends, "result": ["error", "timeout"], "elapsed": t}


def check_case(res, timeout_ticks, retries, outs, reqs, impls):
    obs, log = impl_run(timeout_ticks, retries, outs)
    case = {"timeout_ticks": timeout_ticks, "retries": retries, "outs": outs}
    want = expected(timeout_ticks, retries, outs)
    problems = []
    if obs["sends"] > retries:
        problems.append(f"{obs['sends']} transmissions with retries={retries}")
    if not obs["all_same"]:
        problems.append("a retransmission differs from the request")
    if obs["sends"] != want["sends"]:
        problems.append(f"{obs['sends']} transmissions, expected {want['sends']}")
    if obs["result"] != want["result"]:
        problems.append(f"result {obs['result']} expected {want['result']}")
    elif obs["elapsed"] != want["elapsed"]:
        problems.append(f"call ended after {obs['elapsed']} ticks, expected {want['elapsed']}")
    if obs["open"] != 0:
        problems.append(f"{obs['open']} endpoint(s) still open after the call ended with {obs['result']}")
    for p in problems[:1]:
        res.violate("vt-udp", case, want, obs, p, {"kind": "udp", "what": "socket-left-open" if "still open" in p else "wrong-behaviour", "after": obs["result"][1] if obs["result"][0] == "error" else "ok"})
    for o in outs[:retries]:
        res.count("outcome:" + o[0])
    res.count("result:" + ":".join(obs["result"][:2]) if obs["result"][0] == "error" else "result:ok")
    reqs.append({"op": "udp.run", "packet": PACKET.hex(), "timeout": timeout_ticks, "retries": retries, "outs": outs})
    impls.append((case, obs))


def fd_count():
    return len(os.listdir("/proc/self/fd"))


def loopback(ctx, res):
    """real sockets: a scripted responder on 127.0.0.1 and a closed port (ICMP port unreachable)"""
    from puresnmp.exc import Timeout
    from puresnmp.transport import Endpoint, send_udp

    async def scenario(behaviour, retries, host="127.0.0.1"):
        loop = asyncio.get_running_loop()
        fam = socket.AF_INET6 if ":" in host else socket.AF_INET
        got = []

        class Responder(asyncio.DatagramProtocol):
            def connection_made(self, transport):
                self.transport = transport

            def datagram_received(self, data, addr):
                got.append(bytes(data))
                b = behaviour[min(len(got) - 1, len(behaviour) - 1)]
                if b == "reply":
                    self.transport.sendto(b"R" + data[:8], addr)
                elif b == "empty":
                    self.transport._sock.sendto(b"", addr)  # asyncio's sendto() drops empty payloads
                elif b == "two":
                    self.transport.sendto(b"1" + data[:8], addr)
                    self.transport.sendto(b"2" + data[:8], addr)
                elif b == "late":
                    loop.call_later(0.12, self.transport.sendto, b"L" + data[:8], addr)

        if behaviour == ["closed"]:
            s = socket.socket(fam, socket.SOCK_DGRAM)
            s.bind((host, 0))
            port = s.getsockname()[1]
            s.close()
            server = None
        else:
            server, _ = await loop.create_datagram_endpoint(Responder, local_addr=(host, 0))
            port = server.get_extra_info("sockname")[1]
        await asyncio.sleep(0)
        before = fd_count()
        try:
            if behaviour == ["cancelled"]:
                # the caller gives up first (its own wait_for deadline cancels the call while it waits)
                try:
                    await asyncio.wait_for(send_udp(Endpoint(host, port), PACKET, timeout=0.5, retries=retries), 0.03)
                    result = ["ok", "?"]
                except asyncio.TimeoutError:
                    result = ["error", "cancelled"]
            else:
                data = await send_udp(Endpoint(host, port), PACKET, timeout=0.05, retries=retries)
                result = ["ok", bytes(data)[:1].decode()]
        except Timeout:
            result = ["error", "timeout"]
        except OSError:
            result = ["error", "oserror"]
        except Exception as exc:  # noqa: BLE001 - any other exception is an observation, not a harness failure
            result = ["error", type(exc).__name__]
        await asyncio.sleep(0.2)  # late replies / ICMP arrive, loop runs
        after = fd_count()
        if server:
            server.close()
        return {"result": result, "sends": len(got), "same": all(g == PACKET for g in got), "fd_delta": after - before}

    import logging

    try:
        _s6 = socket.socket(socket.AF_INET6, socket.SOCK_DGRAM)
        _s6.bind(("::1", 0))
        _s6.close()
        hosts = ["127.0.0.1", "::1"]
    except OSError:
        hosts = ["127.0.0.1"]
        res.count("loopback:no-ipv6")
    cases = [(["empty", "reply"], 3), (["reply"], 3), (["none", "reply"], 3), (["none"], 2), (["late", "reply"], 3), (["two"], 2), (["closed"], 3), (["none", "none", "reply"], 3), (["late"], 1), (["cancelled"], 2)]
    # both address families, and with the library's loggers at DEBUG (what is sent and returned must
    # not depend on the log level of the application)
    plan = [(b, r, "127.0.0.1", False) for b, r in cases * ctx.budget(1, 5)]
    plan += [(b, r, h, d) for (b, r) in cases[:4] + cases[6:7] for h in hosts for d in (False, True) if (h, d) != ("127.0.0.1", False)]
    for behaviour, retries, host, debug in plan:
        lg = logging.getLogger("puresnmp")
        old = (lg.level, lg.propagate, logging.root.manager.disable)
        handler = logging.NullHandler()
        if debug:
            logging.disable(logging.NOTSET)
            lg.addHandler(handler)
            lg.setLevel(logging.DEBUG)
            lg.propagate = False
        loop = asyncio.new_event_loop()
        try:
            obs = loop.run_until_complete(scenario(behaviour, retries, host))
        finally:
            loop.close()
            if debug:
                lg.removeHandler(handler)
                lg.setLevel(old[0])
                lg.propagate = old[1]
                logging.disable(old[2])
        res.evaluations += 1
        res.count("loopback:" + "+".join(behaviour))
        res.count(f"loopback-family:{'v6' if ':' in host else 'v4'}:{'debug' if debug else 'quiet'}")
        case = {"loopback": behaviour, "retries": retries, "host": host, "debug_logging": debug}
        if obs["fd_delta"] != 0:
            res.violate("loopback", case, "no descriptor left", obs, f"{obs['fd_delta']} file descriptor(s) left open after the call ended with {obs['result']}", {"kind": "udp", "what": "socket-left-open", "after": obs["result"][1] if obs["result"][0] == "error" else "ok"})
        if behaviour == ["cancelled"]:
            if obs["result"] != ["error", "cancelled"] or obs["sends"] > 1:
                res.violate("loopback", case, ["error", "cancelled"], obs, "a cancelled call did not end as cancelled", {"kind": "udp", "what": "wrong-behaviour", "after": "cancel"})
        elif behaviour != ["closed"]:
            n_unans = 0
            for b in behaviour + [behaviour[-1]] * retries:
                if b in ("reply", "two", "empty"):
                    break
                n_unans += 1
            want = ["error", "timeout"] if n_unans >= retries else ["ok", {"reply": "R", "two": "1", "empty": ""}[(behaviour + [behaviour[-1]] * retries)[n_unans]]]
            if obs["result"] != want or not obs["same"] or obs["sends"] > retries:
                res.violate("loopback", case, want, obs, "loopback run does not behave as the property demands", {"kind": "udp", "what": "wrong-behaviour", "after": "loopback"})
        elif obs["result"][0] == "ok":
            res.violate("loopback", case, "an error", obs, "a closed port produced a result", {"kind": "udp", "what": "wrong-behaviour", "after": "loopback"})


def run(ctx):
    res = Result()
    reqs, impls = [], []
    max_r = ctx.budget(3, 4)
    for timeout_ticks in (4, 24):
        ks = kinds(timeout_ticks)
        for retries in range(1, max_r + 1):
            for seq in itertools.product(ks, repeat=retries):
                check_case(res, timeout_ticks, retries, [list(o) for o in seq], reqs, impls)
    # random delays, longer scripts than the budget, retries up to 6
    for _ in range(ctx.budget(600, 20000)):
        timeout_ticks = ctx.rng.choice([1, 2, 4, 7, 24, 40])
        retries = ctx.rng.randint(1, 6)
        outs = []
        for _ in range(ctx.rng.randint(0, retries + 1)):
            k = ctx.rng.choice(["reply", "none", "two", "oserror", "lost", "reply"])
            d = ctx.rng.choice([x for x in range(0, timeout_ticks * 2 + 3) if x != timeout_ticks])
            d2 = ctx.rng.choice([x for x in range(d, timeout_ticks * 2 + 4) if x != timeout_ticks])
            outs.append({"reply": ["reply", d, ctx.rng.choice(["%02x%02x" % (d, len(outs)), "", "00"])], "none": ["none"], "two": ["two", d, "e1", d2, "e2"], "oserror": ["oserror", d], "lost": ["lost", d, ctx.rng.random() < 0.7]}[k])
        check_case(res, timeout_ticks, retries, outs, reqs, impls)
    # a call abandoned by its caller at every instant of a script (the caller's wait_for deadline):
    # nothing stays open, nothing more is sent, and what was sent is the request
    for _ in range(ctx.budget(400, 8000)):
        timeout_ticks = ctx.rng.choice([2, 4, 7])
        retries = ctx.rng.randint(1, 4)
        outs = []
        for _ in range(ctx.rng.randint(0, retries)):
            k = ctx.rng.choice(["reply", "none", "two", "oserror", "lost", "none"])
            d = ctx.rng.choice([x for x in range(0, timeout_ticks * 2 + 3) if x != timeout_ticks])
            d2 = ctx.rng.choice([x for x in range(d, timeout_ticks * 2 + 4) if x != timeout_ticks])
            outs.append({"reply": ["reply", d, "%02x" % d], "none": ["none"], "two": ["two", d, "e1", d2, "e2"], "oserror": ["oserror", d], "lost": ["lost", d, ctx.rng.random() < 0.7]}[k])
        cancel = ctx.rng.randint(0, timeout_ticks * retries + 1)
        obs, _log = impl_run(timeout_ticks, retries, outs, cancel=cancel)
        case = {"timeout_ticks": timeout_ticks, "retries": retries, "outs": outs, "cancel_after_ticks": cancel}
        res.count("cancel:" + ("cancelled" if obs["result"] == ["cancelled"] else "ended-before"))
        if obs["open"] != 0 or obs["sends"] > retries or not obs["all_same"]:
            res.violate("vt-udp", case, "nothing open, at most `retries` identical transmissions", obs,
                        f"{obs['open']} endpoint(s) still open / {obs['sends']} transmissions after the call was abandoned by its caller",
                        {"kind": "udp", "what": "socket-left-open" if obs["open"] else "wrong-behaviour", "after": "cancel"})
        reqs.append({"op": "udp.run", "packet": PACKET.hex(), "timeout": timeout_ticks, "retries": retries, "outs": outs, "cancel": cancel})
        impls.append((case, obs))
    loopback(ctx, res)
    if ctx.driver_ok:
        for (case, obs), ans in zip(impls, run_driver(reqs)):
            res.case("vt-udp", case)
            if ans.get("ok") != obs:
                res.disagree("vt-udp", case, obs, ans.get("ok", ans))
    else:
        for case, _ in impls:
            res.case("vt-udp", case)
    return res


def replay(ctx, payload):
    c = payload["case"]
    if "loopback" in c:
        print("loopback case: re-run the check")
        return 2
    obs, log = impl_run(c["timeout_ticks"], c["retries"], c["outs"])
    want = expected(c["timeout_ticks"], c["retries"], c["outs"])
    print("observed", obs, "expected", want)
    bad = obs["open"] != 0 or obs["result"] != want["result"] or obs["sends"] != want["sends"] or obs["elapsed"] != want["elapsed"]
    return 1 if bad else 0
