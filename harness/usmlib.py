"""
Shared helpers for the USM suites (C09, C10, C11): building the `usm.incoming` model request for
a received datagram (fields as the independent reader sees them, octets with the digest zeroed,
MAC and decryption oracles computed with harness/indep_usm.py and the keystream of the harness's
privacy plug-in), running the real message-processing model on it, canonical results.
"""
from harness import berlib as BL
from harness import indep_ber as B
from harness import indep_usm as U
from harness import refagent as RA


def creds_json(user, auth, priv):
    """auth / priv: (method, password) | None"""
    return {"user": user.hex(), "auth": auth[1].hex() if auth else None, "priv": priv[1].hex() if priv else None}


def msg_fields(dg):
    """what the independent reader extracts; None if it is not a well-formed v3 message"""
    try:
        m = B.parse_message(dg)
        if m.get("version") != 3:
            return None
        items = B.dec_seq(B.dec_tlv(dg)[1])
        dtag, data = items[3]
        return m, {
            "msg_id": m["msg_id"], "max_size": m["max_size"], "flags": m["flags"], "sec_model": m["security_model"],
            "engine_id": bytes(m["engine_id"]).hex(), "boots": m["boots"], "time": m["time"], "user": bytes(m["user"]).hex(),
            "auth": bytes(m["auth_params"]).hex(), "priv": bytes(m["priv_params"]).hex(), "data_tag": dtag, "data": bytes(data).hex(),
        }  # fmt: skip
    except Exception:  # noqa: BLE001
        return None


def incoming_request(dg, user, auth, priv):
    """model request for `process_incoming_message` on datagram dg with the given credentials"""
    import puresnmp_plugins.priv.verifstream as VS

    got = msg_fields(dg)
    if got is None:
        return None
    m, fields = got
    off = m["auth_params_offset"]
    zeroed = None
    if off and off[1] - off[0] == 12:
        zeroed = dg[: off[0]] + b"\x00" * 12 + dg[off[1] :]
    # the model derives the MAC input from the datagram itself (reset_raw_digest over the x690 mirror);
    # `mac_input` ties the MAC oracle below to the octets it was computed over
    req = {"op": "usm.incoming", "creds": creds_json(user, auth, priv), "msg": fields, "datagram": bytes(dg).hex(), "mac_input": zeroed.hex() if zeroed is not None else None}
    eid = bytes(m["engine_id"])
    if auth and zeroed is not None:
        req["mac"] = U.hmac96(auth[0], U.localise(auth[0], auth[1], eid), zeroed).hex()
    if priv and auth and "ciphertext" in m:
        key = U.localise(auth[0], priv[1], eid)
        ks = VS.keystream(key, eid, m["boots"], m["time"], bytes(m["priv_params"]), len(m["ciphertext"]))
        req["dec"] = bytes(a ^ b for a, b in zip(m["ciphertext"], ks)).hex()
    return req


def real_incoming(dg, creds, seconds=1.0):
    """run the real SNMPv3 message-processing model on a datagram; canonical outcome"""
    from puresnmp.plugins import mpm

    async def handler(data):  # never used: no discovery on the decode path
        raise AssertionError("unexpected transport use")

    def go():
        model = mpm.create(3, handler, {})
        pdu = model.decode(dg, creds)
        raw = bytes(pdu)
        tag, c, _ = B.dec_tlv(raw)
        p = B.dec_pdu(tag, c)
        return {"tag": tag, "rid": p["request_id"], "a": p["a"], "b": p["b"], "vbs": [[list(o), v] for o, v in p["varbinds"]]}

    r = BL.guarded(go, seconds)
    if r[0] == "ok":
        return ["ok", r[1]]
    if r[0] == "hang":
        return ["hang"]
    return ["error", r[1]]


ERR_CLASS = {
    "unknownUser": "UnknownUser", "authError": "AuthenticationError", "decryptError": "DecryptionError",
    "unsupportedLevel": "UnsupportedSecurityLevel", "snmpError": "SnmpError",
}  # fmt: skip


def canon_model_incoming(ans):
    if "ok" not in ans:
        return ans
    r = ans["ok"]
    if r[0] == "ok":
        return ["ok", r[1]["pdu"]]
    kind = r[1][0]
    return ["error", ERR_CLASS.get(kind, "other")]


def canon_real_incoming(r):
    if r[0] == "error":
        return ["error", r[1] if r[1] in ERR_CLASS.values() else "other"]
    return r


def make_creds(user, auth, priv):
    from puresnmp.credentials import V3, Auth, Priv

    return V3(user.decode(), Auth(auth[1], auth[0]) if auth else None, Priv(priv[1], priv[0]) if priv else None)


def authentic_response(agent, request_dg):
    return agent.respond(request_dg)


def rebuild(m, **over):
    """re-encode a parsed v3 message with some fields replaced (msg_data: raw TLV of the payload)"""
    f = dict(
        msg_id=m["msg_id"], max_size=m["max_size"], flags=m["flags"], engine_id=bytes(m["engine_id"]), boots=m["boots"], time_=m["time"],
        user=bytes(m["user"]), auth_params=bytes(m["auth_params"]), priv_params=bytes(m["priv_params"]),
    )  # fmt: skip
    f.update({k: v for k, v in over.items() if k != "msg_data"})
    return B.enc_v3_message(f["msg_id"], f["max_size"], f["flags"], f["engine_id"], f["boots"], f["time_"], f["user"], f["auth_params"], f["priv_params"], over["msg_data"])


def payload_tlv(dg):
    items = B.dec_seq(B.dec_tlv(dg)[1])
    t, c = items[3]
    return B.tlv(t, c)


def resign(dg, method, password):
    m = B.parse_message(dg)
    off = m["auth_params_offset"]
    if off[1] - off[0] != 12:
        return dg
    d = U.sign(method, password, bytes(m["engine_id"]), dg, off)
    return dg[: off[0]] + d + dg[off[1] :]


__all__ = ["RA"]
