"""
Shared machinery of the verification harness: context, results, driver access,
known findings, replay and evidence files.  Run with /venv/bin/python; sys.path[0] is the
repository's src directory (set by ./check).
"""
import hashlib
import json
import os
import random
import subprocess
import sys
import time

VERIF = os.path.dirname(os.path.dirname(os.path.abspath(__file__)))
LEAN = os.path.join(VERIF, "lean")
DRIVER = os.path.join(LEAN, ".lake", "build", "bin", "snmpdriver")
REPO = os.environ.get("VERIF_REPO", "/repo")

TRUSTED_BASE = [
    "Lean 4.33.0 kernel; axioms allowed in property theorems: propext, Classical.choice, Quot.sound",
    "statements in lean/Snmp/Props and the spec-side definitions they mention",
    "tools/extract.py (reflection + mini translator) and this correspondence harness",
    "CPython, asyncio and the x690 package are modelled, not verified (validated by correspondence only)",
]


class Ctx:
    def __init__(self, prop, tier, seed):
        self.prop = prop
        self.tier = tier
        self.seed = seed
        self.rng = random.Random(seed * 1000003 + int(prop[1:]))
        self.quick = tier == "quick"
        self.t0 = time.time()
        self.driver_ok = True
        self.broken = []  # broken obligations / ties (names)

    def budget(self, quick, thorough):
        return quick if self.quick else thorough


class Result:
    def __init__(self):
        self.evaluations = 0
        self.nontrivial = set()
        self.samples = []
        self.dist = {}
        self.disagreements = []  # model vs implementation
        self.violations = []  # implementation vs property oracle
        self.suites = {}
        self.notes = []

    def count(self, key, n=1):
        self.dist[key] = self.dist.get(key, 0) + n

    def case(self, suite, case, nontrivial=True):
        self.evaluations += 1
        self.suites[suite] = self.suites.get(suite, 0) + 1
        if nontrivial:
            self.nontrivial.add(hashlib.sha1(json.dumps([suite, case], sort_keys=True, default=str).encode()).hexdigest())
        if len(self.samples) < 12 and (self.suites[suite] in (1, 7, 50)):
            self.samples.append({"suite": suite, "case": clip(case)})

    def disagree(self, suite, case, impl, model):
        self.disagreements.append({"suite": suite, "case": case, "impl": impl, "model": model})

    def violate(self, suite, case, expected, observed, what, signature=None):
        self.violations.append(
            {
                "suite": suite,
                "case": case,
                "expected": expected,
                "observed": observed,
                "what": what,
                "signature": signature or {},
            }
        )


def clip(obj, limit=400):
    s = json.dumps(obj, default=str)
    if len(s) <= limit:
        return obj
    return s[:limit] + "…"


# --------------------------------------------------------------------------------------
# Lean driver (line protocol)
# --------------------------------------------------------------------------------------
class DriverError(Exception):
    pass


def run_driver(requests, timeout=600):
    """Send a batch of JSON requests to the compiled model driver, return parsed answers."""
    if not requests:
        return []
    if not os.path.exists(DRIVER):
        raise DriverError("driver binary missing")
    payload = "\n".join(json.dumps(r, separators=(",", ":")) for r in requests) + "\n"
    try:
        proc = subprocess.run([DRIVER], input=payload.encode(), capture_output=True, timeout=timeout)
    except subprocess.TimeoutExpired as exc:
        raise DriverError("driver timed out") from exc
    if proc.returncode != 0:
        raise DriverError(f"driver exit {proc.returncode}: {proc.stderr[-300:]!r}")
    lines = proc.stdout.decode().splitlines()
    if len(lines) != len(requests):
        raise DriverError(f"driver answered {len(lines)} lines for {len(requests)} requests")
    out = []
    for line in lines:
        try:
            out.append(json.loads(line))
        except ValueError:
            out.append({"error": "unparsable", "raw": line[:200]})
    return out


def hexs(b):
    return bytes(b).hex()


def unhex(s):
    return bytes.fromhex(s)


# --------------------------------------------------------------------------------------
# known findings
# --------------------------------------------------------------------------------------
def load_known():
    path = os.path.join(VERIF, "known_findings.json")
    if not os.path.exists(path):
        return []
    with open(path) as fh:
        return json.load(fh)["findings"]


def match_known(prop, signature, known):
    for entry in known:
        if prop not in entry.get("properties", [entry.get("property")]) or entry.get("status") != "open":
            continue
        m = entry.get("match", {})
        if m and all(signature.get(k) == v for k, v in m.items()):
            return entry
    return None


def write_replay(prop, kind, payload, seed):
    os.makedirs(os.path.join(VERIF, "replays"), exist_ok=True)
    n = 0
    while True:
        name = f"{prop}-{kind}-{seed}-{int(time.time())}-{os.getpid()}-{n}.json"
        path = os.path.join(VERIF, "replays", name)
        if not os.path.exists(path):
            break
        n += 1
    with open(path, "w") as fh:
        json.dump({"property": prop, "kind": kind, "seed": seed, **payload}, fh, indent=1, default=str)
    return path


def write_evidence(ctx, res, obligations, discharged, extra_cov=None, violations=0, assumptions=None, checker_cmd=""):
    os.makedirs(os.path.join(VERIF, "evidence"), exist_ok=True)
    cov = {
        "obligations": len(obligations),
        "discharged": len(discharged),
        "checker_cmd": checker_cmd,
        "trusted_base": TRUSTED_BASE,
        "theorems": obligations,
        "theorems_not_discharged": [t for t in obligations if t not in discharged],
        "evaluations": res.evaluations,
        "distinct_nontrivial": len(res.nontrivial),
        "rule": "correspondence cases: generated inputs executed on the real implementation and on the Lean model driver; "
        "a case is non-trivial when it reaches the modelled function with a well-formed or deliberately malformed input "
        "(see suite docstrings); distinct = distinct canonical input (SHA-1 of the JSON case)",
        "programs": max(1, len(res.suites)),
        "suites": res.suites,
        "disagreements_checked": len(res.disagreements),
        "samples": res.samples or [{"note": "no correspondence cases in this run"}],
        "input_distribution": dict(sorted(res.dist.items())),
        "broken_obligations": ctx.broken,
        "notes": res.notes,
    }
    if extra_cov:
        cov.update(extra_cov)
    ev = {
        "property_id": ctx.prop,
        "tier": ctx.tier,
        "seed": ctx.seed,
        "level": "proof",
        "coverage": cov,
        "assumptions": assumptions or [],
        "wall_s": round(time.time() - ctx.t0, 2),
        "violations": violations,
    }
    path = os.path.join(VERIF, "evidence", f"{ctx.prop}.json")
    tmp = path + f".tmp{os.getpid()}"
    with open(tmp, "w") as fh:
        json.dump(ev, fh, indent=1, default=str)
    os.replace(tmp, path)
    return path
