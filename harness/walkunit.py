"""
Unit-level correspondence for the helpers the walk theorems rest on: `util.group_varbinds`,
`util.get_unfinished_walk_oids` and `api.raw.deduped_varbinds` are called directly on random —
also non-conformant — inputs (repeated requested OIDs, overlapping user roots, bindings outside
every root, empty groups, responses longer / shorter than whole repetitions) and compared with the
Lean definitions `Walk.groupVarbinds`, `Walk.unfinished`, `Walk.deduped` (driver ops `walk.*`).
"""
from harness.common import run_driver


def _oid(rng, base=(1, 3)):
    return list(base) + [rng.randint(1, 3) for _ in range(rng.randint(1, 3))]


def _val(oid):
    return ["int", sum(oid) % 97]  # the value is a function of the OID (see C03's assumption)


def _canon_exc(exc):
    return ["other", type(exc).__name__]


def cases(rng, n):
    out = []
    for i in range(n):
        kind = ("group", "unfinished", "deduped")[i % 3]
        if kind == "group":
            k = rng.randint(1, 4)
            eff = [_oid(rng) for _ in range(k)]
            if rng.random() < 0.15:
                eff[-1] = eff[0]  # a repeated requested OID: the dict keeps one key
            vbs = [_oid(rng) for _ in range(rng.choice([0, 1, k - 1, k, k + 1, 2 * k, 2 * k + 1, 3 * k]))]
            style = rng.random()
            if style < 0.3:
                user = []
            elif style < 0.85:
                # the usual situation: pairwise disjoint user roots, one requested OID below each
                user = [[1, 3, a] for a in rng.sample(range(1, 9), k)]
                eff = [u + [rng.randint(1, 3) for _ in range(rng.randint(0, 2))] for u in user]
                vbs = [rng.choice(user) + [rng.randint(1, 3)] if rng.random() < 0.8 else _oid(rng) for _ in vbs]
            elif style < 0.93:
                user = [e[: rng.randint(2, len(e))] for e in eff]  # prefixes, possibly nested
            else:
                user = [_oid(rng)[: rng.randint(2, 4)] for _ in range(rng.randint(1, 3))]
            out.append((kind, {"eff": eff, "vbs": vbs, "user": user}))
        elif kind == "unfinished":
            roots = []
            for _ in range(rng.randint(0, 4)):
                r = _oid(rng)[: rng.randint(2, 4)]
                if r not in roots:
                    roots.append(r)
            groups = []
            for r in roots:
                m = rng.choice([0, 1, 1, 2, 3])
                g = [(r + [rng.randint(1, 3)] if rng.random() < 0.7 else _oid(rng)) for _ in range(m)]
                groups.append([r, g])
            out.append((kind, {"groups": groups}))
        else:
            roots = [_oid(rng)[: rng.randint(2, 3)] for _ in range(rng.randint(1, 3))]
            keys, groups = [], []
            for _ in range(rng.randint(0, 4)):
                r = _oid(rng)[: rng.randint(2, 4)]
                if r in keys:
                    continue
                keys.append(r)
                groups.append([r, [_oid(rng) for _ in range(rng.choice([0, 1, 2, 3]))]])
            pool = [o for _r, g in groups for o in g]
            yielded = [o for o in pool if rng.random() < 0.3]
            yielded = [list(t) for t in dict.fromkeys(map(tuple, yielded))]
            out.append((kind, {"roots": roots, "groups": groups, "yielded": yielded}))
    return out


def impl(kind, c):
    from x690.types import Integer, ObjectIdentifier

    from puresnmp.api.raw import deduped_varbinds
    from puresnmp.util import get_unfinished_walk_oids, group_varbinds
    from puresnmp.varbind import VarBind

    def O(o):
        return ObjectIdentifier(".".join(map(str, o)))

    def VB(o):
        return VarBind(O(o), Integer(_val(o)[1]))

    def vb_out(vb):
        o = [int(x) for x in str(vb.oid).split(".")]
        return [o, ["int", vb.value.value]]

    def oid_out(o):
        return [int(x) for x in str(o).split(".")]

    try:
        if kind == "group":
            r = group_varbinds([VB(o) for o in c["vbs"]], [O(o) for o in c["eff"]], [O(o) for o in c["user"]] or None)
            return [[oid_out(k), [vb_out(v) for v in vs]] for k, vs in r.items()]
        if kind == "unfinished":
            r = get_unfinished_walk_oids({O(k): [VB(o) for o in g] for k, g in c["groups"]})
            return [[oid_out(k), vb_out(row.value)] for k, row in r]
        yielded = {O(o) for o in c["yielded"]}
        ys = list(deduped_varbinds([O(o) for o in c["roots"]], {O(k): [VB(o) for o in g] for k, g in c["groups"]}, yielded))
        return {"yields": [vb_out(v) for v in ys], "yielded": sorted(oid_out(o) for o in yielded)}
    except Exception as exc:  # noqa: BLE001 - every exception is an observation
        return _canon_exc(exc)


def request(kind, c):
    vbs = lambda g: [[o, _val(o)] for o in g]  # noqa: E731
    if kind == "group":
        return {"op": "walk.group", "vbs": vbs(c["vbs"]), "eff": c["eff"], "user": c["user"]}
    if kind == "unfinished":
        return {"op": "walk.unfinished", "groups": [[k, vbs(g)] for k, g in c["groups"]]}
    return {"op": "walk.deduped", "roots": c["roots"], "groups": [[k, vbs(g)] for k, g in c["groups"]], "yielded": c["yielded"]}


def canon_model(kind, ans):
    if "ok" not in ans:
        return ans
    m = ans["ok"]
    if kind == "deduped" and isinstance(m, dict):
        return {"yields": m["yields"], "yielded": sorted(m["yielded"])}
    return m


def run(ctx, res, n):
    cs = cases(ctx.rng, n)
    got = [impl(k, c) for k, c in cs]
    if not ctx.driver_ok:
        for k, c in cs:
            res.case("unit-walk", {"fn": k, **c})
        return
    for (k, c), g, ans in zip(cs, got, run_driver([request(k, c) for k, c in cs])):
        res.case("unit-walk", {"fn": k, **c})
        res.count(f"unit-walk:{k}")
        if isinstance(g, list) and g[:1] == ["other"]:
            res.count(f"unit-walk:{k}:error")
        m = canon_model(k, ans)
        if m != g:
            res.disagree("unit-walk", {"fn": k, **c}, g, m)
