"""
Reference SNMP agent (v1 / v2c / v3-USM) for the end-to-end correspondence suites.
Independent of puresnmp and x690: it parses requests and builds responses with
harness/indep_ber.py and harness/indep_usm.py only.  It is plugged into the real client
through the documented seam  Client(ip, credentials, sender=agent).

Behaviours:
 * conformant agent over a database (sorted instance list): get / getnext / getbulk / set,
   with a GETBULK truncation policy;
 * scripted ("adversarial") agent: a finite table  oid -> next oid | None  (None = endOfMibView)
   optionally indexed by the repetition number, for the termination property;
 * fault hooks that rewrite the response fields (request-id, error-status/index, bindings,
   community, version) or the final datagram (man in the middle);
 * SNMPv3: engine discovery, USM authentication (HMAC-MD5/SHA-96), privacy through the
   harness's keyed stream plug-in, time window of 150 s on a virtual clock, Reports.
"""
import bisect

from harness import indep_ber as B
from harness import indep_usm as U

EOM = ["endOfMibView"]
USM_STATS = {
    "unsupportedSecLevel": [1, 3, 6, 1, 6, 3, 15, 1, 1, 1, 0],
    "notInTimeWindow": [1, 3, 6, 1, 6, 3, 15, 1, 1, 2, 0],
    "unknownUserName": [1, 3, 6, 1, 6, 3, 15, 1, 1, 3, 0],
    "unknownEngineID": [1, 3, 6, 1, 6, 3, 15, 1, 1, 4, 0],
    "wrongDigest": [1, 3, 6, 1, 6, 3, 15, 1, 1, 5, 0],
    "decryptionError": [1, 3, 6, 1, 6, 3, 15, 1, 1, 6, 0],
}


class AgentStop(Exception):
    """Raised by the agent when a run exceeds its request budget (non-termination witness)."""


class V3Config:
    def __init__(self, engine_id=b"\x80\x00\x1f\x88\x80agent-1", boots=3, clock=None, users=None):
        self.engine_id = engine_id
        self.boots = boots
        self.clock = clock or (lambda: 1000)
        # name(bytes) -> dict(auth=(method, password) | None, priv=(method, password) | None)
        self.users = users or {}
        self.window = 150


class Agent:
    def __init__(self, db=None, table=None, bulk_policy=None, v3=None, budget=None, hook=None, mitm=None, form="min", volatile=False):
        self.db = sorted((tuple(o), v) for o, v in (db or []))
        # volatile: every object is a counter the agent evaluates once per binding (two bindings of one
        # response naming the same instance carry different values) — still a conformant agent
        self.volatile = volatile
        self._ticks = 1000
        self.table = table  # adversarial: {oid_tuple or (oid_tuple, k): oid_tuple | None}
        self.bulk_policy = bulk_policy or {}
        self.v3 = v3
        self.budget = budget
        self.hook = hook
        self.mitm = mitm
        self.form = form
        self.log = []  # parsed requests
        self.raw_log = []  # (request datagram, response datagram)
        self.resp_log = []  # response fields as sent (after fault hooks), one per answered request
        self.kwargs_log = []
        self.value_of = dict(self.db)
        self._keys = [o for o, _ in self.db]

    # ------------------------------------------------------------------ semantics
    def _val_for(self, oid):
        # adversarial agents return a value that is a function of the OID only
        return self.value_of.get(tuple(oid), ["int", sum(oid) % 1000])

    def getnext(self, oid, k=0):
        oid = tuple(oid)
        if self.table is not None:
            nxt = self.table.get((oid, k), self.table.get(oid, None)) if ((oid, k) in self.table or oid in self.table) else None
            if nxt is None:
                return (list(oid), EOM)
            return (list(nxt), self._val_for(nxt))
        i = bisect.bisect_right(self._keys, oid)
        if i < len(self.db):
            o, v = self.db[i]
            if self.volatile:
                self._ticks += 1
                v = ["counter32", self._ticks]
            return (list(o), v)
        return (list(oid), EOM)

    def get(self, oid):
        v = self.value_of.get(tuple(oid))
        if v is None:
            # noSuchInstance when a sibling instance of the same object exists, else noSuchObject
            parent = tuple(oid)[:-1]
            if any(o[: len(parent)] == parent for o, _ in self.db) and parent:
                return (list(oid), ["noSuchInstance"])
            return (list(oid), ["noSuchObject"])
        return (list(oid), v)

    def getbulk(self, oids, non_repeaters, max_repetitions):
        starve = self.bulk_policy.get("starve") if self.bulk_policy else None
        if starve is not None and oids and not list(oids[0]) < list(starve):
            return []  # nothing left to say (e.g. to a completion request)
        n = max(0, min(non_repeaters, len(oids)))
        out = [self.getnext(o) for o in oids[:n]]
        cur = [list(o) for o in oids[n:]]
        rows = []
        pol = self.bulk_policy
        max_rows = max(0, max_repetitions)
        if pol.get("rows") is not None:
            max_rows = min(max_rows, max(1, pol["rows"]))
        if cur:
            for k in range(max_rows):
                row = [self.getnext(o, k) for o in cur]
                rows.append(row)
                cur = [r[0] for r in row]
                if pol.get("stop_after_eom_row", True) and all(r[1] == EOM for r in row):
                    break
        flat = [vb for row in rows for vb in row]
        cut = pol.get("cut", 0)
        if cut and pol.get("deep") and flat:
            # RFC 3416 4.2.3: trailing bindings removed to fit the message size; the number removed
            # "has no relationship to N, M or R" — it may reach into the first repetition; at least
            # one binding is kept
            flat = flat[: max(1, len(flat) - cut)]
        elif cut and len(rows) > 1:
            # a partial last row: drop up to `cut` trailing bindings, never into the first row
            keep = max(len(rows[0]), len(flat) - cut)
            flat = flat[:keep]
        if pol.get("maxvb"):
            # a message-size limit: at most `maxvb` bindings per response (at least one), whatever
            # was asked for — the answers to completion requests are cut in the same way
            return (out + flat)[: max(1, pol["maxvb"])]
        return out + flat

    def answer_pdu(self, pdu):
        t = pdu["type"]
        oids = [o for o, _ in pdu["varbinds"]]
        if t == "get":
            vbs = [self.get(o) for o in oids]
        elif t == "getnext":
            vbs = [self.getnext(o) for o in oids]
        elif t == "getbulk":
            vbs = self.getbulk(oids, pdu["a"], pdu["b"])
        elif t == "set":
            vbs = [(o, v) for o, v in pdu["varbinds"]]
            for o, v in vbs:
                self.value_of[tuple(o)] = v
        else:
            vbs = []
        return {"tag": 0xA2, "request_id": pdu["request_id"], "a": 0, "b": 0, "varbinds": vbs}

    # ------------------------------------------------------------------ transport seam
    async def __call__(self, endpoint, data, timeout=1, retries=1, **kw):
        self.kwargs_log.append({"timeout": timeout, "retries": retries})
        if self.budget is not None and len(self.log) >= self.budget:
            raise AgentStop(f"request budget {self.budget} exceeded")
        resp = self.respond(bytes(data))
        if resp is None:
            from puresnmp.exc import Timeout

            self.raw_log.append((bytes(data), b""))
            raise Timeout("no reply (message discarded without a report)")
        if self.mitm:
            resp = self.mitm(self, bytes(data), resp)
        self.raw_log.append((bytes(data), resp))
        return resp

    def respond(self, data):
        msg = B.parse_message(data)
        if msg["version"] in (0, 1):
            self.log.append({"version": msg["version"], "community": msg["community"], **msg["pdu"]})
            r = self.answer_pdu(msg["pdu"])
            out = {"version": msg["version"], "community": msg["community"], **r}
            if getattr(self, "v1_strict", False) and msg["version"] == 0:
                # RFC 1157 4.1.3: an SNMPv1 agent has no exception values — the first binding it cannot
                # serve makes the whole response noSuchName(2) with its index, the bindings echoed
                for k, (_o, v) in enumerate(out["varbinds"]):
                    if v in (EOM, ["noSuchObject"], ["noSuchInstance"]):
                        out["a"], out["b"], out["varbinds"] = 2, k + 1, list(msg["pdu"]["varbinds"])
                        break
            if self.hook:
                out = self.hook(self, msg, out) or out
            self.resp_log.append(out)
            pdu = B.enc_pdu(out["tag"], out["request_id"], out["a"], out["b"], out["varbinds"], self.form)
            return B.enc_community_msg(out["version"], out["community"], pdu, self.form)
        return self.respond_v3(data, msg)

    # ------------------------------------------------------------------ v3
    def _report(self, msg, stat, flags=0, user=b"", auth_user=None):
        v3 = self.v3
        if not msg["flags"] & 4:
            # RFC 3412 7.1 (3b): no Report-PDU for a message whose reportableFlag is clear — it is
            # discarded silently and the sender runs into its timeout
            return None
        pdu_rid = 0
        if "scoped" in msg:
            pdu_rid = msg["scoped"]["pdu"]["request_id"]
        pdu = B.enc_pdu(0xA8, pdu_rid, 0, 0, [(USM_STATS[stat], ["counter32", 1])], self.form)
        scoped = B.enc_scoped(v3.engine_id, b"", pdu, self.form)
        if auth_user is not None and v3.users[auth_user].get("encrypt_reports") and v3.users[auth_user].get("priv"):
            # an engine that answers at the level of the request: authenticated AND encrypted report
            out = {"msg_id": msg["msg_id"], "flags": 3, "user": auth_user, "context_engine_id": v3.engine_id, "context_name": b"",
                   "tag": 0xA8, "request_id": pdu_rid, "a": 0, "b": 0, "varbinds": [(USM_STATS[stat], ["counter32", 1])]}
            return self.build_v3_response(out, v3.users[auth_user])
        if auth_user is not None:
            auth = v3.users[auth_user]["auth"]
            dg = B.enc_v3_message(msg["msg_id"], 65507, 1, v3.engine_id, v3.boots, v3.clock(), auth_user, b"\x00" * 12, b"", scoped, self.form)
            off = B.parse_message(dg)["auth_params_offset"]
            digest = U.sign(auth[0], auth[1], v3.engine_id, dg, off)
            return dg[: off[0]] + digest + dg[off[1] :]
        return B.enc_v3_message(msg["msg_id"], 65507, flags, v3.engine_id, v3.boots, v3.clock(), user, b"", b"", scoped, self.form)

    def respond_v3(self, data, msg):
        import puresnmp_plugins.priv.verifstream as VS  # keystream shared with the plug-in

        v3 = self.v3
        entry = {"version": 3, **{k: msg[k] for k in ("msg_id", "flags", "engine_id", "boots", "time", "user", "auth_params", "priv_params", "security_model", "max_size")}}
        entry["datagram"] = data
        flags = msg["flags"]
        if msg["engine_id"] != v3.engine_id:
            entry["kind"] = "discovery" if msg["engine_id"] == b"" else "unknown-engine"
            if "scoped" in msg:
                entry.update(msg["scoped"]["pdu"])
            self.log.append(entry)
            out = self._report(msg, "unknownEngineID")
            if self.hook:
                out = self.hook(self, msg, out) or out
            return out
        if getattr(self, "hook_v3", None):
            forced = self.hook_v3(self, msg, None)
            if forced is not None:
                entry["kind"] = "forced-report"
                self.log.append(entry)
                return forced
        user = v3.users.get(msg["user"])
        if user is None:
            entry["kind"] = "unknown-user"
            self.log.append(entry)
            return self._report(msg, "unknownUserName")
        want_flags = (1 if user["auth"] else 0) | (2 if user["priv"] else 0)
        if (flags & 3) != want_flags:
            entry["kind"] = "bad-level"
            self.log.append(entry)
            return self._report(msg, "unsupportedSecLevel")
        if user["auth"]:
            if not U.verify(user["auth"][0], user["auth"][1], v3.engine_id, data, msg["auth_params_offset"]):
                entry["kind"] = "wrong-digest"
                self.log.append(entry)
                return self._report(msg, "wrongDigest")
            now = v3.clock()
            if msg["boots"] != v3.boots or abs(now - msg["time"]) > v3.window:
                entry["kind"] = "not-in-time-window"
                self.log.append(entry)
                return self._report(msg, "notInTimeWindow", auth_user=msg["user"])
        if user["priv"]:
            key = U.localise(user["auth"][0], user["priv"][1], v3.engine_id)
            ks = VS.keystream(key, v3.engine_id, msg["boots"], msg["time"], msg["priv_params"], len(msg["ciphertext"]))
            plain = bytes(a ^ b for a, b in zip(msg["ciphertext"], ks))
            try:
                scoped = B.dec_scoped_tlv(plain)
            except B.BerError:
                entry["kind"] = "decrypt-error"
                self.log.append(entry)
                return self._report(msg, "decryptionError")
            entry["decrypted_scoped"] = plain
        else:
            if "scoped" not in msg:
                entry["kind"] = "bad-level"
                self.log.append(entry)
                return self._report(msg, "unsupportedSecLevel")
            scoped = msg["scoped"]
        entry["kind"] = "request"
        entry["context_engine_id"] = scoped["context_engine_id"]
        entry["context_name"] = scoped["context_name"]
        entry.update(scoped["pdu"])
        self.log.append(entry)
        r = self.answer_pdu(scoped["pdu"])
        out = {"version": 3, "msg_id": msg["msg_id"], "flags": want_flags, "user": msg["user"], "context_engine_id": scoped["context_engine_id"], "context_name": scoped["context_name"], **r}
        if self.hook:
            out = self.hook(self, msg, out) or out
        self.resp_log.append(out)
        return self.build_v3_response(out, user)

    def build_v3_response(self, out, user, boots=None, time_=None):
        import puresnmp_plugins.priv.verifstream as VS

        v3 = self.v3
        boots = v3.boots if boots is None else boots
        time_ = v3.clock() if time_ is None else time_
        pdu = B.enc_pdu(out["tag"], out["request_id"], out["a"], out["b"], out["varbinds"], self.form)
        scoped = B.enc_scoped(out["context_engine_id"], out["context_name"], pdu, self.form)
        flags = out["flags"]
        priv_params = b""
        msg_data = scoped
        if flags & 2:
            key = U.localise(user["auth"][0], user["priv"][1], v3.engine_id)
            self._salt = getattr(self, "_salt", 0) + 1
            priv_params = b"AG" + self._salt.to_bytes(6, "big")
            if user.get("pad"):
                # block ciphers (DES, RFC 3414 8.1.1.2) pad the scoped PDU to a multiple of the block
                # size; the receiver has to ignore the octets behind the scoped PDU
                scoped = scoped + bytes((7 * k + 3) % 256 for k in range((-len(scoped)) % user["pad"] or user["pad"]))
            ks = VS.keystream(key, v3.engine_id, boots, time_, priv_params, len(scoped))
            msg_data = B.tlv(4, bytes(a ^ b for a, b in zip(scoped, ks)), self.form)
        auth_params = b"\x00" * 12 if flags & 1 else b""
        dg = B.enc_v3_message(out["msg_id"], 65507, flags, v3.engine_id, boots, time_, out["user"], auth_params, priv_params, msg_data, self.form)
        if flags & 1:
            off = B.parse_message(dg)["auth_params_offset"]
            digest = U.sign(user["auth"][0], user["auth"][1], v3.engine_id, dg, off)
            dg = dg[: off[0]] + digest + dg[off[1] :]
        return dg


# ---------------------------------------------------------------------- canonicalisation
def canon_value(v):
    """x690 / puresnmp value object -> canonical JSON form"""
    from ipaddress import IPv4Address

    from x690 import types as XT

    import puresnmp.pdu as P
    import puresnmp.types as T

    cls = type(v)
    if cls is XT.Integer:
        return ["int", v.value]
    if cls is XT.OctetString:
        return ["str", bytes(v.value).hex()]
    if cls is XT.Null:
        return ["null"]
    if cls is XT.ObjectIdentifier:
        return ["oid", list(v.nodes)]
    if cls is T.IpAddress:
        val = v.value
        return ["ip", int(val).to_bytes(4, "big").hex() if isinstance(val, IPv4Address) else repr(val)]
    if cls is T.Counter:
        return ["counter32", v.value]
    if cls is T.Gauge:
        return ["gauge32", v.value]
    if cls is T.TimeTicks:
        return ["ticks", v.value]
    if cls is T.Opaque:
        return ["opaque", bytes(v.value).hex()]
    if cls is T.NsapAddress:
        return ["nsap", v.value]
    if cls is T.Counter64:
        return ["counter64", v.value]
    if cls is P.NoSuchObject:
        return ["noSuchObject"]
    if cls is P.NoSuchInstance:
        return ["noSuchInstance"]
    if cls is P.EndOfMibView:
        return ["endOfMibView"]
    if cls is XT.UnknownType:
        return ["unknown", v.tag, bytes(v.value).hex()]
    return ["leak", cls.__name__]


def make_value(c):
    """canonical form -> puresnmp/x690 value object (for SET requests)"""
    from ipaddress import IPv4Address

    from x690 import types as XT

    import puresnmp.types as T

    k = c[0]
    if k == "int":
        return XT.Integer(c[1])
    if k == "str":
        return XT.OctetString(bytes.fromhex(c[1]))
    if k == "null":
        return XT.Null()
    if k == "oid":
        return XT.ObjectIdentifier(".".join(str(x) for x in c[1]))
    if k == "ip":
        return T.IpAddress(IPv4Address(bytes.fromhex(c[1])))
    if k == "counter32":
        return T.Counter(c[1])
    if k == "gauge32":
        return T.Gauge(c[1])
    if k == "ticks":
        return T.TimeTicks(c[1])
    if k == "opaque":
        return T.Opaque(bytes.fromhex(c[1]))
    if k == "counter64":
        return T.Counter64(c[1])
    raise ValueError(k)


def canon_exc(exc):
    """Map an exception to the small enum the model uses."""
    import puresnmp.exc as E

    name = type(exc).__name__
    if isinstance(exc, AgentStop):
        return ["agent-stop"]
    if isinstance(exc, E.ErrorResponse):
        return ["errorResponse", exc.error_status, name, list(exc.offending_oid.nodes) if hasattr(exc.offending_oid, "nodes") else repr(exc.offending_oid)]
    if isinstance(exc, E.NoSuchOID):
        return ["noSuchOID"]
    if isinstance(exc, E.FaultySNMPImplementation):
        return ["faulty"]
    if isinstance(exc, E.InvalidResponseId):
        return ["invalidResponseId"]
    if isinstance(exc, E.Timeout):
        return ["timeout"]
    try:
        from puresnmp_plugins.security import usm

        if isinstance(exc, usm.AuthenticationError):
            return ["authError"]
        if isinstance(exc, usm.UnknownUser):
            return ["unknownUser"]
        if isinstance(exc, usm.DecryptionError):
            return ["decryptError"]
        if isinstance(exc, usm.UnsupportedSecurityLevel):
            return ["unsupportedLevel"]
    except ImportError:
        pass
    if isinstance(exc, E.SnmpError):
        return ["snmpError"]
    if isinstance(exc, TypeError):
        return ["typeError"]
    return ["other", name]


def OID(nodes):
    from x690.types import ObjectIdentifier

    return ObjectIdentifier(".".join(str(n) for n in nodes))
