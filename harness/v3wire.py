"""
From the octets to the result: the real `V3MPM.decode(datagram, credentials)` against
`Snmp.V3Glue.incoming` (driver op `usm.incoming.wire`), which reads the datagram itself —
`Message.decode` / `from_sequence`, `USMSecurityParameters.decode`, `reset_raw_digest`, then
`processIncoming` — instead of being handed the fields by the harness's own reader.

Inputs: authentic responses (every level incl. the padding agent, minimal and long length forms)
and everything the C20 mutation generator derives from them in the *wrapper* of the message (the
inside of the PDU is decoded lazily by the caller and belongs to C06 / C20): single-bit flips,
truncations, substitutions of identifier and length octets incl. the SNMP application / PDU tags.

Compared: accepted or not, and the accepted PDU.  The *class* of the exception is compared only
where the independent strict reader accepts the datagram as an SNMPv3 message (C09 / C10 speak about
those); for anything else both sides only have to refuse.  The MAC and decryption oracles handed
to the model are computed by the harness for well-formed messages only — a malformed message that
the real code would authenticate shows up as a disagreement.
"""
from harness import berlib as BL
from harness import c20
from harness import indep_ber as B
from harness import refagent as RA
from harness import usmlib as UL
from harness import walklib as W

OID = [1, 3, 6, 1, 2, 1, 1, 1, 0]


def real_incoming(dg, creds, seconds=1.0):
    from puresnmp.plugins import mpm

    import puresnmp.pdu as P

    async def handler(data):  # never used: no discovery on the decode path
        raise AssertionError("unexpected transport use")

    def go():
        model = mpm.create(3, handler, {})
        pdu = model.decode(dg, creds)
        if not isinstance(pdu, P.PDU):
            raise TypeError("not a PDU: " + type(pdu).__name__)  # nothing a caller could use
        raw = bytes(pdu)
        tag, c, _ = B.dec_tlv(raw)
        p = B.dec_pdu(tag, c)
        return {"tag": tag, "rid": p["request_id"], "a": p["a"], "b": p["b"], "vbs": [[list(o), v] for o, v in p["varbinds"]]}

    r = BL.guarded(go, seconds)
    if r[0] == "ok":
        return ["ok", r[1]]
    if r[0] == "hang":
        return ["hang"]
    return ["error", r[1]]


def cases(ctx):
    levels = ("noauth", "auth", "authpriv", "authpriv-pad") if not ctx.quick else ("noauth", "auth", "authpriv-pad")
    for level in levels:
        for form in ("min", "long2") if not ctx.quick else (("min", "long2")[len(level) % 2],):
            agent = RA.Agent(db=[(tuple(OID), ["str", "6f6b"])], form=form)
            client = W.make_client(agent, "v3", level)
            W.run(client.get(RA.OID(OID)))
            dg = bytes(agent.raw_log[-1][1])
            creds = client.config.credentials
            muts = [("authentic", dg)] + c20.mutations(ctx, dg)
            pm = B.parse_message(dg)
            if "scoped" in pm:
                raw_pdu = bytes(B.enc_pdu(0xA2, pm["scoped"]["pdu"]["request_id"], 0, 0, [(OID, ["str", "6f6b"])], form))
                cut = len(dg) - len(raw_pdu)
                assert dg[cut] == 0xA2
                muts = [(k, m) for k, m in muts if len(m) != len(dg) or m[cut:] == dg[cut:]]
            seen = set()
            for kind, m in muts:
                if m not in seen:
                    seen.add(m)
                    yield level, form, kind, m, creds


def run(ctx, res, reqs, impls, authentic=None):
    for level, form, kind, m, creds in cases(ctx):
        user = creds.username.encode()
        auth = (creds.auth.method, creds.auth.key) if creds.auth else None
        priv = (creds.priv.method, creds.priv.key) if creds.priv else None
        got = UL.canon_real_incoming(real_incoming(m, creds))
        res.count(f"wire:{level}/{form}")
        res.count(f"wire-mutation:{kind}")
        res.count("wire-outcome:" + (got[1] if got[0] == "error" else got[0]))
        if got[0] == "hang":
            continue  # the sweep of C20 decides about hangs (known finding of x690)
        if authentic and auth and got[0] == "ok" and not authentic(m, auth, (1 if auth else 0) | (2 if priv else 0)):
            res.violate("wire-incoming", {"level": level, "form": form, "mutation": kind, "datagram": m.hex()}, "an exception", got,
                        "a datagram that is not authentic at the credentials' level was accepted", {"kind": "usm-accept", "what": "unauthentic-accepted", "forgery": "mutation"})
        base = UL.incoming_request(m, user, auth, priv)
        req = {"op": "usm.incoming.wire", "creds": UL.creds_json(user, auth, priv), "datagram": m.hex()}
        if base:
            for k in ("mac", "mac_input", "dec"):
                if base.get(k) is not None:
                    req[k] = base[k]
        reqs.append(req)
        impls.append(("wire-incoming", {"level": level, "form": form, "mutation": kind, "datagram": m.hex(), "wellformed": bool(base)}, got))


def agree(case, got, model):
    """model: canonical outcome of the driver's answer"""
    if not case["wellformed"] and got[0] == "error" and model[0] == "error":
        return True
    return got == model
