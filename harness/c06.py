"""
C06 — every response value reaches the caller with the type and value that was sent.

Unit level (real x690 / puresnmp objects vs. the Lean model `Snmp.Ber`):
  unit-len   `encode_length`, `decode_length`, `get_value_slice` on boundary and random inputs
  unit-int   `Integer.encode_raw` / `decode_raw` (signed and unsigned classes)
  unit-oid   `ObjectIdentifier` encode / decode
  unit-val   values of every SNMP base / application type and the three exception markers,
             written by the independent encoder in all five definite length forms (minimal,
             long form with 1..4 length octets), decoded by `x690.decode` + `.value`
  unit-pdu   response PDUs (request-id / error fields at their boundaries, 0..100 bindings) in
             the five forms, read through `GetResponse.value`
  reencode   `bytes()` of a decoded PDU, scoped PDU, USM parameter block and v3 message
  unit-reenc the same three `decode(...)` + `bytes()` paths octet for octet against `Snmp.Reenc` (well-formed + malformed stream)
End to end: `Client.multiget` against the reference agent answering in each length form.

Direct oracle: the decoded class and value equal what the independent encoder was given (the
independent reader agrees on the same bytes); a re-encoding is read by the independent reader as
the same content.

Non-trivial: all cases; distinct = distinct bytes.
"""
from harness import berlib as BL
from harness import indep_ber as B
from harness import opslib as O
from harness import refagent as RA
from harness import walklib as W
from harness.common import Result, run_driver
from harness.knownsig import auth_len127

ASSUMPTIONS = [
    "generated OIDs have at least two arcs and 40*arc0+arc1 < 120; OID values 2.x with x >= 40 are mis-decoded by x690 (known finding C06-x690-oid-second-arc, exercised by the second-arc suite)",
]
FORMS = ["min", "long1", "long2", "long3", "long4"]
CLS_KIND = {"Integer": "int", "OctetString": "str", "IpAddress": "ip", "Counter": "counter32", "Gauge": "gauge32", "TimeTicks": "ticks", "Opaque": "opaque", "NsapAddress": "nsap", "Counter64": "counter64"}


def tree_to_val(t):
    """model / real tree of a value TLV -> canonical value"""
    if t[0] == "int":
        return [CLS_KIND.get(t[1], t[1]), t[2]]
    if t[0] == "str":
        return [CLS_KIND.get(t[1], t[1]), t[2]]
    if t[0] == "null":
        return ["null"]
    if t[0] == "oid":
        return ["oid", t[1]]
    if t[0] == "marker":
        return [t[1][0].lower() + t[1][1:]]
    if t[0] == "raw":
        return ["unknown", t[2], t[3]]
    return t


def int_boundaries():
    out = set()
    for k in range(1, 10):
        for d in (-2, -1, 0, 1, 2):
            out.update([(1 << (8 * k - 1)) + d, -(1 << (8 * k - 1)) + d, (1 << (8 * k)) + d, -(1 << (8 * k)) + d])
    out.update([0, 1, -1, 127, 128, 255, 256])
    return sorted(out)


def gen_values(ctx):
    rng = ctx.rng
    vals = []
    for v in int_boundaries():
        if -(2**71) <= v < 2**71:
            vals.append(["int", v])
    for kind, top in (("counter32", 2**32), ("gauge32", 2**32), ("ticks", 2**32), ("counter64", 2**64)):
        for v in [0, 1, 127, 128, 255, 256, 32767, 32768, 65535, 65536, 2**23, 2**24 - 1, 2**31 - 1, 2**31, 2**32 - 1, 2**63 - 1, 2**63, 2**64 - 1]:
            if v < top:
                vals.append([kind, v])
        for _ in range(ctx.budget(6, 200)):
            vals.append([kind, rng.randrange(top)])
    lens = [0, 1, 2, 126, 127, 128, 129, 255, 256, 257, 1000] + ([65000, 65535] if not ctx.quick else [4000])
    for n in lens:
        vals.append(["str", bytes(rng.randrange(256) for _ in range(n)).hex()])
        if n <= 300:
            vals.append(["opaque", bytes(rng.randrange(256) for _ in range(n)).hex()])
    for ip in ["00000000", "c0a80001", "ffffffff", "7f000001", "80000000"]:
        vals.append(["ip", ip])
    vals += [["null"], ["noSuchObject"], ["noSuchInstance"], ["endOfMibView"]]
    subs = [0, 1, 127, 128, 129, 16383, 16384, 2**21 - 1, 2**21, 2**28, 2**32 - 1]
    for a in (0, 1, 2):
        for b in (0, 3, 39):
            vals.append(["oid", [a, b]])
            vals.append(["oid", [a, b] + [rng.choice(subs) for _ in range(rng.randint(1, 12))]])
    for n in (2, 3, 16, 64, 127, 128):
        vals.append(["oid", [1, 3] + [rng.choice(subs) for _ in range(n - 2)]])
    for s in subs:
        vals.append(["oid", [1, 3, 6, s, 1]])
    for _ in range(ctx.budget(40, 2000)):
        vals.append(["int", rng.randrange(-(2**64), 2**64)])
        vals.append(["oid", [1, 3] + [rng.randrange(2**32) for _ in range(rng.randint(0, 20))]])
    vals += [["unknown", 0x47, "0102"], ["unknown", 0x9F, ""], ["nsap", 5], ["nsap", -3]]
    return vals


def unit_primitives(ctx, res, reqs, impls):
    from x690.types import Integer, ObjectIdentifier
    from x690.util import decode_length, encode_length, get_value_slice

    import puresnmp.types as T

    rng = ctx.rng
    for n in list(range(0, 300)) + [2**16 - 1, 2**16, 2**24, 2**32 - 1, 2**32] + [rng.randrange(2**40) for _ in range(ctx.budget(50, 2000))]:
        reqs.append({"op": "ber.len.enc", "n": n})
        impls.append(("unit-len", {"encode_length": n}, bytes(encode_length(n)).hex()))
    for _ in range(ctx.budget(600, 20000)):
        data = bytes(rng.choice([0, 1, 0x7F, 0x80, 0x81, 0x82, 0x84, 0xFF, rng.randrange(256)]) for _ in range(rng.randint(1, 8)))
        idx = rng.randint(0, len(data))
        r = BL.guarded(lambda: list(decode_length(data, idx)))
        got = r[1] if r[0] == "ok" else ["error"]
        reqs.append({"op": "ber.len.dec", "data": data.hex(), "index": idx})
        impls.append(("unit-len", {"decode_length": data.hex(), "index": idx}, got))
        r = BL.guarded(lambda: get_value_slice(data, idx))
        if r[0] == "ok":
            sl, nxt = r[1]
            got = [sl.start, sl.stop, nxt]
        else:
            got = ["error"]
        reqs.append({"op": "ber.slice", "data": data.hex(), "index": idx})
        impls.append(("unit-len", {"get_value_slice": data.hex(), "index": idx}, got))
    for v in int_boundaries() + [rng.randrange(-(2**70), 2**70) for _ in range(ctx.budget(200, 5000))]:
        reqs.append({"op": "ber.int.enc", "v": v})
        enc = Integer(v).encode_raw()
        impls.append(("unit-int", {"Integer.encode_raw": v}, bytes(enc).hex()))
        if Integer.decode_raw(enc) != v:
            res.violate("unit-int", {"v": v}, v, Integer.decode_raw(enc), "Integer does not survive its own encode/decode", {"kind": "codec", "what": "int-roundtrip"})
    for _ in range(ctx.budget(400, 10000)):
        data = bytes(rng.choice([0, 0x7F, 0x80, 0xFF, rng.randrange(256)]) for _ in range(rng.randint(0, 9)))
        for signed, cls in ((True, Integer), (False, T.Counter64)):
            reqs.append({"op": "ber.int.dec", "data": data.hex(), "signed": signed})
            impls.append(("unit-int", {"decode_raw": data.hex(), "signed": signed}, cls.decode_raw(data)))
    subs = [0, 1, 39, 40, 127, 128, 255, 256, 16383, 16384, 2**32 - 1, 2**40]
    for _ in range(ctx.budget(400, 10000)):
        oid = [rng.choice([0, 1, 2, 3, 6]), rng.choice([0, 3, 39, 40, 100])][: rng.randint(0, 2)] + [rng.choice(subs + [rng.randrange(2**32)]) for _ in range(rng.randint(0, 8))]
        r = BL.guarded(lambda: bytes(ObjectIdentifier(".".join(map(str, oid))).encode_raw()).hex())
        reqs.append({"op": "ber.oid.enc", "oid": oid})
        impls.append(("unit-oid", {"encode": oid}, r[1] if r[0] == "ok" else None))
        data = bytes(rng.choice([0, 0x2B, 0x7F, 0x80, 0x81, 0xFF, rng.randrange(256)]) for _ in range(rng.randint(0, 10)))
        r = BL.guarded(lambda: list(ObjectIdentifier.from_bytes(data).nodes))
        reqs.append({"op": "ber.oid.dec", "data": data.hex()})
        impls.append(("unit-oid", {"decode": data.hex()}, r[1] if r[0] == "ok" else ["error"]))


def unit_values(ctx, res, reqs, impls):
    from x690 import decode

    for v in gen_values(ctx):
        for form in FORMS:
            try:
                data = B.enc_val(v, form)
            except B.BerError:
                continue
            case = {"value": v if len(str(v)) < 300 else [v[0], f"<{len(v[1]) // 2} octets>"], "form": form, "bytes": data.hex() if len(data) < 200 else f"<{len(data)} octets>"}

            def go(data=data):
                obj, nxt = decode(data)
                return RA.canon_value(obj), BL.real_tree(obj), nxt

            r = BL.guarded(go, 2.0)
            res.count(f"val:{v[0]}")
            res.count(f"form:{form}")
            want = v
            if r[0] != "ok":
                res.violate("unit-val", case, want, list(r), "a well-formed value could not be decoded", {"kind": "codec", "what": "value-decode", "vkind": v[0]})
                got_tree = ["error"]
            else:
                got, got_tree, nxt = r[1]
                if got != want or nxt != len(data):
                    res.violate("unit-val", case, want, got, "decoded value differs from the value sent", {"kind": "codec", "what": "value-decode", "vkind": v[0]})
            reqs.append({"op": "ber.tree", "data": data.hex(), "fuel": 400, "depth": 12})
            impls.append(("unit-val", case, ("ok", got_tree) if got_tree != ["error"] else ("error",)))


def unit_pdus(ctx, res, reqs, impls):
    from x690 import decode

    rng = ctx.rng
    rids = [0, 1, -1, 127, 128, 2**31 - 1, -(2**31), 2**31, 2**40, rng.randrange(2**31)]
    for i in range(ctx.budget(150, 4000)):
        nvb = rng.choice([0, 1, 2, 3, 10, 100] if i % 10 == 0 else [0, 1, 2, 3, 5])
        vbs = [([1, 3, 6, 1, 2, 1, rng.randint(0, 300), rng.randint(0, 2**32 - 1)], rng.choice(O.ALL_VALUES + [["noSuchObject"], ["noSuchInstance"], ["endOfMibView"]])) for _ in range(nvb)]
        rid = rng.choice(rids)
        es = rng.choice([0, 0, 0, 2, 5, 19])
        ei = rng.choice([0, 1, 2, nvb, nvb + 1])
        form = FORMS[i % len(FORMS)]
        tag = rng.choice([0xA2, 0xA2, 0xA8, 0xA7])
        data = B.enc_pdu(tag, rid, es, ei, vbs, form)
        case = {"pdu": {"tag": tag, "rid": rid, "es": es, "ei": ei, "nvb": nvb}, "form": form, "bytes": data.hex() if len(data) < 300 else f"<{len(data)} octets>"}

        def go(data=data):
            obj, _ = decode(data)
            return BL.real_tree(obj), obj

        r = BL.guarded(go, 2.0)
        res.count(f"pdu-bindings:{'0' if nvb == 0 else '1-5' if nvb <= 5 else '10+'}")
        if r[0] != "ok":
            res.violate("unit-pdu", case, "decodable", list(r), "a well-formed PDU could not be decoded", {"kind": "codec", "what": "pdu-decode"})
            got = ("error",)
        else:
            tree, obj = r[1]
            got = ("ok", tree)
            if es == 0:
                want_vbs = [["seq", "Sequence", [["oid", list(o)], None]] for o, _ in vbs]
                ok = tree[0] == "seq" and tree[2][0][2] == rid and tree[2][1][2] == 0 and tree[2][2][2] == ei and len(tree[2][3][2]) == nvb
                ok = ok and all(t[2][0] == ["oid", list(o)] and tree_to_val(t[2][1]) == v for t, (o, v) in zip(tree[2][3][2], vbs))
                del want_vbs
                if not ok:
                    res.violate("unit-pdu", case, {"rid": rid, "ei": ei, "vbs": nvb}, tree, "decoded PDU fields differ from the fields sent", {"kind": "codec", "what": "pdu-decode"})
                else:
                    # re-encoding yields an encoding of the same content
                    again = bytes(obj)
                    p1, p2 = B.dec_pdu(*B.dec_tlv(again)[:2]), B.dec_pdu(*B.dec_tlv(data)[:2])
                    if p1 != p2:
                        res.violate("reencode", case, p2, p1, "re-encoded PDU reads as different content", {"kind": "codec", "what": "reencode"})
        reqs.append({"op": "ber.tree", "data": data.hex(), "fuel": 400, "depth": 12})
        impls.append(("unit-pdu", case, got))


def reencode_v3(ctx, res):
    """decode + bytes() of scoped PDU, USM parameter block and whole v3 messages"""
    from puresnmp.adt import Message, ScopedPDU
    from puresnmp_plugins.security.usm import USMSecurityParameters

    rng = ctx.rng
    for i in range(ctx.budget(150, 3000)):
        form = FORMS[i % len(FORMS)]
        vbs = [([1, 3, 6, 1, 2, 1, 1, rng.randint(0, 9), 0], rng.choice(O.ALL_VALUES)) for _ in range(rng.randint(0, 4))]
        pdu = B.enc_pdu(0xA2, rng.randrange(2**31), 0, 0, vbs, form)
        eid = bytes(rng.randrange(256) for _ in range(rng.choice([0, 5, 12, 32, 120, 130])))
        ctxname = bytes(rng.randrange(256) for _ in range(rng.choice([0, 3, 40])))
        scoped = B.enc_scoped(eid, ctxname, pdu, form)
        user = bytes(rng.randrange(97, 123) for _ in range(rng.choice([0, 4, 32])))
        auth = bytes(rng.randrange(256) for _ in range(rng.choice([0, 12])))
        priv = bytes(rng.randrange(256) for _ in range(rng.choice([0, 8])))
        flags = rng.choice([0, 1, 4, 5])
        msg = B.enc_v3_message(rng.randrange(2**31), 65507, flags, eid, rng.randrange(2**31), rng.randrange(2**31), user, auth, priv, scoped, form)
        res.evaluations += 1
        res.count("reencode-v3")
        try:
            m = Message.decode(msg)
            again = bytes(m)
            a, b = B.parse_message(again), B.parse_message(msg)
            a.pop("auth_params_offset", None), b.pop("auth_params_offset", None)
            if a != b:
                res.violate("reencode", {"msg": msg.hex(), "form": form}, b, a, "re-encoded SNMPv3 message reads as different content", {"kind": "codec", "what": "reencode"})
            spb = B.dec_seq(B.dec_tlv(msg)[1])[2][1]  # security parameter block (the SEQUENCE inside the OCTET STRING)
            again_sp = bytes(USMSecurityParameters.decode(spb))
            if B.dec_seq(B.dec_tlv(again_sp)[1]) != B.dec_seq(B.dec_tlv(spb)[1]):
                res.violate("reencode", {"secparams": spb.hex()}, "same content", again_sp.hex(), "re-encoded security parameters differ", {"kind": "codec", "what": "reencode"})
            sc = bytes(ScopedPDU.decode(scoped))
            if B.dec_scoped_tlv(sc) != B.dec_scoped_tlv(scoped):
                res.violate("reencode", {"scoped": scoped.hex()}, "same content", sc.hex(), "re-encoded scoped PDU differs", {"kind": "codec", "what": "reencode"})
        except Exception as exc:  # noqa: BLE001
            res.violate("reencode", {"msg": msg.hex(), "form": form}, "decodable", type(exc).__name__, "a well-formed SNMPv3 message could not be decoded / re-encoded", {"kind": "codec", "what": "reencode"})


def _hdr_offsets(b, start=0, end=None, depth=0, out=None):
    """offsets of the identifier octets of all TLVs (definite lengths), nested ones of constructed TLVs included"""
    out = [] if out is None else out
    end = len(b) if end is None else end
    i = start
    while i < end and depth < 6:
        try:
            tag, content, nxt = B.dec_tlv(b, i)
        except Exception:  # noqa: BLE001
            break
        out.append(i)
        cstart = nxt - len(content)
        if tag & 0x20 or (tag == 0x04 and content[:1] == b"\x30"):
            _hdr_offsets(b, cstart, nxt, depth + 1, out)
        if nxt <= i:
            break
        i = nxt
    return out


SUBST_TAGS = [0x02, 0x04, 0x05, 0x06, 0x30, 0x24, 0x40, 0x41, 0x42, 0x43, 0x44, 0x46, 0x80, 0x81, 0x82, 0xA0, 0xA2, 0xA5, 0xA8, 0x0A, 0x13, 0xC5, 0x01]


def reencode_unit(ctx, res, reqs, impls):
    """unit-reenc: `bytes(Message.decode(m))`, `bytes(ScopedPDU.decode(s))`, `bytes(USMSecurityParameters.decode(p))`
    octet for octet against the model (`Snmp.Reenc`), on well-formed messages (plain and encrypted payloads, five
    length forms, flags 0..255 and longer) and on a malformed stream (identifier octets substituted at every TLV
    header, items dropped, truncations, emptied contents)."""
    from puresnmp.adt import Message, ScopedPDU
    from puresnmp_plugins.security.usm import USMSecurityParameters

    rng = ctx.rng
    dec = {"msg": lambda d: bytes(Message.decode(d)), "scoped": lambda d: bytes(ScopedPDU.decode(d)),
           "usm": lambda d: bytes(USMSecurityParameters.decode(d))}

    def emit(what, data, kind):
        r = BL.guarded(lambda: dec[what](data).hex(), 2.0)
        got = ["ok", r[1]] if r[0] == "ok" else ["error"] if r[0] == "error" else ["hang"]
        res.count(f"unit-reenc:{what}:{kind}:{got[0]}")
        reqs.append({"op": "reenc", "what": what, "data": data.hex()})
        impls.append(("unit-reenc", {"what": what, "kind": kind, "data": data.hex()}, got))

    for i in range(ctx.budget(120, 2500)):
        form = FORMS[i % len(FORMS)]
        vbs = [([1, 3, 6, 1, 2, 1, 1, rng.randint(0, 9), 0], rng.choice(O.ALL_VALUES)) for _ in range(rng.randint(0, 3))]
        pdu = B.enc_pdu(rng.choice([0xA2, 0xA8, 0xA0, 0xA7]), rng.randrange(2**31), 0, 0, vbs, form)
        eid = bytes(rng.randrange(256) for _ in range(rng.choice([0, 5, 12, 32, 120, 127, 130])))
        ctxname = bytes(rng.randrange(256) for _ in range(rng.choice([0, 3, 40])))
        scoped = B.enc_scoped(eid, ctxname, pdu, form)
        user = bytes(rng.randrange(97, 123) for _ in range(rng.choice([0, 4, 32])))
        auth = bytes(rng.randrange(256) for _ in range(rng.choice([0, 12])))
        priv = bytes(rng.randrange(256) for _ in range(rng.choice([0, 8])))
        encrypted = rng.random() < 0.4
        flags = rng.choice([3, 7]) if encrypted else rng.choice([0, 1, 4, 5])
        if rng.random() < 0.15:
            flags = rng.randrange(256)
        payload = B.tlv(0x04, bytes(rng.randrange(256) for _ in range(rng.choice([0, 1, 16, 127, 200]))), form) if encrypted else scoped
        boots, time_ = rng.choice([0, 1, 127, 128, 2**31 - 1, rng.randrange(2**31)]), rng.choice([0, 255, 256, 2**31 - 1, rng.randrange(2**31)])
        mid = rng.choice([0, 1, 127, 128, 255, 256, 32767, 32768, 2**31 - 1, rng.randrange(2**31)])
        msg = B.enc_v3_message(mid, rng.choice([484, 65507, 2**31 - 1]), flags, eid, boots, time_, user, auth, priv, payload, form)
        if rng.random() < 0.3:
            msg += bytes(rng.randrange(256) for _ in range(rng.randint(1, 4)))   # octets behind the message
        spb = B.dec_seq(B.dec_tlv(msg)[1])[2][1]
        emit("msg", msg, "wf-enc" if encrypted else "wf-plain")
        emit("scoped", scoped, "wf")
        emit("usm", spb, "wf")
        # malformed stream
        for what, base in (("msg", msg), ("scoped", scoped), ("usm", spb)):
            offs = _hdr_offsets(base)
            for _ in range(2 if what == "msg" else 1):
                m = bytearray(base)
                kind = rng.choice(["tag", "tag", "tag", "trunc", "byte", "len0"])
                if kind == "tag" and offs:
                    m[rng.choice(offs)] = rng.choice(SUBST_TAGS)
                elif kind == "trunc":
                    m = m[: rng.randrange(len(m))]
                elif kind == "len0" and offs:
                    o = rng.choice(offs)
                    if o + 1 < len(m) and m[o + 1] < 128:
                        # empty this TLV: drop its content and fix nothing else (outer lengths now overshoot)
                        del m[o + 2 : o + 2 + m[o + 1]]
                        m[o + 1] = 0
                elif len(m):
                    m[rng.randrange(len(m))] = rng.randrange(256)
                emit(what, bytes(m), "mut-" + kind)


def e2e(ctx, res):
    for i in range(ctx.budget(200, 5000)):
        form = FORMS[i % len(FORMS)]
        db = O.random_db(ctx.rng, ctx.rng.randint(1, 8))
        version, level = O.PROTOS[(i // len(FORMS)) % len(O.PROTOS)]
        agent = RA.Agent(db=db, form=form)
        oids = [list(o) for o, _ in db]
        ctx.rng.shuffle(oids)
        obs, _ = O.impl_op("multiget", {"oids": oids}, agent, version, level)
        res.evaluations += 1
        res.count(f"e2e-form:{form}")
        want = ["ok", [dict((tuple(o), v) for o, v in db)[tuple(o)] for o in oids]]
        if obs["result"] == ["error", ["authError"]] and agent.raw_log and auth_len127(agent.raw_log[-1][1]):
            res.violate("e2e-values", {"form": form}, "authentic response accepted", obs["result"], "authentic response rejected", {"kind": "auth-reject-len127"})
        elif obs["result"] != want:
            res.violate("e2e-values", {"db": [[list(o), v] for o, v in db], "oids": oids, "form": form, "version": version, "level": level}, want, obs["result"], "multiget result differs from the values the agent sent", {"kind": "codec", "what": "e2e-values", "form": form, "level": level})


def unit_msgs(ctx, res, reqs, impls):
    """whole community messages -> what the operation gets: the real `V2CMPM.decode(...)` followed by
    `.value` against `Glue.msgOfBytes` + `Ops.mpmDecode` + `Ops.forcePdu` (driver op `ber.msg.recv`)"""
    from puresnmp.credentials import V2C
    from puresnmp_plugins.mpm.v2c import V2CMPM

    rng = ctx.rng
    for i in range(ctx.budget(200, 5000)):
        nvb = rng.choice([0, 1, 2, 3, 5])
        vbs = [([1, 3, 6, 1, 2, 1, rng.randint(0, 300), rng.randint(0, 2**32 - 1)], rng.choice(O.ALL_VALUES + [["noSuchObject"], ["noSuchInstance"], ["endOfMibView"]])) for _ in range(nvb)]
        rid = rng.choice([0, 1, -1, 2**31 - 1, 2**40, rng.randrange(2**31)])
        es = rng.choice([0, 0, 0, 0, 2, 5])
        ei = rng.choice([0, 1, nvb])
        form = FORMS[i % len(FORMS)]
        tag = rng.choice([0xA2, 0xA2, 0xA8])
        version = rng.choice([1, 1, 1, 1, 0, 3])
        community = "".join(chr(rng.randrange(33, 127)) for _ in range(rng.choice([0, 6, 127, 128])))
        sent_comm = community if rng.random() < 0.85 else community + "x"
        shape = rng.choice(["ok"] * 6 + ["two-items", "four-items", "binding-1", "binding-3", "version-str"])
        pdu = B.enc_pdu(tag, rid, es, ei, vbs, form)
        if shape == "binding-1" and vbs:
            pdu = B.tlv(tag, B.enc_int(rid, form) + B.enc_int(es, form) + B.enc_int(ei, form) + B.tlv(0x30, B.tlv(0x30, B.enc_oid(vbs[0][0], form), form), form), form)
        elif shape == "binding-3" and vbs:
            pdu = B.tlv(tag, B.enc_int(rid, form) + B.enc_int(es, form) + B.enc_int(ei, form) + B.tlv(0x30, B.tlv(0x30, B.enc_oid(vbs[0][0], form) + B.enc_int(1, form) + B.enc_int(2, form), form), form), form)
        v = B.enc_int(version, form) if shape != "version-str" else B.tlv(0x04, b"\x01", form)
        items = v + B.tlv(0x04, sent_comm.encode(), form) + pdu
        if shape == "two-items":
            items = v + pdu
        elif shape == "four-items":
            items = items + B.enc_int(7, form)
        data = B.tlv(0x30, items, form)
        case = {"msg": data.hex() if len(data) < 400 else f"<{len(data)} octets>", "shape": shape, "form": form, "version": version, "es": es, "community_ok": sent_comm == community}

        def go(data=data, community=community):
            p = V2CMPM(None, {}).decode(data, V2C(community))
            c = p.value
            return {"cls": type(p).__name__, "rid": c.request_id, "es": c.error_status, "ei": c.error_index,
                    "vbs": [[[int(x) for x in str(vb.oid).split(".")], RA.canon_value(vb.value)] for vb in c.varbinds]}

        r = BL.guarded(go, 2.0)
        res.count(f"unit-msg:{shape if shape == 'ok' else 'malformed'}")
        res.count("unit-msg:accepted" if r[0] == "ok" else "unit-msg:refused")
        reqs.append({"op": "ber.msg.recv", "data": data.hex(), "community": community.encode().hex(), "fuel": len(data) + 16, "depth": 12})
        impls.append(("unit-msg", case, r[1] if r[0] == "ok" else None))


def second_arc(ctx, res):
    """OBJECT IDENTIFIER values below joint-iso-itu-t(2) with a second arc of 40 or more"""
    for val in ([2, 39, 1], [2, 40, 1], [2, 47, 3], [2, 48, 3], [2, 999, 3], [2, 2**32 - 1]):
        agent = RA.Agent(db=[((1, 3, 6, 1, 2, 1, 1, 2, 0), ["oid", val])])
        obs, _ = O.impl_op("get", {"oid": [1, 3, 6, 1, 2, 1, 1, 2, 0]}, agent, "v2c", "noauth")
        res.evaluations += 1
        res.count("second-arc")
        if obs["result"] != ["ok", ["oid", val]]:
            res.violate("second-arc", {"value": val}, ["ok", ["oid", val]], obs["result"],
                        "an OBJECT IDENTIFIER value reaches the caller as a different OID (first sub-identifier split with // 40, % 40)",
                        {"kind": "codec", "what": "oid-second-arc"})


def run(ctx):
    res = Result()
    reqs, impls = [], []
    second_arc(ctx, res)
    unit_primitives(ctx, res, reqs, impls)
    unit_values(ctx, res, reqs, impls)
    unit_pdus(ctx, res, reqs, impls)
    unit_msgs(ctx, res, reqs, impls)
    reencode_v3(ctx, res)
    reencode_unit(ctx, res, reqs, impls)
    e2e(ctx, res)
    if ctx.driver_ok:
        for (suite, case, got), ans in zip(impls, run_driver(reqs, timeout=1200)):
            res.case(suite, case)
            if suite == "unit-reenc":
                model = ans.get("ok", ans)
                if isinstance(model, list) and model[:1] == ["error"]:
                    if model[1] == ["other", "unmodelled"]:
                        res.count("unit-reenc:unmodelled-skipped")
                        continue
                    model = ["error"]
                if got == ["hang"] and model == ["error"]:
                    # x690's indefinite-length loop (known finding of C20, predicted there by the mirror); the model runs out of fuel
                    res.count("unit-reenc:impl-hang-model-error")
                    continue
                if model != got:
                    res.disagree(suite, case, got, model)
            elif suite in ("unit-val", "unit-pdu"):
                model = BL.model_outcome(ans)
                if tuple(model) != tuple(got):
                    res.disagree(suite, case, got, model)
            else:
                model = ans.get("ok", ans)
                if isinstance(model, list) and model[:1] == ["error"]:
                    model = ["error"]
                if model != got:
                    res.disagree(suite, case, got, model)
    else:
        for suite, case, _ in impls:
            res.case(suite, case)
    return res


def replay(ctx, payload):
    print("re-run the check with the recorded seed (cases are generated from VERIF_SEED)")
    return 2
