"""
C18 — temporary reconfiguration applies inside its block and is undone exactly.

Correspondence: random well-nested programs over  request | peek | configure kw |
reconfigure kw body | raise | catch body  are executed on a real `Client` whose sender is the
reference agent; every call of the sender seam is observed (timeout= / retries= keyword
arguments, protocol version of the datagram, community or user name, SNMPv3 context name,
whether it is an engine-discovery probe, identity of `client.mpm` at that moment), as is
`client.config` / `client.mpm` at every `peek` and at the end.  The same program is run by the
Lean model (`Snmp.Cfg.execList`, driver op `cfg.run`) and the two observation streams are
compared after renaming object identities by order of first appearance.

Direct oracle (independent of the model), evaluated while interpreting the program on the
real client: (1) at the exit of every `reconfigure` block, at any depth, normal or exceptional,
`client.config` and `client.mpm` are the very objects they were on entry; (2) a request that is
the first statement of a block is sent with the overridden timeout / retries / credentials /
context of that block; (3) an unknown setting raises TypeError and changes nothing; (4) after a
permanent `configure` the named settings have the supplied values and a credential-family
change switches the protocol version of the next datagram.

Non-trivial: programs containing at least one reconfigure block; distinct = distinct program.
"""
import sys

from harness import refagent as RA
from harness import walklib as W
from harness.common import Result, run_driver

ASSUMPTIONS = [
    "requests issued while a reconfigure block is being entered/left from another task are outside the property",
]

# the last two share their community string with a credential of the other community-based family (V1("pub0") == V2C("pub0") in puresnmp)
CREDS = [("v2c", "pub0"), ("v1", "com1"), ("v2c", "com2"), ("v3", "usr3"), ("v3", "usr4"), ("v1", "com5"), ("v3", "usr6"), ("v1", "pub0"), ("v2c", "com1")]
VERSION = {"v1": 0, "v2c": 1, "v3": 3}
UNKNOWN = ["timeouts", "retry", "community", "port", "mpm", "sender"]
OID = [1, 3, 6, 1, 2, 1, 1, 1, 0]


class Boom(Exception):
    pass


class BaseBoom(BaseException):
    """an exception outside the Exception hierarchy (like KeyboardInterrupt, GeneratorExit)"""


def boom_of(kind):
    import asyncio

    return {"exc": Boom, "base": BaseBoom, "cancel": asyncio.CancelledError}[kind]


def BOOMS():
    import asyncio

    return (Boom, BaseBoom, asyncio.CancelledError)


def make_creds():
    from puresnmp.credentials import V1, V2C, V3, Auth, Priv

    out = []
    for i, (fam, name) in enumerate(CREDS):
        if fam == "v1":
            out.append(V1(name))
        elif fam == "v2c":
            out.append(V2C(name))
        elif i == 4:
            out.append(V3(name, Auth(b"authpass-" + name.encode(), "md5")))
        elif i == 6:
            out.append(V3(name, Auth(b"authpass-" + name.encode(), "sha1"), Priv(b"privpass-" + name.encode(), "verifstream")))
        else:
            out.append(V3(name))
    return out


def gen_kwargs(rng, allow_unknown=True):
    kw = []
    keys = rng.sample(["timeout", "retries", "credentials", "context"], rng.randint(1, 3))
    for k in keys:
        if k == "timeout":
            kw.append([k, ["num", rng.choice([1, 2, 3, 7, 30])]])
        elif k == "retries":
            kw.append([k, ["num", rng.choice([1, 2, 5, 11])]])
        elif k == "credentials":
            i = rng.randrange(len(CREDS))
            kw.append([k, ["cred", CREDS[i][0], i]])
        else:
            kw.append([k, ["ident", rng.randint(0, 4)]])
    if allow_unknown and rng.random() < 0.08:
        kw.insert(rng.randint(0, len(kw)), [rng.choice(UNKNOWN), ["num", 0]])
    return kw


def gen_prog(rng, depth, max_depth, size):
    out = []
    for _ in range(rng.randint(1, size)):
        r = rng.random()
        if r < 0.3:
            out.append(["request"])
        elif r < 0.4:
            out.append(["peek"])
        elif r < 0.5:
            out.append(["configure", gen_kwargs(rng)])
        elif r < 0.8 and depth < max_depth:
            out.append(["reconfigure", gen_kwargs(rng), gen_prog(rng, depth + 1, max_depth, max(1, size - 1))])
        elif r < 0.88 and depth > 0:
            out.append(["raise", rng.choice(["exc", "exc", "base", "cancel"])])
        elif r < 0.95 and depth < max_depth:
            out.append(["catch", gen_prog(rng, depth + 1, max_depth, max(1, size - 1))])
        else:
            out.append(["request"])
    return out


def has_block(prog):
    return any(st[0] == "reconfigure" or (st[0] == "catch" and has_block(st[1])) for st in prog)


class Run:
    """Interprets a program on a real client and records the observation stream."""

    def __init__(self, init):
        from puresnmp import Client

        self.creds = make_creds()
        v3 = RA.V3Config()
        for i, (fam, name) in enumerate(CREDS):
            if fam == "v3":
                c = self.creds[i]
                v3.users[name.encode()] = {
                    "auth": (c.auth.method, c.auth.key) if c.auth else None,
                    "priv": (c.priv.method, c.priv.key) if c.priv else None,
                }
        self.agent = RA.Agent(db=[(tuple(OID), ["str", "6f6b"])], v3=v3)
        self.obs = []
        self.keep = []  # keeps every mpm object alive so that id() is never reused
        self.failures = []

        async def sender(endpoint, data, timeout=None, retries=None, **kw):
            n = len(self.agent.log)
            mpm = self.client.mpm
            self.keep.append(mpm)
            resp = await self.agent(endpoint, data, timeout=timeout, retries=retries)
            e = self.agent.log[n]
            probe = e.get("version") == 3 and e.get("kind") == "discovery"
            if e.get("version") == 3:
                name = bytes(e.get("user", b"")).decode()
                ctx = bytes(e.get("context_name", b"")).decode() if not probe else None
            else:
                name = bytes(e["community"]).decode()
                ctx = None
            cred = next((i for i, (f, nm) in enumerate(CREDS) if nm == name and VERSION[f] == e["version"]), None)
            self.obs.append([1 if probe else 0, timeout, retries, e["version"], None if probe else cred, int(ctx[3:]) if ctx else None, id(mpm)])
            return resp

        cred0 = self.creds[init["cred"]]
        self.client = Client("127.0.0.1", cred0, sender=sender, context_name=b"ctx%d" % init["context"])
        self.client.configure(timeout=init["timeout"], retries=init["retries"])

    def kwargs(self, kw):
        from puresnmp.api.raw import Context

        out = {}
        for k, v in kw:
            if v[0] == "cred":
                out[k] = self.creds[v[2]]
            elif v[0] == "ident":
                out[k] = Context(b"", b"ctx%d" % v[1]) if k == "context" else {"lcd": v[1]}
            else:
                out[k] = v[1]
        return out

    def peek(self):
        c = self.client
        self.keep.append(c.mpm)
        ident = sys.modules[type(c.mpm).__module__].IDENTIFIER
        cred = next((i for i, x in enumerate(self.creds) if x is c.config.credentials), None)
        return [2, c.config.timeout, c.config.retries, ident, cred, int(bytes(c.config.context.name).decode()[3:]), id(c.mpm)]

    def check_values(self, kw, what):
        """oracle (2)/(4): the named settings hold the supplied values"""
        got = self.peek()
        for k, v in kw:
            if k == "timeout" and got[1] != v[1] or k == "retries" and got[2] != v[1]:
                self.failures.append(f"{what}: {k} is not the supplied value")
            if k == "credentials" and (got[4] != v[2] or got[3] != VERSION[v[1]]):
                self.failures.append(f"{what}: credentials / protocol version not switched (version {got[3]} for {v[1]})")
            if k == "context" and got[5] != v[1]:
                self.failures.append(f"{what}: context is not the supplied value")

    async def exec_list(self, prog):
        for st in prog:
            k = st[0]
            if k == "request":
                try:
                    await self.client.get(RA.OID(OID))
                except (TypeError,) + BOOMS():
                    raise
                except Exception as exc:  # noqa: BLE001
                    self.obs.append(["request-error", RA.canon_exc(exc)])
            elif k == "peek":
                self.obs.append(self.peek())
            elif k == "configure":
                known = all(key in ("credentials", "context", "lcd", "timeout", "retries") for key, _ in st[1])
                before = (self.client.config, self.client.mpm)
                try:
                    self.client.configure(**self.kwargs(st[1]))
                except TypeError:
                    if known:
                        self.failures.append("configure with known settings raised TypeError")
                    if (self.client.config, self.client.mpm) != before or self.client.config is not before[0]:
                        self.failures.append("refused configure changed the client")
                    raise
                if not known:
                    self.failures.append("unknown setting accepted by configure")
                self.check_values(st[1], "after configure")
            elif k == "reconfigure":
                known = all(key in ("credentials", "context", "lcd", "timeout", "retries") for key, _ in st[1])
                config, mpm = self.client.config, self.client.mpm
                entered = False
                try:
                    with self.client.reconfigure(**self.kwargs(st[1])):
                        entered = True
                        if not known:
                            self.failures.append("unknown setting accepted by reconfigure")
                        self.check_values(st[1], "inside reconfigure")
                        if st[2] and st[2][0] == ["request"]:
                            n = len(self.obs)
                            await self.exec_list(st[2][:1])
                            self.check_seam(st[1], self.obs[n:])
                            await self.exec_list(st[2][1:])
                        else:
                            await self.exec_list(st[2])
                finally:
                    if self.client.config is not config or self.client.mpm is not mpm:
                        self.failures.append("config / message-processing instance not restored at block exit" + ("" if entered else " (block not entered)"))
            elif k == "raise":
                raise boom_of(st[1] if len(st) > 1 else "exc")()
            elif k == "catch":
                try:
                    await self.exec_list(st[1])
                except BOOMS():
                    pass

    def check_seam(self, kw, obs):
        for o in obs:
            if o[0] == "request-error":
                continue
            for k, v in kw:
                if k == "timeout" and o[1] != v[1] or k == "retries" and o[2] != v[1]:
                    self.failures.append(f"request inside the block sent with {k}={o[1] if k == 'timeout' else o[2]}, override was {v[1]}")
                if k == "credentials" and o[0] == 0 and (o[3] != VERSION[v[1]] or o[4] != v[2]):
                    self.failures.append("request inside the block did not use the overriding credentials / protocol version")
                if k == "context" and o[0] == 0 and o[3] == 3 and o[5] != v[1]:
                    self.failures.append("request inside the block did not use the overriding context")

    def run(self, prog):
        err = None
        try:
            W.run(self.exec_list(prog))
        except BOOMS():
            err = "boom"
        except TypeError:
            err = "typeError"
        return {"obs": self.obs, "err": err, "final": self.peek()}


def rename(stream_obs, final):
    """object identities -> order of first appearance"""
    names = {}

    def nm(x):
        if x not in names:
            names[x] = len(names)
        return names[x]

    obs = [o if o[0] == "request-error" else o[:6] + [nm(o[6])] for o in stream_obs]
    return obs, final[:6] + [nm(final[6])]


def canon(r):
    obs, final = rename(r["obs"], r["final"])
    return {"obs": obs, "err": r["err"], "final": final}


def one_case(res, init, prog):
    run = Run(init)
    got = canon(run.run(prog))
    case = {"init": init, "prog": prog}
    for f in run.failures[:1]:
        res.violate("cfg-prog", case, "C18 oracle", f, f, {"kind": "reconfigure", "what": f.split(":")[0][:40]})
    return case, got


def run(ctx):
    res = Result()
    cases, reqs = [], []
    n = ctx.budget(1500, 40000)
    max_depth = ctx.budget(4, 8)
    for i in range(n):
        init = {"family": CREDS[0][0], "cred": 0, "context": 0, "timeout": 6, "retries": 10}
        ci = ctx.rng.choice([0, 0, 1, 3, 4, 6])
        init["cred"], init["family"] = ci, CREDS[ci][0]
        prog = gen_prog(ctx.rng, 0, max_depth, ctx.rng.randint(1, 5))
        case, got = one_case(res, init, prog)
        res.count(f"init:{init['family']}")
        res.count(f"err:{got['err']}")
        res.count("seam-calls", len([o for o in got["obs"] if o[0] in (0, 1)]))
        res.count("probes", len([o for o in got["obs"] if o[0] == 1]))
        cases.append((case, got))
        reqs.append({"op": "cfg.run", "init": init, "prog": prog})
    if ctx.driver_ok:
        for (case, got), ans in zip(cases, run_driver(reqs)):
            res.case("cfg-prog", case, nontrivial=has_block(case["prog"]))
            if "ok" not in ans:
                res.disagree("cfg-prog", case, got, ans)
                continue
            m = ans["ok"]
            model = canon({"obs": m["obs"], "err": m["err"], "final": m["final"]})
            if model != got:
                res.disagree("cfg-prog", case, got, model)
    else:
        for case, _ in cases:
            res.case("cfg-prog", case, nontrivial=has_block(case["prog"]))
    return res


def search(ctx, res):
    """deeper failing-input search once something broke: more programs, deeper nesting"""
    for i in range(6000):
        ci = ctx.rng.choice([0, 1, 3, 4, 6])
        init = {"family": CREDS[ci][0], "cred": ci, "context": 0, "timeout": 6, "retries": 10}
        prog = gen_prog(ctx.rng, 0, 6, 4)
        one_case(res, init, prog)
        if res.violations:
            return


def replay(ctx, payload):
    c = payload["case"]
    run = Run(c["init"])
    got = canon(run.run(c["prog"]))
    print("observed", got)
    print("oracle failures", run.failures)
    return 1 if run.failures else 0
