"""
Input-side signatures of recorded findings that can surface inside other properties'
end-to-end suites.  A signature is computed from the *input* (the datagram the reference agent
sent), never from the implementation's behaviour, so that a different failure on another
input is still reported.
"""
from harness import indep_ber as B


def reencoded_lengths(dg):
    """Content lengths of the TLV levels whose length header puresnmp re-encodes when it
    re-serialises an incoming SNMPv3 message for digest verification."""
    out = []
    tag, c, _ = B.dec_tlv(dg, 0)
    out.append(("message", len(c)))
    items = B.dec_seq(c)
    out.append(("header", len(items[1][1])))
    out.append(("secparams-octets", len(items[2][1])))
    _t, spc, _ = B.dec_tlv(items[2][1], 0)
    out.append(("secparams-seq", len(spc)))
    for i, (_t2, fc) in enumerate(B.dec_seq(spc)):
        out.append((f"secparams-field{i}", len(fc)))
    out.append(("msgdata", len(items[3][1])))
    if items[3][0] == 0x30:
        s = B.dec_seq(items[3][1])
        out.append(("context-engine", len(s[0][1])))
        out.append(("context-name", len(s[1][1])))
        out.append(("pdu", len(s[2][1])))
    return out


def auth_len127(dg):
    """True when an authentic v3 response has a re-encoded level of exactly 127 octets
    (x690.encode_length(127) = 81 7f, so the digest is computed over different octets)."""
    try:
        return any(n == 127 for _lvl, n in reencoded_lengths(dg))
    except Exception:  # noqa: BLE001
        return False
