"""
C16 — table fetches: one row per index, every cell exactly once, both variants agree.

Unit: `puresnmp.util.tablify` vs the Lean model `Snmp.Table.tablify` on generated binding
lists (regular tables, duplicates, a column numbered 0, OIDs too short for the base, several
base lengths).  End-to-end: generated conceptual tables (1..6 columns, sparse, 0..12 rows, index
suffixes of 1..4 components, neighbouring objects before and after) fetched through
`Client.table(entry)`, `Client.bulktable(table, bulk sizes)` and `PyWrapper.table`, against the
reference agent, vs. the model (walk model + tablify, driver op `table.run`).

Direct oracle (computed from the agent's database, not from the model): exactly one row per
distinct index suffix, key '0' holds the complete dotted suffix, every cell of the agent's
table is in its row under its column number with the agent's value, no other cell, and
table / bulktable / pythonic table return the same rows in the same order.

Non-trivial: tables with at least one cell; distinct = distinct (db, entry, variant, size).
"""
from harness import refagent as RA
from harness import walklib as W
from harness.common import Result, run_driver

ASSUMPTIONS = [
    "SMI guards of the property: column numbers >= 1; everything below the table OID lies below its entry arc .1",
]


def canon_rows(rows):
    out = []
    for r in rows:
        row = []
        for k, v in r.items():
            if k == "0" and isinstance(v, str):
                cell = ["idx", [int(x) for x in v.split(".")] if v else []]
            else:
                cell = ["val", RA.canon_value(v)]
            row.append([int(k), cell])
        out.append(row)
    return out


def gen_table(rng, cols_max=6, rows_max=12):
    # (table OIDs ending in .1 are common: ifXTable is 1.3.6.1.2.1.31.1.1)
    base = [1, 3, 6, 1, 2, 1, rng.randint(2, 30)] + rng.choice([[], [], [], [1], [5, 1, 1], [31, 1]])
    entry = base + [1]
    cols = sorted(rng.sample(range(1, 12), rng.randint(1, cols_max)))
    k = rng.randint(1, 4)
    rows = sorted({tuple(rng.choice([0, 1, 2, 10, 127, 128, 300]) for _ in range(k)) for _ in range(rng.randint(0, rows_max))})
    db = {}
    density = rng.choice([1.0, 0.9, 0.5])
    for c in cols:
        for r in rows:
            if rng.random() < density:
                db[tuple(entry + [c] + list(r))] = W.val_for(entry + [c] + list(r))
    if rng.random() < 0.7:
        db[tuple(base[:-1] + [base[-1] - 1, 0])] = ["int", 1]
    if rng.random() < 0.5:
        db[tuple(base[:-1] + [base[-1] - 1, 1, 1, 7])] = ["int", 2]
    if rng.random() < 0.7:
        db[tuple(base[:-1] + [base[-1] + 1, 1, 1, 1])] = ["int", 3]
    if rng.random() < 0.3:
        db[tuple(base[:-1] + [base[-1] + 1, 0])] = ["int", 4]
    return [[list(o), v] for o, v in sorted(db.items())], base, entry


def oracle(db, entry, rows):
    """rows: canonical rows returned by the implementation"""
    n = len(entry)
    cells = {}
    for o, v in db:
        if o[:n] == entry and len(o) > n:
            cells.setdefault(tuple(o[n + 1 :]), {})[o[n]] = v
    got = {}
    for r in rows:
        d = dict((k, c) for k, c in r)
        if 0 not in d or d[0][0] != "idx":
            return "a row has no index under key '0'"
        idx = tuple(d[0][1])
        if idx in got:
            return f"two rows for index {list(idx)}"
        got[idx] = {k: c for k, c in d.items() if k != 0}
    if set(got) != set(cells):
        return f"row indexes {sorted(got)[:4]} differ from the agent's {sorted(cells)[:4]}"
    for idx, want in cells.items():
        have = got[idx]
        if set(have) != set(want):
            return f"row {list(idx)} has columns {sorted(have)} but the agent holds {sorted(want)}"
        for c, v in want.items():
            if have[c] != ["val", v]:
                return f"cell {c} of row {list(idx)} differs from the agent's value"
    return None


def py_rows_to_canon(rows):
    """PyWrapper.table rows hold pythonised values: compare shape only (values are C15's subject)"""
    return [sorted((int(k), "idx" if k == "0" else "val") for k in r) for r in rows], [r.get("0") for r in rows]


def run(ctx):
    from puresnmp import PyWrapper
    from puresnmp.util import tablify

    res = Result()
    # unit ----------------------------------------------------------------------------------
    reqs, impls = [], []
    for i in range(ctx.budget(600, 20000)):
        n = ctx.rng.randint(1, 5)
        base = [1, 3][:n] + [ctx.rng.randint(1, 3) for _ in range(max(0, n - 2))]
        vbs = []
        for _ in range(ctx.rng.randint(0, 12)):
            r = ctx.rng.random()
            col = ctx.rng.choice([0, 1, 2, 3, 10]) if r < 0.1 else ctx.rng.choice([1, 2, 3, 10])
            tail = [col] + [ctx.rng.choice([0, 1, 2, 300]) for _ in range(ctx.rng.randint(0, 3))]
            oid = base + tail
            if r > 0.95:
                oid = base[: ctx.rng.randint(1, len(base))]
            vbs.append([oid, W.val_for(oid)])
        if ctx.rng.random() < 0.2 and vbs:
            vbs.append(list(vbs[0][:1]) + [["int", 99]])
        case = {"vbs": vbs, "n": n}
        try:
            from puresnmp.varbind import VarBind

            got = ["ok", canon_rows(tablify([VarBind(RA.OID(o), RA.make_value(v)) for o, v in vbs], num_base_nodes=n))]
        except Exception as exc:  # noqa: BLE001
            got = ["error", RA.canon_exc(exc)]
        res.count("unit-tablify:" + got[0])
        reqs.append({"op": "tablify", "vbs": vbs, "n": n})
        impls.append(("unit-tablify", case, got))
    # end to end ----------------------------------------------------------------------------
    protos = [("v2c", "noauth"), ("v2c", "noauth"), ("v3", "auth"), ("v1", "noauth"), ("v3", "authpriv")]
    for i in range(ctx.budget(250, 6000)):
        db, base, entry = gen_table(ctx.rng)
        version, level = protos[i % len(protos)]
        size = ctx.rng.choice([1, 2, 3, 10, 25])
        results = {}
        for variant in ("table", "bulktable", "pytable", "pybulktable"):
            if variant in ("bulktable", "pybulktable") and version == "v1":
                continue
            agent = RA.Agent(db=[(tuple(o), v) for o, v in db], bulk_policy={"rows": ctx.rng.choice([None, None, 1, 2]), "cut": 0})
            # every other SNMPv1 case talks to an agent with RFC 1157 semantics: the end of the view is
            # error-status noSuchName, not an endOfMibView binding (seeded C16-51)
            agent.v1_strict = version == "v1" and (i // len(protos)) % 2 == 0
            if agent.v1_strict:
                res.count("e2e:v1-strict-agent")
            client = W.make_client(agent, version, level)
            if i % 5 == 2 and not variant.startswith("py"):
                # the client has a history: an earlier walk of the same table that its consumer
                # abandoned after the first item, and one that failed half-way — a fetch is a
                # function of the agent's table, not of what the client did before
                async def abandon(client=client):
                    async for _ in client.walk(RA.OID(entry)):
                        break

                try:
                    W.run(abandon())
                except Exception:  # noqa: BLE001
                    pass
                agent.budget = len(agent.log) + 2
                try:
                    W.run(client.table(RA.OID(entry)))
                except BaseException:  # noqa: BLE001 - AgentStop after two requests, or a short table finished
                    pass
                agent.budget = None
                res.count("e2e:after-interrupted-walks")
            try:
                if variant == "table":
                    rows = ["ok", canon_rows(W.run(client.table(RA.OID(entry))))]
                elif variant == "bulktable":
                    rows = ["ok", canon_rows(W.run(client.bulktable(RA.OID(base), bulk_size=size)))]
                elif variant == "pytable":
                    shape, idx = py_rows_to_canon(W.run(PyWrapper(client).table(".".join(map(str, entry)))))
                    rows = ["py", shape, idx]
                else:
                    shape, idx = py_rows_to_canon(W.run(PyWrapper(client).bulktable(".".join(map(str, base)), bulk_size=size)))
                    rows = ["py", shape, idx]
            except Exception as exc:  # noqa: BLE001
                rows = ["error", RA.canon_exc(exc)]
            results[variant] = rows
            case = {"db": db, "entry": entry, "table": base, "variant": variant, "size": size, "version": version, "level": level, "policy": agent.bulk_policy}
            res.count(f"e2e:{variant}")
            res.count("cells", sum(1 for o, _ in db if o[: len(entry)] == entry))
            if variant.startswith("py"):
                continue
            if rows[0] == "ok":
                bad = oracle(db, entry, rows[1])
                if bad:
                    res.violate("e2e-table", case, "the agent's table", rows[1][:3], bad, {"kind": "table-wrong", "variant": variant})
            elif rows == ["error", ["authError"]]:
                res.violate("e2e-table", case, "authentic response accepted", rows, "authentic response rejected", {"kind": "auth-reject-len127"})
                continue
            elif agent.v1_strict and rows[:1] == ["error"] and (rows[1][:1] == ["noSuchOID"] or rows[1][:3] == ["errorResponse", 2, "NoSuchOID"]) and len(agent.log) == 1:
                # the FIRST request already ran into the end of the view (an empty table behind which
                # nothing follows): an error-status on a first request surfaces — C08's judgement
                res.count("e2e:v1-strict-first-request-at-end-of-view")
                continue
            else:
                res.violate("e2e-table", case, "rows", rows, f"{variant} raised", {"kind": "table-raised", "variant": variant})
            pol = {"rows": agent.bulk_policy.get("rows"), "cut": 0, "stop": True}
            reqs.append({"op": "table.run", "agent": {"db": db, "policy": pol}, "oid": entry if variant == "table" else base, "kind": variant, "size": size, "fuel": len(db) + 10})
            impls.append(("e2e-table", case, rows))
        t, b, p = results.get("table"), results.get("bulktable"), results.get("pytable")
        if t and b and t[0] == "ok" and b[0] == "ok" and t != b:
            res.violate("e2e-table", {"db": db, "entry": entry, "table": base, "size": size}, t[1][:3], b[1][:3], "table() and bulktable() return different rows", {"kind": "table-variants-differ"})
        for pv, what in ((p, "PyWrapper.table"), (results.get("pybulktable"), "PyWrapper.bulktable")):
            if t and pv and t[0] == "ok" and pv[0] == "py":
                shape = [sorted((k, c[0]) for k, c in r) for r in t[1]]
                idx = [".".join(map(str, dict((k, c) for k, c in r)[0][1])) for r in t[1]]
                if shape != pv[1] or idx != pv[2]:
                    res.violate("e2e-table", {"db": db, "entry": entry, "table": base, "size": size}, [shape[:3], idx[:3]], [pv[1][:3], pv[2][:3]], f"{what} rows differ in shape from Client.table rows", {"kind": "table-py-differs"})
            elif t and pv and t[0] == "ok" and pv[0] == "error":
                res.violate("e2e-table", {"db": db, "entry": entry, "table": base, "size": size}, "rows", pv, f"{what} raised", {"kind": "table-raised", "variant": what})
    if ctx.driver_ok:
        for (suite, case, got), ans in zip(impls, run_driver(reqs)):
            res.case(suite, case, nontrivial=bool(got[0] == "ok" and got[1]))
            model = ans.get("ok", ans)
            if model != got:
                res.disagree(suite, case, got, model)
    else:
        for suite, case, got in impls:
            res.case(suite, case)
    return res


def replay(ctx, payload):
    c = payload["case"]
    if "vbs" in c:
        print("unit case: re-run the check with the recorded seed")
        return 2
    agent = RA.Agent(db=[(tuple(o), v) for o, v in c["db"]], bulk_policy=c.get("policy") or {})
    client = W.make_client(agent, c.get("version", "v2c"), c.get("level", "noauth"))
    if c.get("variant") == "bulktable":
        rows = canon_rows(W.run(client.bulktable(RA.OID(c["table"]), bulk_size=c["size"])))
    else:
        rows = canon_rows(W.run(client.table(RA.OID(c["entry"]))))
    bad = oracle(c["db"], c["entry"], rows)
    print(bad or "ok")
    return 1 if bad else 0
