"""
C19 — registered trap listeners receive every matching notification, with its origin.

A callback is installed with the real `register_trap_callback` (its `listen` replaced by a
capture of the per-datagram decoder, so no privileged port is needed); datagram sequences mixing
valid SNMPv2-Trap notifications (0..n payload bindings of every value kind), foreign
communities, other versions, truncated and garbage datagrams are injected through the real
`SNMPTrapReceiverProtocol.datagram_received`; the callback invocations (source, PDU class,
bindings, the pythonic `TrapInfo` view) are compared with the Lean model `Snmp.Trap.deliveries`
(driver op `trap.run`, datagrams described as an independent BER reader sees them).  Thorough
adds a loopback listener on an unprivileged port.

Direct oracle: every well-formed v2c notification with the listener's community is delivered
exactly once, in order, as a Trap with the sender's address/port and exactly the bindings sent;
nothing else is delivered; an exception for one datagram does not affect later ones.

Non-trivial: sequences with at least one valid notification and one non-matching datagram.
"""
import asyncio

from harness import indep_ber as B
from harness import opslib as O
from harness import refagent as RA
from harness.c15 import deep
from harness.common import Result, run_driver

ASSUMPTIONS = ["InformRequest acknowledgement and SNMPv1 Trap-PDUs are outside the property (SNMPv2c notifications)"]

UPTIME = [1, 3, 6, 1, 2, 1, 1, 3, 0]
TRAPOID = [1, 3, 6, 1, 6, 3, 1, 1, 4, 1, 0]


def gen_dgram(rng, community):
    """returns (bytes, description for the model | None)"""
    r = rng.random()
    n = rng.randint(0, 5)
    vbs = [[UPTIME, ["ticks", rng.choice([0, 4242, 2**32 - 1])]], [TRAPOID, ["oid", [1, 3, 6, 1, 4, 1, 8072, rng.randint(1, 9)]]]]
    if rng.random() < 0.12:
        n = rng.choice([25, 60, 140])  # a big notification: datagrams of 0.5 .. 8 kB
    for i in range(n):
        vbs.append([[1, 3, 6, 1, 4, 1, 99, i + 1, rng.choice([0, 1, 300])], rng.choice(O.ALL_VALUES)])
    # any definite length form is legal (RFC 3417 8(1): "more length octets than the minimum")
    form = rng.choice(["min", "min", "min", "long1", "long2", "long3", "long4"])
    comm, version, tag = community, 1, 0xA7
    kind = "valid"
    if r < 0.5:
        pass
    elif r < 0.62:
        comm = rng.choice([b"other", community + b"x", community[:-1], b"", community.upper(), community + b"\xff", b"\x80" + community,
                           community[:1] + b"\xc3\xa9" + community[1:], community + b"\x00", community + b" "])
        kind = "foreign-community"
    elif r < 0.68:
        version = rng.choice([2, 5, 3, -1])
        kind = "other-version"
    elif r < 0.74:
        tag = rng.choice([0xA2, 0xA6])
        kind = "other-pdu"
    pdu = B.enc_pdu(tag, rng.randrange(1, 2**31), 0, 0, [(o, v) for o, v in vbs], form)
    data = B.enc_community_msg(version, comm, pdu, form)
    if 0.74 <= r < 0.87:
        data = data[: rng.randint(0, len(data) - 1)]
        kind = "truncated"
    elif r >= 0.93:
        # malformed CONTENT inside an intact wrapper (message, version, community and the PDU's own
        # header are fine; x690 decodes lazily, so nothing fails until the PDU is looked at)
        how = rng.choice(["vblist-len", "vb-len", "not-a-pdu", "oid-dangling", "vb-arity"])
        vb0 = [(o, v) for o, v in vbs]
        body = B.enc_int(rng.randrange(1, 2**31)) + B.enc_int(0) + B.enc_int(0)
        binds = [B.tlv(0x30, B.enc_oid(o) + B.enc_val(v)) for o, v in vb0]
        if how == "vblist-len":
            content = b"".join(binds)
            lst = bytes([0x30]) + B.enc_len(len(content) + rng.randint(1, 9)) + content   # the list claims more octets than the PDU holds
        elif how == "vb-len":
            o_, v_ = vb0[-1]
            c_ = B.enc_oid(o_) + B.enc_val(v_)
            b0 = bytes([0x30]) + B.enc_len(len(c_) + 1) + c_   # the last binding runs over the end of the list
            lst = B.tlv(0x30, b"".join(binds[:-1]) + b0)
        elif how == "oid-dangling":
            bad = B.tlv(0x30, B.tlv(0x06, bytes([43, 6, 1, 4, 1, 0x81])) + B.enc_val(["null"]))  # continuation bit set on the last octet
            lst = B.tlv(0x30, b"".join(binds[:1]) + bad)
        elif how == "vb-arity":
            three = B.tlv(0x30, B.enc_oid(TRAPOID) + B.enc_int(1) + B.enc_int(2))
            one = B.tlv(0x30, B.enc_oid(TRAPOID))
            lst = B.tlv(0x30, b"".join(binds[:1]) + rng.choice([three, one]))
        else:
            lst = B.tlv(0x30, b"".join(binds))
        pdu = B.tlv(0x04 if how == "not-a-pdu" else 0xA7, body + lst)
        data = B.enc_community_msg(1, community, pdu)
        kind = "inner-malformed"
    elif r >= 0.87:
        data = bytes(rng.randrange(256) for _ in range(rng.randint(0, 40)))
        kind = "garbage"
    desc = None
    try:
        m = B.parse_message(data)
        if kind == "inner-malformed":
            raise ValueError("malformed by construction")
        if m.get("version") in (0, 1) and "pdu" in m:
            desc = {"version": m["version"], "community": bytes(m["community"]).hex(), "tag": m["pdu"]["tag"] & 0x1F, "vbs": [[list(o), v] for o, v in m["pdu"]["varbinds"]]}
    except Exception:  # noqa: BLE001 - malformed for the independent reader
        desc = None
    return data, desc, kind


class Listener:
    def __init__(self, community):
        import puresnmp.api.raw as raw
        from puresnmp.credentials import V2C

        self.loop = asyncio.new_event_loop()
        self.got = []
        self.decoder = None
        orig = raw.listen

        async def fake_listen(bind_address, port, callback, loop=None):
            self.decoder = callback

        async def callback(trap):
            from puresnmp.api.pythonic import TrapInfo

            src = getattr(trap, "source", None)
            try:
                vbs = [[list(vb.oid.nodes), RA.canon_value(vb.value)] for vb in trap.value.varbinds]
            except Exception as exc:  # noqa: BLE001
                vbs = ["error", type(exc).__name__]
            try:
                ti = TrapInfo(trap)
                info = deep((ti.origin, ti.uptime, ti.oid, ti.values))
            except Exception:  # noqa: BLE001
                info = None
            self.got.append([getattr(src, "address", None), getattr(src, "port", None), type(trap).TAG if hasattr(type(trap), "TAG") else -1, vbs, info])

        raw.listen = fake_listen
        try:
            raw.register_trap_callback(callback, "127.0.0.1", 16200, V2C(community.decode()), loop=self.loop)
        finally:
            raw.listen = orig

    def inject(self, seq):
        from puresnmp.transport import SNMPTrapReceiverProtocol

        proto = SNMPTrapReceiverProtocol(self.decoder)
        raised = []

        async def go():
            for addr, port, data in seq:
                try:
                    proto.datagram_received(data, (addr, port, 0, 0) if ":" in addr else (addr, port))
                except Exception as exc:  # noqa: BLE001 - asyncio logs it and carries on
                    raised.append(type(exc).__name__)
                await asyncio.sleep(0)
            for _ in range(3):
                await asyncio.sleep(0)

        self.loop.run_until_complete(go())
        return raised

    def close(self):
        self.loop.close()


def oracle(community, seq, descs, got):
    want = []
    for (addr, port, _data), d in zip(seq, descs):
        if d and d["version"] == 1 and bytes.fromhex(d["community"]) == community and d["tag"] == 7:
            want.append([addr, port, d["vbs"]])
    have = [[g[0], g[1], g[3]] for g in got if g[2] == 7]
    if have != want:
        if len(have) < len(want):
            return f"{len(want) - len(have)} matching notification(s) were not delivered"
        return "deliveries differ from the matching notifications sent (source, bindings, order or multiplicity)"
    return None


def one_sequence(ctx, res, community, n):
    seq, descs, kinds = [], [], []
    for _ in range(n):
        data, desc, kind = gen_dgram(ctx.rng, community)
        if ctx.rng.random() < 0.25:  # IPv6 senders: asyncio reports (host, port, flowinfo, scope_id)
            addr = ctx.rng.choice(["::1", "2001:db8::%x" % ctx.rng.randint(1, 65535), "fe80::1"])
        else:
            addr = "10.%d.%d.%d" % (ctx.rng.randint(0, 255), ctx.rng.randint(0, 255), ctx.rng.randint(1, 254))
        seq.append((addr, ctx.rng.randint(1024, 65535), data))
        descs.append(desc)
        kinds.append(kind)
        res.count("dgram:" + kind)
    lst = Listener(community)
    # what is delivered must not depend on the log level of the application: every other sequence
    # runs with the library's loggers at DEBUG (records go to a null handler)
    debug = ctx.rng.random() < 0.5
    res.count("logging:" + ("debug" if debug else "off"))
    import logging

    if debug:
        logging.disable(logging.NOTSET)
        lg = logging.getLogger("puresnmp")
        old_level, old_prop = lg.level, lg.propagate
        handler = logging.NullHandler()
        lg.addHandler(handler)
        lg.setLevel(logging.DEBUG)
        lg.propagate = False
    try:
        raised = lst.inject(seq)
        got = lst.got
    finally:
        if debug:
            lg.removeHandler(handler)
            lg.setLevel(old_level)
            lg.propagate = old_prop
            logging.disable(logging.CRITICAL)
        lst.close()
    case = {"community": community.hex(), "dgrams": [[a, p, d.hex()] for a, p, d in seq], "kinds": kinds, "debug_logging": debug}
    bad = oracle(community, seq, descs, got)
    if bad:
        res.violate("trap-seq", case, "matching notifications delivered once each", {"deliveries": got[:3], "raised": raised[:3]}, bad, {"kind": "trap", "what": "not-delivered" if "not delivered" in bad else "wrong-delivery"})
    req = {"op": "trap.run", "community": community.hex(), "dgrams": [[a, p, d] for (a, p, _), d in zip(seq, descs)]}
    # … and the model handed nothing but the datagrams (`Snmp.Trap.receiveWire`: x690 mirror, glue, checks)
    wire = {"op": "trap.wire", "community": community.hex(), "dgrams": [[a, p, d.hex()] for a, p, d in seq]}
    return case, got, (req, wire), kinds


def loopback(ctx, res):
    import socket

    import puresnmp.api.raw as raw
    from puresnmp.credentials import V2C

    community = b"lo0pback"
    loop = asyncio.new_event_loop()
    got = []

    async def callback(trap):
        src = getattr(trap, "source", None)
        if type(trap).TAG != 7:
            return
        got.append([getattr(src, "address", None), getattr(src, "port", None), [[list(vb.oid.nodes), RA.canon_value(vb.value)] for vb in trap.value.varbinds]])

    s = socket.socket(socket.AF_INET, socket.SOCK_DGRAM)
    s.bind(("127.0.0.1", 0))
    port = s.getsockname()[1]
    s.close()
    try:
        raw.register_trap_callback(callback, "127.0.0.1", port, V2C(community.decode()), loop=loop)
        sender = socket.socket(socket.AF_INET, socket.SOCK_DGRAM)
        sender.bind(("127.0.0.1", 0))
        sport = sender.getsockname()[1]
        want = []
        for _ in range(ctx.budget(12, 80)):
            data, desc, kind = gen_dgram(ctx.rng, community)
            sender.sendto(data, ("127.0.0.1", port))
            loop.run_until_complete(asyncio.sleep(0.01))
            if desc and desc["version"] == 1 and bytes.fromhex(desc["community"]) == community and desc["tag"] == 7:
                want.append(["127.0.0.1", sport, desc["vbs"]])
        loop.run_until_complete(asyncio.sleep(0.05))
        sender.close()
        res.evaluations += 1
        res.count("loopback-sequences")
        if got != want:
            res.violate("trap-loopback", {"loopback": True, "sent": len(want)}, want[:3], got[:3], "loopback listener did not deliver exactly the matching notifications", {"kind": "trap", "what": "not-delivered" if len(got) < len(want) else "wrong-delivery"})
    finally:
        for t in asyncio.all_tasks(loop):
            t.cancel()
        loop.run_until_complete(loop.shutdown_asyncgens())
        loop.close()


def run(ctx):
    res = Result()
    cases, reqs = [], []
    for i in range(ctx.budget(300, 8000)):
        community = ctx.rng.choice([b"public", b"tr4ps", b"a"])
        case, got, req, kinds = one_sequence(ctx, res, community, ctx.rng.randint(1, 8))
        cases.append((case, got, kinds))
        reqs.extend(req)
    loopback(ctx, res)
    if ctx.driver_ok:
        answers = run_driver(reqs)
        for k, (case, got, kinds) in enumerate(cases):
            res.case("trap-seq", case, nontrivial="valid" in kinds and len(set(kinds)) > 1)
            for suite, ans in (("trap-seq", answers[2 * k]), ("trap-wire", answers[2 * k + 1])):
                model = ans.get("ok", {}).get("deliveries") if "ok" in ans else ans
                if model != got:
                    res.disagree(suite, case, got[:4], model[:4] if isinstance(model, list) else model)
    else:
        for case, _, kinds in cases:
            res.case("trap-seq", case)
    return res


def replay(ctx, payload):
    c = payload["case"]
    if c.get("loopback"):
        print("loopback case: re-run the check")
        return 2
    community = bytes.fromhex(c["community"])
    lst = Listener(community)
    seq = [(a, p, bytes.fromhex(d)) for a, p, d in c["dgrams"]]
    import logging

    if c.get("debug_logging"):
        logging.disable(logging.NOTSET)
        lg = logging.getLogger("puresnmp")
        lg.addHandler(logging.NullHandler())
        lg.setLevel(logging.DEBUG)
        lg.propagate = False
    raised = lst.inject(seq)
    print("deliveries", lst.got, "raised", raised)
    descs = []
    for _a, _p, data in seq:
        try:
            m = B.parse_message(data)
            descs.append({"version": m["version"], "community": bytes(m["community"]).hex(), "tag": m["pdu"]["tag"] & 0x1F, "vbs": [[list(o), v] for o, v in m["pdu"]["varbinds"]]})
        except Exception:  # noqa: BLE001
            descs.append(None)
    bad = oracle(community, seq, descs, lst.got)
    print(bad or "ok")
    return 1 if bad else 0
