"""
C10 — USM interop: requests verify under RFC 3414, authentic responses are accepted.

seam-v3    generated operations (get, getnext, multiget, set, multiset, bulkget, walks) by users
           with MD5 / SHA-1, with and without privacy, passwords and engine ids of many lengths:
           the independent reference agent (RFC 3412/3414, harness/refagent.py) must accept every
           request (no wrong digest / unsupported level / unknown user), the flags must state the
           credentials' level with the reportable bit on confirmed-class PDUs, the security
           parameters must carry the discovered engine id / boots / time and the user name, and the
           12-octet digest must verify (independent HMAC) over the datagram exactly as sent.
           Compared with the Lean model `Snmp.Usm.generate` (driver op `usm.outgoing`): the datagram
           with the digest zeroed byte for byte, and the digest = HMAC of the model's zeroed octets.
responses  authentic minimal-BER responses of the reference agent at the same level, padded so
           that the total / scoped-PDU / PDU lengths sweep 100..300 (each length-form boundary is
           crossed): all must be accepted and decoded to their content.
unit-key   `puresnmp.util.password_to_key` called with a recording hash: the 1 MiB expansion buffer
           and the localisation buffer are compared byte for byte with RFC 3414 A.2 (independent
           formula) and with the model's `expand` for passwords of every length 1..300 (quick: a
           subset) and engine ids of 5..32 octets.

Non-trivial: every request / response / key; distinct = distinct datagram or (password, engine id).
"""
import hashlib

from harness import indep_ber as B
from harness import indep_usm as U
from harness import opslib as O
from harness import rawdigest as RD
from harness import refagent as RA
from harness import walklib as W
from harness.c05 import KIND_OF, Seam, gen_op, intended
from harness.common import Result, run_driver

ASSUMPTIONS = [
    "hashlib.md5 / sha1 and hmac are trusted (the harness re-implements localisation and HMAC on top of hashlib independently)",
]
CONFIRMED = {"get", "getnext", "getbulk", "set"}


def requests(ctx, res, reqs, impls):
    from puresnmp import Client
    from puresnmp.credentials import V3, Auth, Priv

    import puresnmp_plugins.priv.verifstream as VS

    rng = ctx.rng
    # key derivation hashes 1 MiB per password: requests draw from a pool, `keys` sweeps all lengths
    pool = [(bytes(rng.randrange(1, 256) for _ in range(a)), bytes(rng.randrange(1, 256) for _ in range(b))) for a, b in ((1, 300), (2, 8), (7, 33), (8, 1), (16, 16), (63, 64), (65, 8), (100, 100), (255, 33), (300, 2))]
    for i in range(ctx.budget(500, 12000)):
        name, args = gen_op(rng)
        method = rng.choice(["md5", "sha1"])
        level = rng.choice(["auth", "authpriv", "auth", "noauth"])
        authpw, privpw = rng.choice(pool)
        pwlen = len(authpw)
        engine_id = b"\x80\x00\x1f\x88" + bytes(rng.randrange(256) for _ in range(rng.choice([1, 8, 13, 28])))
        if rng.random() < 0.15:
            engine_id = b"\x80\x00\x02\xb8\x02\xfe\x80" + b"\x00" * 13 + b"\x01"
        user = "".join(chr(rng.randrange(97, 123)) for _ in range(rng.choice([1, 4, 16, 32])))
        auth = Auth(authpw, method) if level != "noauth" else None
        priv = Priv(privpw, "verifstream") if level == "authpriv" else None
        creds = V3(user, auth, priv)
        boots, etime = rng.choice([0, 1, 127, 128, 2**31 - 1]), rng.choice([0, 255, 256, 2**31 - 1])
        v3 = RA.V3Config(engine_id=engine_id, boots=boots, clock=lambda t=etime: t)
        v3.users[user.encode()] = {"auth": (method, authpw) if auth else None, "priv": ("verifstream", privpw) if priv else None}
        agent = RA.Agent(db=[((1, 3, 6, 1, 2, 1, 1, 1, 0), ["int", 1])], v3=v3)
        seam = Seam(agent)
        ctx_name = bytes(rng.randrange(256) for _ in range(rng.choice([0, 0, 9])))
        # an explicit context engine id (proxy / sub-agent case) must not leak into the security parameters
        ctx_engine = rng.choice([b"", b"", engine_id, b"\x80\x00\x00\x09" + bytes(rng.randrange(256) for _ in range(rng.choice([1, 8, 20])))])
        client = Client("127.0.0.1", creds, sender=seam, context_name=ctx_name, engine_id=ctx_engine)
        rid = rng.randrange(1, 2**31)
        ncalls = len(VS.CALLS)
        with O.with_clock([rid] * 8):
            try:
                W.run(O.call(client, name, args))
            except Exception:  # noqa: BLE001
                pass
        case = {"op": name, "level": level, "method": method, "pwlen": pwlen, "engine_id": engine_id.hex(), "user": user}
        res.count(f"level:{level}/{method}")
        res.count(f"op:{name}")
        kind = KIND_OF[name]
        entries = [e for e in agent.log if e.get("kind") != "discovery"]
        if len(entries) != 1:
            res.violate("seam-v3", case, "one request", len(entries), "operation did not emit exactly one non-discovery request", {"kind": "usm-out", "what": "count"})
            continue
        e = entries[0]
        dg = e["datagram"]
        m = B.parse_message(dg)
        problems = []
        if e["kind"] != "request":
            problems.append(f"the reference agent rejects the request ({e['kind']})")
        want_flags = (1 if auth else 0) | (2 if priv else 0) | (4 if kind in CONFIRMED else 0)
        if m["flags"] != want_flags:
            problems.append(f"msgFlags {m['flags']:#04x}, expected {want_flags:#04x} (level of the credentials + reportable for a {kind} request)")
        if (bytes(m["engine_id"]), m["boots"], m["time"], bytes(m["user"])) != (engine_id, boots, etime, user.encode()):
            problems.append("security parameters do not carry the discovered engine id / boots / time and the user name")
        if auth and not U.verify(method, authpw, engine_id, dg, m["auth_params_offset"]):
            problems.append("the digest does not verify over the datagram as sent")
        if not auth and m["auth_params"] != b"":
            problems.append("authentication parameters present without an auth key")
        for p in problems[:1]:
            res.violate("seam-v3", case, "a request an RFC 3414 engine accepts", {"flags": m["flags"], "agent": e["kind"]}, p, {"kind": "usm-out", "what": "flags" if "msgFlags" in p else "rejected" if "rejects" in p else "digest" if "digest" in p else "params", "pdu": kind})
        vbs, a, b = intended(name, args)
        enc_calls = [c for c in VS.CALLS[ncalls:] if c[0] == "encrypt"]
        req = {"op": "usm.outgoing", "creds": {"user": user.encode().hex(), "auth": authpw.hex() if auth else None, "priv": privpw.hex() if priv else None},
               "disco": {"engine_id": engine_id.hex(), "boots": boots, "time": etime}, "ctx_engine": ctx_engine.hex(), "ctx_name": ctx_name.hex(),
               "req": {"kind": kind, "rid": rid, "a": a, "b": b, "vbs": vbs}}  # fmt: skip
        if priv and enc_calls:
            req["cipher"], req["salt"] = enc_calls[-1][6].hex(), enc_calls[-1][7].hex()
        off = m["auth_params_offset"]
        wire_zeroed = dg[: off[0]] + b"\x00" * (off[1] - off[0]) + dg[off[1] :] if auth else dg
        reqs.append(req)
        impls.append(("seam-v3", case, {"zeroed": wire_zeroed.hex(), "digest": bytes(m["auth_params"]).hex(), "auth": (method, authpw, engine_id) if auth else None}))


def responses(ctx, res):
    """authentic responses whose lengths sweep the BER length-form boundaries"""
    for level in ("auth", "authpriv", "auth-sha1", "noauth"):
        lens = range(0, 230) if not ctx.quick else list(range(0, 230, 3)) + [27, 28, 29, 100, 101, 102]
        for pad in lens:
            agent = RA.Agent(db=[((1, 3, 6, 1, 2, 1, 1, 1, 0), ["str", "61" * pad])])
            obs, _ = O.impl_op("get", {"oid": [1, 3, 6, 1, 2, 1, 1, 1, 0]}, agent, "v3", level)
            res.evaluations += 1
            res.count(f"responses:{level}")
            if agent.raw_log:
                res.count("response-total-length-127-128" if len(agent.raw_log[-1][1]) in (127, 128, 129, 130) else "response-other-length")
            want = ["ok", ["str", "61" * pad]]
            if obs["result"] != want:
                total = len(agent.raw_log[-1][1]) if agent.raw_log else None
                res.violate("responses", {"level": level, "pad": pad, "total_length": total}, want, obs["result"], "an authentic response was not accepted / decoded", {"kind": "usm-in", "what": "authentic-rejected", "level": level})
        # the agent's own usmStats counters are ordinary objects (C10_accepts_counters): an
        # authentic response carrying them is data, not an error report
        for k in range(1, 7):
            for name in ("get", "getnext"):
                oid = [1, 3, 6, 1, 6, 3, 15, 1, 1, k, 0]
                agent = RA.Agent(db=[(tuple(oid), ["counter32", 40 + k])])
                obs, _ = O.impl_op(name, {"oid": oid if name == "get" else oid[:-1]}, agent, "v3", level)
                res.evaluations += 1
                res.count(f"responses-usmstats:{level}")
                want = ["ok", ["counter32", 40 + k]] if name == "get" else ["ok", [oid, ["counter32", 40 + k]]]
                if obs["result"] != want:
                    res.violate("responses", {"level": level, "usmstats": k, "op": name}, want, obs["result"], "an authentic response carrying a usmStats counter was not accepted / decoded", {"kind": "usm-in", "what": "authentic-rejected", "level": level, "usmstats": True})


class RecordingHash:
    def __init__(self, real):
        self.real = real
        self.buffers = []

    def __call__(self, data=b""):
        self.buffers.append(bytes(data))
        return self.real(data)


def keys(ctx, res, reqs, impls):
    from puresnmp.util import password_to_key

    rng = ctx.rng
    lengths = list(range(1, 301)) if not ctx.quick else sorted(set([1, 2, 3, 5, 7, 8, 9, 15, 16, 17, 31, 32, 33, 63, 64, 65, 100, 127, 128, 129, 255, 256, 257, 299, 300] + rng.sample(range(1, 301), 10)))
    for n, ln in enumerate(lengths):
        for method, real, pad in (("md5", hashlib.md5, 16), ("sha1", hashlib.sha1, 20)):
            if ctx.quick and (n + (method == "sha1")) % 2:
                continue
            pw = bytes(rng.randrange(256) for _ in range(ln))
            eid = bytes(rng.randrange(256) for _ in range(rng.randint(5, 32)))
            rec = RecordingHash(real)
            key = password_to_key(rec, pad)(pw, eid)
            res.evaluations += 1
            res.count(f"unit-key:{method}")
            case = {"method": method, "password_length": ln, "engine_id": eid.hex()}
            want_key = U.localise(method, pw, eid)
            ok = len(rec.buffers) == 2
            if ok:
                exp, locbuf = rec.buffers
                ku = real(exp).digest()
                ok = len(exp) == 1048576 and exp == bytes(pw[i % ln] for i in range(1048576)) and locbuf == ku + eid + ku and key == want_key
            if not ok:
                res.violate("unit-key", case, want_key.hex(), key.hex(), "password-to-key derivation differs from RFC 3414 A.2 (expansion buffer / localisation buffer / key)", {"kind": "usm-key"})
            elif n % 6 == 0 and method == "md5":
                # the model's expansion, on a prefix long enough to wrap around the password many times
                k = min(1048576, 4096 + ln)
                reqs.append({"op": "key.expand", "pw": pw.hex(), "n": k})
                impls.append(("unit-key", case, exp[:k].hex()))


def run(ctx):
    res = Result()
    reqs, impls = [], []
    requests(ctx, res, reqs, impls)
    responses(ctx, res)
    keys(ctx, res, reqs, impls)
    RD.run(ctx, res, reqs, impls)
    if ctx.driver_ok:
        for (suite, case, got), ans in zip(impls, run_driver(reqs, timeout=1200)):
            res.case(suite, case)
            m = ans.get("ok", ans)
            if suite == "unit-key":
                if m != got:
                    res.disagree(suite, case, got[:80], str(m)[:80])
                continue
            if suite == "unit-rawdigest":
                if m != got:
                    res.disagree(suite, case, got[:1] + [str(got[1:])[:200]], str(m)[:200])
                continue
            if not isinstance(m, dict) or m.get("zeroed") != got["zeroed"]:
                res.disagree(suite, case, got["zeroed"][:400], str(m.get("zeroed") if isinstance(m, dict) else m)[:400])
                continue
            if got["auth"]:
                method, pw, eid = got["auth"]
                want = U.hmac96(method, U.localise(method, pw, eid), bytes.fromhex(m["zeroed"])).hex()
                if want != got["digest"]:
                    res.disagree(suite, case, got["digest"], want)
    else:
        for suite, case, _ in impls:
            res.case(suite, case)
    return res


def replay(ctx, payload):
    print("re-run the check with the recorded seed (cases are generated from VERIF_SEED)")
    return 2
