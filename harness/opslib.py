"""
Running single request/response operations of the real Client / PyWrapper against the
reference agent with a controllable request-id clock, and building the matching `ops.run`
request for the Lean model (script = what the agent actually answered).
"""
import puresnmp.util as PU

from harness import refagent as RA
from harness import walklib as W


class Clock:
    """Replacement for puresnmp.util.time: returns scripted values and counts reads."""

    def __init__(self, values):
        self.values = list(values)
        self.reads = 0

    def __call__(self):
        v = self.values[min(self.reads, len(self.values) - 1)]
        self.reads += 1
        return v


def with_clock(values):
    class _Ctx:
        def __enter__(self_inner):
            self_inner.old = PU.time
            self_inner.clock = Clock(values)
            PU.time = self_inner.clock
            return self_inner.clock

        def __exit__(self_inner, *a):
            PU.time = self_inner.old

    return _Ctx()


def canon_result(name, r):
    cv = RA.canon_value
    if name == "multiget":
        return [cv(v) for v in r]
    if name in ("get", "set"):
        return cv(r)
    if name == "multigetnext":
        return [[list(vb.oid.nodes), cv(vb.value)] for vb in r]
    if name == "getnext":
        return [list(r.oid.nodes), cv(r.value)]
    if name == "multiset":
        return [[list(k.nodes), cv(v)] for k, v in r.items()]
    if name == "bulkget":
        return {
            "scalars": [[list(k.nodes), cv(v)] for k, v in r.scalars.items()],
            "listing": [[list(k.nodes), cv(v)] for k, v in r.listing.items()],
        }
    raise ValueError(name)


def call(client, name, args):
    O = RA.OID
    if name == "multiget":
        return client.multiget([O(o) for o in args["oids"]])
    if name == "get":
        return client.get(O(args["oid"]))
    if name == "multigetnext":
        return client.multigetnext([O(o) for o in args["oids"]])
    if name == "getnext":
        return client.getnext(O(args["oid"]))
    if name == "multiset":
        return client.multiset({O(o): RA.make_value(v) for o, v in args["vbs"]})
    if name == "set":
        return client.set(O(args["vb"][0]), RA.make_value(args["vb"][1]))
    if name == "bulkget":
        return client.bulkget([O(o) for o in args["scalars"]], [O(o) for o in args["reps"]], args["max"])
    raise ValueError(name)


def impl_op(name, args, agent, version="v2c", level="noauth", clock=(1000,), community="public"):
    """Run one operation; returns (observation, client)."""
    client = W.make_client(agent, version, level, community=community)
    if version == "v3":
        # engine discovery is C12's subject: warm the client up, then observe the operation
        saved_hook, agent.hook = agent.hook, None
        try:
            W.run(client.multiget([RA.OID([1, 3, 6, 1, 2, 1, 1, 1, 0])]))
        except Exception:  # noqa: BLE001
            pass
        agent.hook = saved_hook
        del agent.log[:], agent.raw_log[:], agent.resp_log[:]
    with with_clock(clock) as clk:
        try:
            r = W.run(call(client, name, args))
            result = ["ok", canon_result(name, r)]
        except Exception as exc:  # noqa: BLE001
            result = ["error", RA.canon_exc(exc)]
        reads = clk.reads
    sent = []
    for e in agent.log:
        if W.is_request(e) and "varbinds" in e:
            sent.append({"type": e["type"], "rid": e["request_id"], "a": e["a"], "b": e["b"], "vbs": [[list(o), v] for o, v in e["varbinds"]]})
    return {"result": result, "sent": sent, "reads": reads}, client


def model_req(name, args, agent, version, clock, community="public"):
    script = []
    for out in agent.resp_log:
        m = {"pdu": {"rid": out["request_id"], "es": out["a"], "ei": out["b"], "vbs": [[list(o), v] for o, v in out["varbinds"]]}}
        if version != "v3":
            m["version"] = out["version"]
            m["community"] = bytes(out["community"]).hex()
        script.append({"ok": m})
    proto = ["v3"] if version == "v3" else [version, community.encode().hex()]
    return {"op": "ops.run", "name": name, "proto": proto, "clock": list(clock) + [clock[-1]] * 4, "script": script, **args}


def canon_model(ans):
    if "ok" not in ans:
        return ans
    return ans["ok"]


# ------------------------------------------------------------------------- generators
ALL_VALUES = [
    ["int", 0], ["int", -1], ["int", 127], ["int", 128], ["int", -129], ["int", 2**31 - 1], ["int", -(2**31)],
    ["str", ""], ["str", "00"], ["str", "68656c6c6f"], ["str", "ff" * 130],
    ["null"], ["oid", [1, 3, 6, 1, 4, 1, 8072]], ["oid", [1, 3, 6, 1, 2**32 - 1, 128, 16384]],
    ["ip", "00000000"], ["ip", "c0a80001"], ["ip", "ffffffff"],
    ["counter32", 0], ["counter32", 2**32 - 1], ["gauge32", 2**31], ["gauge32", 5],
    ["ticks", 0], ["ticks", 2**32 - 1], ["opaque", "9f780442f60000"], ["counter64", 2**64 - 1], ["counter64", 2**63],
]  # fmt: skip


def random_db(rng, n=None):
    n = n if n is not None else rng.randint(0, 14)
    db = {}
    for _ in range(n):
        depth = rng.randint(1, 4)
        oid = (1, 3, 6, 1, rng.choice([2, 4])) + tuple(rng.choice([0, 1, 2, 3, 127, 128, 300]) for _ in range(depth))
        db[oid] = rng.choice(ALL_VALUES)
    if n and rng.random() < 0.15:
        # the agent's own USM statistics are ordinary objects (SNMP-USER-BASED-SM-MIB usmStats):
        # reading them must work like reading anything else, over every protocol version
        for k in rng.sample(range(1, 7), rng.randint(1, 3)):
            db[(1, 3, 6, 1, 6, 3, 15, 1, 1, k, 0)] = ["counter32", rng.randrange(2**32)]
    return sorted(db.items())


def pick_oids(rng, db, k):
    out = []
    keys = [o for o, _ in db]
    for _ in range(k):
        r = rng.random()
        if keys and r < 0.45:
            out.append(list(rng.choice(keys)))
        elif keys and r < 0.6:
            out.append(list(rng.choice(keys)[:-1]))  # a parent: absent for GET, has successors
        elif keys and r < 0.7:
            out.append(list(keys[-1]) + [1])  # past the last instance: end of view
        elif r < 0.8 and out:
            out.append(list(out[-1]))  # duplicate
        else:
            out.append([1, 3, 6, 1, rng.choice([2, 4, 9]), rng.randint(0, 5)])
    return out


BIG_LISTS = [31, 32, 33, 40, 64, 65, 100, 129, 200, 300]


def random_op(rng, db):
    name = rng.choice(["multiget", "get", "multigetnext", "getnext", "multiset", "set", "bulkget"])
    big = rng.random() < 0.04  # long OID lists: chunking / batching thresholds
    if name in ("multiget", "multigetnext"):
        return name, {"oids": pick_oids(rng, db, rng.choice(BIG_LISTS) if big else rng.randint(1, 8))}
    if name in ("get", "getnext"):
        return name, {"oid": pick_oids(rng, db, 1)[0]}
    if name == "multiset":
        oids = []
        for o in pick_oids(rng, db, rng.randint(1, 5)):
            if o not in oids:
                oids.append(o)
        if big:
            oids += [[1, 3, 6, 1, 4, 77, k] for k in range(rng.choice(BIG_LISTS))]
        return name, {"vbs": [[o, rng.choice([v for v in ALL_VALUES if v[0] != "null" or True])] for o in oids]}
    if name == "set":
        return name, {"vb": [pick_oids(rng, db, 1)[0], rng.choice(ALL_VALUES)]}
    if big:
        return name, {"scalars": pick_oids(rng, db, rng.choice([0, 3, 40])), "reps": pick_oids(rng, db, rng.choice([1, 2, 35])), "max": rng.choice([1, 3, 50, 120])}
    return name, {"scalars": pick_oids(rng, db, rng.randint(0, 3)), "reps": pick_oids(rng, db, rng.randint(0, 3)), "max": rng.randint(0, 4)}


# "authpriv-pad": the agent pads the encrypted scoped PDU to 8-octet blocks, as DES does (RFC 3414 8.1.1.2)
PROTOS = [("v1", "noauth"), ("v2c", "noauth"), ("v3", "noauth"), ("v3", "auth"), ("v3", "authpriv"), ("v3", "auth-sha1"), ("v3", "authpriv-pad")]
