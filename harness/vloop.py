"""
Virtual-time asyncio loop with a recording datagram-endpoint factory.

`VLoop` is a real `SelectorEventLoop` whose clock is virtual: when no callback is ready it jumps
to the next scheduled timer instead of sleeping.  `create_datagram_endpoint` does not open a
socket: it builds a `FakeTransport` that records `sendto`, `close` and `abort` and plays one
scripted outcome per endpoint (reply / silence / late or duplicate replies / OS error /
connection lost), delivered through the protocol's own callbacks exactly as asyncio's selector
datagram transport does (nothing is delivered to a closed transport; `close()` schedules
`connection_lost(None)`).
"""
import asyncio
import heapq


class FakeTransport(asyncio.DatagramTransport):
    def __init__(self, loop, protocol, outcome, log):
        super().__init__()
        self.loop = loop
        self.protocol = protocol
        self.outcome = outcome
        self.log = log
        self.closing = False
        self.sent = []
        self.timers = []

    # -- transport API ---------------------------------------------------------------------
    def get_extra_info(self, name, default=None):
        return default

    def is_closing(self):
        return self.closing

    def sendto(self, data, addr=None):
        self.sent.append(bytes(data))
        self.log["sends"].append((self.loop.time(), bytes(data)))
        o = self.outcome
        k = o[0]
        if k == "reply":
            self._later(o[1], self._deliver, o[2])
        elif k == "two":
            if o[3] == o[1]:  # same instant: datagrams are delivered in the order they were sent
                self._later(o[1], self._deliver_both, o[2], o[4])
            else:
                self._later(o[1], self._deliver, o[2])
                self._later(o[3], self._deliver, o[4])
        elif k == "oserror":
            self._later(o[1], self._error)
        elif k == "lost":
            self._later(o[1], self._lost, o[2])

    def close(self):
        self.log["close_calls"] += 1
        self._shutdown(None)

    def abort(self):
        self.log["abort_calls"] += 1
        self._shutdown(None)

    # -- network side ------------------------------------------------------------------------
    def _later(self, delay, fn, *args):
        self.timers.append(self.loop.call_later(delay, fn, *args))

    def _shutdown(self, exc):
        if self.closing:
            return
        self.closing = True
        self.log["open"] -= 1
        self.loop.call_soon(self.protocol.connection_lost, exc)

    def _deliver(self, data):
        if not self.closing:
            self.protocol.datagram_received(data, ("192.0.2.1", 161))

    def _deliver_both(self, a, b):
        self._deliver(a)
        self._deliver(b)

    def _error(self):
        if not self.closing:
            self.protocol.error_received(ConnectionRefusedError(111, "Connection refused"))

    def _lost(self, with_exc):
        if not self.closing:
            self._shutdown(OSError(104, "connection lost") if with_exc else None)


class VLoop(asyncio.SelectorEventLoop):
    def __init__(self, script=None):
        super().__init__()
        self._vt = 0.0
        self.script = list(script or [])
        self.log = {"sends": [], "open": 0, "opened": 0, "close_calls": 0, "abort_calls": 0, "errors": []}
        self.set_exception_handler(lambda loop, ctx: self.log["errors"].append(str(ctx.get("exception") or ctx.get("message"))))

    def time(self):
        return self._vt

    def _run_once(self):
        if not self._ready and self._scheduled:
            while self._scheduled and self._scheduled[0]._cancelled:
                h = heapq.heappop(self._scheduled)
                h._scheduled = False
                self._timer_cancelled_count -= 1
            if self._scheduled and self._scheduled[0]._when > self._vt:
                self._vt = self._scheduled[0]._when
        super()._run_once()

    async def create_datagram_endpoint(self, protocol_factory, local_addr=None, remote_addr=None, **kw):
        protocol = protocol_factory()
        outcome = self.script.pop(0) if self.script else ["none"]
        transport = FakeTransport(self, protocol, outcome, self.log)
        self.log["open"] += 1
        self.log["opened"] += 1
        waiter = self.create_future()
        self.call_soon(protocol.connection_made, transport)
        self.call_soon(waiter.set_result, None)
        await waiter
        return transport, protocol
