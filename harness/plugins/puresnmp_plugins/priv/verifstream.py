"""
Verification-harness privacy plug-in ("verifstream"): a keyed stream transform with a fresh
salt per message.  decrypt(encrypt(x)) = x.  It records every call so that the harness can
compare the arguments the USM hands to the plug-in.  Lives in the puresnmp_plugins.priv
namespace through an extra sys.path entry (no change to the repository).
"""
import hashlib
from typing import NamedTuple

IDENTIFIER = "verifstream"
IANA_ID = 9999
CALLS = []
_COUNTER = [0]


class EncryptionResult(NamedTuple):
    encrypted_data: bytes
    salt: bytes


def keystream(key: bytes, engine_id: bytes, boots: int, time_: int, salt: bytes, n: int) -> bytes:
    out = b""
    block = 0
    seed = key + b"|" + engine_id + b"|" + str(boots).encode() + b"|" + str(time_).encode() + b"|" + salt
    while len(out) < n:
        out += hashlib.sha256(seed + block.to_bytes(4, "big")).digest()
        block += 1
    return out[:n]


def encrypt_data(localised_key: bytes, engine_id: bytes, engine_boots: int, engine_time: int, data: bytes) -> EncryptionResult:
    _COUNTER[0] += 1
    salt = _COUNTER[0].to_bytes(8, "big")
    ks = keystream(localised_key, engine_id, engine_boots, engine_time, salt, len(data))
    enc = bytes(a ^ b for a, b in zip(data, ks))
    CALLS.append(("encrypt", localised_key, engine_id, engine_boots, engine_time, data, enc, salt))
    return EncryptionResult(enc, salt)


def decrypt_data(localised_key: bytes, engine_id: bytes, engine_boots: int, engine_time: int, salt: bytes, data: bytes) -> bytes:
    ks = keystream(localised_key, engine_id, engine_boots, engine_time, salt, len(data))
    dec = bytes(a ^ b for a, b in zip(data, ks))
    CALLS.append(("decrypt", localised_key, engine_id, engine_boots, engine_time, salt, data, dec))
    return dec
