"""
Independent RFC 3414 user-based security: password-to-key (A.2), key localisation (2.6),
HMAC-MD5-96 / HMAC-SHA-96 built from RFC 2104 (ipad/opad) on top of hashlib's raw hash only.
Shares no code with puresnmp.
"""
import hashlib
from functools import lru_cache

HASHES = {"md5": (hashlib.md5, 64), "sha1": (hashlib.sha1, 64)}


@lru_cache(maxsize=None)
def password_to_key(method, password):
    """RFC 3414 A.2.1 / A.2.2: digest of the first 1048576 octets of the password repeated."""
    h = HASHES[method][0]()
    count, index, n = 0, 0, len(password)
    while count < 1048576:
        buf = bytearray(64)
        for i in range(64):
            buf[i] = password[index % n]
            index += 1
        h.update(bytes(buf))
        count += 64
    return h.digest()


@lru_cache(maxsize=None)
def localise(method, password, engine_id):
    ku = password_to_key(method, password)
    return HASHES[method][0](ku + engine_id + ku).digest()


def hmac96(method, key, data):
    hashf, block = HASHES[method]
    if len(key) > block:
        key = hashf(key).digest()
    key = key + b"\x00" * (block - len(key))
    ipad = bytes(k ^ 0x36 for k in key)
    opad = bytes(k ^ 0x5C for k in key)
    inner = hashf(ipad + data).digest()
    return hashf(opad + inner).digest()[:12]


def sign(method, password, engine_id, datagram, auth_offset):
    """Digest over the datagram with the 12 auth octets zeroed in place."""
    s, e = auth_offset
    zeroed = datagram[:s] + b"\x00" * 12 + datagram[e:]
    return hmac96(method, localise(method, password, engine_id), zeroed)


def verify(method, password, engine_id, datagram, auth_offset):
    s, e = auth_offset
    if e - s != 12:
        return False
    return sign(method, password, engine_id, datagram, auth_offset) == datagram[s:e]
