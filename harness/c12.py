"""
C12 — discovery happens first and timeliness is kept for the client's whole life.

One real SNMPv3 `Client` talks to the reference agent, whose engine clock and boot counter run
on a virtual time line shared with the client's monotonic clock (`puresnmp_plugins.mpm.v3.time`
is replaced).  Histories over  request | advance dt | reboot | request-with-refused-discovery-
reply  (dt from seconds to days) are executed; what the agent sees per datagram (probe /
request with engine id, context engine id, boots, time, and its time-window verdict) is compared
with the Lean model `Snmp.Disco.run` (driver op `disco.run`).

Direct oracle: (1) the first datagram of a fresh client is a discovery probe (empty engine id and
user, reportable, no auth) and every later request carries the discovered engine id as security
engine id and as default context engine id; (2) a discovery reply with a foreign message id
raises InvalidResponseId, one without bindings SnmpError, and nothing is cached; (3) every request
of an authenticated user is inside the agent's 150 s window, however far the clock advanced,
and every operation succeeds; after an agent reboot exactly one datagram may be outside the
window (the client learns of the reboot from the notInTimeWindow report) and the operation still
succeeds (fixed finding C12-no-resync-after-reboot).

Non-trivial: histories with at least two requests separated by a clock advance.
"""
import types
from fractions import Fraction

from harness import indep_ber as B
from harness import refagent as RA
from harness import walklib as W
from harness.common import Result, run_driver
from harness.knownsig import auth_len127

ASSUMPTIONS = [
    "client and agent clocks advance together (no drift); the client's clock is time.monotonic() as read by puresnmp_plugins.mpm.v3",
]
OID = [1, 3, 6, 1, 2, 1, 1, 1, 0]
# virtual time in ticks of 0.1 s (exact arithmetic: the client's monotonic clock returns Fractions)
DTS = [0, 1, 8, 10, 25, 1490, 1495, 1500, 1505, 1510, 2000, 36000, 1000000, 864000 * 30]


class World:
    def __init__(self, level, ctx_engine, start, boots, report_ctx="same"):
        import puresnmp_plugins.mpm.v3 as mv3

        self.now = start
        self.boot_at = 0
        self.mv3 = mv3
        self.saved = getattr(mv3, "time", None)
        mv3.time = types.SimpleNamespace(monotonic=lambda: Fraction(self.now, 10))
        self.v3 = RA.V3Config(boots=boots, clock=lambda: (self.now - self.boot_at) // 10)
        self.bad_reply = None
        self.report_ctx = report_ctx
        self.agent = RA.Agent(db=[(tuple(OID), ["str", "6f6b"])], v3=self.v3, hook=self.hook)
        # a slow discovery exchange: the probe takes `slow` ticks to reach the engine (the clock both
        # sides share advances while the client waits), the Report is back at once
        self.slow = 0
        respond = self.agent.respond

        def slow_respond(data):
            if self.slow:
                try:
                    if B.parse_message(bytes(data)).get("engine_id") == b"":
                        self.now += self.slow
                except Exception:  # noqa: BLE001
                    pass
            return respond(data)

        self.agent.respond = slow_respond
        self.client = W.make_client(self.agent, "v3", level)
        if ctx_engine:
            from puresnmp.api.raw import Context

            self.client.configure(context=Context(ctx_engine, b""))
        self.level = level

    def hook(self, agent, msg, out):
        if isinstance(out, bytes) and msg.get("engine_id") == b"" and (self.bad_reply or self.report_ctx != "same"):
            m = B.parse_message(out)
            sc = m["scoped"]
            vbs = [] if self.bad_reply == "novb" else sc["pdu"]["varbinds"]
            delta = 7 if self.bad_reply == "badid" else 0
            pdu_id = sc["pdu"]["request_id"]
            if self.bad_reply == "badid-pdu-echo":  # foreign message id, but the PDU echoes the probe's id
                delta, pdu_id = 7, m["msg_id"]
            pdu = B.enc_pdu(0xA8, pdu_id, 0, 0, vbs)
            # the contextEngineID of the Report need not be the authoritative engine id
            ctx = {"same": sc["context_engine_id"], "empty": b"", "other": b"\x80\x00\x00\x09proxy"}[self.report_ctx]
            return B.enc_v3_message(m["msg_id"] + delta, 65507, 0, m["engine_id"], m["boots"], m["time"], b"", b"", b"", B.enc_scoped(ctx, b"", pdu))
        return out

    def close(self):
        if self.saved is None:
            try:
                del self.mv3.time
            except AttributeError:
                pass
        else:
            self.mv3.time = self.saved

    def in_window(self, boots, time_):
        return boots == self.v3.boots and abs((self.now - self.boot_at) // 10 - time_) <= 150


def run_history(level, ctx_engine, start, boots, events, report_ctx="same"):
    w = World(level, ctx_engine, start, boots, report_ctx)
    trace, results, failures = [], [], []
    rebooted = False
    stale = False  # the agent rebooted since the client last sent it a request inside the window
    try:
        for ev in events:
            if ev[0] == "advance":
                w.now += ev[1]
                continue
            if ev[0] == "reboot":
                w.v3.boots += 1
                w.boot_at = w.now
                rebooted = True
                stale = True
                continue
            w.bad_reply = ev[1] if ev[0] == "request-bad-reply" else None
            w.slow = ev[1] if ev[0] == "request-slow" else 0
            n = len(w.agent.log)
            try:
                # every kind of confirmed-class request has to keep working, not only GET: the
                # operation changes from request to request (the model is indifferent to it)
                kind = len(results) % 4
                if kind == 0:
                    W.run(w.client.get(RA.OID(OID)))
                elif kind == 1:
                    W.run(w.client.getnext(RA.OID(OID[:-2])))
                elif kind == 2:
                    W.run(w.client.bulkget([], [RA.OID(OID[:-2])], 1))
                else:
                    W.run(w.client.multiget([RA.OID(OID), RA.OID(OID)]))
                res = ["ok"]
            except Exception as exc:  # noqa: BLE001
                res = ["error", RA.canon_exc(exc)]
            results.append(res)
            entries = w.agent.log[n:]
            for e in entries:
                if e.get("kind") == "discovery":
                    trace.append(["probe"])
                    if e["user"] != b"" or e["flags"] & 3 or not e["flags"] & 4:
                        failures.append(("probe is not noAuthNoPriv / reportable / anonymous", rebooted))
                else:
                    ctx = None
                    try:
                        m = B.parse_message(e["datagram"])
                        ctx = bytes(m["scoped"]["context_engine_id"]).hex() if "scoped" in m else (bytes(e["context_engine_id"]).hex() if "context_engine_id" in e else None)
                    except Exception:  # noqa: BLE001
                        pass
                    iw = w.in_window(e["boots"], e["time"])
                    trace.append(["req", bytes(e["engine_id"]).hex(), ctx, e["boots"], e["time"], iw])
                    if bytes(e["engine_id"]) != w.v3.engine_id:
                        failures.append(("request does not carry the discovered engine id", rebooted))
                    if ctx is not None and ctx != (ctx_engine or w.v3.engine_id).hex():
                        failures.append(("context engine id is neither the configured nor the discovered one", rebooted))
                    if iw:
                        stale = False
                    elif level != "noauth" and stale:
                        # the one attempt the client cannot avoid: it learns of the reboot from the
                        # notInTimeWindow report; the operation itself must still succeed (below)
                        stale = False
                    elif level != "noauth":
                        failures.append((f"request outside the agent's time window: sent boots={e['boots']} time={e['time']}, agent boots={w.v3.boots} time={(w.now - w.boot_at) // 10}", rebooted))
            first_req = next((i for i, t in enumerate(trace) if t[0] == "req"), None)
            if first_req is not None and ["probe"] not in trace[:first_req]:
                failures.append(("request sent before any discovery probe", rebooted))
            # the refused reply hits whichever discovery this operation performs: the initial one, or
            # the one that follows a notInTimeWindow report
            if ev[0] == "request-bad-reply" and any(e.get("kind") == "discovery" for e in entries):
                want = ["error", ["invalidResponseId"]] if ev[1].startswith("badid") else ["error", ["snmpError"]]
                if res != want:
                    failures.append((f"refused discovery reply ({ev[1]}) gave {res}", rebooted))
            elif level != "noauth" and res != ["ok"] and not (res == ["error", ["authError"]] and w.agent.raw_log and auth_len127(w.agent.raw_log[-1][1])):
                failures.append((f"request failed with {res} at agent time {w.now - w.boot_at}", rebooted))
    finally:
        w.close()
    return trace, results, failures


def gen_history(rng, quick):
    evs = []
    for _ in range(rng.randint(1, 6 if quick else 12)):
        r = rng.random()
        if r < 0.5:
            evs.append(["request"])
        elif r < 0.85:
            evs.append(["advance", rng.choice(DTS + [rng.randint(0, 400)])])
        elif r < 0.93:
            evs.append(["reboot"])
        elif r < 0.96:
            evs.append(["request-slow", rng.choice([3, 15, 600, 1400, 2000, 100000])])
        else:
            evs.append(["request-bad-reply", rng.choice(["badid", "novb", "badid-pdu-echo"])])
    if not any(e[0].startswith("request") for e in evs):
        evs.append(["request"])
    return evs


def small_histories():
    """all histories request (advance dt request)* of length <= 3 requests over the boundary advances"""
    out = []
    for d1 in [0, 8, 1490, 1500, 1510, 1000000]:
        out.append([["request"], ["advance", d1], ["request"]])
        for d2 in [0, 1505, 1510, 1000000]:
            out.append([["request"], ["advance", d1], ["request"], ["advance", d2], ["request"]])
    out.append([["request"], ["reboot"], ["request"]])
    out.append([["request-bad-reply", "badid"], ["request"]])
    out.append([["request-bad-reply", "novb"], ["advance", 50], ["request"], ["advance", 2000], ["request"]])
    out.append([["request-bad-reply", "badid-pdu-echo"], ["request"]])
    # time passing DURING the discovery exchange (1.5 s, 200 s: beyond the window), later requests
    # on the data cached then; a slow re-discovery after a reboot
    out.append([["request-slow", 15], ["request"], ["advance", 7], ["request"]])
    out.append([["request-slow", 2000], ["request"], ["advance", 1000], ["request"]])
    out.append([["request"], ["reboot"], ["request-slow", 1600], ["request"]])
    # a long poll at non-integral spacing: 0.8 s x 200 requests, 2.5 s x 70 requests
    out.append([x for _ in range(200) for x in (["request"], ["advance", 8])])
    out.append([x for _ in range(70) for x in (["request"], ["advance", 25])])
    # a long-lived client: the agent restarts again and again (12 reboots, each followed by requests;
    # with and without time passing in between)
    out.append([["request"]] + [x for _ in range(12) for x in (["reboot"], ["request"], ["request"])])
    out.append([["request"]] + [x for k in range(12) for x in (["advance", [0, 8, 700, 2000][k % 4]], ["reboot"], ["advance", [0, 8, 1490][k % 3]], ["request"])])
    return out


def run(ctx):
    res = Result()
    cases, reqs = [], []
    hist = [(h, "auth") for h in small_histories()] + [(h, "authpriv") for h in small_histories()[:8] + small_histories()[-2:]]
    for _ in range(ctx.budget(250, 6000)):
        hist.append((gen_history(ctx.rng, ctx.quick), ctx.rng.choice(["auth", "authpriv", "auth-sha1", "noauth"])))
    for events, level in hist:
        ctx_engine = ctx.rng.choice([b"", b"", b"\x80\x00\x00\x01ctx"])
        start = ctx.rng.choice([0, 107, 10000, (2**31 - 100000 - 86400 * 31) * 10 + 3])
        boots = ctx.rng.choice([0, 3, 2**16])
        report_ctx = ctx.rng.choice(["same", "same", "empty", "other"])
        trace, results, failures = run_history(level, ctx_engine, start, boots, events, report_ctx)
        case = {"level": level, "ctx": ctx_engine.hex(), "start": start, "boots": boots, "events": events, "report_ctx": report_ctx}
        res.count(f"level:{level}")
        res.count("requests", sum(1 for e in events if e[0].startswith("request")))
        res.count("reboots", sum(1 for e in events if e[0] == "reboot"))
        for what, after_reboot in failures[:1]:
            if "authError" in what:
                continue
            res.violate("e2e-time", case, "C12 oracle", {"trace": trace[-4:], "results": results[-4:]}, what, {"kind": "timeliness" if "window" in what or "failed with" in what else "discovery", "after_reboot": after_reboot})
        cases.append((case, trace))
        reqs.append({"op": "disco.run", "auth": level != "noauth", "ctx": ctx_engine.hex(), "engine_id": RA.V3Config().engine_id.hex(), "boots": boots, "start": start, "events": events})
    if ctx.driver_ok:
        for (case, trace), ans in zip(cases, run_driver(reqs)):
            evs = case["events"]
            res.case("e2e-time", case, nontrivial=sum(1 for e in evs if e[0] in ("request", "request-slow")) >= 2 and any(e[0] == "advance" and e[1] > 0 for e in evs))
            model = ans.get("ok", {}).get("trace") if "ok" in ans else ans
            if isinstance(model, list):
                # the context engine id is invisible in encrypted requests the agent refused
                model = [m[:2] + [None] + m[3:] if (m[0] == "req" and t[0] == "req" and t[2] is None) else m for m, t in zip(model, trace)] + model[len(trace) :]
            if model != trace:
                res.disagree("e2e-time", case, trace, model)
    else:
        for case, _ in cases:
            res.case("e2e-time", case)
    return res


def replay(ctx, payload):
    c = payload["case"]
    trace, results, failures = run_history(c["level"], bytes.fromhex(c["ctx"]), c["start"], c["boots"], c["events"], c.get("report_ctx", "same"))
    print("trace", trace)
    print("results", results)
    print("oracle", failures)
    return 1 if failures else 0
