"""
C17 — application types.  Correspondence of puresnmp.types with the generated/hand-written
Lean definitions, plus the direct property oracle (clamp/wrap formula, tick and IPv4 round
trips, BER round trip) evaluated on the real implementation.

Non-trivial case: any integer / tick / address actually pushed through the constructor,
`pythonize()`, `bytes()` or `decode()`; distinct = distinct input value per operation.
"""
from datetime import timedelta
from ipaddress import IPv4Address

from harness.common import Result, run_driver

ASSUMPTIONS = [
    "TimeTicks.pythonize divides by 100.0 in IEEE-754 double precision; its exactness (|err| < 5e-9 s, far below "
    "timedelta's 0.5 us rounding threshold for all ticks < 2^32) is argued in DESIGN.md and checked here on a dense "
    "prefix plus samples, not proved in Lean",
]


def _ints(ctx, bits_list, extra=()):
    vals = set(extra)
    for b in bits_list:
        for d in (-2, -1, 0, 1, 2):
            vals.add(2**b + d)
            vals.add(-(2**b) + d)
    vals.update(range(-3, 300))
    n = ctx.budget(1500, 40000)
    for _ in range(n):
        bits = ctx.rng.choice([8, 16, 31, 32, 33, 40, 63, 64, 65, 70])
        vals.add(ctx.rng.randrange(-(2**bits), 2**bits))
    return sorted(vals)


def _spec_counter(v, bits):
    if v <= 0:
        return 0
    if v >= 2**bits:
        return v % 2**bits
    return v


def run(ctx):
    from x690 import decode
    from puresnmp.types import Counter, Counter64, Gauge, IpAddress, TimeTicks

    res = Result()
    reqs, expect = [], []

    def ask(req, impl, suite, case):
        reqs.append(req)
        expect.append((suite, case, impl))

    # Python bit operators (validates Snmp.Py.land / lor)
    for _ in range(ctx.budget(400, 5000)):
        a = ctx.rng.randrange(-(2**70), 2**70) >> ctx.rng.randrange(0, 70)
        b = ctx.rng.randrange(-(2**70), 2**70) >> ctx.rng.randrange(0, 70)
        ask({"op": "py.and", "a": a, "b": b}, a & b, "unit-py", ["and", a, b])
        ask({"op": "py.or", "a": a, "b": b}, a | b, "unit-py", ["or", a, b])

    # Counter32 / Counter64 -------------------------------------------------------------
    for v in _ints(ctx, [8, 16, 31, 32, 33, 63, 64, 65, 70]):
        for cls, bits, op in ((Counter, 32, "types.counter32"), (Counter64, 64, "types.counter64")):
            got = cls(v).value
            res.count(f"{op}:{'neg' if v < 0 else 'in' if v < 2**bits else 'over'}")
            want = _spec_counter(v, bits)
            if got != want:
                res.violate("types-oracle", [op, v], want, got, f"{cls.__name__}({v}) out of spec", {"kind": "counter-range", "op": op})
            ask({"op": op, "v": v}, got, "unit-types", [op, v])
            # encode/decode round trip
            back, _ = decode(bytes(cls(v)))
            if type(back) is not cls or back.value != got:
                res.violate("types-oracle", ["ber", op, v], got, repr(back), "BER round trip changed the value", {"kind": "ber-roundtrip", "op": op})

    # unsigned types decode non-negative over their whole range ----------------------------
    for cls, tag in ((Counter, 0x41), (Gauge, 0x42), (TimeTicks, 0x43), (Counter64, 0x46)):
        width = 8 if cls is Counter64 else 4
        for raw in [b"\xff" * width, b"\x80" + b"\x00" * (width - 1), b"\x80", b"\xff", b"\x00\xff" * 2] + [
            bytes(ctx.rng.randrange(256) for _ in range(ctx.rng.randrange(1, width + 1))) for _ in range(ctx.budget(50, 1000))
        ]:
            val, _ = decode(bytes([tag, len(raw)]) + raw)
            want = int.from_bytes(raw, "big")
            res.count("unsigned-decode")
            if type(val) is not cls or val.value != want or val.value < 0:
                res.violate("types-oracle", ["unsigned", cls.__name__, raw.hex()], want, repr(val), "unsigned type decoded wrongly", {"kind": "unsigned-decode"})
            ask({"op": "types.fromBE", "b": list(raw)}, val.value, "unit-types", ["fromBE", raw.hex()])

    # TimeTicks <-> timedelta ------------------------------------------------------------
    dense = ctx.budget(2**16, 2**20)
    ticks = list(range(dense)) + [2**32 - 1, 2**32 - 2, 2**31, 2**31 - 1]
    ticks += [ctx.rng.randrange(dense, 2**32) for _ in range(ctx.budget(3000, 100000))]
    step = max(1, len(ticks) // ctx.budget(4000, 60000))
    one_us = timedelta(microseconds=1)
    bad = 0
    for i, t in enumerate(ticks):
        td = TimeTicks(t).pythonize()
        back = TimeTicks(td).value
        res.evaluations += 1
        res.count("ticks-roundtrip")
        us = td // one_us
        if back != t or us != t * 10000:
            bad += 1
            if bad <= 3:
                res.violate(
                    "types-oracle",
                    ["ticks-roundtrip", t],
                    t,
                    back,
                    f"TimeTicks(TimeTicks({t}).pythonize()) = {back}; pythonize gives {us} us",
                    {"kind": "ticks-roundtrip"},
                )
        if i % step == 0:
            ask({"op": "types.ticksToMicros", "v": t}, us, "unit-types", ["ticksToMicros", t])
            ask({"op": "types.ticksOfMicros", "v": us}, back, "unit-types", ["ticksOfMicros", us])
    # timedelta -> ticks rounds down to a whole tick
    for _ in range(ctx.budget(2000, 50000)):
        us = ctx.rng.randrange(0, 2**32 * 10000)
        got = TimeTicks(timedelta(microseconds=us)).value
        res.count("ticks-floor")
        if got != us // 10000:
            res.violate("types-oracle", ["ticks-floor", us], us // 10000, got, "timedelta -> ticks is not floor to 1/100 s", {"kind": "ticks-floor"})
        ask({"op": "types.ticksOfMicros", "v": us}, got, "unit-types", ["ticksOfMicros", us])

    # IpAddress ---------------------------------------------------------------------------
    addrs = [0, 1, 255, 256, 2**16 - 1, 2**16, 2**24 - 1, 2**24, 2**31, 2**32 - 1, 0xC0000201]
    addrs += [ctx.rng.randrange(2**32) for _ in range(ctx.budget(2000, 50000))]
    for n in addrs:
        ip = IPv4Address(n)
        raw = bytes(IpAddress(ip))
        back, _ = decode(raw)
        res.count("ipv4")
        want = bytes([0x40, 4]) + n.to_bytes(4, "big")
        if raw != want or type(back) is not IpAddress or back.value != ip or back.pythonize() != ip:
            res.violate("types-oracle", ["ipv4", n], want.hex(), [raw.hex(), repr(back)], "IpAddress conversion is not the identity", {"kind": "ipv4"})
        ask({"op": "types.ipToBytes", "v": n}, list(raw[2:]), "unit-types", ["ipToBytes", n])
        ask({"op": "types.fromBE", "b": list(raw[2:])}, int(back.value), "unit-types", ["fromBE", raw[2:].hex()])

    if ctx.driver_ok:
        answers = run_driver(reqs)
        for (suite, case, impl), ans in zip(expect, answers):
            res.case(suite, case)
            if ans.get("ok") != impl:
                res.disagree(suite, case, impl, ans)
    else:
        for suite, case, _impl in expect:
            res.case(suite, case)
    return res


def search(ctx, res):
    """Deeper oracle run on the implementation alone (called when a tie broke)."""
    from puresnmp.types import TimeTicks

    for t in range(2**18):
        back = TimeTicks(TimeTicks(t).pythonize()).value
        if back != t:
            res.violate("types-oracle", ["ticks-roundtrip", t], t, back, "tick lost in timedelta round trip", {"kind": "ticks-roundtrip"})
            return


def replay(ctx, payload):
    from puresnmp.types import Counter, Counter64, TimeTicks

    case = payload.get("case")
    print("replaying", case)
    if case and case[0] == "ticks-roundtrip":
        t = case[1]
        back = TimeTicks(TimeTicks(t).pythonize()).value
        print(f"TimeTicks(TimeTicks({t}).pythonize()).value = {back}")
        return 0 if back == t else 1
    if case and case[0] in ("types.counter32", "types.counter64"):
        cls, bits = (Counter, 32) if case[0].endswith("32") else (Counter64, 64)
        got = cls(case[1]).value
        print(f"{cls.__name__}({case[1]}).value = {got}")
        return 0 if got == _spec_counter(case[1], bits) else 1
    print("no replay routine for this case; re-run the check with the recorded seed")
    return 2
