"""
C01 — walk exactness (GETNEXT walks).  End-to-end correspondence: event trace (requests,
yields, outcome) of the real Client.walk / Client.multiwalk / PyWrapper walks through the
sender seam against the reference agent, vs. the trace of the Lean model `Walk.walkGetnext`
run against the model agent.  Direct oracle on every implementation trace: exactly the
instances strictly below a root, once each, agent values, ascending for one root, request
budget, and independence of the listing order of the roots.

Non-trivial case: a walk whose database has at least one instance below some root or next to
one (so that stepping out / endOfMibView / adjacency matter); distinct = distinct (db, roots,
protocol) triple.
"""
import itertools

from harness import walklib as W
from harness import walkunit as WU
from harness.common import Result, run_driver
from harness.knownsig import auth_len127

ASSUMPTIONS = [
    "agent conformance as specified in Snmp/Model/Agent.lean (lexicographic successor, endOfMibView past the end); "
    "the value bound to an OID is a function of the OID within one run",
    "roots are pairwise disjoint (the property's quantifier); an instance equal to a root may or may not be reported",
]

CORPUS = [
    ([[[1, 3, 2, 1], ["int", 1]]], [[1, 3, 3], [1, 3, 2]]),  # A1: descending roots, endOfMibView cut
    ([[[1, 3, 2, 1], ["int", 1]]], [[1, 3, 1], [1, 3, 2]]),  # empty subtree adjacent to a full one
    ([[[1, 3, 1, 1], ["int", 1]], [[1, 3, 2, 1], ["int", 2]], [[1, 3, 2, 2], ["int", 3]]], [[1, 3, 2], [1, 3, 1]]),
    ([], [[1, 3]]),
    ([[[1, 3], ["int", 1]], [[1, 3, 1], ["int", 1]]], [[1, 3]]),  # instance equal to the root
]


def _cases(ctx):
    for db, roots in CORPUS:
        yield db, roots, "v2c", "noauth", "corpus"
    scope = list(W.small_scope())
    keep = ctx.budget(3500, len(scope))
    if keep < len(scope):
        scope = ctx.rng.sample(scope, keep)
    for db, roots in scope:
        yield db, roots, "v2c", "noauth", "small-scope"
    protos = [("v2c", "noauth"), ("v3", "noauth"), ("v3", "auth"), ("v3", "authpriv"), ("v3", "auth-sha1"), ("v3", "authpriv-pad")]
    for i in range(ctx.budget(600, 20000)):
        db, roots = W.random_case(ctx.rng, max_inst=ctx.budget(60, 200), max_roots=ctx.budget(5, 6))
        v, lvl = protos[i % len(protos)] if i % 3 == 0 else protos[0]
        yield db, roots, v, lvl, "random"
    # big tables: the walk's bookkeeping (`yielded`, the unfinished set) after thousands of rounds
    # (uneven columns: a later column ends while an earlier one is still far from its end)
    r = ctx.rng.randrange
    for shape in [[5100 + r(200)] * 2, [1500 + r(100), 600 + r(100)], [300 + r(50), 1300 + r(50), 400 + r(50)]] + ([] if ctx.quick else [[7000 + r(500)] * 3, [16500] * 2, [12000, 3000]]):
        db, roots = W.large_case(len(shape), shape)
        yield db, roots, "v2c", "noauth", "large"


def run(ctx):
    res = Result()
    reqs, impls = [], []
    perm_checked = 0
    WU.run(ctx, res, ctx.budget(1500, 30000))  # unit level: group_varbinds / get_unfinished_walk_oids / deduped_varbinds
    for db, roots, version, level, origin in _cases(ctx):
        spec = {"db": db}
        if len(roots) == 1 and ctx.rng.random() < 0.5:
            spec["api"] = "walk"
        walk, agent = W.impl_walk(spec, roots, "getnext", version=version, level=level, budget=len(db) + 8)
        nb = len(W.below(db, roots))
        res.count(f"origin:{origin}")
        res.count(f"proto:{version}/{level}")
        res.count(f"roots:{len(roots)}")
        res.count("below:" + ("0" if nb == 0 else "1-3" if nb <= 3 else "4-15" if nb <= 15 else "16+"))
        res.count("ending:" + ("endOfMibView" if not db or max(tuple(o) for o, _ in db) < max(tuple(r) + (10**9,) for r in roots) else "step-out"))
        bad = W.oracle_exact(db, roots, walk)
        case = {"db": db, "roots": roots, "version": version, "level": level, "api": spec.get("api", "multiwalk")}
        shown = walk
        if origin == "large":
            case = {"large": [len(roots), [sum(1 for o, _ in db if o[:-1] == rt) for rt in roots]], "roots": roots, "version": version, "level": level, "api": "multiwalk"}
            shown = W.summary(walk)
        if bad and walk["outcome"] == ["error", ["authError"]] and agent.raw_log and auth_len127(agent.raw_log[-1][1]):
            # authentic response rejected: recorded finding of C10 (127-octet level), same input signature
            res.count("hit:C10-len127")
            res.violate("e2e-walk", case, "walk completes", walk, bad, {"kind": "auth-reject-len127"})
            continue
        if bad:
            res.violate("e2e-walk", case, "exactly the instances strictly below the roots", shown, bad, _signature(db, roots, walk, bad))
        # independence of the listing order (all permutations for <= 3 roots, one reversal beyond)
        if len(roots) > 1 and (origin != "small-scope" or perm_checked % 7 == 0):
            ys = sorted(tuple(e[1][0]) for e in walk["events"] if e[0] == "yield" and tuple(e[1][0]) not in map(tuple, roots))
            perms = list(itertools.permutations(roots)) if len(roots) <= 3 and origin != "large" else [roots, list(reversed(roots))]
            for p in perms[1:]:
                w2, _ = W.impl_walk({"db": db}, [list(r) for r in p], "getnext", version=version, level=level, budget=len(db) + 8)
                ys2 = sorted(tuple(e[1][0]) for e in w2["events"] if e[0] == "yield" and tuple(e[1][0]) not in map(tuple, roots))
                res.evaluations += 1
                if ys2 != ys or w2["outcome"] != walk["outcome"]:
                    res.violate(
                        "e2e-walk-order",
                        {**case, "permuted": [list(r) for r in p]},
                        [list(y) for y in ys] if origin != "large" else len(ys),
                        [list(y) for y in ys2] if origin != "large" else len(ys2),
                        "the outcome depends on the order in which the roots were listed",
                        {"kind": "walk-order-dependent"},
                    )
                    break
        perm_checked += 1
        if origin == "large" and len(db) > (3000 if ctx.quick else 12000):
            res.evaluations += 1  # oracle only: the list-based model needs ~15 s per 10^4 instances
            res.count("large:oracle-only")
            continue
        reqs.append(W.model_request({"db": db}, roots, "getnext", fuel=len(db) + 8))
        impls.append((case, walk, nb > 0 or len(db) > 0))
    # volatile agents: every object is a counter evaluated once per binding, so two columns of one
    # response that name the same instance (an empty subtree in front of another root) carry different
    # values; GETNEXT and bulk walks; compared with the model and judged by the oracle on OIDs only
    vol = []
    for i in range(ctx.budget(60, 1200)):
        db, roots = W.random_case(ctx.rng, max_inst=30, max_roots=4)
        if i % 3 == 0 and db:
            # an empty subtree right in front of a populated one
            first = tuple(db[0][0])
            roots = [r for r in roots if tuple(r) != first[:-1]] + [list(first[:-1])]
            lower = list(first[:-2]) + [first[-2] - 1] if len(first) > 2 and first[-2] > 0 else None
            if lower and not any(tuple(o)[: len(lower)] == tuple(lower) for o, _ in db):
                roots.append(lower)
            roots = [list(r) for r in dict.fromkeys(map(tuple, roots))]
            if not W.disjoint(roots):
                continue
        kind, size = ("getnext", 1) if i % 2 == 0 else ("bulk", ctx.rng.choice([1, 2, 3, 10]))
        walk, _ = W.impl_walk({"db": db, "volatile": True}, roots, kind, size=size, budget=len(db) * 2 + 8)
        res.count(f"volatile:{kind}")
        bad = W.oracle_exact(db, roots, walk, values=False)
        case = {"db": db, "roots": roots, "kind": kind, "size": size, "volatile": True}
        if bad:
            res.violate("e2e-volatile", case, "exactly the instances strictly below the roots", W.strip_values(walk), bad,
                        {"kind": "walk-volatile", "outcome": walk["outcome"]})
        reqs.append(W.model_request({"db": db}, roots, kind, size=size, fuel=len(db) * 2 + 8))
        impls.append((case, walk, True))
    if ctx.driver_ok:
        answers = run_driver(reqs)
        for (case, walk, nontrivial), ans in zip(impls, answers):
            suite = "e2e-volatile" if case.get("volatile") else "e2e-walk"
            res.case(suite, case, nontrivial)
            model = W.canon_model_walk(ans)
            if case.get("volatile"):
                if "events" in model and W.strip_values(model) != W.strip_values(W.canon_impl_walk(walk)):
                    res.disagree(suite, case, W.strip_values(walk), W.strip_values(model))
                elif "events" not in model:
                    res.disagree(suite, case, W.strip_values(walk), model)
            elif model != W.canon_impl_walk(walk):
                res.disagree(suite, case, walk, model)
    else:
        for case, _walk, nontrivial in impls:
            res.case("e2e-walk", case, nontrivial)
    return res


def _signature(db, roots, walk, bad):
    kind = "walk-incomplete" if "not yielded" in bad else "walk-duplicate" if "more than once" in bad else "walk-foreign" if "outside" in bad or "does not hold" in bad else "walk-other"
    return {"kind": kind, "sorted_roots": [list(r) for r in roots] == sorted([list(r) for r in roots])}


def search(ctx, res):
    """called when a tie broke and the sampled run found nothing: the whole small scope"""
    for db, roots in W.small_scope():
        walk, _ = W.impl_walk({"db": db}, roots, "getnext", budget=len(db) + 8)
        bad = W.oracle_exact(db, roots, walk)
        if bad:
            res.violate("e2e-walk", {"db": db, "roots": roots, "version": "v2c", "level": "noauth", "api": "multiwalk"}, "exact walk", walk, bad, _signature(db, roots, walk, bad))
            return


def replay(ctx, payload):
    case = payload["case"]
    roots = case.get("permuted", case["roots"])
    if case.get("volatile"):
        walk, _ = W.impl_walk({"db": case["db"], "volatile": True}, roots, case["kind"], size=case["size"], budget=len(case["db"]) * 2 + 8)
        bad = W.oracle_exact(case["db"], roots, walk, values=False)
        print("roots", roots, "kind", case["kind"], "size", case["size"], "(volatile agent)")
        print("trace", W.strip_values(walk))
        print("oracle:", bad or "ok")
        return 1 if bad else 0
    if "large" in case:
        case["db"] = W.large_case(*case["large"])[0]
    spec = {"db": case["db"]}
    if case.get("api") == "walk":
        spec["api"] = "walk"
    walk, _ = W.impl_walk(spec, roots, "getnext", version=case.get("version", "v2c"), level=case.get("level", "noauth"), budget=len(case["db"]) + 8)
    bad = W.oracle_exact(case["db"], roots, walk)
    print("roots", roots)
    print("trace", W.summary(walk) if "large" in case else walk)
    print("oracle:", bad or "ok")
    return 1 if bad else 0
