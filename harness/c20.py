"""
C20 — no datagram, however malformed, can hang the client or exhaust memory.

Valid v1 / v2c / v3 (noAuth, auth, authPriv) responses, a discovery Report and a v2c trap are
mutated: every single-bit flip (quick: a sample), every truncation, substitution of every TLV
header octet (identifier and length octets, located by the independent reader) by
{00, 01, 30, 7f, 80, 81, 82, 84, ff}, random byte strings, deeply nested constructed values, long
sub-identifiers.  Each mutated datagram is delivered once to a real client under a wall-clock
guard — as the response to a GETNEXT, as the reply to a discovery probe, or to the decoder
installed by `register_trap_callback` — followed by a valid exchange on the SAME client.

Tie to the Lean model: the x690 mirror `Snmp.Ber` with its iteration budget is run on the same
datagram (and on the nested USM parameter block / decrypted payload): a real hang must be one the
model predicts (`outOfFuel`).  Direct oracle: every delivery ends within the time budget with a
result or an exception, memory stays bounded (peak traced allocation <= 64 x datagram size + 4 MiB (the key derivation's 1 MiB buffers are a constant),
sampled), and the follow-up valid request on the same client succeeds.

Known findings of the x690 dependency (recorded, see DESIGN.md): the decode loop never ends on an
indefinite-length octet without a later 00 00 (signature: hang predicted by the model); decoding
one OID sub-identifier of n continuation octets costs O(n^2) (signature: superlinear oid).

Non-trivial: every mutated datagram; distinct = distinct (entry point, datagram).
"""
import asyncio
import time
import tracemalloc

from harness import berlib as BL
from harness import indep_ber as B
from harness import indep_usm as U
from harness import refagent as RA
from harness import walklib as W
from harness import rawdigest as RD
from harness import usmparams as UP
from harness.common import Result, run_driver

ASSUMPTIONS = [
    "CPU time, big-integer cost and memory are runtime facts: the Lean model bounds iterations only (partial)",
    "the wall-clock guard (0.4 s per delivery) stands for 'a small multiple of the datagram size' on this machine",
]
OID = [1, 3, 6, 1, 2, 1, 1, 1, 0]
SUBST = [0x00, 0x01, 0x02, 0x04, 0x05, 0x06, 0x30, 0x7F, 0x80, 0x81, 0x82, 0x84, 0xFF]
# identifier octets of the SNMP application types and PDUs (subclasses of the universal types in
# puresnmp: an isinstance check lets them through where an INTEGER / OCTET STRING is expected)
TAG_SUBST = [0x40, 0x41, 0x42, 0x43, 0x44, 0x45, 0x46, 0xA0, 0xA1, 0xA2, 0xA3, 0xA5, 0xA6, 0xA7, 0xA8, 0x24, 0x22, 0x31, 0x0A, 0x03, 0x09, 0x0C, 0x1E]
TAG_SUBST_QUICK = [0x43, 0x40, 0x41, 0x44, 0xA2, 0xA5, 0xA8]
BUDGET = 1.0  # CPU seconds (see berlib.guarded); generous: tracemalloc and a loaded machine cost a factor ~10


def budget(dg):
    """time allowed for one delivery: a constant plus a small multiple of the datagram size"""
    return BUDGET + 60e-6 * len(dg)


def fixed_clock():
    """request / message ids are int(time()): pin the clock so that captured replies still match"""
    from harness import opslib as OL

    return OL.with_clock([1000] * 64)


def header_positions(dg):
    """indices of identifier and length octets of every TLV the independent reader can reach"""
    out = set()
    tags = set()

    def walk(b, base, depth):
        i = 0
        while i < len(b) and depth < 12:
            try:
                tag, c, end = B.dec_tlv(b, i)
            except B.BerError:
                return
            hdr_end = end - len(c)
            out.update(range(base + i, base + hdr_end))
            tags.add(base + i)
            if tag & 0x20 or (tag == 4 and len(c) > 2 and c[0] == 0x30):
                walk(c, base + hdr_end, depth + 1)
            i = end

    walk(dg, 0, 0)
    return sorted(out), sorted(tags)


def mutations(ctx, dg):
    rng = ctx.rng
    out = []
    bits = range(len(dg) * 8)
    if ctx.quick and len(dg) * 8 > 160:
        bits = sorted(rng.sample(range(len(dg) * 8), 160))
    for bit in bits:
        b = bytearray(dg)
        b[bit // 8] ^= 1 << (7 - bit % 8)
        out.append(("bitflip", bytes(b)))
    cuts = range(len(dg)) if not ctx.quick else sorted(set(list(range(0, min(len(dg), 12))) + rng.sample(range(len(dg)), min(25, len(dg)))))
    for n in cuts:
        out.append(("truncate", dg[:n]))
    positions, tag_positions = header_positions(dg)
    for pos in positions:
        for v in SUBST if not ctx.quick else [0x80, 0x84, 0xFF, 0x00, 0x30, 0x02, 0x04]:
            if dg[pos] != v:
                out.append(("header", dg[:pos] + bytes([v]) + dg[pos + 1 :]))
    for pos in tag_positions:
        for v in TAG_SUBST if not ctx.quick else TAG_SUBST_QUICK:
            if dg[pos] != v:
                out.append(("header-tag", dg[:pos] + bytes([v]) + dg[pos + 1 :]))
    return out


class Scripted:
    """sender: plays queued datagrams first, then answers through the reference agent"""

    def __init__(self, agent):
        self.agent = agent
        self.queue = []

    async def __call__(self, endpoint, data, timeout=None, retries=None, **kw):
        if self.queue:
            return self.queue.pop(0)
        return await self.agent(endpoint, data, timeout=timeout, retries=retries)


def make_world(version, level):
    from puresnmp import Client

    agent = RA.Agent(db=[(tuple(OID), ["str", "6f6b"]), (tuple(OID[:-2] + [2, 0]), ["int", 7])])
    creds = W.make_client(agent, version, level).config.credentials
    s = Scripted(agent)
    return agent, s, Client("127.0.0.1", creds, sender=s)


def follow_up(client):
    """the next request on the same client: a result within 10 s of (idle) waiting, or not usable.
    A request that waits for ever burns no CPU, so this is a bound on the event loop's clock; the
    CPU guard around it catches the spinning kind."""
    import asyncio

    async def go():
        return await asyncio.wait_for(client.get(RA.OID(OID)), 10.0)

    return BL.guarded(lambda: RA.canon_value(W.run(go())), 2.0)


def deliver_response(version, level, dg, warm=True):
    """one Client call whose sender returns `dg`, then a valid request on the same client"""
    agent, s, client = make_world(version, level)
    if warm and version == "v3":
        W.run(client.get(RA.OID(OID)))
    s.queue.append(dg)
    t0 = time.process_time()
    with fixed_clock():
        r = BL.guarded(lambda: W.run(client.getnext(RA.OID(OID[:-1]))), budget(dg))
    dt = time.process_time() - t0
    s.queue.clear()
    after = follow_up(client)
    return r[0], dt, after == ("ok", ["str", "6f6b"])


def deliver_discovery(level, dg):
    agent, s, client = make_world("v3", level)
    s.queue.append(dg)
    t0 = time.process_time()
    with fixed_clock():
        r = BL.guarded(lambda: W.run(client.get(RA.OID(OID))), budget(dg))
    dt = time.process_time() - t0
    s.queue.clear()
    after = follow_up(client)
    return r[0], dt, after == ("ok", ["str", "6f6b"])


def deliver_trap(dg, valid_trap):
    from harness.c19 import Listener

    lst = Listener(b"public")
    try:
        t0 = time.process_time()
        r = BL.guarded(lambda: lst.inject([("10.0.0.1", 1234, dg)]), budget(dg))
        dt = time.process_time() - t0
        n = len(lst.got)
        lst.inject([("10.0.0.2", 1235, valid_trap)])
        return ("ok" if r[0] == "ok" else r[0]), dt, len(lst.got) == n + 1
    finally:
        lst.close()


def bases():
    with fixed_clock():
        return _bases()


def _bases():
    out = []
    for version, level in (("v1", "noauth"), ("v2c", "noauth"), ("v3", "noauth"), ("v3", "auth"), ("v3", "authpriv")):
        agent, s, client = make_world(version, level)
        W.run(client.getnext(RA.OID(OID[:-1])))
        out.append(("response", version, level, agent.raw_log[-1][1], agent))
    agent, s, client = make_world("v3", "auth")
    W.run(client.get(RA.OID(OID)))
    out.append(("discovery", "v3", "auth", agent.raw_log[0][1], agent))
    # an engine that encrypts its reports (and pads like a block cipher): what follows a damaged
    # discovery reply is an encrypted notInTimeWindow report
    agent, s, client = make_world("v3", "authpriv-pad")
    W.run(client.get(RA.OID(OID)))
    out.append(("discovery", "v3", "authpriv-pad", agent.raw_log[0][1], agent))
    trap = B.enc_community_msg(1, b"public", B.enc_pdu(0xA7, 77, 0, 0, [([1, 3, 6, 1, 2, 1, 1, 3, 0], ["ticks", 5]), ([1, 3, 6, 1, 6, 3, 1, 1, 4, 1, 0], ["oid", [1, 3, 6, 1, 4, 1, 9]]), (OID, ["str", "68"])]))
    out.append(("trap", "v2c", "noauth", trap, None))
    return out, trap


def value_mutations(entry, dg):
    """well-formed datagrams whose integer / string fields carry extreme values"""
    out = []
    try:
        m = B.parse_message(dg)
    except Exception:  # noqa: BLE001
        return out
    big = [2**31, 2**63, 2**120, -(2**120), 2**1000]
    if m.get("version") == 3:
        items = B.dec_seq(B.dec_tlv(dg)[1])
        payload = B.tlv(items[3][0], items[3][1])
        base = dict(msg_id=m["msg_id"], max_size=m["max_size"], flags=m["flags"], engine_id=bytes(m["engine_id"]), boots=m["boots"], time_=m["time"], user=bytes(m["user"]), auth_params=bytes(m["auth_params"]), priv_params=bytes(m["priv_params"]))
        for field in ("msg_id", "max_size", "boots", "time_"):
            for v in big + ([base[field] + 1, base[field] ^ 4, base[field] + 100000] if field in ("boots", "time_") else []):
                f = dict(base)
                f[field] = v
                out.append((f"value-{field}", B.enc_v3_message(f["msg_id"], f["max_size"], f["flags"], f["engine_id"], f["boots"], f["time_"], f["user"], f["auth_params"], f["priv_params"], payload)))
        for field in ("engine_id", "user", "auth_params", "priv_params"):
            for v in (b"", b"\x00" * 1000, b"\xff" * 40000):
                f = dict(base)
                f[field] = v
                out.append((f"value-{field}", B.enc_v3_message(f["msg_id"], f["max_size"], f["flags"], f["engine_id"], f["boots"], f["time_"], f["user"], f["auth_params"], f["priv_params"], payload)))
    else:
        p = m["pdu"]
        for v in big:
            out.append(("value-rid", B.enc_community_msg(m["version"], bytes(m["community"]), B.enc_pdu(p["tag"], v, p["a"], p["b"], p["varbinds"]))))
            out.append(("value-errindex", B.enc_community_msg(m["version"], bytes(m["community"]), B.enc_pdu(p["tag"], p["request_id"], 0, v, p["varbinds"]))))
            out.append(("value-int", B.enc_community_msg(m["version"], bytes(m["community"]), B.enc_pdu(p["tag"], p["request_id"], 0, 0, [(o, ["int", v]) for o, _ in p["varbinds"]]))))
        out.append(("value-manybinds", B.enc_community_msg(m["version"], bytes(m["community"]), B.enc_pdu(p["tag"], p["request_id"], 0, 0, [([1, 3, 6, 1, 2, 1, 1, i, 0], ["null"]) for i in range(3000)]))))
    return out


def special_datagrams(ctx):
    rng = ctx.rng
    out = []
    for _ in range(ctx.budget(150, 3000)):
        out.append(("random", bytes(rng.randrange(256) for _ in range(rng.choice([0, 1, 2, 6, 20, 64, 300])))))
        out.append(("random-ber", bytes(rng.choice([0x30, 0x02, 0x04, 0x06, 0x80, 0x81, 0x01, 0x00, 0xA2, 0xFF, rng.randrange(256)]) for _ in range(rng.choice([2, 6, 12, 40])))))
    out.append(("loop-witness", bytes.fromhex("300401000480")))
    for depth in (10, 100, 400):
        inner = B.tlv(5, b"")
        for _ in range(depth):
            inner = B.tlv(0x30, inner)
        pdu = B.tlv(0xA2, B.enc_int(1000) + B.enc_int(0) + B.enc_int(0) + B.tlv(0x30, B.tlv(0x30, B.enc_oid(OID) + inner)))
        out.append((f"nested-{depth}", B.enc_community_msg(1, b"public", pdu)))
    return out


def long_subid(n):
    """a v2c GETNEXT response whose OID has one sub-identifier of n continuation octets"""
    c = bytes([0x2B]) + b"\xff" * n + b"\x01"
    vb = B.tlv(0x30, B.tlv(6, c) + B.tlv(5, b""))
    return B.enc_community_msg(1, b"public", B.tlv(0xA2, B.enc_int(1000) + B.enc_int(0) + B.enc_int(0) + B.tlv(0x30, vb)))


def retention(ctx, res):
    """What stays allocated after MANY datagrams.  Each delivery is bounded by its own size, but a
    peer controls as many datagrams as it likes: whatever a datagram leaves behind for good —
    entries in process-wide caches keyed by something taken from the datagram — adds up.  Two
    streams of N distinct datagrams; the memory still traced afterwards must stay below a fifth of
    the octets delivered (+ 150 kB of slack for interpreter noise)."""
    import gc

    from harness.c19 import Listener

    n = ctx.budget(150, 600)
    was_tracing = tracemalloc.is_tracing()
    if not was_tracing:
        tracemalloc.start()
    try:
        # (a) a trap listener and datagrams that each name another unknown version / another community
        lst = Listener(b"public")
        try:
            pdu = B.enc_pdu(0xA7, 1, 0, 0, [(OID, ["str", "00" * 8])])
            lst.inject([("10.0.0.9", 999, B.enc_community_msg(1, b"public", pdu))])  # warm-up: imports, plug-in lookup
            gc.collect()
            base = tracemalloc.get_traced_memory()[0]
            total = 0
            for i in range(n):
                filler = bytes((i * 7 + k) % 251 for k in range(6000))
                # another unknown version each time, itself a 6000-octet INTEGER; every third one a foreign community instead
                dg = B.enc_community_msg(1, filler, pdu) if i % 3 == 0 else B.enc_community_msg(int.from_bytes(b"\x01" + filler, "big"), b"public", pdu)
                total += len(dg)
                lst.inject([("10.0.%d.%d" % (i // 250, i % 250 + 1), 2000 + i, dg)])
            gc.collect()
            grown = tracemalloc.get_traced_memory()[0] - base
        finally:
            lst.close()
        res.evaluations += 1
        res.count("retention:trap-listener")
        res.count("retention:trap-listener:retained-kB", max(0, grown) // 1000)
        if grown > total // 5 + 150_000:
            res.violate("retention", {"entry": "trap", "datagrams": n, "octets": total}, f"at most {total // 5 + 150_000} octets retained", grown,
                        "memory stays allocated in proportion to the number of datagrams a trap listener has seen", {"kind": "retained-memory", "entry": "trap"})
        # (b) a v3 client whose requests are answered by forged responses, each naming another (large)
        # authoritative engine id with the auth flag set: refused — and nothing may be left behind
        for method in (("auth",) if ctx.quick else ("auth", "auth-sha1")):
            agent, s, client = make_world("v3", method)
            counter = {"i": 0}

            def forge(a, msg, _out, counter=counter):
                counter["i"] += 1
                i = counter["i"]
                eid = b"\x80\x00\x1f\x88" + i.to_bytes(4, "big") + bytes((i * 13 + k) % 253 for k in range(8000))
                rid = msg["scoped"]["pdu"]["request_id"] if "scoped" in msg else 1
                sc = B.enc_scoped(b"", b"", B.enc_pdu(0xA2, rid, 0, 0, []))
                return B.enc_v3_message(msg["msg_id"], 65507, 1, eid, msg["boots"], msg["time"], bytes(msg["user"]), b"\x07" * 12, b"", sc)

            W.run(client.get(RA.OID(OID)))  # warm-up (key derivation for the real engine)
            agent.hook_v3 = forge
            # a bounded cache is no leak: let anything of up to 280 entries fill up first, then measure
            def forget():  # the reference agent's own records are not the client's memory
                for lg in (agent.log, agent.raw_log, agent.resp_log, agent.kwargs_log):
                    lg.clear()

            for _ in range(280):
                BL.guarded(lambda: W.run(client.get(RA.OID(OID))), 5.0)
            forget()
            gc.collect()
            base = tracemalloc.get_traced_memory()[0]
            refused = 0
            for _ in range(n):
                r = BL.guarded(lambda: W.run(client.get(RA.OID(OID))), 5.0)
                refused += r[0] == "error"
            agent.hook_v3 = None
            forget()
            gc.collect()
            grown = tracemalloc.get_traced_memory()[0] - base
            total = n * 8100
            res.evaluations += 1
            res.count(f"retention:forged-v3-responses:{method}")
            res.count(f"retention:forged-v3-responses:{method}:retained-kB", max(0, grown) // 1000)
            case = {"entry": "response", "level": method, "datagrams": n, "octets": total, "refused": refused}
            if refused != n:
                res.violate("retention", case, "every forged response refused", refused, "a forged response (foreign engine id, wrong digest) was not refused", {"kind": "forged-accepted"})
            elif grown > total // 5 + 150_000:
                res.violate("retention", case, f"at most {total // 5 + 150_000} octets retained", grown,
                            "memory stays allocated in proportion to the number of (refused) responses a client has seen", {"kind": "retained-memory", "entry": "response"})
            after = follow_up(client)
            if after != ("ok", ["str", "6f6b"]):
                res.violate("retention", case, "the next request succeeds", list(after)[:2], "the client is unusable after a run of forged responses", {"kind": "unusable-after", "entry": "retention"})
    finally:
        if not was_tracing:
            tracemalloc.stop()


def run(ctx):
    res = Result()
    retention(ctx, res)
    base_list, valid_trap = bases()
    cases = []
    for entry, version, level, dg, agent in base_list:
        swept = mutations(ctx, dg) if not (ctx.quick and level == "authpriv-pad") else []  # quick: field values only
        for kind, m in swept + value_mutations(entry, dg):
            cases.append((entry, version, level, kind, m))
    # correctly signed responses with fields in the indefinite length form (x690 reads them)
    for label, dg, _want in RD.indefinite_variants(ctx):
        cases.append(("response", "v3", "auth", label, dg))
    for kind, m in special_datagrams(ctx):
        entry, version, level = ctx.rng.choice([("response", "v2c", "noauth"), ("response", "v3", "auth"), ("discovery", "v3", "auth"), ("trap", "v2c", "noauth"), ("response", "v1", "noauth")])
        cases.append((entry, version, level, kind, m))
    hangs, slow = [], []
    seen = set()
    tracemalloc.start()
    unusable = {}
    for entry, version, level, kind, m in cases:
        key = (entry, version, level, m)
        if key in seen:
            continue
        seen.add(key)
        if unusable.get(entry, 0) >= 10:
            # the verdict is in (each of these costs a full time budget): do not spend an hour on the rest
            res.count(f"skipped-after-10-unusable:{entry}")
            continue
        tracemalloc.reset_peak()
        base_mem = tracemalloc.get_traced_memory()[0]
        if entry == "response":
            outcome, dt, usable = deliver_response(version, level, m)
        elif entry == "discovery":
            outcome, dt, usable = deliver_discovery(level, m)
        else:
            outcome, dt, usable = deliver_trap(m, valid_trap)
        case = {"entry": entry, "version": version, "level": level, "mutation": kind, "datagram": m.hex() if len(m) < 600 else m[:64].hex() + f"...<{len(m)} octets>"}
        res.case("mutation-sweep", case)
        res.count(f"entry:{entry}/{version}/{level}")
        res.count(f"mutation:{kind.split('-')[0]}")
        res.count(f"outcome:{outcome}")
        peak = tracemalloc.get_traced_memory()[1] - base_mem
        if outcome == "hang":
            hangs.append((case, m, level))
        elif peak > 64 * max(1, len(m)) + (6 << 20):
            res.violate("cost", {**case, "peak_bytes": peak}, "memory bounded by a small multiple of the datagram size (+ the constant key-derivation buffers)", peak, f"processing a {len(m)}-octet datagram allocated {peak >> 20} MiB", {"kind": "memory"})
        if not usable:
            unusable[entry] = unusable.get(entry, 0) + 1
            res.violate("mutation-sweep", case, "follow-up request succeeds", "follow-up failed", "the client (listener) was not usable after this datagram", {"kind": "unusable-after", "entry": entry})
    # hangs must be the ones the x690 mirror predicts
    extra = {}
    for case, m, level in hangs:
        if level == "authpriv":  # the loop may sit in the decrypted payload
            try:
                import puresnmp_plugins.priv.verifstream as VS

                pm = B.parse_message(m)
                key = U.localise("md5", b"privpass-usr", bytes(pm["engine_id"]))
                ks = VS.keystream(key, bytes(pm["engine_id"]), pm["boots"], pm["time"], bytes(pm["priv_params"]), len(pm["ciphertext"]))
                extra[m] = bytes(a ^ b for a, b in zip(pm["ciphertext"], ks))
            except Exception:  # noqa: BLE001
                pass
    forced = [m for c, m, _l in hangs if c.get("entry") == "trap"]  # register_trap_callback: Sequence.decode(data), no tag check
    predicted = BL.loop_predicted([m for _c, m, _l in hangs] + list(extra.values()), forced) if ctx.driver_ok and hangs else {}
    for case, m, level in hangs:
        p = bool(predicted.get(m) or (m in extra and predicted.get(extra[m])))
        res.violate("mutation-sweep", case, "a result or an exception within the budget", "no return", "processing did not finish within the time budget", {"kind": "hang", "x690_loop_predicted": p})
    # a peer that answers EVERY request with the same report (the datagram an attacker can replay):
    # each operation must give up after a bounded number of datagrams, and the client stays usable
    for level in ("noauth", "auth", "authpriv"):
        for stuck in ("notInTimeWindow", "unknownEngineID"):
            agent = RA.Agent(db=[(tuple(OID), ["str", "6f6b"])], v3=RA.V3Config(), budget=40)
            client = W.make_client(agent, "v3", level)
            state = {"on": True}

            def hook(a, msg, out, stuck=stuck, state=state):
                if state["on"] and msg.get("engine_id") != b"":  # discovery is answered normally
                    u = a.v3.users.get(msg["user"]) or {}
                    return a._report({**msg, "flags": msg["flags"] | 4}, stuck, user=msg["user"], auth_user=msg["user"] if u.get("auth") else None)
                return None

            agent.hook_v3 = hook
            r = BL.guarded(lambda: W.run(client.get(RA.OID(OID))), 5.0)
            n = len(agent.raw_log)
            res.evaluations += 1
            res.count(f"report-storm:{stuck}")
            case = {"entry": "report-storm", "level": level, "report": stuck, "datagrams": n}
            if r[0] != "error" or r[1] in ("AgentStop", "RecursionError") or n > 8:
                res.violate("report-storm", case, "an exception after at most 8 datagrams", [list(r)[:2], n], "a peer repeating one report keeps the client sending", {"kind": "report-storm", "report": stuck})
                continue
            state["on"] = False
            r2 = BL.guarded(lambda: W.run(client.get(RA.OID(OID))), 5.0)
            if r2[0] != "ok":
                res.violate("report-storm", case, "the next request on the same client succeeds", list(r2)[:2], "the client is unusable after the storm", {"kind": "unusable-after", "entry": "report-storm"})
    # cost of one long sub-identifier: linear?
    for n in ((2000, 8000) if ctx.quick else (2000, 8000, 16000, 60000)):
        dg = long_subid(n)
        t0 = time.process_time()
        agent, s, client = make_world("v2c", "noauth")
        s.queue.append(dg)
        from harness import opslib as OL

        with OL.with_clock([1000] * 4):  # the response carries request-id 1000
            r = BL.guarded(lambda: W.run(client.getnext(RA.OID(OID[:-1]))), 60.0)
        dt = time.process_time() - t0
        res.evaluations += 1
        res.count("long-subid")
        slow.append((n, dt))
        # linear budget: 1 microsecond per octet per... generous: 50 ms + 20 us per octet
        if dt > 0.05 + 20e-6 * len(dg):
            res.violate("cost", {"long_subidentifier_octets": n, "datagram_octets": len(dg), "seconds": round(dt, 3)}, "time linear in the datagram size", round(dt, 3), f"decoding an OID with one {n}-octet sub-identifier took {dt:.2f} s", {"kind": "superlinear", "where": "oid-subidentifier"})
    tracemalloc.stop()
    UP.run(ctx, res)  # unit level: USMSecurityParameters.decode vs the model, every identifier octet
    res.notes.append(f"long sub-identifier timings (octets, seconds): {[(n, round(t, 3)) for n, t in slow]}")
    return res


def replay(ctx, payload):
    c = payload["case"]
    if "datagram" not in c or "..." in c["datagram"]:
        print("re-run the check with the recorded seed")
        return 2
    m = bytes.fromhex(c["datagram"])
    if c["entry"] == "response":
        out = deliver_response(c["version"], c["level"], m)
    elif c["entry"] == "discovery":
        out = deliver_discovery(c["level"], m)
    else:
        out = deliver_trap(m, bases()[1])
    print("outcome, seconds, usable afterwards:", out)
    return 1 if out[0] == "hang" or not out[2] else 0
