"""
C02 — bulk walk == GETNEXT walk.  End-to-end correspondence of Client.bulkwalk (and
PyWrapper.bulkwalk / bulktable through C16) traces against the Lean model `Walk.walkBulk`, for
bulk sizes {1,2,3,10} and GETBULK truncation policies {full, k rows, partial last row, no early
stop}.  Oracle on every implementation trace: exactly the instances strictly below a root,
once each, with the agent's values, and the same set as the GETNEXT walk of the same roots.

Non-trivial: at least one instance in or next to a requested subtree; distinct = distinct
(db, roots, size, policy, protocol).
"""
from harness import walklib as W
from harness.common import Result, run_driver
from harness.knownsig import auth_len127

ASSUMPTIONS = [
    "conformant GETBULK truncation: every response holds at least one complete repetition (row); beyond that any "
    "number of further rows, a partial last row, optional stop after an all-endOfMibView row (Snmp/Model/Agent.lean)",
    "roots pairwise disjoint; value bound to an OID is a function of the OID",
]

POLICIES = [{}, {"rows": 1}, {"rows": 2}, {"cut": 1}, {"cut": 2}, {"rows": 3, "cut": 1}, {"stop": False}, {"stop": False, "cut": 1},
            # RFC 3416 4.2.3: the cut may reach into the first repetition (>= 1 binding is kept)
            {"cut": 1, "deep": True}, {"cut": 2, "deep": True, "rows": 1}, {"cut": 3, "deep": True, "rows": 2}, {"cut": 1, "deep": True, "rows": 1, "stop": False},
            # a message-size limit: at most n bindings per response, the answers to completion requests included
            {"maxvb": 1}, {"maxvb": 2}, {"maxvb": 3}, {"maxvb": 4, "stop": False}, {"maxvb": 5}]

CORPUS = [
    # A2: adjacent subtrees of different sizes, overrunning column duplicates an OID
    (
        [[[1, 3, 1, 1], ["int", 1]]] + [[[1, 3, 2, i], ["int", i]] for i in range(1, 6)] + [[[1, 3, 3, 1], ["int", 1]], [[1, 3, 4, 1], ["int", 1]], [[1, 3, 4, 2], ["int", 1]]],
        [[1, 3, 1], [1, 3, 2], [1, 3, 3]],
        2,
        {},
    ),
    ([[[1, 3, 2, 1], ["int", 1]]], [[1, 3, 1], [1, 3, 2]], 2, {}),
    ([[[1, 3, 2, 1], ["int", 1]], [[1, 3, 2, 2], ["int", 1]]], [[1, 3, 2]], 10, {"stop": False}),
]


def _cases(ctx):
    for db, roots, size, pol in CORPUS:
        yield db, roots, size, pol, "v2c", "noauth", "corpus"
    scope = list(W.small_scope())
    scope = ctx.rng.sample(scope, ctx.budget(1500, 12000))
    for i, (db, roots) in enumerate(scope):
        yield db, roots, [1, 2, 3, 10][i % 4], POLICIES[(i // 4) % len(POLICIES)], "v2c", "noauth", "small-scope"
    protos = [("v2c", "noauth"), ("v3", "noauth"), ("v3", "auth"), ("v3", "authpriv")]
    for i in range(ctx.budget(500, 15000)):
        db, roots = W.random_case(ctx.rng, max_inst=ctx.budget(50, 200), max_roots=5)
        v, lvl = protos[i % 4] if i % 4 == 0 or i % 7 == 0 else protos[0]
        yield db, roots, ctx.rng.choice([1, 2, 3, 4, 10, 25]), ctx.rng.choice(POLICIES), v, lvl, "random"
    # big tables: the shared walk loop's bookkeeping after thousands of yields
    # (uneven columns: a later column ends while an earlier one is still far from its end)
    r = ctx.rng.randrange
    for shape, size in [([5100 + r(200)] * 2, 25), ([1500 + r(100), 600 + r(100)], 25), ([400 + r(50), 1300 + r(50), 300 + r(50)], 10)] + (
        [] if ctx.quick else [([7000 + r(500)] * 3, 10), ([16500] * 2, 50), ([12000, 3000], 20)]
    ):
        db, roots = W.large_case(len(shape), shape)
        yield db, roots, size, {}, "v2c", "noauth", "large"


def run(ctx):
    res = Result()
    reqs, impls = [], []
    for db, roots, size, pol, version, level, origin in _cases(ctx):
        spec = {"db": db, "policy": pol}
        walk, agent = W.impl_walk(spec, roots, "bulk", size=size, version=version, level=level, budget=(len(db) + 8) * (len(roots) if pol.get("deep") or pol.get("maxvb") else 1))
        nb = len(W.below(db, roots))
        res.count(f"origin:{origin}")
        res.count(f"proto:{version}/{level}")
        res.count(f"roots:{len(roots)}")
        res.count(f"size:{size}")
        res.count("policy:" + (",".join(f"{k}={v}" for k, v in sorted(pol.items())) or "full"))
        case = {"db": db, "roots": roots, "size": size, "policy": pol, "version": version, "level": level}
        shown = walk
        if origin == "large":
            case = {"large": [len(roots), [sum(1 for o, _ in db if o[:-1] == rt) for rt in roots]], "roots": roots, "size": size, "policy": pol, "version": version, "level": level}
            shown = W.summary(walk)
        bad = W.oracle_exact(db, roots, walk, per_binding=bool(pol.get("deep") or pol.get("maxvb")))
        if bad and walk["outcome"] == ["error", ["authError"]] and agent.raw_log and auth_len127(agent.raw_log[-1][1]):
            res.count("hit:C10-len127")
            res.violate("e2e-bulk", case, "walk completes", walk, bad, {"kind": "auth-reject-len127"})
            continue
        if not bad:
            # same set as the GETNEXT walk of the same roots on the same agent
            ref, _ = W.impl_walk({"db": db}, roots, "getnext", version="v2c", budget=len(db) + 8)
            skip = set(map(tuple, roots))
            a = sorted(tuple(e[1][0]) for e in walk["events"] if e[0] == "yield" and tuple(e[1][0]) not in skip)
            b = sorted(tuple(e[1][0]) for e in ref["events"] if e[0] == "yield" and tuple(e[1][0]) not in skip)
            if a != b:
                bad = "bulk walk and GETNEXT walk return different instance sets"
        if bad:
            res.violate("e2e-bulk", case, "exactly the instances below the roots, as the GETNEXT walk", shown, bad, _signature(roots, bad))
        if origin == "large" and len(db) > (3000 if ctx.quick else 12000):
            res.evaluations += 1  # oracle only (the list-based model needs ~15 s per 10^4 instances)
            res.count("large:oracle-only")
            continue
        reqs.append(W.model_request(spec, roots, "bulk", size=size, fuel=(len(db) + 8) * (len(roots) if pol.get("deep") or pol.get("maxvb") else 1)))
        impls.append((case, walk, nb > 0 or len(db) > 0))
    if ctx.driver_ok:
        for (case, walk, nontrivial), ans in zip(impls, run_driver(reqs)):
            res.case("e2e-bulk", case, nontrivial)
            model = W.canon_model_walk(ans)
            if model != W.canon_impl_walk(walk):
                res.disagree("e2e-bulk", case, walk, model)
    else:
        for case, _w, nontrivial in impls:
            res.case("e2e-bulk", case, nontrivial)
    return res


def _signature(roots, bad):
    kind = "bulk-incomplete" if "not yielded" in bad else "bulk-duplicate" if "more than once" in bad else "bulk-differs" if "different" in bad else "bulk-other"
    return {"kind": kind, "multi_root": len(roots) > 1}


def search(ctx, res):
    """called when a tie broke and the sampled run found nothing: the whole small scope, first with
    the agent answering in full, then under the truncation policies (several roots only)"""
    for pols, sizes, min_roots in (([{}], (1, 2, 3), 1), ([{"maxvb": 2}, {"maxvb": 1}, {"cut": 1, "deep": True}, {"rows": 1}, {"cut": 1}], (2, 3), 2)):
        for db, roots in W.small_scope():
            if len(roots) < min_roots or len(db) < min_roots:
                continue
            for pol in pols:
                deep = bool(pol.get("deep") or pol.get("maxvb"))
                for size in sizes:
                    walk, _ = W.impl_walk({"db": db, "policy": pol}, roots, "bulk", size=size, budget=(len(db) + 8) * (len(roots) if deep else 1))
                    bad = W.oracle_exact(db, roots, walk, per_binding=deep)
                    if bad:
                        res.violate("e2e-bulk", {"db": db, "roots": roots, "size": size, "policy": pol, "version": "v2c", "level": "noauth"}, "exact bulk walk", walk, bad, _signature(roots, bad))
                        return


def replay(ctx, payload):
    case = payload["case"]
    if "large" in case:
        case["db"] = W.large_case(*case["large"])[0]
    walk, _ = W.impl_walk({"db": case["db"], "policy": case.get("policy", {})}, case["roots"], "bulk", size=case["size"], version=case.get("version", "v2c"), level=case.get("level", "noauth"), budget=len(case["db"]) + 8)
    bad = W.oracle_exact(case["db"], case["roots"], walk, per_binding=bool((case.get("policy") or {}).get("deep") or (case.get("policy") or {}).get("maxvb")))
    print("trace", W.summary(walk) if "large" in case else walk)
    print("oracle:", bad or "ok")
    return 1 if bad else 0
