"""
Shared walk machinery for C01, C02, C03, C16: running real walks through the sender seam
against the reference agent while recording the event trace, building the matching model
request, generators for databases / roots / adversarial tables, and the direct oracles.
"""
import asyncio
import itertools
import warnings

from harness import refagent as RA

warnings.simplefilter("ignore")
_LOOP = None


def loop():
    global _LOOP
    if _LOOP is None or _LOOP.is_closed():
        _LOOP = asyncio.new_event_loop()
    return _LOOP


def run(coro):
    return loop().run_until_complete(coro)


def make_client(agent, version="v2c", level="noauth", community="public", user="usr"):
    from puresnmp import Client
    from puresnmp.credentials import V1, V2C, V3, Auth, Priv

    if version == "v1":
        creds = V1(community)
    elif version == "v2c":
        creds = V2C(community)
    else:
        auth = Auth(b"authpass-" + user.encode(), "md5" if level.endswith("md5") or level in ("auth", "authpriv") else "sha1") if level != "noauth" else None
        if level in ("auth-sha1", "authpriv-sha1"):
            auth = Auth(b"authpass-" + user.encode(), "sha1")
        priv = Priv(b"privpass-" + user.encode(), "verifstream") if level.startswith("authpriv") else None
        creds = V3(user, auth, priv)
        if agent.v3 is None:
            agent.v3 = RA.V3Config()
        agent.v3.users[user.encode()] = {
            "auth": (auth.method, auth.key) if auth else None,
            "priv": (priv.method, priv.key) if priv else None,
            "pad": 8 if level.endswith("-pad") else None,  # the agent pads encrypted payloads like a block cipher
            "encrypt_reports": level.endswith("-pad"),  # … and sends its authenticated reports encrypted as well
        }
    return Client("127.0.0.1", creds, sender=agent)


def is_request(entry):
    return entry.get("version") != 3 or entry.get("kind") == "request"


class Recorder:
    """Wraps the agent so that requests and yields land in one ordered event list."""

    def __init__(self, agent):
        self.agent = agent
        self.events = []
        self._seen = 0

    def sync(self):
        for entry in self.agent.log[self._seen :]:
            if is_request(entry) and "varbinds" in entry:
                self.events.append(["req", [list(o) for o, _ in entry["varbinds"]]])
        self._seen = len(self.agent.log)


async def _consume(rec, agen):
    outcome = ["done"]
    try:
        async for vb in agen:
            rec.sync()
            oid = vb.oid if hasattr(vb, "oid") else vb[0]
            val = vb.value if hasattr(vb, "value") else vb[1]
            rec.events.append(["yield", [list(oid.nodes), RA.canon_value(val)]])
    except Exception as exc:  # noqa: BLE001 - every exception is an observable outcome
        outcome = ["error", RA.canon_exc(exc)]
    rec.sync()
    return outcome


def impl_walk(spec, roots, kind="getnext", size=10, lenient=False, version="v2c", level="noauth", budget=None, hook=None):
    """Run the real walk. spec: {"db": [...]} | {"table": {...}} (+ "policy")."""
    table = None
    if "table" in spec:
        table = {}
        for (oid, k), nxt in spec["table"]:
            key = (tuple(oid), k) if k is not None else tuple(oid)
            table[key] = tuple(nxt) if nxt is not None else None
    pol = spec.get("policy") or {}
    agent = RA.Agent(
        db=[(tuple(o), v) for o, v in spec.get("db", [])],
        table=table,
        bulk_policy={"rows": pol.get("rows"), "cut": pol.get("cut", 0), "stop_after_eom_row": pol.get("stop", True), "deep": pol.get("deep", False), "starve": pol.get("starve"), "maxvb": pol.get("maxvb")},
        budget=budget,
        hook=hook,
        volatile=bool(spec.get("volatile")),
    )
    client = make_client(agent, version, level)
    rec = Recorder(agent)
    oids = [RA.OID(r) for r in roots]
    if kind == "getnext":
        if len(oids) == 1 and spec.get("api") == "walk":
            agen = client.walk(oids[0], errors="warn" if lenient else "strict")
        else:
            agen = client.multiwalk(oids, errors="warn" if lenient else "strict")
    else:
        agen = client.bulkwalk(oids, bulk_size=size)
    outcome = run(_consume(rec, agen))
    return {"events": rec.events, "outcome": outcome}, agent


def model_request(spec, roots, kind="getnext", size=10, lenient=False, fuel=64, fault=None):
    agent = {k: spec[k] for k in ("db", "table", "policy") if k in spec}
    req = {"op": "walk.run", "agent": agent, "roots": roots, "kind": kind, "size": size, "lenient": lenient, "fuel": fuel}
    if fault:
        req["fault"] = fault
    return req


def canon_model_walk(ans):
    if "ok" not in ans:
        return ans
    r = ans["ok"]
    out = r["outcome"]
    if out[0] == "error":
        e = out[1]
        if e[0] == "other":
            out = ["error", ["other", e[1]]]
    return {"events": r["events"], "outcome": out}


def canon_impl_walk(w):
    out = w["outcome"]
    return {"events": w["events"], "outcome": out}


# ------------------------------------------------------------------------- generators
VALS = [["int", 1], ["str", "6162"], ["counter32", 7], ["gauge32", 2**31 + 5], ["ticks", 4242], ["oid", [1, 3, 6, 1]], ["ip", "c0000201"], ["counter64", 2**40], ["opaque", "00ff"], ["null"]]


def val_for(oid):
    return VALS[sum(oid) % len(VALS)]


def disjoint(roots):
    for a, b in itertools.combinations(roots, 2):
        a, b = tuple(a), tuple(b)
        if a[: len(b)] == b or b[: len(a)] == a:
            return False
    return True


SMALL_U = [(1, 3, 1, 1), (1, 3, 2, 1), (1, 3, 2, 2), (1, 3, 3, 1), (1, 3, 3, 1, 1), (1, 3, 4, 1), (1, 4, 1)]
SMALL_R = [(1, 3, 1), (1, 3, 2), (1, 3, 3), (1, 3, 4), (1, 3, 5), (1, 3, 3, 1), (1, 4)]


def small_scope():
    """all databases over SMALL_U x all ordered lists of <= 3 pairwise disjoint roots"""
    rootlists = []
    for n in (1, 2, 3):
        for combo in itertools.permutations(SMALL_R, n):
            if disjoint(combo):
                rootlists.append([list(r) for r in combo])
    for mask in range(1 << len(SMALL_U)):
        db = [[list(o), val_for(o)] for i, o in enumerate(SMALL_U) if mask >> i & 1]
        for roots in rootlists:
            yield db, roots


def random_case(rng, max_inst=60, max_roots=5):
    """a random MIB-like database (tables, scalars) and roots chosen relative to it"""
    base = [1, 3, 6, 1, rng.choice([2, 4])]
    subtrees = []
    n_sub = rng.randint(1, 6)
    arcs = sorted(rng.sample(range(1, 12), n_sub))
    db = {}
    for a in arcs:
        root = base + [a]
        subtrees.append(root)
        shape = rng.choice(["empty", "scalar", "column", "table", "deep"])
        if shape == "scalar":
            db[tuple(root + [0])] = 1
        elif shape == "column":
            for i in sorted(rng.sample(range(1, 40), rng.randint(1, 8))):
                db[tuple(root + [i])] = 1
        elif shape == "table":
            cols = rng.randint(1, 4)
            rows = sorted(rng.sample(range(1, 30), rng.randint(0, 6)))
            for c in range(1, cols + 1):
                for r in rows:
                    if rng.random() < 0.85:
                        db[tuple(root + [1, c, r])] = 1
        elif shape == "deep":
            for _ in range(rng.randint(1, 6)):
                db[tuple(root + [rng.randint(0, 3) for _ in range(rng.randint(1, 4))])] = 1
    if rng.random() < 0.3:
        db[tuple(base[:-1] + [9, 1])] = 1  # something after everything
    usm = rng.random() < 0.15
    if usm:
        # the agent's own USM statistics (usmStats) are ordinary objects: walking them must work
        # like walking anything else, over every protocol version
        for k in rng.sample(range(1, 7), rng.randint(1, 4)):
            db[(1, 3, 6, 1, 6, 3, 15, 1, 1, k, 0)] = 1
        subtrees.append(rng.choice([[1, 3, 6, 1, 6, 3, 15, 1, 1], [1, 3, 6, 1, 6], [1, 3, 6, 1, 6, 3, 15, 1, 1, 2]]))
    keys = sorted(db)
    keys = keys[: max_inst - 4] + keys[-4:] if usm and len(keys) > max_inst else keys[:max_inst]
    dbl = [[list(o), val_for(o)] for o in keys]
    cands = [list(s) for s in subtrees] + [base + [rng.randint(1, 14)] for _ in range(3)] + [list(k[:-1]) for k in keys[:: max(1, len(keys) // 4)]]
    rng.shuffle(cands)
    roots = []
    for c in cands:
        if len(roots) >= rng.randint(1, max_roots):
            break
        if c and disjoint(roots + [c]) and c not in roots:
            roots.append(c)
    if not roots:
        roots = [base]
    return dbl, roots


# ------------------------------------------------------------------------- oracles
def large_case(cols, rows, base=(1, 3, 6, 1, 4, 1, 9, 1)):
    """`cols` adjacent columns of `rows` instances each, one root per column: a big table, where
    each column's walk steps into a column that was handed out thousands of yields earlier"""
    shape = [rows] * cols if isinstance(rows, int) else list(rows)  # rows per column
    db = [[list(base) + [c, i], ["int", (c * 7 + i) % 1000]] for c in range(1, len(shape) + 1) for i in range(1, shape[c - 1] + 1)]
    return db, [list(base) + [c] for c in range(1, len(shape) + 1)]


def summary(walk):
    """a short form of a long trace for replay files"""
    ys = [e[1][0] for e in walk["events"] if e[0] == "yield"]
    return {"outcome": walk["outcome"], "requests": sum(1 for e in walk["events"] if e[0] == "req"), "yields": len(ys), "distinct": len(set(map(tuple, ys))), "first": ys[:3], "last": ys[-3:]}


def below(db, roots):
    out = []
    for o, _v in db:
        o = tuple(o)
        if any(o[: len(r)] == tuple(r) and o != tuple(r) for r in roots):
            out.append(o)
    return out


def strip_values(walk):
    """a trace with the values of the yielded bindings left out (volatile agents: OIDs only)"""
    return {"events": [[e[0], [e[1][0]]] if e[0] == "yield" else e for e in walk["events"]], "outcome": walk["outcome"]}


def oracle_exact(db, roots, walk, single_sorted=True, per_binding=False, values=True):
    """C01/C02 oracle on an implementation trace.  Returns a description or None."""
    if walk["outcome"] != ["done"]:
        return f"walk ended with {walk['outcome']}"
    ys = [tuple(e[1][0]) for e in walk["events"] if e[0] == "yield"]
    vals = {tuple(e[1][0]): e[1][1] for e in walk["events"] if e[0] == "yield"}
    dbd = {tuple(o): v for o, v in db}
    if len(set(ys)) != len(ys):
        return "an instance was yielded more than once"
    for y in ys:
        if y not in dbd:
            return f"yielded {list(y)} which the agent does not hold"
        if values and vals[y] != dbd[y]:
            return f"value of {list(y)} differs from the agent's"
        if not any(y[: len(r)] == tuple(r) for r in roots):
            return f"yielded {list(y)} outside all roots"
    yset = set(ys)
    missing = [o for o in below(db, roots) if o not in yset]
    if missing:
        return f"instances below a root were not yielded: {[list(m) for m in missing[:4]]}"
    if single_sorted and len(roots) == 1 and ys != sorted(ys):
        return "single-root walk is not in ascending order"
    nreq = sum(1 for e in walk["events"] if e[0] == "req")
    # an agent that answers with less than one repetition forces one request per binding and column
    bound = max(1, len(roots)) * (len(db) + 2) if per_binding else len(db) + 2
    if nreq > bound:
        return f"{nreq} requests for a database of {len(db)} instances"
    return None
