"""
C11 — USM privacy: the scoped PDU only ever travels as the plug-in's ciphertext.

The harness's keyed-stream privacy plug-in (`verifstream`, found through the
`puresnmp_plugins.priv` namespace; decrypt inverts encrypt, fresh salt per message) records the
arguments of every call.  Generated operations (SET values that must not be visible on the wire
included) by authPriv users with MD5 / SHA-1 localisation, many passwords, engine ids, context
names:

wire       the msgData field of the datagram is `OCTET STRING` of exactly the ciphertext the
           plug-in returned, msgPrivacyParameters is exactly its salt; the plug-in was called with
           the privacy pass-phrase localised to the agent's engine id with the user's AUTH hash
           (independent RFC 3414 derivation), the discovered engine id / boots / time, and
           `bytes(scoped PDU)` of the intended request; neither the serialised scoped PDU nor the
           SET payload occurs anywhere in the datagram.
incoming   encrypted responses are decrypted with the same key and the engine id / boots / time /
           salt found in the message (recorded decrypt call), and the result equals the agent's
           content: any plug-in whose decrypt inverts its encrypt round-trips.
Compared with the Lean model `Snmp.Usm.generate` / `processIncoming` (plug-in output supplied as oracle).

Non-trivial: every encrypted exchange; distinct = distinct datagram.
"""
from harness import indep_ber as B
from harness import indep_usm as U
from harness import opslib as O
from harness import refagent as RA
from harness import usmlib as UL
from harness import walklib as W
from harness.c05 import KIND_OF, Seam, gen_op, intended
from harness.common import Result, run_driver

ASSUMPTIONS = ["the property quantifies over plug-ins with decrypt(encrypt(x)) = x; it is exercised with one keyed stream transform"]


def run(ctx):
    from puresnmp import Client
    from puresnmp.credentials import V3, Auth, Priv

    import puresnmp_plugins.priv.verifstream as VS

    res = Result()
    rng = ctx.rng
    reqs, impls = [], []
    # key derivation hashes 1 MiB per password: draw passwords from a pool (C10 sweeps all lengths)
    pool = [(bytes(rng.randrange(1, 256) for _ in range(a)), bytes(rng.randrange(1, 256) for _ in range(b))) for a, b in ((1, 300), (8, 8), (20, 21), (64, 1), (300, 64), (33, 16))]
    for i in range(ctx.budget(500, 12000)):
        name, args = gen_op(rng)
        if name in ("set", "multiset") or i % 3 == 0:
            name = rng.choice(["set", "multiset"])
            secret = bytes(rng.randrange(256) for _ in range(rng.choice([8, 16, 40])))
            oids = [[1, 3, 6, 1, 4, 1, 99, k, 0] for k in range(1, rng.randint(2, 4))]
            args = {"vb": [oids[0], ["str", secret.hex()]]} if name == "set" else {"vbs": [[o, ["str", (secret + bytes([k])).hex()]] for k, o in enumerate(oids)]}
        else:
            secret = None
        method = rng.choice(["md5", "sha1"])
        authpw, privpw = rng.choice(pool)
        engine_id = b"\x80\x00\x1f\x88" + bytes(rng.randrange(256) for _ in range(rng.choice([1, 8, 13, 28])))
        user = "".join(chr(rng.randrange(97, 123)) for _ in range(rng.choice([1, 6, 32])))
        if i % 4 == 1:
            # the same account on the same engine again, with rotated pass-phrases / another hash:
            # keys are a function of (pass-phrase, hash, engine id), never of (engine id, user) alone
            engine_id, user = [(b"\x80\x00\x1f\x88\x04rotate", "rotating"), (b"\x80\x00\x1f\x88\x05other-engine", "rotating")][(i // 4) % 2]
            res.count("same-account-new-secrets")
        creds = V3(user, Auth(authpw, method), Priv(privpw, "verifstream"))
        boots, etime = rng.choice([0, 5, 2**31 - 1]), rng.choice([0, 300, 2**31 - 1])
        v3 = RA.V3Config(engine_id=engine_id, boots=boots, clock=lambda t=etime: t)
        v3.users[user.encode()] = {"auth": (method, authpw), "priv": ("verifstream", privpw)}
        agent = RA.Agent(db=[((1, 3, 6, 1, 2, 1, 1, 1, 0), ["str", "616263"])], v3=v3)
        seam = Seam(agent)
        ctx_name = bytes(rng.randrange(32, 127) for _ in range(rng.choice([0, 7, 40])))
        # a context engine other than the agent's own (a proxied device): keys, engine id, boots and
        # time handed to the plug-in stay those of the DISCOVERED (authoritative) engine
        ctx_engine = rng.choice([b"", b"", b"\x80\x00\x1f\x88\x09behind-proxy", bytes(rng.randrange(256) for _ in range(12))])
        client = Client("127.0.0.1", creds, sender=seam, context_name=ctx_name, engine_id=ctx_engine)
        res.count("context-engine:" + ("own" if not ctx_engine else "other"))
        rid = rng.randrange(1, 2**31)
        n0 = len(VS.CALLS)
        with O.with_clock([rid] * 8):
            try:
                result = ["ok", O.canon_result(name, W.run(O.call(client, name, args)))]
            except Exception as exc:  # noqa: BLE001
                result = ["error", RA.canon_exc(exc)]
        calls = VS.CALLS[n0:]
        case = {"op": name, "args": args if len(str(args)) < 500 else "<long>", "method": method, "engine_id": engine_id.hex(), "user": user, "ctx_name": ctx_name.hex(), "ctx_engine": ctx_engine.hex()}
        res.count(f"op:{name}")
        res.count(f"method:{method}")
        entries = [e for e in agent.log if e.get("kind") != "discovery"]
        encs = [c for c in calls if c[0] == "encrypt"]
        decs = [c for c in calls if c[0] == "decrypt"]
        if len(entries) != 1 or len(encs) != 1:
            res.violate("wire", case, "one encrypted request", {"requests": len(entries), "encrypt_calls": len(encs)}, "expected exactly one request and one plug-in encryption", {"kind": "priv", "what": "count"})
            continue
        dg = entries[0]["datagram"]
        m = B.parse_message(dg)
        _, key, eid, eboots, etime_, plain, cipher, salt = encs[0]
        want_key = U.localise(method, privpw, engine_id)
        vbs, a, b = intended(name, args)
        kind = KIND_OF[name]
        problems = []
        if "ciphertext" not in m or bytes(m["ciphertext"]) != cipher:
            problems.append("msgData is not the OCTET STRING of the plug-in's ciphertext")
        if bytes(m["priv_params"]) != salt:
            problems.append("msgPrivacyParameters is not the plug-in's salt")
        if key != want_key:
            problems.append("privacy key is not the privacy pass-phrase localised to the engine id with the authentication hash")
        if (eid, eboots, etime_) != (engine_id, boots, etime):
            problems.append("plug-in was not given the discovered engine id / boots / time")
        try:
            sc = B.dec_scoped_tlv(plain)
            p = sc["pdu"]
            if (bytes(sc["context_engine_id"]), bytes(sc["context_name"]), p["type"], p["request_id"], p["a"], p["b"], [(list(o), v) for o, v in p["varbinds"]]) != (ctx_engine or engine_id, ctx_name, kind, rid, a, b, [(o, v) for o, v in vbs]):
                problems.append("the plaintext handed to the plug-in is not the intended scoped PDU")
        except Exception:  # noqa: BLE001
            problems.append("the plaintext handed to the plug-in is not a scoped PDU")
        if plain in dg or (len(plain) > 12 and plain[4:] in dg):
            problems.append("the serialised scoped PDU is visible in the datagram")
        if secret is not None and secret in dg:
            problems.append("the SET payload is visible in the datagram")
        if ctx_name and len(ctx_name) >= 7 and ctx_name in dg:
            problems.append("the context name is visible in the datagram")
        if entries[0]["kind"] != "request":
            problems.append(f"the agent could not use the request ({entries[0]['kind']})")
        # incoming: decrypt called with the message's parameters and the same key; result = agent's content
        if agent.raw_log and entries[0]["kind"] == "request":
            rm = B.parse_message(agent.raw_log[-1][1])
            if len(decs) != 1:
                problems.append("response was not decrypted exactly once")
            else:
                _, dkey, deid, dboots, dtime, dsalt, dcipher, dplain = decs[0]
                if dkey != want_key or (deid, dboots, dtime, dsalt, dcipher) != (bytes(rm["engine_id"]), rm["boots"], rm["time"], bytes(rm["priv_params"]), bytes(rm["ciphertext"])):
                    problems.append("response decrypted with other parameters than the key and the engine id / boots / time / salt found in the message")
            out = agent.resp_log[-1]
            if name in ("set", "multiset") and result[0] == "ok":
                want = [v for _o, v in out["varbinds"]]
                got = [result[1]] if name == "set" else [v for _o, v in result[1]]
                if got != want:
                    problems.append("decrypted response content differs from what the agent sent")
            elif result[0] != "ok" and not (result[1][0] in ("noSuchOID", "errorResponse") or result[1] == ["other", "IndexError"] or result[1][0] == "faulty"):
                problems.append(f"encrypted exchange failed with {result[1]}")
        for p_ in problems[:1]:
            res.violate("wire", case, "C11 oracle", {"result": result}, p_, {"kind": "priv", "what": p_[:40]})
        req = {"op": "usm.outgoing", "creds": {"user": user.encode().hex(), "auth": authpw.hex(), "priv": privpw.hex()},
               "disco": {"engine_id": engine_id.hex(), "boots": boots, "time": etime}, "ctx_engine": ctx_engine.hex(), "ctx_name": ctx_name.hex(),
               "req": {"kind": kind, "rid": rid, "a": a, "b": b, "vbs": vbs}, "cipher": cipher.hex(), "salt": salt.hex()}  # fmt: skip
        off = m["auth_params_offset"]
        reqs.append(req)
        impls.append(("wire", case, {"zeroed": (dg[: off[0]] + b"\x00" * 12 + dg[off[1] :]).hex(), "scoped": plain.hex()}))
        # the response through the model (decrypt oracle = independent keystream)
        if agent.raw_log and entries[0]["kind"] == "request":
            rdg = agent.raw_log[-1][1]
            mreq = UL.incoming_request(rdg, user.encode(), (method, authpw), ("verifstream", privpw))
            if mreq:
                real = UL.canon_real_incoming(UL.real_incoming(rdg, creds))
                reqs.append(mreq)
                impls.append(("incoming", {**case, "response": rdg.hex()}, real))
    # one LIVE client whose account gets new secrets (pass-phrases rotated, hash switched) by
    # configure() or inside reconfigure(): every request is encrypted, and every response decrypted,
    # under the key of the credentials in force — keys are a function of (pass-phrase, hash, engine
    # id), never of (engine id, user name) alone (seeded C11-41: a key cache in the security model)
    for i in range(ctx.budget(6, 60)):
        engine_id = b"\x80\x00\x1f\x88" + bytes(rng.randrange(256) for _ in range(8))
        v3 = RA.V3Config(engine_id=engine_id)
        agent = RA.Agent(db=[((1, 3, 6, 1, 2, 1, 1, 1, 0), ["str", "616263"])], v3=v3)
        seam = Seam(agent)
        client = None
        prev = None
        for step in range(rng.randint(2, 4)):
            method = rng.choice(["md5", "sha1"])
            authpw, privpw = rng.choice(pool)
            if prev == (method, authpw, privpw):
                continue
            prev = (method, authpw, privpw)
            creds = V3("rotating", Auth(authpw, method), Priv(privpw, "verifstream"))
            v3.users[b"rotating"] = {"auth": (method, authpw), "priv": ("verifstream", privpw)}
            how = "new" if client is None else rng.choice(["configure", "reconfigure"])
            n0 = len(VS.CALLS)
            try:
                if client is None:
                    client = Client("127.0.0.1", creds, sender=seam)
                    got = W.run(client.get(RA.OID([1, 3, 6, 1, 2, 1, 1, 1, 0])))
                elif how == "configure":
                    client.configure(credentials=creds)
                    got = W.run(client.get(RA.OID([1, 3, 6, 1, 2, 1, 1, 1, 0])))
                else:
                    with client.reconfigure(credentials=creds):
                        got = W.run(client.get(RA.OID([1, 3, 6, 1, 2, 1, 1, 1, 0])))
                    client.configure(credentials=creds)
                result = ["ok", RA.canon_value(got)]
            except Exception as exc:  # noqa: BLE001
                result = ["error", RA.canon_exc(exc)]
            res.evaluations += 1
            res.count(f"live-client-rotation:{how}")
            want_key = U.localise(method, privpw, engine_id)
            calls = VS.CALLS[n0:]
            bad = None
            if any(c[1] != want_key for c in calls if c[0] in ("encrypt", "decrypt")):
                bad = "privacy key is not the one of the credentials in force (stale key after a credential change on a live client)"
            elif result != ["ok", ["str", "616263"]]:
                bad = f"request on a live client after a credential change gave {result}"
            if bad:
                res.violate("wire", {"live_client": True, "step": step, "how": how, "method": method, "engine_id": engine_id.hex()}, "C11 oracle", {"result": result}, bad, {"kind": "priv", "what": "stale-key"})
                break
    # credentials with a privacy pass-phrase but no authentication key (no such security level):
    # whatever the client does, the scoped PDU must not leave in clear
    for i in range(ctx.budget(12, 120)):
        secret = bytes(rng.randrange(256) for _ in range(16))
        privpw = rng.choice(pool)[1]
        engine_id = b"\x80\x00\x1f\x88" + bytes(rng.randrange(256) for _ in range(8))
        creds = V3("nopw", None, Priv(privpw, "verifstream"))
        v3 = RA.V3Config(engine_id=engine_id)
        v3.users[b"nopw"] = {"auth": None, "priv": None}
        agent = RA.Agent(db=[((1, 3, 6, 1, 2, 1, 1, 1, 0), ["str", "616263"])], v3=v3)
        seam = Seam(agent)
        client = Client("127.0.0.1", creds, sender=seam)
        try:
            if i % 2:
                W.run(client.set(RA.OID([1, 3, 6, 1, 4, 1, 99, 1, 0]), RA.make_value(["str", secret.hex()])))
            else:
                c2 = Client("127.0.0.1", V3("nopw"), sender=seam)
                with c2.reconfigure(credentials=creds):
                    W.run(c2.set(RA.OID([1, 3, 6, 1, 4, 1, 99, 1, 0]), RA.make_value(["str", secret.hex()])))
        except Exception:  # noqa: BLE001 - refusing is fine
            pass
        res.evaluations += 1
        res.count("priv-without-auth")
        for dg in seam.datagrams:
            try:
                m = B.parse_message(dg)
            except Exception:  # noqa: BLE001
                continue
            if m.get("engine_id") == b"":
                continue
            if secret in dg or "scoped" in m:
                res.violate("wire", {"credentials": "priv without auth", "datagram": dg.hex()}, "ciphertext or no request at all", "plaintext scoped PDU", "the scoped PDU left in clear for credentials carrying a privacy pass-phrase", {"kind": "priv", "what": "plaintext-on-the-wire"})
    if ctx.driver_ok:
        for (suite, case, got), ans in zip(impls, run_driver(reqs)):
            res.case(suite, case)
            if suite == "incoming":
                model = UL.canon_model_incoming(ans)
                if model != got:
                    res.disagree(suite, case, got, model)
                continue
            m = ans.get("ok", ans)
            if not isinstance(m, dict) or m.get("zeroed") != got["zeroed"] or m.get("scoped") != got["scoped"]:
                res.disagree(suite, case, {k: v[:300] for k, v in got.items()}, {k: str(v)[:300] for k, v in m.items()} if isinstance(m, dict) else m)
    else:
        for suite, case, _ in impls:
            res.case(suite, case)
    return res


def replay(ctx, payload):
    print("re-run the check with the recorded seed (cases are generated from VERIF_SEED)")
    return 2
