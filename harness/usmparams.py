"""
Unit-level correspondence for `USMSecurityParameters.decode` (what a discovery reply puts into the
client's cache, and what every incoming message is authenticated with) against
`Snmp.UsmParams.ofBytes` (driver op `usm.params`), with an independent oracle on everything the
real code accepts: the six values are `bytes` / `int` — exactly these types, nothing a later
request would choke on (a TimeTicks-tagged boots field would come out as a `timedelta`).

Inputs: parameter blocks of real discovery replies and responses (every level, minimal and long
length forms); every identifier octet 0..255 substituted at each of the seven TLVs; length octets
substituted; truncations; items dropped / duplicated; random octets.
"""
from harness import berlib as BL
from harness import indep_ber as B
from harness import opslib as O
from harness import refagent as RA
from harness.common import run_driver

ERR = {"SnmpError": "malformed", "UnexpectedType": "unexpectedType", "IndexError": "index", "NotImplementedError": "notImplemented", "X690Error": "x690", "ValueError": "value", "TypeError": "type"}
OID = [1, 3, 6, 1, 2, 1, 1, 1, 0]


def real(data):
    from puresnmp_plugins.security.usm import USMSecurityParameters

    def go():
        p = USMSecurityParameters.decode(bytes(data))
        return [p.authoritative_engine_id, p.authoritative_engine_boots, p.authoritative_engine_time, p.user_name, p.auth_params, p.priv_params]

    r = BL.guarded(go, 1.0)
    if r[0] == "hang":
        return ["hang"], None
    if r[0] == "error":
        return ["error", ERR.get(r[1], r[1])], None
    vals = r[1]
    want = [bytes, int, int, bytes, bytes, bytes]
    bad = [f"field {i}: {type(v).__name__}" for i, (v, t) in enumerate(zip(vals, want)) if type(v) is not t]
    if bad:
        return ["ok-bad-type", bad], bad
    return ["ok", {"engine_id": vals[0].hex(), "boots": vals[1], "time": vals[2], "user": vals[3].hex(), "auth": vals[4].hex(), "priv": vals[5].hex()}], None


def blocks(ctx):
    """msgSecurityParameters contents of real datagrams"""
    out = []
    for level in ("noauth", "auth", "authpriv"):
        for form in ("min", "long2"):
            agent = RA.Agent(db=[(tuple(OID), ["str", "6f6b"])], form=form)
            O.impl_op("get", {"oid": OID}, agent, "v3", level)
            for _req, resp in agent.raw_log[-1:]:
                items = B.dec_seq(B.dec_tlv(bytes(resp))[1])
                out.append((f"{level}/{form}", bytes(items[2][1])))
    # a discovery report's block (empty user, no digest) and a hand-made minimal one
    out.append(("minimal", bytes.fromhex("3010040280000201030201090400040004 00".replace(" ", ""))))
    return out


def tag_positions(block):
    pos = [0]
    try:
        _tag, c, _end = B.dec_tlv(block, 0)
        base = len(block) - len(c)
        i = 0
        while i < len(c):
            pos.append(base + i)
            _t, _c2, i = B.dec_tlv(c, i)
    except B.BerError:
        pass
    return pos


def variants(ctx, block):
    out = []
    tags = tag_positions(block)
    for p in tags:
        for v in range(256):
            if block[p] != v:
                out.append((f"tag@{tags.index(p)}", block[:p] + bytes([v]) + block[p + 1 :]))
    for p in tags:
        for v in (0x00, 0x7F, 0x80, 0x81, 0x82, 0x84, 0xFF):
            if p + 1 < len(block):
                out.append(("length", block[: p + 1] + bytes([v]) + block[p + 2 :]))
    for n in range(len(block)):
        out.append(("truncate", block[:n]))
    # items dropped / duplicated (outer length recomputed)
    try:
        _t, c, _e = B.dec_tlv(block, 0)
        items, i = [], 0
        while i < len(c):
            _t2, _c2, j = B.dec_tlv(c, i)
            items.append(c[i:j])
            i = j
        for k in range(len(items)):
            out.append(("drop-item", B.tlv(0x30, b"".join(items[:k] + items[k + 1 :]))))
            out.append(("dup-item", B.tlv(0x30, b"".join(items[: k + 1] + items[k:]))))
    except B.BerError:
        pass
    for _ in range(ctx.budget(40, 400)):
        out.append(("random", bytes(ctx.rng.choice([0x30, 0x02, 0x04, 0x43, 0x40, 0x80, 0x00, 0x06, ctx.rng.randrange(256)]) for _ in range(ctx.rng.randint(0, 24)))))
    return out


def run(ctx, res):
    reqs, impls = [], []
    seen = set()
    bl = blocks(ctx)
    if ctx.quick:
        bl = bl[:2] + bl[-1:]
    for label, block in bl:
        for kind, data in [("authentic", block)] + variants(ctx, block):
            if data in seen:
                continue
            seen.add(data)
            got, bad = real(data)
            res.count(f"usmparams:{kind.split('@')[0]}")
            res.count("usmparams-outcome:" + (got[1] if got[0] == "error" else got[0]))
            case = {"input": f"{label}/{kind}", "block": data.hex()}
            if bad:
                res.violate("unit-usmparams", case, "six values of type bytes / int / int / bytes / bytes / bytes, or an exception", got,
                            "security parameters with values of other types were accepted (they end up in the discovery cache)", {"kind": "unusable-after", "entry": "usm-params"})
                continue
            if kind == "authentic" and got[0] != "ok":
                res.violate("unit-usmparams", case, "accepted", got, "the parameter block of an authentic message was refused", {"kind": "usm-params-refused"})
            reqs.append({"op": "usm.params", "data": data.hex()})
            impls.append((case, got))
    if ctx.driver_ok:
        for (case, got), ans in zip(impls, run_driver(reqs)):
            res.case("unit-usmparams", case)
            m = ans.get("ok", ans) if isinstance(ans, dict) else ans
            if m == ["error", "outOfFuel"]:
                m = ["hang"]  # the mirror's counterpart of a decode loop that never ends (known finding of x690, reported by the sweep)
            if m != got:
                res.disagree("unit-usmparams", case, got, m)
    else:
        for case, _g in impls:
            res.case("unit-usmparams", case)
