"""
C09 — USM: no unauthenticated, altered or downgraded response is ever accepted.

unit-usm   the real SNMPv3 message-processing model (`mpm.create(3).decode`) on messages derived
           from authentic responses of the reference agent by structural forgeries: every flag
           combination 0..7 against the credentials, digest correct / zero / empty / short / under
           another key / under another user / for another engine id, user name replaced, plaintext
           scoped PDU under privacy credentials (with and without a valid digest), ciphertext with
           the priv flag cleared, unauthenticated Reports (known USM error OIDs and other content);
           MD5 and SHA-1, authNoPriv and authPriv.  Compared with the Lean model
           `Snmp.Usm.processIncoming` (driver op `usm.incoming`; MAC and decryption supplied as
           oracles computed independently).
mitm       a man in the middle around the reference agent flips single bits of authentic responses
           (quick: every bit of three responses; thorough: all operations x levels); the client's
           outcome must be an exception or exactly the authentic result.

Direct oracle: with an authentication key, a result is returned only for a message whose digest
verifies (independent HMAC) over the octets as sent and whose flags state the credentials' level;
anything else raises.  A case that neither returns nor raises within the time budget is a hang
(C20's subject, signature `hang`).

Non-trivial: every forged / flipped message; distinct = distinct datagram.
"""
from harness import berlib as BL
from harness import indep_ber as B
from harness import indep_usm as U
from harness import opslib as O
from harness import refagent as RA
from harness import usmlib as UL
from harness import v3wire as V3W
from harness import walklib as W
from harness.common import Result, run_driver

ASSUMPTIONS = [
    "cryptographic strength is a hypothesis of C09_same_result (unforgeability), not a theorem",
]
ENGINE = RA.V3Config().engine_id
OID = [1, 3, 6, 1, 2, 1, 1, 1, 0]
USM_WRONG_DIGEST = [1, 3, 6, 1, 6, 3, 15, 1, 1, 5, 0]


def base_exchange(level, method, target=None):
    """an authentic request / response pair for user `usr` at the given level; `target`: the
    object asked for (one of the agent's own usmStats counters is an ordinary object too)"""
    target = target or OID
    agent = RA.Agent(db=sorted([(tuple(OID), ["str", "736563726574"]), (tuple(USM_WRONG_DIGEST), ["counter32", 7])]))
    lvl = {"auth": "auth" if method == "md5" else "auth-sha1", "authpriv": "authpriv" if method == "md5" else "authpriv-sha1", "noauth": "noauth"}[level]
    client = W.make_client(agent, "v3", lvl)
    try:
        W.run(client.get(RA.OID(target)))
    except Exception:  # noqa: BLE001 - what the client makes of the response is judged by the suites
        pass
    req, resp = agent.raw_log[-1]
    creds = client.config.credentials
    user = creds.username.encode()
    auth = (creds.auth.method, creds.auth.key) if creds.auth else None
    priv = (creds.priv.method, creds.priv.key) if creds.priv else None
    return agent, creds, user, auth, priv, req, resp


def forgeries(rng, agent, user, auth, priv, resp):
    """(label, datagram) derived from the authentic response"""
    import puresnmp_plugins.priv.verifstream as VS

    m = B.parse_message(resp)
    payload = UL.payload_tlv(resp)
    out = [("authentic", resp)]
    method = auth[0] if auth else "md5"
    # plaintext scoped PDU carrying a forged value, as an attacker would build it
    forged_pdu = B.enc_pdu(0xA2, 0, 0, 0, [(OID, ["str", "666f72676564"])])
    try:
        rid = (m["scoped"]["pdu"] if "scoped" in m else B.dec_scoped_tlv(bytes(a ^ b for a, b in zip(m["ciphertext"], VS.keystream(U.localise(method, priv[1], ENGINE), ENGINE, m["boots"], m["time"], m["priv_params"], len(m["ciphertext"])))))["pdu"])["request_id"]
    except Exception:  # noqa: BLE001
        rid = 0
    forged_pdu = B.enc_pdu(0xA2, rid, 0, 0, [(OID, ["str", "666f72676564"])])
    plain_forged = B.enc_scoped(ENGINE, b"", forged_pdu)
    for flags in range(8):
        out.append((f"flags={flags}", UL.rebuild(m, flags=flags, msg_data=payload)))
        out.append((f"flags={flags}+plain-forged", UL.rebuild(m, flags=flags, msg_data=plain_forged)))
        out.append((f"flags={flags}+plain-forged+nodigest", UL.rebuild(m, flags=flags, msg_data=plain_forged, auth_params=b"")))
    for label, ap in (("zero-digest", b"\x00" * 12), ("empty-digest", b""), ("short-digest", bytes(m["auth_params"])[:8]), ("long-digest", bytes(m["auth_params"]) + b"\x00")):
        out.append((label, UL.rebuild(m, auth_params=ap, msg_data=payload)))
    if auth:
        out.append(("foreign-key", UL.resign(UL.rebuild(m, msg_data=plain_forged if not priv else payload, auth_params=b"\x00" * 12), method, b"another-password")))
        out.append(("plain-forged-resigned-by-agent-key", UL.resign(UL.rebuild(m, flags=1, msg_data=plain_forged, auth_params=b"\x00" * 12, priv_params=b""), method, auth[1])))
        out.append(("foreign-user-field", UL.rebuild(m, user=b"other", msg_data=payload)))
        out.append(("foreign-user-resigned", UL.resign(UL.rebuild(m, user=b"other", msg_data=payload, auth_params=b"\x00" * 12), method, b"authpass-other")))
        out.append(("foreign-engine", UL.rebuild(m, engine_id=b"\x80\x00\x1f\x88\x80other", msg_data=payload)))
        out.append(("boots-changed", UL.rebuild(m, boots=m["boots"] + 1, msg_data=payload)))
        out.append(("time-changed", UL.rebuild(m, time_=m["time"] + 1, msg_data=payload)))
        out.append(("msgid-changed", UL.rebuild(m, msg_id=m["msg_id"] + 1, msg_data=payload)))
    # unauthenticated Reports
    for label, vbs in (("report-wrong-digest", [(USM_WRONG_DIGEST, ["counter32", 1])]), ("report-other-content", [(OID, ["str", "666f72676564"])]), ("report-empty", [])):
        rep = B.enc_scoped(ENGINE, b"", B.enc_pdu(0xA8, rid, 0, 0, vbs))
        out.append((label, UL.rebuild(m, flags=0, auth_params=b"", priv_params=b"", msg_data=rep)))
        out.append((label + "+user-empty", UL.rebuild(m, flags=0, user=b"", auth_params=b"", priv_params=b"", msg_data=rep)))
    # unauthenticated messages carrying every other kind of PDU (the client does not look at the PDU
    # type of what it takes for a response: none of them may get past the security model)
    for tag in (0xA0, 0xA1, 0xA3, 0xA6, 0xA7):  # (0xA5 cannot even be decoded by x690: the wire-level suite has it)
        sc = B.enc_scoped(ENGINE, b"", B.enc_pdu(tag, rid, 0, 0, [(OID, ["str", "666f72676564"])]))
        for flags in (0, 4):
            out.append((f"pdu-{tag:02x}-unauthenticated-flags={flags}", UL.rebuild(m, flags=flags, auth_params=b"", priv_params=b"", msg_data=sc)))
        out.append((f"pdu-{tag:02x}-zero-digest", UL.rebuild(m, flags=1, auth_params=b"\x00" * 12, priv_params=b"", msg_data=sc)))
    if priv:
        out.append(("ciphertext+priv-flag-cleared", UL.rebuild(m, flags=1, msg_data=payload)))
        out.append(("salt-changed", UL.rebuild(m, priv_params=bytes(8), msg_data=payload)))
    return out


def authentic(dg, auth, creds_level_flags):
    """independent verdict: does the digest verify over the octets as sent, at the credentials' level?"""
    try:
        m = B.parse_message(dg)
    except Exception:  # noqa: BLE001
        return False
    if m.get("version") != 3 or (m["flags"] & 3) != creds_level_flags:
        return False
    if not auth:
        return True
    return U.verify(auth[0], auth[1], bytes(m["engine_id"]), dg, m["auth_params_offset"])


def unit(ctx, res, reqs, impls, hangs):
    for level, method, target in [(lv, me, tg) for lv, me in (("auth", "md5"), ("auth", "sha1"), ("authpriv", "md5"), ("authpriv", "sha1"), ("noauth", "md5")) for tg in (OID, USM_WRONG_DIGEST)]:
        agent, creds, user, auth, priv, req, resp = base_exchange(level, method, target)
        level_flags = (1 if auth else 0) | (2 if priv else 0)
        want_ok = UL.canon_real_incoming(UL.real_incoming(resp, creds))
        for label, dg in forgeries(ctx.rng, agent, user, auth, priv, resp):
            got = UL.canon_real_incoming(UL.real_incoming(dg, creds))
            case = {"level": level, "method": method, "target": target, "forgery": label, "datagram": dg.hex()}
            res.count("target:" + ("usmStats" if target is USM_WRONG_DIGEST else "sysDescr"))
            res.count(f"forgery:{label.split('=')[0].split('+')[0]}")
            res.count(f"level:{level}/{method}")
            res.count("outcome:" + got[0])
            if got[0] == "hang":
                hangs.append((case, dg))
                continue
            if auth and got[0] == "ok" and not authentic(dg, auth, level_flags):
                res.violate("unit-usm", case, "an exception", got, f"a message that is not authentic at the credentials' level was accepted ({label})", {"kind": "usm-accept", "what": "unauthentic-accepted", "forgery": label.split("=")[0]})
            if auth and got[0] == "ok" and authentic(dg, auth, level_flags) and got != want_ok and label == "authentic":
                res.violate("unit-usm", case, want_ok, got, "authentic message decoded to something else", {"kind": "usm-accept", "what": "authentic-differs"})
            mreq = UL.incoming_request(dg, user, auth, priv)
            if mreq is not None:
                reqs.append(mreq)
                impls.append(("unit-usm", case, got))


def mitm(ctx, res, hangs):
    """single-bit flips of authentic responses on the path client <- agent"""
    levels = [("auth", "v3"), ("authpriv", "v3"), ("auth-sha1", "v3")]
    ops = [("get", {"oid": OID}), ("getnext", {"oid": OID[:-1]}), ("multiget", {"oids": [OID, OID[:-2] + [2, 0]]}), ("set", {"vb": [OID, ["str", "6e6577"]]}), ("bulkget", {"scalars": [], "reps": [OID[:-2]], "max": 2})]
    todo = []
    for level, _ in levels[: ctx.budget(2, 3)]:
        for name, args in ops[: ctx.budget(2, 5)]:
            todo.append((level, name, args))
    for level, name, args in todo:
        agent = RA.Agent(db=[(tuple(OID), ["str", "736563726574"]), (tuple(OID[:-2] + [2, 0]), ["int", 7])])
        clean, _ = O.impl_op(name, args, agent, "v3", level)
        nbits = len(agent.raw_log[-1][1]) * 8
        positions = range(nbits) if not ctx.quick or nbits <= 500 else sorted(ctx.rng.sample(range(nbits), 500))
        for bit in positions:
            def flip(agent_, req, resp, bit=bit):
                if B.parse_message(req).get("engine_id") == b"":
                    return resp
                b = bytearray(resp)
                if bit // 8 < len(b):
                    b[bit // 8] ^= 1 << (7 - bit % 8)
                return bytes(b)

            agent2 = RA.Agent(db=list(agent.db), mitm=flip)
            r = BL.guarded(lambda: O.impl_op(name, args, agent2, "v3", level)[0]["result"], 0.5)
            res.evaluations += 1
            res.count(f"mitm:{name}/{level}")
            case = {"op": name, "args": args, "level": level, "flipped_bit": bit}
            if r[0] == "hang":
                res.count("mitm-outcome:hang")
                flipped = [resp for _req, resp in agent2.raw_log][-1:] or [b""]
                hangs.append((case, flipped[0]))
                continue
            got = r[1] if r[0] == "ok" else ["error", ["other", r[1]]]
            res.count("mitm-outcome:" + ("same-result" if got == clean["result"] else got[0]))
            if got[0] == "ok" and got != clean["result"]:
                res.violate("mitm", case, clean["result"], got, "a corrupted response changed the result instead of raising", {"kind": "usm-accept", "what": "bitflip-accepted"})


def run(ctx):
    res = Result()
    reqs, impls = [], []
    hangs = []
    unit(ctx, res, reqs, impls, hangs)
    mitm(ctx, res, hangs)
    V3W.run(ctx, res, reqs, impls, authentic)  # the datagram itself through the model: glue + USM
    # a hang is C20's subject: it is attributed to the recorded x690 finding only when the x690
    # mirror in Lean predicts that very datagram to loop (iteration budget exhausted)
    predicted = BL.loop_predicted([dg for _c, dg in hangs]) if ctx.driver_ok and hangs else {}
    for c, dg in hangs:
        res.violate("hang", {**c, "datagram": dg.hex()}, "a result or an exception", "hang", "processing did not finish within the time budget", {"kind": "hang", "x690_loop_predicted": bool(predicted.get(dg))})
    if ctx.driver_ok:
        for (suite, case, got), ans in zip(impls, run_driver(reqs)):
            res.case(suite, case)
            model = UL.canon_model_incoming(ans)
            if got[0] == "hang":
                continue
            if suite == "wire-incoming":
                if not V3W.agree(case, got, model):
                    res.disagree(suite, case, got, model)
                continue
            if model != got:
                res.disagree(suite, case, got, model)
    else:
        for suite, case, _ in impls:
            res.case(suite, case)
    return res


def replay(ctx, payload):
    c = payload["case"]
    if "datagram" not in c:
        print("mitm case: re-run the check with the recorded seed")
        return 2
    agent, creds, user, auth, priv, req, resp = base_exchange(c["level"], c["method"], c.get("target"))
    got = UL.real_incoming(bytes.fromhex(c["datagram"]), creds)
    ok = authentic(bytes.fromhex(c["datagram"]), auth, (1 if auth else 0) | (2 if priv else 0))
    print("outcome", got, "authentic:", ok)
    return 1 if (got[0] == "ok" and auth and not ok) else 0
