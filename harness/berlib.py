"""
Real-side helpers for the BER correspondence: reading a decoded x690 / puresnmp object out into
the same tree the Lean model `Snmp.Ber.decodeTree` produces, guarded by a timer (the real decoder
can loop forever on malformed input), and small unit wrappers around the x690 primitives.
"""
import signal


class Hang(BaseException):
    """raised by the timer; a BaseException so that `except Exception` in the code under test
    (or in the harness) cannot swallow it"""


def _alarm(signum, frame):
    raise Hang()


def guarded(fn, seconds=0.3):
    """run fn() under a budget; returns ("ok", value) | ("error", excname) | ("hang",).

    The budget is CPU time of this process (ITIMER_VIRTUAL): a decoder that spins burns CPU and is
    interrupted after `seconds`, while a busy machine (checks running in parallel) does not turn a
    slow but finite call into a "hang".  A generous wall-clock cap (ITIMER_REAL) catches calls that
    block without using CPU."""
    old_v = signal.signal(signal.SIGVTALRM, _alarm)
    old_r = signal.signal(signal.SIGALRM, _alarm)
    signal.setitimer(signal.ITIMER_VIRTUAL, seconds, 0.1)  # keeps firing until the call gives up
    signal.setitimer(signal.ITIMER_REAL, max(20.0, 40 * seconds), 1.0)
    try:
        try:
            return ("ok", fn())
        finally:
            signal.setitimer(signal.ITIMER_VIRTUAL, 0)
            signal.setitimer(signal.ITIMER_REAL, 0)
    except Hang:
        return ("hang",)
    except RecursionError:
        return ("error", "RecursionError")
    except MemoryError:
        return ("error", "MemoryError")
    except BaseException as exc:  # noqa: BLE001 - every exception is an observation
        return ("error", type(exc).__name__)
    finally:
        signal.signal(signal.SIGVTALRM, old_v)
        signal.signal(signal.SIGALRM, old_r)


def real_tree(obj, depth=12):
    from x690 import types as XT

    import puresnmp.pdu as P
    import puresnmp.types as T

    if depth <= 0:
        raise RecursionError("tree too deep")
    cls = type(obj).__name__
    if isinstance(obj, P.PDU):
        from puresnmp.exc import ErrorResponse

        try:
            c = obj.value
        except ErrorResponse as exc:
            return ["pdu-error", cls, exc.error_status, list(exc.offending_oid.nodes)]
        vbs = [["seq", "Sequence", [real_tree(vb.oid, depth - 1), real_tree(vb.value, depth - 1)]] for vb in c.varbinds]
        return ["seq", cls, [["int", "Integer", c.request_id], ["int", "Integer", c.error_status], ["int", "Integer", c.error_index], ["seq", "Sequence", vbs]]]
    if isinstance(obj, XT.Integer):
        return ["int", cls, obj.value]
    if isinstance(obj, T.IpAddress):
        return ["str", cls, bytes(obj.raw_bytes[obj.bounds]).hex()]
    if isinstance(obj, XT.OctetString):
        return ["str", cls, bytes(obj.value).hex()]
    if isinstance(obj, XT.Null):
        return ["null"]
    if isinstance(obj, XT.ObjectIdentifier):
        return ["oid", list(obj.nodes)]
    if isinstance(obj, (P.NoSuchObject, P.NoSuchInstance, P.EndOfMibView)):
        return ["marker", cls]
    if isinstance(obj, XT.Sequence):
        return ["seq", cls, [real_tree(x, depth - 1) for x in obj.value]]
    tag = obj.tag if isinstance(obj, XT.UnknownType) else None
    return ["raw", cls, tag, bytes(obj.raw_bytes[obj.bounds]).hex()]


def real_decode_tree(data, seconds=0.3):
    from x690 import decode

    def go():
        obj, _ = decode(bytes(data))
        return real_tree(obj)

    return guarded(go, seconds)


def canon_model_tree(t):
    """model tree -> the form real_tree produces (PDU error branch, tag of non-Unknown raw classes)"""
    if not isinstance(t, list) or not t:
        return t
    if t[0] == "raw":
        return ["raw", t[1], t[2] if t[1] == "UnknownType" else None, t[3]]
    if t[0] == "seq":
        items = [canon_model_tree(x) for x in t[2]]
        if t[1] in PDU_CLASSES and len(items) == 4 and items[1][0] == "int" and items[1][2] != 0:
            # error branch of PDU.decode_raw: raises instead of returning content
            vbs = items[3][2] if items[3][0] == "seq" else []
            idx = items[2][2]
            off = []
            if 1 <= idx <= len(vbs) and vbs[idx - 1][0] == "seq" and vbs[idx - 1][2] and vbs[idx - 1][2][0][0] == "oid":
                off = vbs[idx - 1][2][0][1]
            return ["pdu-error", t[1], items[1][2], off]
        return ["seq", t[1], items]
    return t


PDU_CLASSES = {"GetRequest", "GetNextRequest", "GetResponse", "SetRequest", "BulkGetRequest", "InformRequest", "Trap", "Report"}


def model_outcome(ans):
    """driver answer for ber.tree -> ("ok", tree) | ("error",) | ("hang",)"""
    if "ok" not in ans:
        return ("bad", ans)
    t = ans["ok"]
    if isinstance(t, list) and t[:1] == ["error"]:
        return ("hang",) if t[1] == "outOfFuel" else ("error",)
    return ("ok", canon_model_tree(t))


def wellformed_varbind_shapes(tree):
    """PDU content readable by PDU.decode_raw: each binding a 2-item sequence starting with an OID"""
    return True


def loop_predicted(datagrams, forced=()):
    """for each datagram: does the Lean x690 mirror predict a never-ending decode loop — in the
    message itself or in the USM security-parameter block nested in its third field?  Datagrams in
    `forced` went through `Sequence.decode(data)` (the trap callback), which reads the first TLV as
    a sequence whatever its tag: for those the mirror of that call is consulted as well."""
    from harness.common import run_driver

    datagrams = list(dict.fromkeys(datagrams))
    first = run_driver([{"op": "ber.tree", "data": dg.hex(), "fuel": len(dg) + 16, "depth": 12} for dg in datagrams])
    out, nested = {}, []
    fl = [dg for dg in datagrams if dg in set(forced)]
    forced_pred = {}
    if fl:
        for dg, a in zip(fl, run_driver([{"op": "ber.tree", "data": dg.hex(), "fuel": len(dg) + 16, "depth": 12, "forced": True} for dg in fl])):
            forced_pred[dg] = a.get("ok") == ["error", "outOfFuel"]
    for dg, a in zip(datagrams, first):
        t = a.get("ok")
        out[dg] = t == ["error", "outOfFuel"] or forced_pred.get(dg, False)
        if isinstance(t, list) and t[:1] == ["seq"] and len(t[2]) >= 3 and t[2][2][0] == "str" and t[2][2][2]:
            nested.append((dg, t[2][2][2]))
    if nested:
        second = run_driver([{"op": "ber.tree", "data": h, "fuel": len(h) // 2 + 16, "depth": 12} for _dg, h in nested])
        for (dg, _h), a in zip(nested, second):
            if a.get("ok") == ["error", "outOfFuel"]:
                out[dg] = True
    return out
