"""
C15 — the pythonic wrapper returns only built-in Python types, equal to the raw results.

For all 11 wrapper methods, against reference-agent databases containing every SNMP value
kind: the raw `Client` method and the `PyWrapper` method are run against two fresh copies of the
same agent; the wrapper's result is reduced to a deep type structure (type of every element,
dictionary keys included; anything that is not int / bytes / None / str / timedelta /
IPv4Address / list / tuple / dict or one of the documented record shells is a `leak`), and
compared with what the Lean model `Snmp.Pyth` (driver op `py.wrap`) makes of the raw result.

Direct oracle (independent of the model and of `.pythonize()`): no leak anywhere, and the
structure equals the harness's own element-wise pythonisation of the canonical raw result.

Non-trivial: cases whose result contains at least one value; distinct = distinct (method, args, db).
"""
from datetime import timedelta
from ipaddress import IPv4Address

from harness import opslib as O
from harness import refagent as RA
from harness import walklib as W
from harness.common import Result, run_driver

ASSUMPTIONS = []


def deep(x):
    from puresnmp.util import BulkResult

    t = type(x)
    if t is int:
        return ["int", x]
    if t is bytes:
        return ["bytes", x.hex()]
    if x is None:
        return ["none"]
    if t is str:
        return ["str", x]
    if t is timedelta:
        return ["timedelta", x // timedelta(microseconds=1)]
    if t is IPv4Address:
        return ["ipv4", int(x)]
    if t is list:
        return ["list", [deep(e) for e in x]]
    if isinstance(x, tuple):
        return ["tuple", [deep(e) for e in x]]
    if t is BulkResult:
        return ["tuple", [deep(x.scalars), deep(x.listing)]]
    if isinstance(x, dict):
        return ["dict", [[deep(k), deep(v)] for k, v in x.items()]]
    return ["leak", t.__name__]


def leaks(d):
    if d[0] == "leak":
        return [d[1]]
    if d[0] in ("list", "tuple"):
        return [l for e in d[1] for l in leaks(e)]
    if d[0] == "dict":
        return [l for k, v in d[1] for l in leaks(k) + leaks(v)]
    return []


def py_of(c):
    """harness-side pythonisation of a canonical raw value (written from the documentation)"""
    k = c[0]
    if k in ("int", "counter32", "gauge32", "counter64", "nsap"):
        return ["int", c[1]]
    if k in ("str", "opaque"):
        return ["bytes", c[1]]
    if k in ("null", "noSuchObject", "noSuchInstance", "endOfMibView"):
        return ["none"]
    if k == "oid":
        return ["str", ".".join(str(n) for n in c[1])]
    if k == "ip":
        return ["ipv4", int(c[1], 16)]
    if k == "ticks":
        return ["timedelta", c[1] * 10000]
    if k == "unknown":
        return ["bytes", c[2]]
    raise ValueError(k)


def dot(o):
    return ".".join(str(n) for n in o)


def expect(method, args, raw):
    pvb = lambda vb: ["tuple", [["str", dot(vb[0])], py_of(vb[1])]]  # noqa: E731
    dct = lambda vbs: ["dict", [[["str", dot(o)], py_of(v)] for o, v in vbs]]  # noqa: E731
    if method == "get":
        return py_of(raw)
    if method == "getnext":
        return pvb(raw)
    if method == "multiget":
        return ["list", [py_of(v) for v in raw]]
    if method == "multiset":
        return dct(raw)
    if method == "set":
        for o, v in raw:
            if o == args["vb"][0]:
                return py_of(v)
        return ["KeyError"]
    if method in ("walk", "multiwalk", "bulkwalk"):
        return ["list", [pvb(vb) for vb in raw]]
    if method == "bulkget":
        return ["tuple", [dct(raw["scalars"]), dct(raw["listing"])]]
    if method in ("table", "bulktable"):
        return ["list", [["dict", [[["str", k], py_of(v)] for k, v in r["cells"]] + [[["str", "0"], ["str", r["index"]]]]] for r in raw]]
    raise ValueError(method)


def same(a, b):
    """Python == on deep structures: dicts compare as item sets, everything else positionally"""
    if a[0] != b[0]:
        return False
    if a[0] in ("list", "tuple"):
        return len(a[1]) == len(b[1]) and all(same(x, y) for x, y in zip(a[1], b[1]))
    if a[0] == "dict":
        if len(a[1]) != len(b[1]):
            return False
        rest = list(b[1])
        for k, v in a[1]:
            for i, (k2, v2) in enumerate(rest):
                if same(k, k2) and same(v, v2):
                    del rest[i]
                    break
            else:
                return False
        return True
    return a == b


async def collect(agen):
    return [x async for x in agen]


def canon_rows(rows):
    return [{"index": r["0"] if isinstance(r.get("0"), str) else repr(r.get("0")), "cells": [[k, RA.canon_value(v)] for k, v in r.items() if k != "0"]} for r in rows]


def call_raw(client, method, args):
    OID = RA.OID
    if method in ("get", "getnext", "multiget", "multiset", "set", "bulkget"):
        r = W.run(O.call(client, method, args))
        if method == "set":
            # the wrapper's set goes through multiset: its raw counterpart is the multiset result
            return None
        return O.canon_result(method, r)
    if method == "walk":
        r = W.run(collect(client.walk(OID(args["oid"]))))
    elif method == "multiwalk":
        r = W.run(collect(client.multiwalk([OID(o) for o in args["oids"]])))
    elif method == "bulkwalk":
        r = W.run(collect(client.bulkwalk([OID(o) for o in args["oids"]], bulk_size=args["size"])))
    elif method == "table":
        return canon_rows(W.run(client.table(OID(args["oid"]))))
    elif method == "bulktable":
        return canon_rows(W.run(client.bulktable(OID(args["oid"]), bulk_size=args["size"])))
    return [[list(vb.oid.nodes), RA.canon_value(vb.value)] for vb in r]


def call_py(py, method, args):
    if method == "get":
        return W.run(py.get(dot(args["oid"])))
    if method == "getnext":
        return W.run(py.getnext(dot(args["oid"])))
    if method == "multiget":
        return W.run(py.multiget([dot(o) for o in args["oids"]]))
    if method == "multiset":
        return W.run(py.multiset({dot(o): RA.make_value(v) for o, v in args["vbs"]}))
    if method == "set":
        return W.run(py.set(("." if args.get("dot") else "") + dot(args["vb"][0]), RA.make_value(args["vb"][1])))
    if method == "bulkget":
        return W.run(py.bulkget([dot(o) for o in args["scalars"]], [dot(o) for o in args["reps"]], args["max"]))
    if method == "walk":
        return W.run(collect(py.walk(dot(args["oid"]))))
    if method == "multiwalk":
        return W.run(collect(py.multiwalk([dot(o) for o in args["oids"]])))
    if method == "bulkwalk":
        return W.run(collect(py.bulkwalk([dot(o) for o in args["oids"]], bulk_size=args["size"])))
    if method == "table":
        return W.run(py.table(dot(args["oid"])))
    if method == "bulktable":
        return W.run(py.bulktable(dot(args["oid"]), bulk_size=args["size"]))
    raise ValueError(method)


def table_db(rng):
    """a conceptual table with every value kind in its cells, plus neighbours"""
    base = [1, 3, 6, 1, 2, 1, rng.randint(2, 30)]
    entry = base + [1]
    cols = sorted(rng.sample(range(1, 9), rng.randint(1, 4)))
    k = rng.randint(1, 3)
    rows = sorted({tuple(rng.randint(0, 300) for _ in range(k)) for _ in range(rng.randint(0, 6))})
    db = {}
    for c in cols:
        for r in rows:
            if rng.random() < 0.85:
                db[tuple(entry + [c] + list(r))] = rng.choice(O.ALL_VALUES + [["oid", []]])
    if rng.random() < 0.7:
        db[tuple(base[:-1] + [base[-1] - 1, 0])] = rng.choice(O.ALL_VALUES)
    if rng.random() < 0.7:
        db[tuple(base[:-1] + [base[-1] + 1, 1, 1, 1])] = rng.choice(O.ALL_VALUES)
    return sorted(db.items()), base, entry


METHODS = ["get", "getnext", "multiget", "multiset", "set", "walk", "multiwalk", "bulkwalk", "bulkget", "table", "bulktable"]


def gen_case(rng, i):
    method = METHODS[i % len(METHODS)]
    if method in ("table", "bulktable"):
        db, base, entry = table_db(rng)
        args = {"oid": entry if method == "table" else base, "size": rng.choice([1, 2, 5, 10])}
        return method, db, args
    db = O.random_db(rng, rng.randint(1, 10))
    if rng.random() < 0.3:
        # a value that is falsy as an x690 object: the zero-length OBJECT IDENTIFIER (06 00)
        k = rng.randrange(len(db))
        db[k] = (db[k][0], ["oid", []])
    keys = [list(o) for o, _ in db]
    if method in ("get", "getnext"):
        oid = rng.choice(keys)
        if method == "getnext":
            oid = oid[:-1]
        return method, db, {"oid": oid}
    if method in ("multiget",):
        return method, db, {"oids": O.pick_oids(rng, db, rng.randint(1, 6))}
    if method == "multiset":
        _, a = O.random_op(rng, db)
        while "vbs" not in a:
            _, a = O.random_op(rng, db)
        a["vbs"] = [[o, v] for o, v in a["vbs"] if v[0] != "null"] or [[keys[0], ["int", 1]]]
        return method, db, a
    if method == "set":
        return method, db, {"vb": [rng.choice(keys), rng.choice([v for v in O.ALL_VALUES if v[0] != "null"])], "dot": rng.random() < 0.5}
    if method == "walk":
        return method, db, {"oid": rng.choice(keys)[: rng.randint(4, 6)]}
    if method in ("multiwalk", "bulkwalk"):
        roots = []
        for _ in range(rng.randint(1, 3)):
            c = rng.choice(keys)[: rng.randint(5, 7)]
            if W.disjoint(roots + [c]) and c not in roots:
                roots.append(c)
        return method, db, {"oids": roots, "size": rng.choice([1, 3, 10])}
    return method, db, {"scalars": O.pick_oids(rng, db, rng.randint(0, 3)), "reps": O.pick_oids(rng, db, rng.randint(0, 3)), "max": rng.randint(0, 4)}


def one_case(res, method, db, args, version="v2c", level="noauth"):
    from puresnmp import PyWrapper

    case = {"method": method, "db": [[list(o), v] for o, v in db], "args": args, "version": version, "level": level}
    a1, a2 = RA.Agent(db=db), RA.Agent(db=db)
    c1, c2 = W.make_client(a1, version, level), W.make_client(a2, version, level)
    try:
        raw = call_raw(c1, "multiset" if method == "set" else method, {"vbs": [args["vb"]]} if method == "set" else args)
    except Exception as exc:  # noqa: BLE001
        raw = ["error", RA.canon_exc(exc)]
    try:
        got = deep(call_py(PyWrapper(c2), method, args))
    except Exception as exc:  # noqa: BLE001
        got = ["error", RA.canon_exc(exc)]
    res.count(f"method:{method}")
    if isinstance(raw, list) and raw[:1] == ["error"] or got[:1] == ["error"]:
        res.count("raised")
        if (isinstance(raw, list) and raw[:1] == ["error"]) != (got[:1] == ["error"]) or (got[:1] == ["error"] and raw != got):
            res.violate("e2e-py", case, raw, got, "wrapper and raw client disagree on raising", {"kind": "py-exception-mismatch", "method": method})
        return None
    lk = leaks(got)
    if lk:
        res.violate("e2e-py", case, "built-in types only", got, f"wrapper result contains internal objects: {sorted(set(lk))}", {"kind": "py-leak", "method": method, "cls": sorted(set(lk))[0]})
    else:
        want = expect(method, args, raw)
        if not same(want, got):
            res.violate("e2e-py", case, want, got, "wrapper result differs from the element-wise pythonisation of the raw result", {"kind": "py-not-equal", "method": method})
    mname = "walk" if method in ("walk", "multiwalk", "bulkwalk") else "table" if method in ("table", "bulktable") else method
    req = {"op": "py.wrap", "method": mname, "raw": raw}
    if method == "set":
        req["oid"] = args["vb"][0]
    return case, got, req


def lenient_walks(ctx, res):
    """`errors="warn"` through the wrapper: a device that gets stuck during a walk (a GETNEXT answered
    with a non-successor) ends the lenient walk normally with what was received so far — through the
    wrapper exactly as through the raw client; strict walks raise through both (seeded C15-53: the
    wrapper did not pass `errors` on)."""
    from puresnmp import Client, PyWrapper

    rng = ctx.rng
    for i in range(ctx.budget(24, 200)):
        root = [1, 3, 6, 1, 2, 1, rng.randint(2, 20)]
        good = sorted({tuple(root + [1, rng.randint(1, 40)]) for _ in range(rng.randint(1, 5))})
        stuck = rng.choice(["same", "back", "first"])
        table = {}
        cur = tuple(root)
        for o in good:
            table[cur] = o
            cur = o
        table[cur] = {"same": cur, "back": good[0], "first": tuple(root[:-1])}[stuck]   # not a successor
        out = []
        for lenient in (True, False):
            row = []
            for layer in ("raw", "py"):
                agent = RA.Agent(table=dict(table), budget=len(good) + 6)
                client = W.make_client(agent, "v2c", "noauth")
                try:
                    if layer == "raw":
                        got = W.run(collect(client.walk(RA.OID(root), errors="warn" if lenient else "strict")))
                        r = ["ok", [[list(vb.oid.nodes), RA.canon_value(vb.value)] for vb in got]]
                    else:
                        got = W.run(collect(PyWrapper(client).walk(dot(root), errors="warn" if lenient else "strict")))
                        r = ["ok", [[[int(x) for x in vb.oid.split(".")], None] for vb in got]]
                except Exception as exc:  # noqa: BLE001
                    r = ["error", RA.canon_exc(exc)]
                row.append(r)
            out.append(row)
            res.evaluations += 1
            res.count(f"lenient-walk:{'warn' if lenient else 'strict'}:{stuck}")
            raw, py = row
            same = raw[0] == py[0] and (raw[0] == "error" and raw[1] == py[1] or raw[0] == "ok" and [o for o, _ in raw[1]] == [o for o, _ in py[1]])
            if not same:
                res.violate("lenient-walk", {"table": [[list(k), list(v)] for k, v in table.items()], "root": root, "errors": "warn" if lenient else "strict"},
                            raw, py, "a walk through the pythonic wrapper does not end like the raw client's walk of the same exchange", {"kind": "py", "what": "walk-errors-mode"})


def run(ctx):
    res = Result()
    lenient_walks(ctx, res)
    cases, reqs = [], []
    protos = [("v2c", "noauth")] * 3 + [("v1", "noauth"), ("v3", "authpriv")]
    for i in range(ctx.budget(1100, 30000)):
        method, db, args = gen_case(ctx.rng, i)
        version, level = protos[(i // len(METHODS)) % len(protos)]
        if version == "v1" and method in ("bulkwalk", "bulkget", "bulktable"):
            version = "v2c"
        out = one_case(res, method, db, args, version, level)
        if out:
            cases.append(out[:2])
            reqs.append(out[2])
    if ctx.driver_ok:
        for (case, got), ans in zip(cases, run_driver(reqs)):
            res.case("e2e-py", case, nontrivial=got not in (["list", []], ["dict", []]))
            if "ok" not in ans or ans["ok"] != got:
                res.disagree("e2e-py", case, got, ans.get("ok", ans))
    else:
        for case, got in cases:
            res.case("e2e-py", case)
    return res


def replay(ctx, payload):
    c = payload["case"]
    res = Result()
    one_case(res, c["method"], [(tuple(o), v) for o, v in c["db"]], c["args"], c.get("version", "v2c"), c.get("level", "noauth"))
    for v in res.violations:
        print(v["what"])
    return 1 if res.violations else 0
