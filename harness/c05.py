"""
C05 — every emitted datagram is the intended request under an independent decoder.

Generated API operations (get, multiget, getnext, multigetnext, set, multiset, bulkget, and the
requests inside walk / bulkwalk) are run on a real client (v1, v2c, v3 noAuth / auth / authPriv)
whose sender seam records every datagram.  OID arcs at 0, 1, 127, 128, 16383, 16384, 2^32-1 and
random, 2..128 arcs; request ids 0, ±2^31 boundaries, 2^31..2^40 (the clock is replaced);
community strings, context names and engine ids of length 0..300; every SET value kind at its
byte boundaries.

Tie: BYTE-EXACT comparison of each datagram with the Lean model's `emit` (driver op `emit`,
`Snmp.Ber` encoders + the op -> request mapping); for authenticated messages the 12 digest
octets are compared as zeros (their value is C10's subject), for encrypted ones the ciphertext
and salt seen on the wire are handed to the model and the decrypted scoped PDU is compared.

Direct oracle: the independent RFC reader (harness/indep_ber.py) decodes the datagram as exactly
the intended request: version, community (or header / USM parameters / scoped PDU with context),
PDU type, request id, zero error fields (or non-repeaters / max-repetitions), the caller's OIDs
in order bound to NULL or to the typed SET values.

Non-trivial: every datagram; distinct = distinct bytes.
"""
from harness import indep_ber as B
from harness import indep_usm as U
from harness import opslib as O
from harness import refagent as RA
from harness import walklib as W
from harness.common import Result, run_driver

ASSUMPTIONS = [
    "OID domain of the theorems: >= 2 arcs, arc0 <= 2, arc1 < 40; OIDs 2.48 .. 2.175 are mis-encoded by x690 (known finding C05-x690-oid-second-arc, exercised by the second-arc suite), 2.176 and above are refused",
    "the digest octets and the ciphertext are taken from the wire (C10 / C11 decide them)",
]
SUBS = [0, 1, 127, 128, 16383, 16384, 2**21, 2**28, 2**32 - 1]
KIND_OF = {"get": "get", "multiget": "get", "getnext": "getnext", "multigetnext": "getnext", "set": "set", "multiset": "set", "bulkget": "getbulk"}


def gen_oid(rng, long=False):
    n = rng.choice([2, 3, 5, 9, 14] + ([64, 127, 128] if long else []))
    return [rng.choice([0, 1, 2]), rng.choice([0, 3, 39])] + [rng.choice(SUBS + [rng.randrange(2**32)]) for _ in range(n - 2)]


def gen_value(rng):
    r = rng.random()
    if r < 0.3:
        k = rng.randint(1, 9)
        return ["int", rng.choice([(1 << (8 * k - 1)) - 1, -(1 << (8 * k - 1)), 1 << (8 * k - 1), 0, -1, rng.randrange(-(2**63), 2**63)])]
    if r < 0.5:
        n = rng.choice([0, 1, 126, 127, 128, 255, 256, 300, 1000])
        return ["str", bytes(rng.randrange(256) for _ in range(n)).hex()]
    if r < 0.6:
        return ["oid", gen_oid(rng)]
    if r < 0.7:
        return ["ip", rng.choice(["00000000", "c0a80001", "ffffffff"])]
    if r < 0.8:
        return [rng.choice(["counter32", "gauge32", "ticks"]), rng.choice([0, 127, 128, 2**31 - 1, 2**31, 2**32 - 1])]
    if r < 0.9:
        return ["counter64", rng.choice([0, 2**63 - 1, 2**63, 2**64 - 1])]
    return ["opaque", bytes(rng.randrange(256) for _ in range(rng.choice([0, 7, 200]))).hex()]


def gen_op(rng):
    name = rng.choice(["get", "multiget", "getnext", "multigetnext", "set", "multiset", "bulkget"])
    long = rng.random() < 0.1
    if name in ("get", "getnext"):
        return name, {"oid": gen_oid(rng, long)}
    if name in ("multiget", "multigetnext"):
        return name, {"oids": [gen_oid(rng, long) for _ in range(rng.randint(1, 6))]}
    if name == "set":
        return name, {"vb": [gen_oid(rng), gen_value(rng)]}
    if name == "multiset":
        vbs, seen = [], set()
        for _ in range(rng.randint(1, 5)):
            o = gen_oid(rng)
            if tuple(o) not in seen:
                seen.add(tuple(o))
                vbs.append([o, gen_value(rng)])
        return name, {"vbs": vbs}
    return name, {"scalars": [gen_oid(rng) for _ in range(rng.randint(0, 3))], "reps": [gen_oid(rng) for _ in range(rng.randint(0, 3))], "max": rng.choice([0, 1, 10, 127, 128, 2**31 - 1])}


def intended(name, args):
    if name in ("get", "getnext"):
        return [[args["oid"], ["null"]]], 0, 0
    if name in ("multiget", "multigetnext"):
        return [[o, ["null"]] for o in args["oids"]], 0, 0
    if name == "set":
        return [args["vb"]], 0, 0
    if name == "multiset":
        return args["vbs"], 0, 0
    return [[o, ["null"]] for o in args["scalars"] + args["reps"]], len(args["scalars"]), args["max"]


class Seam:
    """records datagrams and answers through the reference agent (answers are irrelevant here)"""

    def __init__(self, agent):
        self.agent = agent
        self.datagrams = []

    async def __call__(self, endpoint, data, timeout=None, retries=None, **kw):
        self.datagrams.append(bytes(data))
        return await self.agent(endpoint, data, timeout=timeout, retries=retries)


def one_case(ctx, res, i, reqs, impls):
    from puresnmp import Client
    from puresnmp.api.raw import Context
    from puresnmp.credentials import V1, V2C

    rng = ctx.rng
    name, args = gen_op(rng)
    version, level = O.PROTOS[i % len(O.PROTOS)]
    if version == "v1" and name == "bulkget":
        version = "v2c"
    rid = rng.choice([0, 1, 127, 128, 2**31 - 1, 2**31, 2**32, 2**40, rng.randrange(1, 2**31)])
    community = "".join(chr(rng.randrange(33, 127)) for _ in range(rng.choice([0, 1, 6, 127, 128, 300])))
    ctx_name = bytes(rng.randrange(256) for _ in range(rng.choice([0, 0, 5, 127, 300])))
    ctx_engine = bytes(rng.randrange(256) for _ in range(rng.choice([0, 0, 12, 32, 130])))
    engine_id = b"\x80\x00\x1f\x88" + bytes(rng.randrange(256) for _ in range(rng.choice([1, 8, 28, 124, 300])))
    if rng.random() < 0.2:  # engine ids with long runs of zero octets (IPv6 / MAC formats) and of 0xff
        engine_id = rng.choice([b"\x80\x00\x02\xb8\x02\xfe\x80" + b"\x00" * 13 + b"\x01", b"\x80\x00\x00\x00" + b"\x00" * 24, b"\x80\x00\x1f\x88" + b"\xff" * 20])
    agent = RA.Agent(db=[((1, 3, 6, 1, 2, 1, 1, 1, 0), ["int", 1])], v3=RA.V3Config(engine_id=engine_id, boots=rng.choice([0, 1, 2**31 - 1]), clock=lambda t=rng.choice([0, 127, 128, 2**31 - 1]): t))
    seam = Seam(agent)
    if version == "v3":
        creds = W.make_client(agent, version, level).config.credentials
        client = Client("127.0.0.1", creds, sender=seam, context_name=ctx_name, engine_id=ctx_engine)
    else:
        client = Client("127.0.0.1", (V1 if version == "v1" else V2C)(community), sender=seam)
    with O.with_clock([rid] * 8):
        try:
            W.run(O.call(client, name, args))
        except Exception:  # noqa: BLE001 - the answer does not matter, the request went out before
            pass
    vbs, a, b = intended(name, args)
    case = {"op": name, "args": args if len(str(args)) < 600 else "<long>", "version": version, "level": level, "rid": rid}
    res.count(f"op:{name}")
    res.count(f"proto:{version}/{level}")
    dgs = [d for d in seam.datagrams if not (version == "v3" and B.parse_message(d).get("engine_id") == b"")]
    # the discovery probe is an emitted datagram too: RFC 3414 section 4 says what it has to be
    for d in seam.datagrams:
        if version == "v3" and d not in dgs:
            pm = B.parse_message(d)
            sc = pm.get("scoped") or {}
            pp = sc.get("pdu") or {}
            got_p = {"flags": pm["flags"], "user": bytes(pm["user"]), "boots": pm["boots"], "time": pm["time"], "auth": bytes(pm["auth_params"]), "priv": bytes(pm["priv_params"]),
                     "model": pm["security_model"], "ctx_engine": bytes(sc.get("context_engine_id", b"?")), "ctx_name": bytes(sc.get("context_name", b"?")),
                     "type": pp.get("type"), "rid_is_msgid": pp.get("request_id") == pm["msg_id"], "a": pp.get("a"), "b": pp.get("b"), "vbs": len(pp.get("varbinds", [0]))}
            want_p = {"flags": 4, "user": b"", "boots": 0, "time": 0, "auth": b"", "priv": b"", "model": 3, "ctx_engine": b"", "ctx_name": b"", "type": "get", "rid_is_msgid": True, "a": 0, "b": 0, "vbs": 0}
            res.count("probe")
            if got_p != want_p:
                diff = sorted(k for k in want_p if got_p.get(k) != want_p[k])
                res.violate("seam", {**case, "probe": d.hex()}, {k: want_p[k] for k in diff}, {k: got_p.get(k) for k in diff},
                            f"the discovery probe is not the RFC 3414 discovery request (fields {diff})", {"kind": "emit", "what": "wrong-probe", "field": diff[0]})
            reqs.append({"op": "emit.probe", "rid": pm["msg_id"]})
            impls.append(({**case, "probe": True}, d.hex(), None))
    if len(dgs) != 1:
        res.violate("seam", case, "one request datagram", len(dgs), "the operation did not emit exactly one request", {"kind": "emit", "what": "count"})
        return
    dg = dgs[0]
    kind = KIND_OF[name]
    try:
        m = B.parse_message(dg)
    except B.BerError as exc:
        res.violate("seam", case, "well-formed BER", str(exc), "the independent decoder rejects the datagram", {"kind": "emit", "what": "malformed"})
        return
    req = {"op": "emit", "kind": kind, "rid": rid, "a": a, "b": b, "vbs": vbs}
    if version != "v3":
        pdu = m["pdu"]
        want = {"version": 0 if version == "v1" else 1, "community": community.encode(), "type": kind, "request_id": rid, "a": a, "b": b, "varbinds": [(o, v) for o, v in vbs]}
        got = {"version": m["version"], "community": bytes(m["community"]), "type": pdu["type"], "request_id": pdu["request_id"], "a": pdu["a"], "b": pdu["b"], "varbinds": [(list(o), v) for o, v in pdu["varbinds"]]}
        req.update({"version": want["version"], "community": community.encode().hex()})
        wire = dg
    else:
        user = creds.username.encode()
        flags = (1 if creds.auth else 0) | (2 if creds.priv else 0) | 4
        plain = None
        if "scoped" in m:
            sc = m["scoped"]
            plain = None
        else:
            import puresnmp_plugins.priv.verifstream as VS

            key = U.localise(creds.auth.method, creds.priv.key, engine_id)
            ks = VS.keystream(key, engine_id, m["boots"], m["time"], m["priv_params"], len(m["ciphertext"]))
            plain = bytes(x ^ y for x, y in zip(m["ciphertext"], ks))
            try:
                sc = B.dec_scoped_tlv(plain)
            except B.BerError:
                # not decipherable under the privacy key localised to the DISCOVERED engine id
                res.violate("e2e-emit", case, "msgData deciphers to a scoped PDU under the user's privacy key localised to the discovered engine id", "garbage",
                            "the encrypted payload of the emitted request cannot be deciphered by the agent it is addressed to", {"kind": "emit", "what": "undecipherable"})
                return
        pdu = sc["pdu"]
        want = {"version": 3, "msg_id": rid, "flags": flags, "security_model": 3, "engine_id": engine_id, "boots": agent.v3.boots, "time": agent.v3.clock(), "user": user,
                "ctx_engine": ctx_engine or engine_id, "ctx_name": ctx_name, "type": kind, "request_id": rid, "a": a, "b": b, "varbinds": [(o, v) for o, v in vbs],
                "auth_len": 12 if creds.auth else 0, "priv_len_ok": True}  # fmt: skip
        got = {"version": m["version"], "msg_id": m["msg_id"], "flags": m["flags"], "security_model": m["security_model"], "engine_id": bytes(m["engine_id"]), "boots": m["boots"], "time": m["time"], "user": bytes(m["user"]),
               "ctx_engine": bytes(sc["context_engine_id"]), "ctx_name": bytes(sc["context_name"]), "type": pdu["type"], "request_id": pdu["request_id"], "a": pdu["a"], "b": pdu["b"],
               "varbinds": [(list(o), v) for o, v in pdu["varbinds"]], "auth_len": len(m["auth_params"]), "priv_len_ok": (len(m["priv_params"]) > 0) == bool(creds.priv)}  # fmt: skip
        # reportable: confirmed-class requests must be reportable (C10 decides the flag; here the
        # datagram is compared with the model built from the flags actually sent)
        want["flags"] = (want["flags"] & 3) | (m["flags"] & 4)
        v3 = {"ctx_engine": (ctx_engine or engine_id).hex(), "ctx_name": ctx_name.hex(), "engine_id": engine_id.hex(), "boots": m["boots"], "time": m["time"], "user": user.hex(),
              "auth": ("00" * 12) if creds.auth else "", "priv": bytes(m["priv_params"]).hex(), "msg_id": rid, "max_size": m["max_size"], "flags": m["flags"]}  # fmt: skip
        if plain is not None:
            v3["ciphertext"] = bytes(m["ciphertext"]).hex()
        req["v3"] = v3
        off = m["auth_params_offset"]
        wire = dg[: off[0]] + b"\x00" * (off[1] - off[0]) + dg[off[1] :] if creds.auth else dg
    if got != want:
        diff = [k for k in want if want[k] != got.get(k)]
        res.violate("seam", case, {k: want[k] for k in diff}, {k: got.get(k) for k in diff}, f"the independent decoder reads a different request (fields {diff})", {"kind": "emit", "what": "wrong-request", "field": diff[0]})
    reqs.append(req)
    impls.append((case, wire.hex(), plain.hex() if version == "v3" and plain is not None else None))


def second_arc(ctx, res):
    """OIDs below joint-iso-itu-t(2) whose second arc is 40 or more (legal: X.660; BER packs
    40*2+arc1 into the first SUB-IDENTIFIER, which then needs more than one octet from 2.48 on)"""
    from puresnmp import Client
    from puresnmp.credentials import V2C

    for b in (39, 40, 47, 48, 100, 175, 999):
        oid = [2, b, 3]
        agent = RA.Agent(db=[((1, 3, 6, 1, 2, 1, 1, 1, 0), ["int", 1])])
        seam = Seam(agent)
        client = Client("127.0.0.1", V2C("public"), sender=seam)
        refused = None
        try:
            W.run(client.get(RA.OID(oid)))
        except Exception as exc:  # noqa: BLE001
            refused = type(exc).__name__
        res.evaluations += 1
        res.count("second-arc")
        if not seam.datagrams:
            res.count(f"second-arc-refused:{refused}")
            continue  # nothing was emitted: refusing is not a malformed datagram
        try:
            got = [list(o) for o, _ in B.parse_message(seam.datagrams[0])["pdu"]["varbinds"]]
        except B.BerError as exc:
            got = str(exc)
        if got != [oid]:
            res.violate("second-arc", {"oid": oid, "datagram": seam.datagrams[0].hex()}, [oid], got,
                        "the independent decoder reads a different OID: the first two arcs were packed into one OCTET instead of one sub-identifier",
                        {"kind": "emit", "what": "oid-second-arc"})


def walk_requests(ctx, res, reqs, impls):
    """the requests inside walks: each is a getnext / getbulk for the cursors, as the walk model says"""
    for i in range(ctx.budget(40, 600)):
        db, roots = W.random_case(ctx.rng, max_inst=12, max_roots=3)
        kind = "bulk" if i % 2 else "getnext"
        size = ctx.rng.choice([1, 5, 127, 128])
        agent = RA.Agent(db=[(tuple(o), v) for o, v in db])
        seam = Seam(agent)
        from puresnmp import Client
        from puresnmp.credentials import V2C

        client = Client("127.0.0.1", V2C("public"), sender=seam)
        rid = ctx.rng.randrange(1, 2**31)

        async def consume():
            agen = client.multiwalk([RA.OID(r) for r in roots]) if kind == "getnext" else client.bulkwalk([RA.OID(r) for r in roots], bulk_size=size)
            async for _ in agen:
                pass

        with O.with_clock([rid] * 400):
            try:
                W.run(consume())
            except Exception:  # noqa: BLE001
                pass
        res.count("walk-requests", len(seam.datagrams))
        for dg in seam.datagrams:
            m = B.parse_message(dg)
            pdu = m["pdu"]
            oids = [list(o) for o, _ in pdu["varbinds"]]
            want_type = "getnext" if kind == "getnext" else "getbulk"
            ok = pdu["type"] == want_type and pdu["request_id"] == rid and all(v == ["null"] for _, v in pdu["varbinds"]) and (pdu["a"], pdu["b"]) == ((0, 0) if kind == "getnext" else (0, size))
            if not ok:
                res.violate("seam-walk", {"roots": roots, "kind": kind}, want_type, pdu, "a request inside a walk is not the intended getnext/getbulk", {"kind": "emit", "what": "wrong-request", "field": "walk"})
            reqs.append({"op": "emit", "kind": want_type, "rid": rid, "a": 0, "b": 0 if kind == "getnext" else size, "vbs": [[o, ["null"]] for o in oids], "version": 1, "community": b"public".hex()})
            impls.append(({"walk": kind, "oids": oids}, dg.hex(), None))


def run(ctx):
    res = Result()
    reqs, impls = [], []
    for i in range(ctx.budget(900, 30000)):
        one_case(ctx, res, i, reqs, impls)
    walk_requests(ctx, res, reqs, impls)
    second_arc(ctx, res)
    if ctx.driver_ok:
        for (case, wire, plain), ans in zip(impls, run_driver(reqs)):
            res.case("seam", case)
            m = ans.get("ok", ans)
            if isinstance(m, dict):
                if m.get("datagram") != wire or (plain is not None and not plain.startswith(m.get("scoped", "?"))):
                    res.disagree("seam", case, {"wire": wire[:400], "scoped": (plain or "")[:200]}, {"wire": str(m.get("datagram"))[:400], "scoped": str(m.get("scoped"))[:200]})
            elif m != wire:
                res.disagree("seam", case, wire[:400], str(m)[:400])
    else:
        for case, *_ in impls:
            res.case("seam", case)
    return res


def replay(ctx, payload):
    print("re-run the check with the recorded seed (cases are generated from VERIF_SEED)")
    return 2
