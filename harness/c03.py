"""
C03 — walks terminate and never re-request, whatever the agent answers.  End-to-end traces
of walk / multiwalk / bulkwalk (and table / bulktable) against *scripted* agents: arbitrary
functions from the requested OID (and repetition index) to the returned OID or endOfMibView
over a finite universe U.  Exhaustive over all functions for |U| = 3 (sampled in the quick
tier), random larger universes (cycles, same OID, smaller OID, leaving and re-entering).

Oracle on every implementation trace (independent of the model):
  * at most |U|+2 requests (the agent aborts the run at |U|+3: the non-termination witness);
  * a non-advancing answer ends the run at once: FaultySNMPImplementation in strict mode,
    normal end in lenient mode; otherwise the run ends normally;
  * no OID is ever requested twice.
Non-trivial: the agent function has at least one non-advancing or cyclic edge reachable from a
root, or reaches endOfMibView after >= 1 instance.
"""
import itertools

from harness import refagent as RA
from harness import walklib as W
from harness.common import Result, run_driver

ASSUMPTIONS = [
    "the value an adversarial agent binds to an OID is a function of the OID (two bindings with equal OIDs "
    "and unequal values make CPython's sorted() raise TypeError inside the walk, which ends it)",
    "agents answer with as many bindings as requested (GETNEXT) / at most the GETBULK bound; other shapes are C04's",
]

U3 = [(1, 3, 2, 1), (1, 3, 2, 2), (1, 3, 3, 1)]
ROOTSETS = [[(1, 3, 2)], [(1, 3, 2), (1, 3, 3)]]


def all_tables():
    for roots in ROOTSETS:
        dom = list(roots) + U3
        rng_ = U3 + [None]
        for img in itertools.product(rng_, repeat=len(dom)):
            yield roots, U3, [[[list(o), None], (list(n) if n else None)] for o, n in zip(dom, img)]


def random_table(rng):
    n = rng.randint(3, 9)
    base = [1, 3]
    univ = sorted({tuple(base + [rng.randint(1, 4), rng.randint(1, 5)] + ([rng.randint(1, 3)] if rng.random() < 0.3 else [])) for _ in range(n)})
    roots = sorted({tuple(base + [a]) for a in rng.sample(range(1, 5), rng.randint(1, 3))})
    dom = list(roots) + univ
    table = []
    style = rng.choice(["mostly-conformant", "random", "cycle", "stuck"])
    for o in dom:
        succ = [u for u in univ if u > o]
        if style == "mostly-conformant" and rng.random() < 0.8:
            nxt = succ[0] if succ else None
        elif style == "stuck" and rng.random() < 0.3:
            nxt = o if o in univ else (succ[0] if succ else None)
        elif style == "cycle" and rng.random() < 0.5:
            nxt = rng.choice(univ)
        else:
            nxt = rng.choice(univ + [None])
        table.append([[list(o), None], list(nxt) if nxt else None])
        if rng.random() < 0.2:  # repetition-dependent answer (GETBULK only)
            k = rng.randint(1, 2)
            alt = rng.choice(univ + [None])
            table.append([[list(o), k], list(alt) if alt else None])
    return [list(r) for r in roots], univ, table


def oracle(univ, walk, agent, lenient, kind, size, nroots):
    """Independent judgement of an implementation trace."""
    if walk["outcome"] == ["error", ["agent-stop"]]:
        return f"still requesting after {len(agent.log)} requests (|U| = {len(univ)})"
    reqs = [e[1] for e in walk["events"] if e[0] == "req"]
    if len(reqs) > len(univ) + 2:
        return f"{len(reqs)} requests for a universe of {len(univ)} OIDs"
    seen = set()
    for r in reqs:
        for o in r:
            if tuple(o) in seen:
                return f"OID {o} requested twice"
            seen.add(tuple(o))
    # did a non-advancing answer occur, and in which response?
    stuck_at = None
    for i, entry in enumerate(agent.log):
        req_oids = [tuple(o) for o, _ in entry["varbinds"]]
        resp = RA.B.parse_message(agent.raw_log[i][1])["pdu"]["varbinds"] if i < len(agent.raw_log) else []
        prev = list(req_oids)
        n = len(req_oids)
        for j, (o, v) in enumerate(resp):
            if v == ["endOfMibView"]:
                break
            col = j % n
            if not prev[col] < tuple(o):
                stuck_at = i
                break
            prev[col] = tuple(o)
        if stuck_at is not None:
            break
    if stuck_at is not None:
        if stuck_at != len(agent.log) - 1:
            return "the walk continued after a non-advancing answer"
        want = ["done"] if lenient else ["error", ["faulty"]]
        if walk["outcome"] != want:
            return f"non-advancing answer ended the walk with {walk['outcome']} instead of {want}"
    elif walk["outcome"] != ["done"]:
        return f"walk ended with {walk['outcome']} although every answer advanced"
    return None


def _cases(ctx):
    corpus = [
        # A3: agent answers 1.3.2.1 forever; A4: agent echoes the requested OID (lenient)
        ([[1, 3, 2]], [(1, 3, 2, 1)], [[[[1, 3, 2], None], [1, 3, 2, 1]], [[[1, 3, 2, 1], None], [1, 3, 2, 1]]], "bulk", 1, False),
        ([[1, 3, 2]], [(1, 3, 2, 1)], [[[[1, 3, 2], None], [1, 3, 2]]], "getnext", 1, True),
        ([[1, 3, 2]], [(1, 3, 2, 1)], [[[[1, 3, 2], None], [1, 3, 2]]], "bulk", 2, False),
    ]
    for c in corpus:
        yield (*c, "corpus")
    tables = list(all_tables())
    tables = ctx.rng.sample(tables, ctx.budget(700, len(tables)))
    modes = [("getnext", 1, False), ("getnext", 1, True), ("bulk", 1, False), ("bulk", 2, False), ("bulk", 3, False)]
    for i, (roots, univ, table) in enumerate(tables):
        for m in (modes if not ctx.quick else [modes[i % 5], modes[(i + 2) % 5]]):
            yield [list(r) for r in roots], univ, table, *m, "exhaustive-U3"
    for i in range(ctx.budget(800, 30000)):
        roots, univ, table = random_table(ctx.rng)
        kind, size, lenient = modes[i % 5]
        if kind == "bulk":
            size = ctx.rng.choice([1, 2, 3, 5, 10])
        yield roots, univ, table, kind, size, lenient, "random"
    # the same agents behind SNMPv1 credentials (the walk loop and its successor check are shared)
    for i in range(ctx.budget(250, 6000)):
        roots, univ, table = random_table(ctx.rng)
        kind, size, lenient = modes[i % 5]
        yield roots, univ, table, kind, size, lenient, "random-v1"
    for i, (roots, univ, table) in enumerate(ctx.rng.sample(tables, min(len(tables), ctx.budget(150, 3000)))):
        kind, size, lenient = modes[i % 5]
        yield [list(r) for r in roots], univ, table, kind, size, lenient, "exhaustive-U3-v1"


def run(ctx):
    res = Result()
    reqs, impls = [], []
    for roots, univ, table, kind, size, lenient, origin in _cases(ctx):
        spec = {"table": table}
        budget = len(univ) + 3
        version = "v1" if origin.endswith("-v1") else "v2c"
        walk, agent = W.impl_walk(spec, roots, kind, size=size, lenient=lenient, budget=budget, version=version)
        res.count(f"origin:{origin}")
        res.count(f"proto:{version}")
        res.count(f"mode:{kind}{size if kind == 'bulk' else ''}/{'lenient' if lenient else 'strict'}")
        res.count(f"outcome:{walk['outcome'][-1] if walk['outcome'][0] == 'done' else walk['outcome'][1][0]}")
        res.count(f"requests:{min(len(agent.log), 9)}")
        case = {"roots": roots, "universe": [list(u) for u in univ], "table": table, "kind": kind, "size": size, "lenient": lenient, "version": version}
        bad = oracle(univ, walk, agent, lenient, kind, size, len(roots))
        if bad:
            res.violate("e2e-faulty", case, "bounded run ending as the property prescribes", walk, bad, _signature(kind, lenient, bad, agent))
        reqs.append(W.model_request(spec, roots, kind, size=size, lenient=lenient, fuel=budget + 1))
        impls.append((case, walk, walk["outcome"] != ["done"] or len(agent.log) > 1))
    # agents that shorten GETBULK responses below one repetition and answer some (completion)
    # requests with no binding at all: the fetcher's completion loop must end as well
    starved = []
    scope = [c for c in W.small_scope() if len(c[1]) >= 2 and len(c[0]) >= 2]
    for i, (db, roots) in enumerate(ctx.rng.sample(scope, min(len(scope), ctx.budget(150, 2500)))):
        cut = [1, 2, 5][i % 3]
        t = ctx.rng.choice([sorted(roots)[-1], sorted(roots)[1], sorted(roots)[1] + [1]])
        pol = {"deep": True, "cut": cut, "rows": [1, 2][i % 2], "starve": t}
        size = [1, 2, 3][i % 3]
        spec = {"db": db, "policy": pol}
        budget = (len(db) + 4) * len(roots)
        walk, agent = W.impl_walk(spec, roots, "bulk", size=size, budget=budget)
        res.count("mode:bulk-starved")
        case = {"db": db, "roots": roots, "policy": pol, "kind": "bulk", "size": size}
        if walk["outcome"] == ["error", ["agent-stop"]]:
            res.violate("e2e-starved", case, "a bounded run", walk, f"bulk walk still requesting after {len(agent.log)} requests", {"kind": "walk-nontermination", "api": "bulkwalk", "agent": "starved"})
        reqs.append(W.model_request(spec, roots, "bulk", size=size, fuel=budget + 1))
        impls.append((case, walk, True))
    # several walks in flight on ONE client (different roots, fetchers and error modes), advanced in a
    # random order: each must end exactly as it ends when it runs alone
    modes = [("getnext", 1, False), ("getnext", 1, True), ("bulk", 1, False), ("bulk", 2, False), ("bulk", 3, False)]
    for i in range(ctx.budget(250, 6000)):
        roots, univ, table = random_table(ctx.rng)
        walks = []
        for _ in range(ctx.rng.randint(2, 3)):
            kind, size, lenient = ctx.rng.choice(modes)
            rs = ctx.rng.sample(roots, ctx.rng.randint(1, len(roots)))
            walks.append({"roots": sorted(rs), "kind": kind, "size": size, "lenient": lenient})
        if i % 2 == 0:  # make sure both error modes meet
            walks[0]["lenient"], walks[1]["lenient"] = True, False
            walks[0]["kind"] = walks[1]["kind"] = "getnext"
        schedule = [ctx.rng.randrange(len(walks)) for _ in range(6 * (len(univ) + 4))]
        res.evaluations += 1
        res.count("mode:interleaved")
        bad = _interleaved(table, univ, walks, schedule)
        if bad:
            res.violate("e2e-interleaved", {"universe": [list(u) for u in univ], "table": table, "walks": walks, "schedule": schedule}, "each walk ends as it does alone", None, bad,
                        {"kind": "walk-interference"})
    # table() / bulktable() over scripted agents: same loop, check that they end
    for i in range(ctx.budget(150, 3000)):
        roots, univ, table = random_table(ctx.rng)
        bad = _table_run(roots[0], univ, table, bulk=bool(i % 2))
        res.evaluations += 1
        res.count("mode:table" if not i % 2 else "mode:bulktable")
        if bad:
            res.violate("e2e-faulty-table", {"root": roots[0], "table": table, "bulk": bool(i % 2)}, "bounded run", None, bad, {"kind": "walk-nontermination", "api": "table"})
    if ctx.driver_ok:
        for (case, walk, nontrivial), ans in zip(impls, run_driver(reqs)):
            res.case("e2e-faulty", case, nontrivial)
            model = W.canon_model_walk(ans)
            impl = W.canon_impl_walk(walk)
            if impl["outcome"] == ["error", ["agent-stop"]]:
                # the model's counterpart of the agent's budget is running out of fuel
                impl = {"events": impl["events"], "outcome": ["outOfFuel"]}
            if model != impl:
                res.disagree("e2e-faulty", case, walk, model)
    else:
        for case, _w, nontrivial in impls:
            res.case("e2e-faulty", case, nontrivial)
    _report_storm(ctx, res)
    return res


def _report_storm(ctx, res):
    """SNMPv3: "whatever the agent answers" includes Reports.  An engine that answers every request of
    a walk — from the first one, or from the k-th on — with the same usmStats report (the datagram is
    replayable by anyone on the path) must make the walk END with an exception after a bounded number
    of datagrams: a re-discovery and one retransmission at most (seeded C03-43: unbounded retry)."""
    from harness import berlib as BL

    oid = [1, 3, 6, 1, 2, 1, 2, 2, 1]
    db = [(tuple(oid + [c, r]), ["int", c * 10 + r]) for c in (1, 2) for r in (1, 2, 3)]
    for level in ("auth", "authpriv", "noauth"):
        for stuck in ("notInTimeWindow", "unknownEngineID", "wrongDigest"):
            for kind in ("walk", "bulkwalk", "table"):
                for after in (0, 2):
                    agent = RA.Agent(db=db, v3=RA.V3Config(), budget=60)
                    client = W.make_client(agent, "v3", level)
                    state = {"seen": 0}

                    def hook(a, msg, out, stuck=stuck, state=state, after=after):
                        if msg.get("engine_id") == b"":
                            return None  # discovery is answered normally
                        state["seen"] += 1
                        if state["seen"] <= after:
                            return None
                        u = a.v3.users.get(msg["user"]) or {}
                        return a._report({**msg, "flags": msg["flags"] | 4}, stuck, user=msg["user"], auth_user=msg["user"] if u.get("auth") else None)

                    agent.hook_v3 = hook

                    async def go(kind=kind, client=client):
                        out = []
                        if kind == "walk":
                            async for vb in client.walk(RA.OID(oid)):
                                out.append(vb)
                        elif kind == "bulkwalk":
                            async for vb in client.bulkwalk([RA.OID(oid + [1]), RA.OID(oid + [2])], bulk_size=2):
                                out.append(vb)
                        else:
                            out = await client.table(RA.OID(oid))
                        return len(out)

                    r = BL.guarded(lambda go=go: W.run(go()), 5.0)
                    n = len(agent.raw_log)
                    res.evaluations += 1
                    res.count(f"report-storm:{kind}:{stuck}")
                    case = {"suite": "report-storm", "level": level, "report": stuck, "op": kind, "answered_first": after, "datagrams": n}
                    if r[0] != "error" or r[1] in ("AgentStop", "RecursionError") or n > after + 8:
                        res.violate("e2e-report-storm", case, f"an exception after at most {after + 8} datagrams", [list(r)[:2], n],
                                    "an engine repeating one report keeps the walk sending", {"kind": "report-storm", "report": stuck})


def _table_of(table):
    tbl = {}
    for (oid, k), nxt in table:
        tbl[(tuple(oid), k) if k is not None else tuple(oid)] = tuple(nxt) if nxt is not None else None
    return tbl


def _interleaved(table, univ, walks, schedule):
    """the walks of `walks` on one client, advanced one item at a time in the order of `schedule`,
    against their traces when run alone"""
    alone = []
    for w in walks:
        tr, _ = W.impl_walk({"table": table}, w["roots"], w["kind"], size=w["size"], lenient=w["lenient"], budget=len(univ) + 3)
        alone.append(tr)
    agent = RA.Agent(table=_table_of(table), budget=len(walks) * (len(univ) + 3) + 4)
    client = W.make_client(agent)
    agens = []
    for w in walks:
        oids = [RA.OID(r) for r in w["roots"]]
        agens.append(client.bulkwalk(oids, bulk_size=w["size"]) if w["kind"] == "bulk" else client.multiwalk(oids, errors="warn" if w["lenient"] else "strict"))
    events = [[] for _ in walks]
    outcomes = [None] * len(walks)
    seen = 0

    def sync(i):
        nonlocal seen
        for entry in agent.log[seen:]:
            if W.is_request(entry) and "varbinds" in entry:
                events[i].append(["req", [list(o) for o, _ in entry["varbinds"]]])
        seen = len(agent.log)

    async def go():
        k = 0
        while any(o is None for o in outcomes):
            i = schedule[k % len(schedule)] if k < 50 * len(schedule) else 0
            k += 1
            if outcomes[i] is not None:
                i = next(j for j, o in enumerate(outcomes) if o is None)
            try:
                vb = await agens[i].__anext__()
                sync(i)
                events[i].append(["yield", [list(vb.oid.nodes), RA.canon_value(vb.value)]])
            except StopAsyncIteration:
                sync(i)
                outcomes[i] = ["done"]
            except Exception as exc:  # noqa: BLE001 - every exception is an observable outcome
                sync(i)
                outcomes[i] = ["error", RA.canon_exc(exc)]

    W.run(go())
    for i, w in enumerate(walks):
        got = {"events": events[i], "outcome": outcomes[i]}
        if got != alone[i]:
            return f"walk {i} ({w}) alone: {alone[i]['outcome']} after {len(alone[i]['events'])} events; interleaved: {outcomes[i]} after {len(events[i])} events"
    return None


def _table_run(root, univ, table, bulk):
    tbl = {}
    for (oid, k), nxt in table:
        tbl[(tuple(oid), k) if k is not None else tuple(oid)] = tuple(nxt) if nxt is not None else None
    agent = RA.Agent(table=tbl, budget=len(univ) + 3)
    client = W.make_client(agent)
    try:
        if bulk:
            W.run(client.bulktable(RA.OID(root[:-1] if len(root) > 2 else root), bulk_size=2))
        else:
            W.run(client.table(RA.OID(root)))
    except RA.AgentStop:
        return f"table fetch still requesting after {len(agent.log)} requests"
    except Exception:  # noqa: BLE001 - any other ending is an ending
        pass
    return None


def _signature(kind, lenient, bad, agent):
    if "still requesting" in bad or "requests for a universe" in bad:
        k = "walk-nontermination"
    elif "requested twice" in bad:
        k = "walk-rerequest"
    elif "instead of" in bad:
        k = "walk-wrong-ending"
    else:
        k = "walk-other"
    return {"kind": k, "fetcher": kind, "lenient": lenient, "first_request": len(agent.log) == 1}


def search(ctx, res):
    for roots, univ, table in all_tables():
        for kind, size, lenient in (("getnext", 1, False), ("getnext", 1, True), ("bulk", 2, False)):
            walk, agent = W.impl_walk({"table": table}, [list(r) for r in roots], kind, size=size, lenient=lenient, budget=len(univ) + 3)
            bad = oracle(univ, walk, agent, lenient, kind, size, len(roots))
            if bad:
                res.violate("e2e-faulty", {"roots": [list(r) for r in roots], "universe": [list(u) for u in univ], "table": table, "kind": kind, "size": size, "lenient": lenient}, "bounded run", walk, bad, _signature(kind, lenient, bad, agent))
                return


def replay(ctx, payload):
    c = payload["case"]
    univ = [tuple(u) for u in c["universe"]]
    if "walks" in c:
        bad = _interleaved(c["table"], univ, c["walks"], c["schedule"])
        print("oracle:", bad or "ok")
        return 1 if bad else 0
    walk, agent = W.impl_walk({"table": c["table"]}, c["roots"], c["kind"], size=c["size"], lenient=c["lenient"], budget=len(univ) + 3, version=c.get("version", "v2c"))
    bad = oracle(univ, walk, agent, c["lenient"], c["kind"], c["size"], len(c["roots"]))
    print("trace", walk)
    print("oracle:", bad or "ok")
    return 1 if bad else 0
