-- Root of the `Snmp` library: model, generated facts, lemmas and property theorems.
import Snmp.Model.Basic
import Snmp.Model.Py
import Snmp.Model.Types
import Snmp.Gen.Facts
import Snmp.Props.C17
