/-
  Model driver: one JSON request per line on stdin, one JSON answer per line on stdout.
  Unknown or malformed requests are answered with {"error": …}; nothing is defaulted.
-/
import Lean.Data.Json
import Snmp.Model.UsmParams
import Snmp.Model.V3Glue
import Snmp.Model.Reenc
import Snmp.Model.TrapWire
import Snmp.Model.Basic
import Snmp.Model.Py
import Snmp.Model.Types
import Snmp.Gen.Facts
import Snmp.Model.Agent
import Snmp.Model.Walk
import Snmp.Model.Ops
import Snmp.Model.Cfg
import Snmp.Model.Fault
import Snmp.Model.Pyth
import Snmp.Model.Table
import Snmp.Model.Udp
import Snmp.Model.Trap
import Snmp.Model.Disco
import Snmp.Model.Conc
import Snmp.Model.Ber
import Snmp.Model.Glue
import Snmp.Model.Emit
import Snmp.Model.Usm
open Lean Snmp

namespace Driver

def getInt (j : Json) (k : String) : Except String Int := j.getObjValAs? Int k
def getNat (j : Json) (k : String) : Except String Nat := j.getObjValAs? Nat k
def getNats (j : Json) (k : String) : Except String (List Nat) := do
  let a ← j.getObjValAs? (Array Nat) k
  pure a.toList

def hexDigit (n : Nat) : Char := if n < 10 then Char.ofNat (48 + n) else Char.ofNat (87 + n)
def toHex (b : Bytes) : String := String.ofList (b.flatMap fun x => [hexDigit (x / 16 % 16), hexDigit (x % 16)])
def hexVal (c : Char) : Except String Nat :=
  if '0' ≤ c ∧ c ≤ '9' then pure (c.toNat - 48)
  else if 'a' ≤ c ∧ c ≤ 'f' then pure (c.toNat - 87)
  else if 'A' ≤ c ∧ c ≤ 'F' then pure (c.toNat - 55)
  else throw s!"bad hex digit {c}"
def ofHex (s : String) : Except String Bytes := do
  let rec go : List Char → Except String Bytes
    | [] => pure []
    | [_] => throw "odd hex length"
    | a :: b :: rest => do
      let hi ← hexVal a
      let lo ← hexVal b
      let tl ← go rest
      pure ((hi * 16 + lo) :: tl)
  go s.toList

def oidOfJson (j : Json) : Except String Oid := do
  let a ← fromJson? (α := Array Nat) j
  pure a.toList

def valOfJson (j : Json) : Except String Val := do
  let a ← j.getArr?
  let kind ← (a[0]?.getD Json.null).getStr?
  let arg (i : Nat) : Json := a[i]?.getD Json.null
  match kind with
  | "int" => pure (.int (← (arg 1).getInt?))
  | "str" => pure (.str (← ofHex (← (arg 1).getStr?)))
  | "null" => pure .null
  | "oid" => pure (.oid (← oidOfJson (arg 1)))
  | "ip" => pure (.ip (← ofHex (← (arg 1).getStr?)))
  | "counter32" => pure (.counter32 (← (arg 1).getInt?))
  | "gauge32" => pure (.gauge32 (← (arg 1).getInt?))
  | "ticks" => pure (.ticks (← (arg 1).getInt?))
  | "opaque" => pure (.opaque (← ofHex (← (arg 1).getStr?)))
  | "nsap" => pure (.nsap (← (arg 1).getInt?))
  | "counter64" => pure (.counter64 (← (arg 1).getInt?))
  | "noSuchObject" => pure .noSuchObject
  | "noSuchInstance" => pure .noSuchInstance
  | "endOfMibView" => pure .endOfMibView
  | "unknown" => pure (.unknown (← (arg 1).getNat?) (← ofHex (← (arg 2).getStr?)))
  | k => throw s!"bad value kind {k}"

def valToJson : Val → Json
  | .int v => toJson (#[toJson "int", toJson v] : Array Json)
  | .str b => toJson (#[toJson "str", toJson (toHex b)] : Array Json)
  | .null => toJson (#[toJson "null"] : Array Json)
  | .oid o => toJson (#[toJson "oid", toJson o] : Array Json)
  | .ip b => toJson (#[toJson "ip", toJson (toHex b)] : Array Json)
  | .counter32 v => toJson (#[toJson "counter32", toJson v] : Array Json)
  | .gauge32 v => toJson (#[toJson "gauge32", toJson v] : Array Json)
  | .ticks v => toJson (#[toJson "ticks", toJson v] : Array Json)
  | .opaque b => toJson (#[toJson "opaque", toJson (toHex b)] : Array Json)
  | .nsap v => toJson (#[toJson "nsap", toJson v] : Array Json)
  | .counter64 v => toJson (#[toJson "counter64", toJson v] : Array Json)
  | .noSuchObject => toJson (#[toJson "noSuchObject"] : Array Json)
  | .noSuchInstance => toJson (#[toJson "noSuchInstance"] : Array Json)
  | .endOfMibView => toJson (#[toJson "endOfMibView"] : Array Json)
  | .unknown t b => toJson (#[toJson "unknown", toJson t, toJson (toHex b)] : Array Json)

def vbOfJson (j : Json) : Except String VarBind := do
  let a ← j.getArr?
  pure (← oidOfJson (a[0]?.getD Json.null), ← valOfJson (a[1]?.getD Json.null))

def vbToJson (vb : VarBind) : Json := toJson (#[toJson vb.1, valToJson vb.2] : Array Json)

def vbsOfJson (j : Json) : Except String (List VarBind) := do
  let a ← j.getArr?
  a.toList.mapM vbOfJson

def errToJson : Err → Json
  | .snmpError => toJson (#[toJson "snmpError"] : Array Json)
  | .errorResponse st cls off => toJson (#[toJson "errorResponse", toJson st, toJson cls, toJson off] : Array Json)
  | .noSuchOID => toJson (#[toJson "noSuchOID"] : Array Json)
  | .faulty => toJson (#[toJson "faulty"] : Array Json)
  | .invalidResponseId => toJson (#[toJson "invalidResponseId"] : Array Json)
  | .timeout => toJson (#[toJson "timeout"] : Array Json)
  | .authError => toJson (#[toJson "authError"] : Array Json)
  | .unknownUser => toJson (#[toJson "unknownUser"] : Array Json)
  | .decryptError => toJson (#[toJson "decryptError"] : Array Json)
  | .unsupportedLevel => toJson (#[toJson "unsupportedLevel"] : Array Json)
  | .typeError => toJson (#[toJson "typeError"] : Array Json)
  | .other w => toJson (#[toJson "other", toJson w] : Array Json)

/-- agent description: {"db": [[oid, val], …]} or {"table": [[[oid, k|null], next|null], …]}
    plus optional "policy": {"rows": n|null, "cut": n, "stop": bool} -/
def agentOfJson (j : Json) : Except String (AgentFn × List VarBind × BulkPolicy) := do
  let pol : BulkPolicy ← match j.getObjVal? "policy" with
    | .ok p => do
      let rows := match p.getObjVal? "rows" with
        | .ok r => r.getNat?.toOption
        | .error _ => none
      let cut := (p.getObjValAs? Nat "cut").toOption.getD 0
      let stop := (p.getObjValAs? Bool "stop").toOption.getD true
      let deep := (p.getObjValAs? Bool "deep").toOption.getD false
      pure { rows := rows, cut := cut, stopAfterEomRow := stop, deep := deep }
    | .error _ => pure {}
  let db ← match j.getObjVal? "db" with
    | .ok d => vbsOfJson d
    | .error _ => pure []
  match j.getObjVal? "table" with
  | .ok t => do
    let rows ← t.getArr?
    let tbl ← rows.toList.mapM fun r => do
      let a ← r.getArr?
      let key ← (a[0]?.getD Json.null).getArr?
      let o ← oidOfJson (key[0]?.getD Json.null)
      let k := (key[1]?.getD Json.null).getNat?.toOption
      let nxt := match a[1]?.getD Json.null with
        | Json.null => none
        | x => (oidOfJson x).toOption
      pure ((o, k), nxt)
    let valOf : Oid → Val := fun o =>
      match db.find? (fun e => e.1 == o) with
      | some e => e.2
      | none => .int ((o.foldl (· + ·) 0 % 1000 : Nat) : Int)
    pure (Agent.ofTable tbl valOf, db, pol)
  | .error _ => pure (Agent.conformant db, db, pol)

def eventToJson : Walk.Event → Json
  | .req oids => toJson (#[toJson "req", toJson oids] : Array Json)
  | .yield vb => toJson (#[toJson "yield", vbToJson vb] : Array Json)

def outcomeToJson : Walk.Outcome → Json
  | .done => toJson (#[toJson "done"] : Array Json)
  | .error e => toJson (#[toJson "error", errToJson e] : Array Json)
  | .outOfFuel => toJson (#[toJson "outOfFuel"] : Array Json)

def walkRun (j : Json) : Except String Json := do
  let (a, db, pol) ← agentOfJson (← j.getObjVal? "agent")
  let rootsJ ← (← j.getObjVal? "roots").getArr?
  let roots ← rootsJ.toList.mapM oidOfJson
  let kind ← j.getObjValAs? String "kind"
  let lenient := (j.getObjValAs? Bool "lenient").toOption.getD false
  let fuel ← getNat j "fuel"
  let x0 := Walk.exchangeOf a db pol
  let x ← match j.getObjVal? "fault" with
    | .ok f => do
      let foids ← (← (← f.getObjVal? "oids").getArr?).toList.mapM oidOfJson
      let vbs' ← match f.getObjVal? "vbs" with
        | .ok v => do pure (some (← vbsOfJson v))
        | .error _ => pure none
      pure (Fault.withFault x0 foids (← getInt f "status") (← getInt f "index") vbs')
    | .error _ => pure x0
  let x ← match (← j.getObjVal? "agent").getObjVal? "policy" with
    | .ok p => do
      let x ← match p.getObjVal? "starve" with
        | .ok t => do pure (Fault.starve x (← oidOfJson t))
        | .error _ => pure x
      match p.getObjValAs? Nat "maxvb" with
        | .ok n => pure (Fault.limit x n)
        | .error _ => pure x
    | .error _ => pure x
  let r ← match kind with
    | "getnext" => pure (Walk.walkGetnext x roots lenient fuel)
    | "bulk" => do
      -- the wire trace: every fetch of the walk loop followed by the completion requests of the fetcher
      let size ← getNat j "size"
      let r := Walk.walkBulk x size roots fuel
      let ev := r.events.flatMap fun e => match e with
        | .req oids => e :: (Walk.bulkFetcherExtraReqs x size oids).map Walk.Event.req
        | _ => [e]
      pure { r with events := ev }
    | k => throw s!"bad walk kind {k}"
  pure (Json.mkObj [("events", toJson (r.events.map eventToJson)), ("outcome", outcomeToJson r.outcome)])

def groupsToJson (g : Walk.Groups) : Json :=
  toJson (g.map fun kv => toJson (#[toJson kv.1, toJson (kv.2.map vbToJson)] : Array Json))

def groupsOfJson (j : Json) : Except String Walk.Groups := do
  let a ← j.getArr?
  a.toList.mapM fun e => do
    let p ← e.getArr?
    pure (← oidOfJson (p[0]?.getD Json.null), ← vbsOfJson (p[1]?.getD Json.null))

/-- unit level: `group_varbinds`, `get_unfinished_walk_oids`, `deduped_varbinds`, the per-column
    check of the bulk fetcher — on arbitrary (also non-conformant) inputs -/
def walkUnit (op : String) (j : Json) : Except String Json := do
  let oids (k : String) : Except String (List Oid) := do
    (← (← j.getObjVal? k).getArr?).toList.mapM oidOfJson
  match op with
  | "walk.group" =>
    match Walk.groupVarbinds (← vbsOfJson (← j.getObjVal? "vbs")) (← oids "eff") (← oids "user") with
    | .ok g => pure (groupsToJson g)
    | .error e => pure (errToJson e)
  | "walk.unfinished" =>
    let u := Walk.unfinished (← groupsOfJson (← j.getObjVal? "groups"))
    pure (toJson (u.map fun kl => toJson (#[toJson kl.1, vbToJson kl.2] : Array Json)))
  | "walk.deduped" =>
    let (ys, yielded) := Walk.deduped (← oids "roots") (← groupsOfJson (← j.getObjVal? "groups")) (← oids "yielded")
    pure (Json.mkObj [("yields", toJson (ys.map vbToJson)), ("yielded", toJson yielded)])
  | "walk.columns" =>
    let cs ← oids "oids"
    pure (toJson (Walk.checkColumns cs.length cs 0 (← vbsOfJson (← j.getObjVal? "vbs"))))
  | _ => throw s!"bad-op {op}"

def oidsOfJson (j : Json) : Except String (List Oid) := do
  let a ← j.getArr?
  a.toList.mapM oidOfJson

def bytesOfJson (j : Json) : Except String Bytes := do ofHex (← j.getStr?)

def protoOfJson (j : Json) : Except String Ops.Proto := do
  let a ← j.getArr?
  match (a[0]?.getD Json.null).getStr? with
  | .ok "v1" => pure (.v1 (← bytesOfJson (a[1]?.getD Json.null)))
  | .ok "v2c" => pure (.v2c (← bytesOfJson (a[1]?.getD Json.null)))
  | .ok "v3" => pure .v3
  | _ => throw "bad proto"

def pduRespOfJson (j : Json) : Except String Ops.PduResp := do
  pure ⟨← getInt j "rid", ← getInt j "es", ← getInt j "ei", ← vbsOfJson (← j.getObjVal? "vbs")⟩

def scriptOfJson (j : Json) : Except String (List (Except Err Ops.RespMsg)) := do
  let a ← j.getArr?
  a.toList.mapM fun e => do
    match e.getObjVal? "ok" with
    | .ok m =>
      let version := (m.getObjValAs? Int "version").toOption.getD 1
      let community ← match m.getObjVal? "community" with
        | .ok c => bytesOfJson c
        | .error _ => pure []
      pure (.ok ⟨version, community, ← pduRespOfJson (← m.getObjVal? "pdu")⟩)
    | .error _ =>
      let k ← e.getObjValAs? String "err"
      pure (.error (if k == "timeout" then Err.timeout else Err.other k))

def reqKindToJson : Ops.ReqKind → Json
  | .get => "get" | .getnext => "getnext" | .set => "set" | .getbulk => "getbulk"

def pduReqToJson (r : Ops.PduReq) : Json :=
  Json.mkObj [("type", reqKindToJson r.kind), ("rid", toJson r.requestId), ("a", toJson r.a), ("b", toJson r.b),
    ("vbs", toJson (r.varbinds.map vbToJson))]

def opsRun (j : Json) : Except String Json := do
  let proto ← protoOfJson (← j.getObjVal? "proto")
  let clock ← j.getObjValAs? (Array Int) "clock"
  let rid ← match clock[0]? with
    | some t => pure t
    | none => throw "empty clock"
  let script ← scriptOfJson (← j.getObjVal? "script")
  let answer : Except Err Ops.RespMsg := match script with
    | r :: _ => r
    | [] => .error (.other "script-exhausted")
  let opn ← j.getObjValAs? String "name"
  let fin {α} (op : Ops.Op α) (enc : α → Json) : Json :=
    let res := match op.result rid answer with
      | .ok v => toJson (#[toJson "ok", enc v] : Array Json)
      | .error e => toJson (#[toJson "error", errToJson e] : Array Json)
    Json.mkObj [("result", res), ("sent", toJson [pduReqToJson (op.request rid)]), ("reads", toJson (1 : Nat))]
  let vbsJ (l : List VarBind) : Json := toJson (l.map vbToJson)
  match opn with
  | "multiget" =>
    pure (fin (Ops.multiget proto (← oidsOfJson (← j.getObjVal? "oids"))) (fun r => toJson (r.map valToJson)))
  | "get" => pure (fin (Ops.get proto (← oidOfJson (← j.getObjVal? "oid"))) valToJson)
  | "multigetnext" => pure (fin (Ops.multigetnext proto (← oidsOfJson (← j.getObjVal? "oids"))) vbsJ)
  | "getnext" => pure (fin (Ops.getnext proto (← oidOfJson (← j.getObjVal? "oid"))) vbToJson)
  | "multiset" => pure (fin (Ops.multiset proto (← vbsOfJson (← j.getObjVal? "vbs"))) vbsJ)
  | "set" =>
    let vb ← vbOfJson (← j.getObjVal? "vb")
    pure (fin (Ops.set proto vb.1 vb.2) valToJson)
  | "bulkget" =>
    let scalars ← oidsOfJson (← j.getObjVal? "scalars")
    let reps ← oidsOfJson (← j.getObjVal? "reps")
    pure (fin (Ops.bulkget proto scalars reps (← getInt j "max"))
      (fun r => Json.mkObj [("scalars", vbsJ r.scalars), ("listing", vbsJ r.listing)]))
  | n => throw s!"bad ops name {n}"

/-! ### cfg.run -/
def familyOfStr : String → Except String Cfg.Family
  | "v1" => pure .v1 | "v2c" => pure .v2c | "v3" => pure .v3
  | s => throw s!"bad family {s}"

def kwValOfJson (j : Json) : Except String Cfg.KwVal := do
  let a ← j.getArr?
  let arg (i : Nat) : Json := a[i]?.getD Json.null
  match (arg 0).getStr? with
  | .ok "cred" => pure (.cred ⟨← familyOfStr (← (arg 1).getStr?), ← (arg 2).getNat?⟩)
  | .ok "num" => pure (.num (← (arg 1).getInt?))
  | .ok "ident" => pure (.ident (← (arg 1).getNat?))
  | _ => throw "bad kwval"

def kwargsOfJson (j : Json) : Except String Cfg.Kwargs := do
  let a ← j.getArr?
  a.toList.mapM fun e => do
    let p ← e.getArr?
    pure (← (p[0]?.getD Json.null).getStr?, ← kwValOfJson (p[1]?.getD Json.null))

partial def progOfJson (j : Json) : Except String Cfg.Prog := do
  let a ← j.getArr?
  let arg (i : Nat) : Json := a[i]?.getD Json.null
  let body (x : Json) : Except String (List Cfg.Prog) := do
    let l ← x.getArr?
    l.toList.mapM progOfJson
  match (arg 0).getStr? with
  | .ok "request" => pure .request
  | .ok "peek" => pure .peek
  | .ok "raise" => pure .raise
  | .ok "configure" => pure (.configure (← kwargsOfJson (arg 1)))
  | .ok "reconfigure" => pure (.reconfigure (← kwargsOfJson (arg 1)) (← body (arg 2)))
  | .ok "catch" => pure (.catch (← body (arg 1)))
  | _ => throw "bad prog"

def optNatJ : Option Nat → Json
  | some n => toJson n
  | none => Json.null

def obsToJson (o : Cfg.Obs) : Json :=
  toJson (#[toJson o.kind, toJson o.timeout, toJson o.retries, toJson o.version, optNatJ o.cred, optNatJ o.context, toJson o.inst] : Array Json)

def cfgRun (j : Json) : Except String Json := do
  let i ← j.getObjVal? "init"
  let fam ← familyOfStr (← i.getObjValAs? String "family")
  let ident ← match Cfg.credMpm fam with
    | some n => pure n
    | none => throw "no mpm for the initial credentials"
  let s0 : Cfg.St :=
    ⟨⟨⟨fam, ← getNat i "cred"⟩, ← getNat i "context", 0, ← getInt i "timeout", ← getInt i "retries"⟩, ⟨ident, 0⟩, 1, []⟩
  let l ← (← j.getObjVal? "prog").getArr?
  let prog ← l.toList.mapM progOfJson
  let r := Cfg.execList prog s0
  let err : Json := match r.err with
    | none => Json.null
    | some .typeError => "typeError"
    | some .unknownMpm => "unknownMpm"
    | some .boom => "boom"
  pure (Json.mkObj [("obs", toJson (r.obs.map obsToJson)), ("err", err), ("final", obsToJson (Cfg.peek r.state))])

/-! ### py.wrap -/
partial def pyValToJson : Pyth.PyVal → Json
  | .int v => toJson (#[toJson "int", toJson v] : Array Json)
  | .bytes b => toJson (#[toJson "bytes", toJson (toHex b)] : Array Json)
  | .none => toJson (#[toJson "none"] : Array Json)
  | .str s => toJson (#[toJson "str", toJson s] : Array Json)
  | .timedelta m => toJson (#[toJson "timedelta", toJson m] : Array Json)
  | .ipv4 n => toJson (#[toJson "ipv4", toJson n] : Array Json)
  | .list l => toJson (#[toJson "list", toJson (l.map pyValToJson)] : Array Json)
  | .tuple l => toJson (#[toJson "tuple", toJson (l.map pyValToJson)] : Array Json)
  | .dict l => toJson (#[toJson "dict", toJson (l.map fun p => toJson (#[pyValToJson p.1, pyValToJson p.2] : Array Json))] : Array Json)
  | .leak c => toJson (#[toJson "leak", toJson c] : Array Json)

def pyWrap (j : Json) : Except String Json := do
  let m ← j.getObjValAs? String "method"
  let raw ← j.getObjVal? "raw"
  match m with
  | "get" => pure (pyValToJson (Pyth.get (← valOfJson raw)))
  | "getnext" => pure (pyValToJson (Pyth.getnext (← vbOfJson raw)))
  | "multiget" => do
    let a ← raw.getArr?
    pure (pyValToJson (Pyth.multiget (← a.toList.mapM valOfJson)))
  | "multiset" => pure (pyValToJson (Pyth.multiset (← vbsOfJson raw)))
  | "set" =>
    match Pyth.set (← oidOfJson (← j.getObjVal? "oid")) (← vbsOfJson raw) with
    | some r => pure (pyValToJson r)
    | none => pure (toJson (#[toJson "KeyError"] : Array Json))
  | "walk" => pure (pyValToJson (Pyth.walk (← vbsOfJson raw)))
  | "bulkget" =>
    pure (pyValToJson (Pyth.bulkget (← vbsOfJson (← raw.getObjVal? "scalars")) (← vbsOfJson (← raw.getObjVal? "listing"))))
  | "table" => do
    let a ← raw.getArr?
    let rows ← a.toList.mapM fun r => do
      let cells ← (← r.getObjVal? "cells").getArr?
      let cs ← cells.toList.mapM fun c => do
        let p ← c.getArr?
        pure (← (p[0]?.getD Json.null).getStr?, ← valOfJson (p[1]?.getD Json.null))
      pure (⟨← r.getObjValAs? String "index", cs⟩ : Pyth.RawRow)
    pure (pyValToJson (Pyth.table rows))
  | _ => throw s!"bad method {m}"

/-! ### tablify / table.run -/
def cellToJson : Table.Cell → Json
  | .idx i => toJson (#[toJson "idx", toJson i] : Array Json)
  | .val v => toJson (#[toJson "val", valToJson v] : Array Json)

def rowsToJson (r : Except Err (List Table.Row)) : Json :=
  match r with
  | .ok rows => toJson (#[toJson "ok", toJson (rows.map fun row => toJson (row.map fun c => toJson (#[toJson c.1, cellToJson c.2] : Array Json)))] : Array Json)
  | .error e => toJson (#[toJson "error", errToJson e] : Array Json)

def tablifyOp (j : Json) : Except String Json := do
  pure (rowsToJson (Table.tablify (← vbsOfJson (← j.getObjVal? "vbs")) (← getNat j "n")))

def tableRun (j : Json) : Except String Json := do
  let (a, db, pol) ← agentOfJson (← j.getObjVal? "agent")
  let oid ← oidOfJson (← j.getObjVal? "oid")
  let kind ← j.getObjValAs? String "kind"
  let fuel ← getNat j "fuel"
  let x := Walk.exchangeOf a db pol
  let (r, n) ← match kind with
    | "table" => pure (Walk.walkGetnext x [oid] false fuel, oid.length)
    | "bulktable" => pure (Walk.walkBulk x (← getNat j "size") [oid] fuel, oid.length + 1)
    | k => throw s!"bad table kind {k}"
  match r.outcome with
  | .done => pure (rowsToJson (Table.tablify r.yields n))
  | .error e => pure (rowsToJson (.error e))
  | .outOfFuel => throw "out of fuel"

/-! ### udp.run -/
def outcomeOfJson (j : Json) : Except String Udp.Outcome := do
  let a ← j.getArr?
  let arg (i : Nat) : Json := a[i]?.getD Json.null
  match (arg 0).getStr? with
  | .ok "reply" => pure (.reply (← (arg 1).getNat?) (← bytesOfJson (arg 2)))
  | .ok "none" => pure .none
  | .ok "two" => pure (.twoReplies (← (arg 1).getNat?) (← bytesOfJson (arg 2)) (← (arg 3).getNat?) (← bytesOfJson (arg 4)))
  | .ok "oserror" => pure (.osError (← (arg 1).getNat?))
  | .ok "lost" => pure (.lost (← (arg 1).getNat?) (← (arg 2).getBool?))
  | _ => throw "bad outcome"

def udpRun (j : Json) : Except String Json := do
  let packet ← bytesOfJson (← j.getObjVal? "packet")
  let outsJ ← (← j.getObjVal? "outs").getArr?
  let outs ← outsJ.toList.mapM outcomeOfJson
  let tmo ← getNat j "timeout"
  let rtr ← getNat j "retries"
  let cancelAt : Option Nat := match j.getObjVal? "cancel" with
    | .ok c => c.getNat?.toOption
    | .error _ => none
  let (f, cancelled) : Udp.Final × Bool := match cancelAt with
    | some n => Udp.sendUdpCancel packet tmo rtr outs n
    | none => (Udp.sendUdp packet tmo rtr outs, false)
  let res : Json := if cancelled then toJson (#[toJson "cancelled"] : Array Json) else match f.result with
    | .ok b => toJson (#[toJson "ok", toJson (toHex b)] : Array Json)
    | .error .timeout => toJson (#[toJson "error", toJson "timeout"] : Array Json)
    | .error .osError => toJson (#[toJson "error", toJson "oserror"] : Array Json)
    | .error .connectionLost => toJson (#[toJson "error", toJson "lost"] : Array Json)
    | .error .unbound => toJson (#[toJson "error", toJson "unbound"] : Array Json)
  pure (Json.mkObj [("sends", toJson f.sends.length), ("all_same", toJson (f.sends.all (· == packet))),
    ("open", toJson (f.opened - f.closed)), ("opened", toJson f.opened), ("elapsed", toJson f.elapsed), ("result", res)])

/-! ### trap.run -/
def trapRun (j : Json) : Except String Json := do
  let community ← bytesOfJson (← j.getObjVal? "community")
  let arr ← (← j.getObjVal? "dgrams").getArr?
  let ds ← arr.toList.mapM fun e => do
    let a ← e.getArr?
    let arg (i : Nat) : Json := a[i]?.getD Json.null
    let src : Trap.Source := ⟨← (arg 0).getStr?, ← (arg 1).getNat?⟩
    match arg 2 with
    | Json.null => pure (src, Trap.Dgram.malformed)
    | m => pure (src, Trap.Dgram.msg ⟨← getInt m "version", ← bytesOfJson (← m.getObjVal? "community"), ← getNat m "tag",
        ← vbsOfJson (← m.getObjVal? "vbs")⟩)
  let out := (Trap.deliveries community ds).map fun d =>
    toJson (#[(match d.source with | some x => toJson x.address | none => Json.null),
      (match d.source with | some x => toJson x.port | none => Json.null), toJson d.tag, toJson (d.vbs.map vbToJson),
      match Trap.trapInfo d with
      | some v => pyValToJson v
      | none => Json.null] : Array Json)
  pure (Json.mkObj [("deliveries", toJson out)])

/-- the same, the model being handed nothing but the datagrams -/
def trapWire (j : Json) : Except String Json := do
  let community ← bytesOfJson (← j.getObjVal? "community")
  let arr ← (← j.getObjVal? "dgrams").getArr?
  let ds ← arr.toList.mapM fun e => do
    let a ← e.getArr?
    let arg (i : Nat) : Json := a[i]?.getD Json.null
    pure ((⟨← (arg 0).getStr?, ← (arg 1).getNat?⟩ : Trap.Source), ← bytesOfJson (arg 2))
  let out := (Trap.deliveriesWire community ds).map fun d =>
    toJson (#[(match d.source with | some x => toJson x.address | none => Json.null),
      (match d.source with | some x => toJson x.port | none => Json.null), toJson d.tag, toJson (d.vbs.map vbToJson),
      match Trap.trapInfo d with
      | some v => pyValToJson v
      | none => Json.null] : Array Json)
  pure (Json.mkObj [("deliveries", toJson out)])

/-! ### disco.run -/
def discoRun (j : Json) : Except String Json := do
  let ctx ← bytesOfJson (← j.getObjVal? "ctx")
  let eid ← bytesOfJson (← j.getObjVal? "engine_id")
  let evsJ ← (← j.getObjVal? "events").getArr?
  let evs ← evsJ.toList.mapM fun e => do
    let a ← e.getArr?
    match (a[0]?.getD Json.null).getStr? with
    | .ok "request" => pure Disco.Ev.request
    | .ok "advance" => pure (Disco.Ev.advance (← (a[1]?.getD Json.null).getNat?))
    | .ok "reboot" => pure Disco.Ev.reboot
    | .ok "request-bad-reply" => pure Disco.Ev.requestBadReply
    | .ok "request-slow" => pure Disco.Ev.request
    | _ => throw "bad event"
  let auth := (j.getObjValAs? Bool "auth").toOption.getD true
  -- events: ordinary ones go through `Disco.step`; ["request-slow", lat] through `Disco.requestSlow`
  let slow ← evsJ.toList.mapM fun e => do
    let a ← e.getArr?
    match (a[0]?.getD Json.null).getStr? with
    | .ok "request-slow" => pure (some (← (a[1]?.getD Json.null).getNat?))
    | _ => pure none
  let (_, trace) := (evs.zip slow).foldl (fun (acc : Disco.St × List Disco.Wire) (p : Disco.Ev × Option Nat) =>
      let r := match p.2 with
        | some lat => Disco.requestSlow lat auth ctx acc.1
        | none => Disco.step auth ctx acc.1 p.1
      (r.1, acc.2 ++ r.2)) (Disco.init eid (← getNat j "boots") (← getNat j "start"), [])
  let wj : Disco.Wire → Json
    | .probe => toJson (#[toJson "probe"] : Array Json)
    | .req e c b t iw => toJson (#[toJson "req", toJson (toHex e), toJson (toHex c), toJson b, toJson t, toJson iw] : Array Json)
  pure (Json.mkObj [("trace", toJson (trace.map wj))])

/-! ### conc.run -/
def linearProc (v3 : Bool) (res : Nat) : List Nat → Conc.Proc Nat Nat Nat Nat
  | [] => .done res
  | q :: qs =>
    if v3 then .needDisco fun _ => .exchange q fun _ => linearProc v3 res qs
    else .exchange q fun _ => linearProc v3 res qs

def concRun (j : Json) : Except String Json := do
  let psJ ← (← j.getObjVal? "procs").getArr?
  let ps ← psJ.toList.mapM fun p => do
    let v3 ← p.getObjValAs? Bool "v3"
    pure (linearProc v3 (← getNat p "res") (← getNats p "reqs"))
  let sched ← getNats j "schedule"
  let forget := (getNats j "forget").toOption.getD []
  let s := Conc.runSched (fun q => q) (fun q _ => forget.contains q) 0 (Conc.start ps) sched
  let log := s.log.map fun e => match e.2 with
    | .probe => toJson (#[toJson e.1, toJson "probe"] : Array Json)
    | .req q => toJson (#[toJson e.1, toJson q] : Array Json)
  let fin := s.procs.map fun x => match x.1 with
    | .finished r => toJson r
    | _ => Json.null
  pure (Json.mkObj [("log", toJson log), ("finished", toJson fin)])

/-! ### BER -/
def berErrToJson (e : Ber.BErr) : Json :=
  let k := match e with
    | .index => "index" | .notImplemented => "notImplemented" | .x690 => "x690" | .unexpectedType => "unexpectedType"
    | .value => "value" | .stopIteration => "stopIteration" | .type => "type" | .emptyMessage => "emptyMessage"
    | .outOfFuel => "outOfFuel"
  toJson (#[toJson "error", toJson k] : Array Json)

partial def treeToJson : Ber.Tree → Json
  | .int c v => toJson (#[toJson "int", toJson c, toJson v] : Array Json)
  | .str c b => toJson (#[toJson "str", toJson c, toJson (toHex b)] : Array Json)
  | .null => toJson (#[toJson "null"] : Array Json)
  | .oid o => toJson (#[toJson "oid", toJson o] : Array Json)
  | .marker c => toJson (#[toJson "marker", toJson c] : Array Json)
  | .seq c items => toJson (#[toJson "seq", toJson c, toJson (items.map treeToJson)] : Array Json)
  | .raw c t b => toJson (#[toJson "raw", toJson c, toJson t, toJson (toHex b)] : Array Json)

def optBytesJ : Option Bytes → Json
  | some b => toJson (toHex b)
  | none => Json.null

def berOp (op : String) (j : Json) : Except String Json := do
  match op with
  | "ber.len.enc" => pure (toJson (toHex (Ber.encodeLength (← getNat j "n"))))
  | "ber.len.dec" =>
    match Ber.decodeLength (← bytesOfJson (← j.getObjVal? "data")) (← getNat j "index") with
    | .ok (.definite l o) => pure (toJson (#[toJson l, toJson o] : Array Json))
    | .ok .indefinite => pure (toJson (#[toJson (-1 : Int), toJson (-1 : Int)] : Array Json))
    | .error e => pure (berErrToJson e)
  | "ber.slice" =>
    match Ber.getValueSlice (← bytesOfJson (← j.getObjVal? "data")) (← getNat j "index") with
    | .ok (sl, nxt) => pure (toJson (#[toJson sl.start, toJson sl.stop, toJson nxt] : Array Json))
    | .error e => pure (berErrToJson e)
  | "ber.int.enc" => pure (toJson (toHex (Ber.intEncode (← getInt j "v"))))
  | "ber.int.dec" => pure (toJson (Ber.intDecode (← j.getObjValAs? Bool "signed") (← bytesOfJson (← j.getObjVal? "data"))))
  | "ber.oid.enc" => pure (optBytesJ (Ber.oidEncode (← oidOfJson (← j.getObjVal? "oid"))))
  | "ber.oid.dec" =>
    match Ber.oidDecode (← bytesOfJson (← j.getObjVal? "data")) with
    | .ok o => pure (toJson o)
    | .error e => pure (berErrToJson e)
  | "ber.val.enc" => pure (optBytesJ (Ber.encodeVal (← valOfJson (← j.getObjVal? "val"))))
  | "ber.tree" =>
    let forced := (j.getObjValAs? Bool "forced").toOption.getD false
    let dec := if forced then Ber.decodeTreeForced else Ber.decodeTree
    match dec (← bytesOfJson (← j.getObjVal? "data")) (← getNat j "fuel") (← getNat j "depth") with
    | .ok t => pure (treeToJson t)
    | .error e => pure (berErrToJson e)
  | "ber.msg.recv" =>
    -- bytes -> what `V2CMPM.decode(...).value` hands to the operation: glue, wrapper checks, error check
    let comm ← bytesOfJson (← j.getObjVal? "community")
    match Glue.msgOfBytes (← bytesOfJson (← j.getObjVal? "data")) (← getNat j "fuel") (← getNat j "depth") with
    | some (m, cls) =>
      match (do let p ← Ops.mpmDecode (.v2c comm) m; Ops.forcePdu p : Except Err Ops.PduResp) with
      | .ok p =>
        pure (Json.mkObj [("cls", toJson cls), ("rid", toJson p.requestId), ("es", toJson p.errorStatus),
          ("ei", toJson p.errorIndex), ("vbs", toJson (p.varbinds.map vbToJson))])
      | .error _ => pure Json.null
    | none => pure Json.null
  | "ber.msg.read" =>
    -- bytes -> the record the operation logic works on (decodeTree + unpacking glue)
    match Glue.msgOfBytes (← bytesOfJson (← j.getObjVal? "data")) (← getNat j "fuel") (← getNat j "depth") with
    | some (m, cls) =>
      pure (Json.mkObj [("version", toJson m.version), ("community", toJson (toHex m.community)), ("cls", toJson cls),
        ("rid", toJson m.pdu.requestId), ("es", toJson m.pdu.errorStatus), ("ei", toJson m.pdu.errorIndex),
        ("vbs", toJson (m.pdu.varbinds.map vbToJson))])
    | none => pure Json.null
  | "ber.pdu.enc" =>
    pure (optBytesJ (Ber.encodePdu (← j.getObjValAs? String "cls") (← getInt j "rid") (← getInt j "a") (← getInt j "b")
      (← vbsOfJson (← j.getObjVal? "vbs"))))
  | "ber.msg.community" =>
    pure (toJson (toHex (Ber.encodeCommunityMsg (← getInt j "version") (← bytesOfJson (← j.getObjVal? "community"))
      (← bytesOfJson (← j.getObjVal? "pdu")))))
  | "ber.msg.v3" =>
    let hdr := Ber.encodeHeader (← getInt j "msg_id") (← getInt j "max_size") (← getNat j "flags") (← getInt j "sec_model")
    pure (toJson (toHex (Ber.encodeV3Msg hdr (← bytesOfJson (← j.getObjVal? "sec_params")) (← bytesOfJson (← j.getObjVal? "msg_data")))))
  | "ber.usm.enc" =>
    pure (toJson (toHex (Ber.encodeUsmParams (← bytesOfJson (← j.getObjVal? "engine_id")) (← getInt j "boots") (← getInt j "time")
      (← bytesOfJson (← j.getObjVal? "user")) (← bytesOfJson (← j.getObjVal? "auth")) (← bytesOfJson (← j.getObjVal? "priv")))))
  | "ber.scoped.enc" =>
    pure (toJson (toHex (Ber.encodeScoped (← bytesOfJson (← j.getObjVal? "engine_id")) (← bytesOfJson (← j.getObjVal? "name"))
      (← bytesOfJson (← j.getObjVal? "pdu")))))
  | _ => throw s!"bad-op {op}"

/-! ### request datagrams (C05) -/
def reqKindOfStr : String → Except String Ops.ReqKind
  | "get" => pure .get | "getnext" => pure .getnext | "set" => pure .set
  | "getbulk" => pure .getbulk | k => throw s!"bad request kind {k}"

def emitV3 (v : Json) (r : Ops.PduReq) : Except String Json := do
  let p : Emit.V3Params := {
    msgId := ← getInt v "msg_id", maxSize := ← getInt v "max_size", flags := ← getNat v "flags",
    engineId := ← bytesOfJson (← v.getObjVal? "engine_id"), boots := ← getInt v "boots", time := ← getInt v "time",
    user := ← bytesOfJson (← v.getObjVal? "user"), authParams := ← bytesOfJson (← v.getObjVal? "auth"),
    privParams := ← bytesOfJson (← v.getObjVal? "priv"), ctxEngine := ← bytesOfJson (← v.getObjVal? "ctx_engine"),
    ctxName := ← bytesOfJson (← v.getObjVal? "ctx_name") }
  let some spdu := Emit.scopedBytes p r | pure Json.null
  let msgData ← match v.getObjVal? "ciphertext" with
    | .ok c => do pure (Ber.tlv 4 (← bytesOfJson c))
    | .error _ => pure spdu
  pure (Json.mkObj [("datagram", toJson (toHex (Emit.v3Around p msgData))), ("scoped", toJson (toHex spdu))])

def emitOp (j : Json) : Except String Json := do
  let r : Ops.PduReq := ⟨← reqKindOfStr (← j.getObjValAs? String "kind"), ← getInt j "rid", ← getInt j "a", ← getInt j "b",
    ← vbsOfJson (← j.getObjVal? "vbs")⟩
  match j.getObjVal? "v3" with
  | .error _ =>
    match Emit.community (← getInt j "version") (← bytesOfJson (← j.getObjVal? "community")) r with
    | some dg => pure (toJson (toHex dg))
    | none => pure Json.null
  | .ok v => emitV3 v r

/-! ### USM -/
def optBytesOfJson (j : Json) (k : String) : Except String (Option Bytes) :=
  match j.getObjVal? k with
  | .ok Json.null => pure none
  | .ok v => do pure (some (← bytesOfJson v))
  | .error _ => pure none

def credsOfJson (j : Json) : Except String Usm.Creds := do
  pure ⟨← bytesOfJson (← j.getObjVal? "user"), ← optBytesOfJson j "auth", ← optBytesOfJson j "priv"⟩

/-- crypto functions as oracle tables supplied by the harness (computed with hashlib / the plug-in) -/
def oracleCrypto (j : Json) : Except String Usm.Crypto := do
  let mac ← optBytesOfJson j "mac"
  let dec ← optBytesOfJson j "dec"
  let cipher ← optBytesOfJson j "cipher"
  let salt ← optBytesOfJson j "salt"
  -- `mac_input`: the octets the harness computed `mac` over; a different MAC input gets another digest
  let macIn ← optBytesOfJson j "mac_input"
  pure { mac := fun _ z => match macIn with
           | some zi => if z == zi then mac.getD [] else [222, 173]
           | none => mac.getD [],
         loc := fun pw eid => pw ++ [256] ++ eid,
         enc := fun _ _ _ _ _ => (cipher.getD [], salt.getD []), dec := fun _ _ _ _ _ _ => dec }

def pduToJson (p : Spec.Pdu) : Json :=
  Json.mkObj [("tag", toJson p.tag), ("rid", toJson p.requestId), ("a", toJson p.a), ("b", toJson p.b),
    ("vbs", toJson (p.varbinds.map vbToJson))]

def usmIncoming (j : Json) : Except String Json := do
  let c ← credsOfJson (← j.getObjVal? "creds")
  let cr ← oracleCrypto j
  let m ← j.getObjVal? "msg"
  let msg : Spec.V3Msg := {
    msgId := ← getInt m "msg_id", maxSize := ← getInt m "max_size", flags := ← getNat m "flags", securityModel := ← getInt m "sec_model",
    engineId := ← bytesOfJson (← m.getObjVal? "engine_id"), boots := ← getInt m "boots", time := ← getInt m "time",
    user := ← bytesOfJson (← m.getObjVal? "user"), authParams := ← bytesOfJson (← m.getObjVal? "auth"),
    privParams := ← bytesOfJson (← m.getObjVal? "priv"), dataTag := ← getNat m "data_tag", data := ← bytesOfJson (← m.getObjVal? "data") }
  -- with the datagram at hand the MAC input is derived from it as the real code does
  -- (`reset_raw_digest` over the x690 mirror); the harness's own zeroed form otherwise
  let im : Usm.InMsg ← match j.getObjVal? "datagram" with
    | .ok dg => do pure (Usm.inMsgOfWire msg (← bytesOfJson dg))
    | .error _ => do pure (⟨msg, ← optBytesOfJson j "zeroed"⟩ : Usm.InMsg)
  match Usm.processIncoming cr c im with
  | .ok s => pure (toJson (#[toJson "ok", Json.mkObj [("ctx_engine", toJson (toHex s.contextEngineId)),
      ("ctx_name", toJson (toHex s.contextName)), ("pdu", pduToJson s.pdu)]] : Array Json))
  | .error e => pure (toJson (#[toJson "error", errToJson e] : Array Json))

def usmIncomingWire (j : Json) : Except String Json := do
  let c ← credsOfJson (← j.getObjVal? "creds")
  let cr ← oracleCrypto j
  let data ← bytesOfJson (← j.getObjVal? "datagram")
  match V3Glue.incoming cr c data (data.length + 16) with
  | .ok s => pure (toJson (#[toJson "ok", Json.mkObj [("ctx_engine", toJson (toHex s.contextEngineId)),
      ("ctx_name", toJson (toHex s.contextName)), ("pdu", pduToJson s.pdu)]] : Array Json))
  | .error e => pure (toJson (#[toJson "error", errToJson e] : Array Json))

def usmReset (j : Json) : Except String Json := do
  match RawDigest.resetRawDigest (← bytesOfJson (← j.getObjVal? "datagram")) with
  | .ok z => pure (toJson (#[toJson "ok", toJson (toHex z)] : Array Json))
  | .error .digestLength => pure (toJson (#[toJson "error", toJson "digestLength"] : Array Json))
  | .error (.ber e) => pure (berErrToJson e)

def usmParams (j : Json) : Except String Json := do
  let data ← bytesOfJson (← j.getObjVal? "data")
  match UsmParams.ofBytes data (data.length + 16) with
  | .ok p => pure (toJson (#[toJson "ok", Json.mkObj [("engine_id", toJson (toHex p.engineId)), ("boots", toJson p.boots),
      ("time", toJson p.time), ("user", toJson (toHex p.user)), ("auth", toJson (toHex p.auth)), ("priv", toJson (toHex p.priv))]] : Array Json))
  | .error .malformed => pure (toJson (#[toJson "error", toJson "malformed"] : Array Json))
  | .error (.ber e) => pure (berErrToJson e)

def usmOutgoing (j : Json) : Except String Json := do
  let c ← credsOfJson (← j.getObjVal? "creds")
  let cr ← oracleCrypto j
  let d ← j.getObjVal? "disco"
  let disco : Usm.Disco := ⟨← bytesOfJson (← d.getObjVal? "engine_id"), ← getInt d "boots", ← getInt d "time"⟩
  let q ← j.getObjVal? "req"
  let r : Ops.PduReq := ⟨← reqKindOfStr (← q.getObjValAs? String "kind"), ← getInt q "rid", ← getInt q "a", ← getInt q "b",
    ← vbsOfJson (← q.getObjVal? "vbs")⟩
  match Usm.generate cr c disco (← bytesOfJson (← j.getObjVal? "ctx_engine")) (← bytesOfJson (← j.getObjVal? "ctx_name")) r with
  | none => pure Json.null
  | some (p, md, dg) =>
    pure (Json.mkObj [("datagram", toJson (toHex dg)), ("flags", toJson p.flags),
      ("zeroed", toJson (toHex (Emit.v3Around { p with authParams := (if c.auth.isSome then Usm.zeros12 else p.authParams) } md))),
      ("scoped", match Emit.scopedBytes (Usm.baseParams c disco (← bytesOfJson (← j.getObjVal? "ctx_engine")) (← bytesOfJson (← j.getObjVal? "ctx_name")) r) r with
        | some sb => toJson (toHex sb) | none => Json.null)])

/-- `bytes(X.decode(data))` for X = Message / ScopedPDU / USMSecurityParameters -/
def reencOp (j : Json) : Except String Json := do
  let data ← bytesOfJson (← j.getObjVal? "data")
  let what ← j.getObjValAs? String "what"
  let fuel := data.length + 16
  let r ← match what with
    | "msg" => pure (Reenc.reencMsg data fuel)
    | "scoped" => pure (Reenc.reencScoped data fuel)
    | "usm" => pure (Reenc.reencUsm data fuel)
    | _ => throw s!"bad-op reenc {what}"
  match r with
  | .ok b => pure (toJson (#[toJson "ok", toJson (toHex b)] : Array Json))
  | .error e => pure (toJson (#[toJson "error", errToJson e] : Array Json))

def handle (j : Json) : Except String Json := do
  let op ← j.getObjValAs? String "op"
  match op with
  | "py.and" => pure (toJson (Py.land (← getInt j "a") (← getInt j "b")))
  | "py.or" => pure (toJson (Py.lor (← getInt j "a") (← getInt j "b")))
  | "types.counter32" => pure (toJson (Gen.counter32Init (← getInt j "v")))
  | "types.counter64" => pure (toJson (Gen.counter64Init (← getInt j "v")))
  | "types.ticksOfMicros" => pure (toJson (Gen.ticksOfMicros (← getInt j "v")))
  | "types.ticksToMicros" => pure (toJson (Types.ticksToMicros (← getInt j "v")))
  | "types.ipToBytes" => pure (toJson (Types.ipToBytes (← getNat j "v")))
  | "types.fromBE" => pure (toJson (Types.fromBE (← getNats j "b")))
  | "walk.run" => walkRun j
  | "ops.run" => opsRun j
  | "cfg.run" => cfgRun j
  | "py.wrap" => pyWrap j
  | "usm.incoming" => usmIncoming j
  | "usm.outgoing" => usmOutgoing j
  | "usm.reset" => usmReset j
  | "usm.incoming.wire" => usmIncomingWire j
  | "usm.params" => usmParams j
  | "reenc" => reencOp j
  | "key.expand" => pure (toJson (toHex (Usm.expand (← bytesOfJson (← j.getObjVal? "pw")) (← getNat j "n"))))
  | "emit" => emitOp j
  | "emit.probe" => pure (optBytesJ (Emit.probe (← getInt j "rid")))
  | "conc.run" => concRun j
  | "disco.run" => discoRun j
  | "trap.run" => trapRun j
  | "trap.wire" => trapWire j
  | "udp.run" => udpRun j
  | "tablify" => tablifyOp j
  | "table.run" => tableRun j
  | _ =>
    if op.startsWith "ber." then berOp op j
    else if op.startsWith "walk." then walkUnit op j
    else throw s!"bad-op {op}"

end Driver

partial def loop (h : IO.FS.Stream) (out : IO.FS.Stream) : IO Unit := do
  let line ← h.getLine
  if line.isEmpty then return ()
  let ans := match Json.parse line with
    | .error e => Json.mkObj [("error", Json.str s!"bad-json {e}")]
    | .ok j => match Driver.handle j with
      | .ok r => Json.mkObj [("ok", r)]
      | .error e => Json.mkObj [("error", Json.str e)]
  out.putStrLn ans.compress
  loop h out

def main : IO Unit := do
  let stdin ← IO.getStdin
  let stdout ← IO.getStdout
  loop stdin stdout
