/-
  Model driver: one JSON request per line on stdin, one JSON answer per line on stdout.
  Unknown or malformed requests are answered with {"error": …}; nothing is defaulted.
-/
import Lean.Data.Json
import Snmp.Model.Basic
import Snmp.Model.Py
import Snmp.Model.Types
import Snmp.Gen.Facts
open Lean Snmp

namespace Driver

def getInt (j : Json) (k : String) : Except String Int := j.getObjValAs? Int k
def getNat (j : Json) (k : String) : Except String Nat := j.getObjValAs? Nat k
def getNats (j : Json) (k : String) : Except String (List Nat) := do
  let a ← j.getObjValAs? (Array Nat) k
  pure a.toList

def handle (j : Json) : Except String Json := do
  let op ← j.getObjValAs? String "op"
  match op with
  | "py.and" => pure (toJson (Py.land (← getInt j "a") (← getInt j "b")))
  | "py.or" => pure (toJson (Py.lor (← getInt j "a") (← getInt j "b")))
  | "types.counter32" => pure (toJson (Gen.counter32Init (← getInt j "v")))
  | "types.counter64" => pure (toJson (Gen.counter64Init (← getInt j "v")))
  | "types.ticksOfMicros" => pure (toJson (Gen.ticksOfMicros (← getInt j "v")))
  | "types.ticksToMicros" => pure (toJson (Types.ticksToMicros (← getInt j "v")))
  | "types.ipToBytes" => pure (toJson (Types.ipToBytes (← getNat j "v")))
  | "types.fromBE" => pure (toJson (Types.fromBE (← getNats j "b")))
  | _ => throw s!"bad-op {op}"

end Driver

partial def loop (h : IO.FS.Stream) (out : IO.FS.Stream) : IO Unit := do
  let line ← h.getLine
  if line.isEmpty then return ()
  let ans := match Json.parse line with
    | .error e => Json.mkObj [("error", Json.str s!"bad-json {e}")]
    | .ok j => match Driver.handle j with
      | .ok r => Json.mkObj [("ok", r)]
      | .error e => Json.mkObj [("error", Json.str e)]
  out.putStrLn ans.compress
  loop h out

def main : IO Unit := do
  let stdin ← IO.getStdin
  let stdout ← IO.getStdout
  loop stdin stdout
