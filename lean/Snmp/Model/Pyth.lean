/-
  Model of `puresnmp.api.pythonic.PyWrapper`: what each wrapper method makes of the raw
  client's result.  `PyVal` is the universe of Python objects a caller can receive; it *can*
  represent a leaked internal object (`leak className`), so "only built-in types" is a real
  statement about the result and not true by construction.
-/
import Snmp.Model.Basic
namespace Snmp.Pyth

inductive PyVal where
  | int (v : Int)
  | bytes (b : Bytes)
  | none
  | str (s : String)
  /-- `datetime.timedelta`, in microseconds -/
  | timedelta (micros : Int)
  /-- `ipaddress.IPv4Address` -/
  | ipv4 (n : Nat)
  | list (l : List PyVal)
  /-- tuples and the documented record shells `PyVarBind`, `BulkResult` -/
  | tuple (l : List PyVal)
  /-- `dict` / `OrderedDict`, insertion ordered -/
  | dict (l : List (PyVal × PyVal))
  /-- an object of a puresnmp / x690 class -/
  | leak (cls : String)
  deriving Repr, Inhabited

/-- `str(oid)` / `ObjectIdentifier.pythonize()` -/
def dotted (o : Oid) : String := ".".intercalate (o.map toString)

def fromBE (b : Bytes) : Nat := b.foldl (fun acc x => acc * 256 + x) 0

/-- `value.pythonize()` for every value class of the registry -/
def pythonize : Val → PyVal
  | .int v => .int v
  | .str b => .bytes b
  | .null => .none
  | .oid o => .str (dotted o)
  | .ip b => .ipv4 (fromBE b)
  | .counter32 v => .int v
  | .gauge32 v => .int v
  | .ticks v => .timedelta (v * 10000)
  | .opaque b => .bytes b
  | .nsap v => .int v
  | .counter64 v => .int v
  | .noSuchObject => .none
  | .noSuchInstance => .none
  | .endOfMibView => .none
  | .unknown _ b => .bytes b

/-- `PyVarBind.from_raw` -/
def pyVarBind (vb : VarBind) : PyVal := .tuple [.str (dotted vb.1), pythonize vb.2]

def get (raw : Val) : PyVal := pythonize raw
def getnext (raw : VarBind) : PyVal := pyVarBind raw
def multiget (raw : List Val) : PyVal := .list (raw.map pythonize)
/-- `{str(oid): value.pythonize() for oid, value in raw_output.items()}` -/
def multiset (raw : List VarBind) : PyVal := .dict (raw.map fun p => (.str (dotted p.1), pythonize p.2))
/-- `(await self.multiset({oid: value}))[oid.lstrip(".")]`; `none` is `KeyError` -/
def set (oid : Oid) (raw : List VarBind) : Option PyVal :=
  (raw.find? fun p => dotted p.1 == dotted oid).map fun p => pythonize p.2
/-- `walk`, `multiwalk`, `bulkwalk` (collected) -/
def walk (raw : List VarBind) : PyVal := .list (raw.map pyVarBind)
/-- `bulkget`: `BulkResult(dict, OrderedDict)` -/
def bulkget (scalars listing : List VarBind) : PyVal :=
  .tuple [.dict (scalars.map fun p => (.str (dotted p.1), pythonize p.2)),
          .dict (listing.map fun p => (.str (dotted p.1), pythonize p.2))]

/-- a raw table row as `tablify` builds it: the index string under key "0" and the cells
    under their column numbers, in insertion order -/
structure RawRow where
  index : String
  cells : List (String × Val)
  deriving Repr, Inhabited

/-- `index = row.pop("0"); pythonized = {k: v.pythonize() …}; pythonized["0"] = index` -/
def tableRow (r : RawRow) : PyVal :=
  .dict (r.cells.map (fun c => (.str c.1, pythonize c.2)) ++ [(.str "0", .str r.index)])

def table (raw : List RawRow) : PyVal := .list (raw.map tableRow)

mutual
/-- only built-in Python types, dictionary keys included -/
def builtin : PyVal → Bool
  | .leak _ => false
  | .list l => builtinList l
  | .tuple l => builtinList l
  | .dict l => builtinPairs l
  | _ => true
def builtinList : List PyVal → Bool
  | [] => true
  | x :: xs => builtin x && builtinList xs
def builtinPairs : List (PyVal × PyVal) → Bool
  | [] => true
  | (k, v) :: xs => builtin k && builtin v && builtinPairs xs
end

end Snmp.Pyth
