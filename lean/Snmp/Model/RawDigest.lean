/-
  `puresnmp_plugins.security.usm.reset_raw_digest`: the digest octets of a received SNMPv3
  message are located with `x690.util.get_value_slice` (mirror: `Ber.getValueSlice`) and replaced
  by zeroes in place; every other octet of the datagram stays as it was sent.
-/
import Snmp.Model.Ber
namespace Snmp.RawDigest
open Snmp Snmp.Ber

inductive RErr where
  | ber (e : BErr)      -- whatever `get_value_slice` raises
  | digestLength        -- AuthenticationError("Message digest must be 12 octets long!")
  deriving Repr, DecidableEq, BEq, Inhabited

def gvs (data : Bytes) (i : Nat) : Except RErr (Slice × Nat) :=
  match getValueSlice data i with
  | .ok r => .ok r
  | .error e => .error (.ber e)

/-- `for _ in range(n): index = get_value_slice(data, index).next_value_index` -/
def skip (data : Bytes) : Nat → Nat → Except RErr Nat
  | 0, i => .ok i
  | n + 1, i =>
    match gvs data i with
    | .ok (_, nx) => skip data n nx
    | .error e => .error e

def zeros12 : Bytes := List.replicate 12 0

def resetRawDigest (data : Bytes) : Except RErr Bytes :=
  match gvs data 0 with
  | .error e => .error e
  | .ok (message, _) =>
  -- skip msgVersion and msgGlobalData
  match gvs data message.start with
  | .error e => .error e
  | .ok (_, i1) =>
  match gvs data i1 with
  | .error e => .error e
  | .ok (_, i2) =>
  -- msgSecurityParameters: an OCTET STRING wrapping a SEQUENCE
  match gvs data i2 with
  | .error e => .error e
  | .ok (secparams, _) =>
  match gvs data secparams.start with
  | .error e => .error e
  | .ok (inner, _) =>
  -- skip engine-id, engine-boots, engine-time and user-name
  match skip data 4 inner.start with
  | .error e => .error e
  | .ok idx =>
  match gvs data idx with
  | .error e => .error e
  | .ok (digest, _) =>
    if digest.stop - (digest.start : Int) ≠ 12 then .error .digestLength
    else .ok (data.take digest.start ++ zeros12 ++ data.drop digest.stop.toNat)

end Snmp.RawDigest
