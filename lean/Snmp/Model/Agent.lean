/-
  Specification side: what an SNMP agent answers.  A *conformant* agent is determined by a
  strictly ascending database; an *adversarial* agent is an arbitrary function.  GETBULK
  responses are shaped by a truncation policy.
-/
import Snmp.Model.Basic
namespace Snmp

/-- `(requested OID, repetition index) ↦ binding`; `endOfMibView` is a legal value. -/
abbrev AgentFn := Oid → Nat → VarBind

structure BulkPolicy where
  /-- upper bound on the number of repetitions the agent is willing to return (≥ 1 enforced) -/
  rows : Option Nat := none
  /-- number of trailing bindings dropped from the response (never cutting into the first row) -/
  cut : Nat := 0
  /-- stop after a repetition consisting of endOfMibView only -/
  stopAfterEomRow : Bool := true
  /-- RFC 3416 4.2.3: the cut may reach into the first repetition (at least one binding is kept) -/
  deep : Bool := false
  deriving Repr, Inhabited

namespace Agent

/-- database successor: first entry strictly greater than `o` -/
def nextOf (db : List VarBind) (o : Oid) : Option VarBind := db.find? (fun e => decide (o < e.1))

def conformant (db : List VarBind) : AgentFn := fun o _ =>
  match nextOf db o with
  | some e => e
  | none => (o, .endOfMibView)

/-- scripted agent: lookup `(oid, some k)` first, then `(oid, none)`; a missing entry or a
    `none` target is endOfMibView; the value is a function of the returned OID only. -/
def ofTable (tbl : List ((Oid × Option Nat) × Option Oid)) (valOf : Oid → Val) : AgentFn := fun o k =>
  let hit := match tbl.find? (fun e => e.1 == (o, some k)) with
    | some e => some e.2
    | none => (tbl.find? (fun e => e.1 == (o, none))).map (·.2)
  match hit with
  | some (some n) => (n, valOf n)
  | _ => (o, .endOfMibView)

def getResp (db : List VarBind) (oids : List Oid) : List VarBind :=
  oids.map fun o =>
    match db.find? (fun e => e.1 == o) with
    | some e => e
    | none =>
      let parent := o.dropLast
      if parent != [] && db.any (fun e => parent.isPrefixOf e.1) then (o, .noSuchInstance)
      else (o, .noSuchObject)

def getnextResp (a : AgentFn) (oids : List Oid) : List VarBind := oids.map (a · 0)

/-- the successive repetitions of a GETBULK: row `k` answers the OIDs of row `k-1` -/
def bulkRows (a : AgentFn) (stopAfterEom : Bool) : Nat → Nat → List Oid → List (List VarBind)
  | 0, _, _ => []
  | n + 1, k, cur =>
    let row := cur.map (a · k)
    if stopAfterEom && row.all (fun vb => vb.2.isEom) then [row]
    else row :: bulkRows a stopAfterEom n (k + 1) (row.map (·.1))

def getbulkResp (a : AgentFn) (pol : BulkPolicy) (nonRep maxRep : Nat) (oids : List Oid) : List VarBind :=
  let n := min nonRep oids.length
  let scalars := (oids.take n).map (a · 0)
  let reps := oids.drop n
  let maxRows := match pol.rows with
    | some r => min maxRep (max 1 r)
    | none => maxRep
  let rows := if reps.isEmpty then [] else bulkRows a pol.stopAfterEomRow maxRows 0 reps
  let flat := rows.flatten
  let flat := if pol.cut > 0 && pol.deep && !flat.isEmpty then
      flat.take (max 1 (flat.length - pol.cut))
    else if pol.cut > 0 && rows.length > 1 then
      flat.take (max (rows.head!.length) (flat.length - pol.cut))
    else flat
  scalars ++ flat

end Agent
end Snmp
