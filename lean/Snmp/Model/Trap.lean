/-
  Model of the trap pipeline: `register_trap_callback`'s per-datagram `decode` closure
  (message-processing model chosen by the version field, community check of the v2c security
  model, source address attached, callback scheduled once) and of the pythonic `TrapInfo` view.
  The closure keeps no state between datagrams: the listener is a `filterMap`.
-/
import Snmp.Model.Pyth
namespace Snmp.Trap

structure Source where
  address : String
  port : Nat
  deriving Repr, DecidableEq, BEq, Inhabited

/-- a datagram as an independent BER reader sees it -/
structure Msg where
  version : Int
  community : Bytes
  /-- context tag of the PDU (7 = SNMPv2-Trap) -/
  tag : Nat
  vbs : List VarBind
  deriving Repr, BEq, Inhabited

inductive Dgram where
  | msg (m : Msg)
  /-- truncated, garbage, not a community message -/
  | malformed
  deriving Repr, BEq, Inhabited

structure Delivery where
  /-- attached to Trap PDUs only (`Trap.source`) -/
  source : Option Source
  tag : Nat
  vbs : List VarBind
  deriving Repr, BEq, Inhabited

/-- the message-processing model is chosen by the version field; `V2C` credentials are accepted by
    the v2c security model (version 1) and, being a subclass of `V1`, by the v1 one (version 0) -/
def versionOk (v : Int) : Bool := v == 1 || v == 0

/-- `decode(packet)` for a listener registered with `V2C(community)` -/
def receive (community : Bytes) (p : Source × Dgram) : Option Delivery :=
  match p.2 with
  | .malformed => none
  | .msg m =>
    if versionOk m.version ∧ m.community = community then
      some ⟨if m.tag = 7 then some p.1 else none, m.tag, m.vbs⟩
    else none

/-- callback invocations for a sequence of datagrams -/
def deliveries (community : Bytes) (ds : List (Source × Dgram)) : List Delivery :=
  ds.filterMap (receive community)

/-- `TrapInfo(trap)`: (origin, uptime, oid, values) -/
def trapInfo (d : Delivery) : Option Pyth.PyVal :=
  if d.tag ≠ 7 then none else  -- other PDU classes have no `source`: `TrapInfo.origin` raises
  match d.vbs with
  | up :: oid :: rest =>
    some (.tuple [.str ((d.source.map (·.address)).getD ""), Pyth.pythonize up.2, Pyth.pythonize oid.2,
      .dict (rest.map fun vb => (.str (Pyth.dotted vb.1), Pyth.pythonize vb.2))])
  | _ => none

end Snmp.Trap
