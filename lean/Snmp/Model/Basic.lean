/-
  Basic vocabulary of the puresnmp model.  Lean core only (no Mathlib) so that the driver
  can be compiled as a native executable.
-/
namespace Snmp

/-- An OID is the tuple of its sub-identifiers (`ObjectIdentifier.nodes`). `<` is core's
    lexicographic order on lists, which is Python's tuple order used by `__lt__`. -/
abbrev Oid := List Nat

/-- Octets; every element is meant to be `< 256` (see `Bytes.WF`). -/
abbrev Bytes := List Nat

def Bytes.WF (b : Bytes) : Prop := ∀ x ∈ b, x < 256

/-- `other in self` of x690's `ObjectIdentifier.__contains__`: `root` is a prefix of `o`
    (equality included). -/
def inside (root o : Oid) : Bool := root.isPrefixOf o

theorem inside_iff (root o : Oid) : inside root o = true ↔ root <+: o := by
  simp [inside, List.isPrefixOf_iff_prefix]

/-- SNMP value kinds as puresnmp's type registry distinguishes them. -/
inductive Val where
  | int (v : Int)
  | str (b : Bytes)
  | null
  | oid (o : Oid)
  | ip (b : Bytes)
  | counter32 (v : Int)
  | gauge32 (v : Int)
  | ticks (v : Int)
  | opaque (b : Bytes)
  | nsap (v : Int)
  | counter64 (v : Int)
  | noSuchObject
  | noSuchInstance
  | endOfMibView
  | unknown (tag : Nat) (b : Bytes)
  deriving Repr, DecidableEq, BEq, Inhabited

def Val.isEom : Val → Bool
  | .endOfMibView => true
  | _ => false

def Val.isMissing : Val → Bool
  | .noSuchObject => true
  | .noSuchInstance => true
  | _ => false

abbrev VarBind := Oid × Val

/-- The exceptions the public API documents, plus `other` for everything undocumented
    (`IndexError`, `TypeError`, `X690Error`, …). -/
inductive Err where
  | snmpError
  | errorResponse (status : Int) (cls : String) (offending : Oid)
  | noSuchOID
  | faulty
  | invalidResponseId
  | timeout
  | authError
  | unknownUser
  | decryptError
  | unsupportedLevel
  | typeError
  | other (what : String)
  deriving Repr, DecidableEq, BEq, Inhabited

end Snmp
