/-
  Model of the User-based Security Model as puresnmp implements it
  (`puresnmp_plugins/security/usm.py`, `puresnmp_plugins/mpm/v3.py`, `puresnmp/util.py`):
  outgoing `generate_request_message` (`apply_encryption`, `apply_authentication`), incoming
  `process_incoming_message` (user-name check, `verify_authentication` over the octets as
  received with the digest zeroed in place, `decrypt_message`, `validate_usm_message`, security
  level check), flag computation, key-derivation buffers.

  Cryptography is abstract: `mac key msg` is the 12-octet HMAC, `loc password engineId` the
  password-to-key localisation with the user's authentication hash, `enc` / `dec` the privacy
  plug-in.  Theorems hold for every choice of these functions.
-/
import Snmp.Model.Emit
import Snmp.Model.BerSpec
import Snmp.Model.RawDigest
namespace Snmp.Usm
open Snmp.Ber

structure Creds where
  user : Bytes
  /-- authentication pass-phrase -/
  auth : Option Bytes
  /-- privacy pass-phrase -/
  priv : Option Bytes
  deriving Repr, BEq, Inhabited

/-- the plug-ins and hash functions, as parameters -/
structure Crypto where
  mac : Bytes → Bytes → Bytes
  loc : Bytes → Bytes → Bytes
  enc : Bytes → Bytes → Int → Int → Bytes → Bytes × Bytes
  /-- `none`: the plug-in raised -/
  dec : Bytes → Bytes → Int → Int → Bytes → Bytes → Option Bytes

/-! ### outgoing -/

/-- `V3Flags(auth, priv, reportable)` as an octet (generated `flagsEncode`) -/
def flagsOf (c : Creds) (reportable : Bool) : Nat := (Gen.flagsEncode c.auth.isSome c.priv.isSome reportable).toNat

/-- `is_confirmed(pdu)` (generated from the working tree: which PDU classes it accepts) -/
def isConfirmed (k : Ops.ReqKind) : Bool :=
  ((Gen.confirmedClasses.find? (·.1 == Emit.pduClass k)).map (·.2)).getD false

structure Disco where
  engineId : Bytes
  boots : Int
  time : Int
  deriving Repr, BEq, Inhabited

def zeros12 : Bytes := Gen.digestPlaceholder

/-- the message parameters before security is applied (`V3MPM.encode`) -/
def baseParams (c : Creds) (d : Disco) (ctxEngine ctxName : Bytes) (r : Ops.PduReq) : Emit.V3Params :=
  { msgId := r.requestId, maxSize := Gen.messageMaxSize, flags := flagsOf c (isConfirmed r.kind),
    engineId := d.engineId, boots := d.boots, time := d.time, user := c.user, authParams := [], privParams := [],
    ctxEngine := if ctxEngine == [] then d.engineId else ctxEngine, ctxName := ctxName }

/-- `apply_encryption`: with a privacy pass-phrase the msgData field becomes the OCTET STRING of
    the plug-in's ciphertext of the scoped PDU and the salt becomes msgPrivacyParameters -/
def encryptStep (cr : Crypto) (c : Creds) (d : Disco) (base : Emit.V3Params) (spdu : Bytes) : Emit.V3Params × Bytes :=
  match c.priv with
  | none => (base, spdu)
  | some pp =>
    let out := cr.enc (cr.loc pp d.engineId) d.engineId d.boots d.time spdu
    ({ base with privParams := out.2 }, Ber.tlv 4 out.1)

/-- `apply_authentication`: the digest is the MAC of the message serialised with twelve zero
    octets as authentication parameters -/
def authStep (cr : Crypto) (c : Creds) (d : Disco) (p1 : Emit.V3Params) (msgData : Bytes) : Emit.V3Params :=
  match c.auth with
  | none => p1
  | some pw => { p1 with authParams := cr.mac (cr.loc pw d.engineId) (Emit.v3Around { p1 with authParams := zeros12 } msgData) }

/-- `generate_request_message`: the parameters of the message, the msgData field and the
    datagram.  `none`: the request cannot be encoded (OID outside x690's domain). -/
def generate (cr : Crypto) (c : Creds) (d : Disco) (ctxEngine ctxName : Bytes) (r : Ops.PduReq) :
    Option (Emit.V3Params × Bytes × Bytes) :=
  (Emit.scopedBytes (baseParams c d ctxEngine ctxName r) r).map fun spdu =>
    let e := encryptStep cr c d (baseParams c d ctxEngine ctxName r) spdu
    let p2 := authStep cr c d e.1 e.2
    (p2, e.2, Emit.v3Around p2 e.2)

/-! ### incoming -/

/-- a received message: what `Message.decode` extracts, and the octets with the digest zeroed in
    place (`reset_raw_digest`; `none` when the digest field is not 12 octets long) -/
structure InMsg where
  m : Spec.V3Msg
  zeroed : Option Bytes
  deriving Repr, Inhabited

/-- the received message as `V3MPM.decode` hands it on: the fields `Message.decode` extracted and
    the datagram itself (`Message.raw`), from which `verify_authentication` derives the MAC input
    with `reset_raw_digest` (an error there leaves nothing to compare the digest with) -/
def inMsgOfWire (m : Spec.V3Msg) (datagram : Bytes) : InMsg :=
  ⟨m, match RawDigest.resetRawDigest datagram with | .ok z => some z | .error _ => none⟩

/-- `validate_usm_message`: the PDU classes it looks into (generated from its `isinstance` guard;
    the empty list stands for "every PDU") and the usmStats objects whose presence is an error -/
def usmErrorPdu (tag : Nat) : Bool := Gen.usmErrorPduTags.isEmpty || Gen.usmErrorPduTags.contains tag

def hasUsmError (p : Spec.Pdu) : Bool :=
  usmErrorPdu p.tag && p.varbinds.any fun vb => Gen.usmErrorOids.any (·.1 == vb.1)

def authFlag (m : Spec.V3Msg) : Bool := m.flags % 2 == 1
def privFlag (m : Spec.V3Msg) : Bool := m.flags / 2 % 2 == 1

/-- the user-name check of `process_incoming_message` -/
def checkUser (c : Creds) (m : Spec.V3Msg) : Except Err Unit :=
  if m.user != c.user then .error .unknownUser else .ok ()

/-- `verify_authentication`: nothing to do without the auth flag; otherwise the digest found in
    the message must be the MAC, under the user's localised key, of the octets as received with
    the 12 digest octets zeroed -/
def verifyAuth (cr : Crypto) (c : Creds) (im : InMsg) : Except Err Unit :=
  if !authFlag im.m then .ok ()
  else match c.auth with
    | none => .error .unsupportedLevel
    | some pw =>
      match im.zeroed with
      | none => .error .authError
      | some z => if cr.mac (cr.loc pw im.m.engineId) z != im.m.authParams then .error .authError else .ok ()

/-- `Message.from_sequence` + `decrypt_message`: the scoped PDU, from the plaintext payload or
    from the plug-in's decryption of the OCTET STRING payload -/
def extractScoped (cr : Crypto) (c : Creds) (m : Spec.V3Msg) : Except Err Spec.ScopedPdu :=
  if m.dataTag == 4 then
    if !privFlag m then .error (.other "TypeError")
    else match c.priv with
      | none => .error .snmpError
      | some pp =>
        match cr.dec (cr.loc pp m.engineId) m.engineId m.boots m.time m.privParams m.data with
        | none => .error .decryptError
        | some plain =>
          match Spec.readTLV plain with
          | some (48, sc, _) =>
            match Spec.readScoped sc with
            | some s => .ok s
            | none => .error .decryptError
          | _ => .error .decryptError
  else
    if privFlag m then .error (.other "AttributeError")
    else match Spec.readScoped m.data with
      | some s => .ok s
      | none => .error (.other "malformed")

/-- the security level of a response must not be lower than the level of the credentials -/
def checkLevel (c : Creds) (m : Spec.V3Msg) : Except Err Unit :=
  if (c.auth.isSome && !authFlag m) || (c.priv.isSome && !privFlag m) then .error .unsupportedLevel else .ok ()

/-- `Message.decode` / `from_sequence`: without the priv flag the payload is taken apart as a
    scoped PDU sequence at once — an OCTET STRING there is a TypeError before anything else happens -/
def shapeCheck (m : Spec.V3Msg) : Except Err Unit :=
  if m.dataTag == 4 && !privFlag m then .error (.other "TypeError") else .ok ()

/-- `V3MPM.decode`: `Message.decode` followed by `UserSecurityModel.process_incoming_message` -/
def processIncoming (cr : Crypto) (c : Creds) (im : InMsg) : Except Err Spec.ScopedPdu :=
  match shapeCheck im.m with
  | .error e => .error e
  | .ok _ =>
  match checkUser c im.m with
  | .error e => .error e
  | .ok _ =>
    match verifyAuth cr c im with
    | .error e => .error e
    | .ok _ =>
      match extractScoped cr c im.m with
      | .error e => .error e
      | .ok s =>
        -- validate_usm_message
        if hasUsmError s.pdu then .error .snmpError
        else match checkLevel c im.m with
          | .error e => .error e
          | .ok _ => .ok s

/-! ### key derivation buffers (`util.password_to_key`) -/

/-- `(password * (n // len(password) + 1))[:n]` -/
def expand (pw : Bytes) (n : Nat) : Bytes := ((List.replicate (n / pw.length + 1) pw).flatten).take n

/-- `key[:padding] + engine_id + key[:padding]` -/
def localiseBuffer (ku : Bytes) (padding : Nat) (engineId : Bytes) : Bytes := ku.take padding ++ engineId ++ ku.take padding

end Snmp.Usm
