/-
  The glue between the decoded tree of a community (v1 / v2c) response and the record the
  operation logic (`Snmp.Ops`) works on: what `V2CMPM.decode` / `SNMPv2cSecurityModel.
  process_incoming_message` unpack (`proto_version, community, pdu = message`) and what
  `PDU.decode_raw` turns into a `PDUContent` (request id, error fields, `VarBind(oid, value)` per
  two-item binding).  Total on trees: shapes the code cannot unpack are `none`.
-/
import Snmp.Model.Ber
import Snmp.Model.Ops
namespace Snmp.Glue
open Snmp Snmp.Ber Snmp.Ops

/-- the value object a decoded leaf stands for, by registered class; unregistered classes are
    handed to the caller as `UnknownType(tag, octets)` -/
def valOfTree : Tree → Option Val
  | .int "Integer" v => some (.int v)
  | .int "Counter" v => some (.counter32 v)
  | .int "Gauge" v => some (.gauge32 v)
  | .int "TimeTicks" v => some (.ticks v)
  | .int "Counter64" v => some (.counter64 v)
  | .int "NsapAddress" v => some (.nsap v)
  | .str "OctetString" b => some (.str b)
  | .str "Opaque" b => some (.opaque b)
  | .str "IpAddress" b => some (.ip b)
  | .null => some .null
  | .oid o => some (.oid o)
  | .marker "NoSuchObject" => some .noSuchObject
  | .marker "NoSuchInstance" => some .noSuchInstance
  | .marker "EndOfMibView" => some .endOfMibView
  | .raw "UnknownType" tag b => some (.unknown tag b)
  | _ => none

/-- `for oid, value in values: VarBind(oid, value)` — the first item has to be an OID for the
    operations to make sense of it -/
def bindOfTree : Tree → Option VarBind
  | .seq _ [.oid o, v] => (valOfTree v).map fun val => (o, val)
  | _ => none

/-- `PDU.decode_raw`: class name and content -/
def pduOfTree : Tree → Option (String × PduResp)
  | .seq cls [.int _ rid, .int _ es, .int _ ei, .seq _ items] =>
    (items.mapM bindOfTree).map fun vbs => (cls, ⟨rid, es, ei, vbs⟩)
  | _ => none

/-- `proto_version, community, pdu = message` -/
def msgOfTree : Tree → Option (RespMsg × String)
  | .seq _ [.int _ v, .str _ c, p] => (pduOfTree p).map fun (cp : String × PduResp) => (⟨v, c, cp.2⟩, cp.1)
  | _ => none

/-- bytes → record: decode the datagram, unpack it -/
def msgOfBytes (data : Bytes) (fuel depth : Nat) : Option (RespMsg × String) :=
  match decodeTree data fuel depth with
  | .ok t => msgOfTree t
  | .error _ => none

end Snmp.Glue
