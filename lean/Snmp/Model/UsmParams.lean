/-
  `USMSecurityParameters.decode` (`puresnmp_plugins/security/usm.py`): the octets of
  msgSecurityParameters are decoded with `x690.decode(data, enforce_type=Sequence)` and the six
  items are checked against the expected classes before their values are read (`pythonize`).
  What is accepted here is what `send_discovery_message` caches for the lifetime of the client
  (engine id, boots, time) and what every incoming message is authenticated with.

  The expected classes and the kind of check (`type(item) is cls` or `isinstance`) are generated
  from the source (`Gen.usmParamClasses`, `Gen.usmParamExact`); `Gen.typeBases` is the subclass
  relation among the registered classes (the SNMP application types derive from the universal
  ones: TimeTicks, Counter, Gauge from Integer; IpAddress, Opaque from OctetString).
-/
import Snmp.Model.Ber
namespace Snmp.UsmParams
open Snmp Snmp.Ber

inductive PErr where
  | ber (e : BErr)
  | malformed          -- SnmpError("Malformed USM security parameters!")
  deriving Repr, DecidableEq, BEq, Inhabited

structure Params where
  engineId : Bytes
  boots : Int
  time : Int
  user : Bytes
  auth : Bytes
  priv : Bytes
  deriving Repr, DecidableEq, BEq, Inhabited

/-- `isinstance(obj, want)` over the registry's class names -/
def isInstance (cls want : String) : Bool := cls == want || Gen.typeBases.any (· == (cls, want))

/-- the check applied to one item -/
def classOk (want cls : String) : Bool := if Gen.usmParamExact then cls == want else isInstance cls want

def lift {α} (r : Except BErr α) : Except PErr α :=
  match r with
  | .ok a => .ok a
  | .error e => .error (.ber e)

/-- the value `pythonize()` yields for an item accepted as OCTET STRING / INTEGER.  Only meaningful
    for the universal classes: a TimeTicks item would come out as a `timedelta`, an IpAddress as an
    `IPv4Address` — values no later use of the cache can work with (see `C20_disco_params_typed`). -/
def octets (data : Bytes) (n : Node) : Bytes := n.content data
def integer (data : Bytes) (n : Node) : Int := intDecode n.entry.signed (n.content data)

def ofBytes (data : Bytes) (fuel : Nat) : Except PErr Params :=
  match lift (decodeAt data 0) with
  | .error e => .error e
  | .ok (n, _) =>
    if !isInstance n.entry.name "Sequence" then .error (.ber .unexpectedType)
    else
      match lift (seqItems data n.slice fuel) with
      | .error e => .error e
      | .ok items =>
        if items.length != Gen.usmParamClasses.length
            || !(items.zip Gen.usmParamClasses).all (fun p => classOk p.2 p.1.entry.name) then .error .malformed
        else
          match items with
          | [e, b, t, u, a, p] => .ok ⟨octets data e, integer data b, integer data t, octets data u, octets data a, octets data p⟩
          | _ => .error .malformed

/-- the classes of the items of an accepted parameter block -/
def acceptedClasses (data : Bytes) (fuel : Nat) : Option (List String) :=
  match decodeAt data 0 with
  | .ok (n, _) =>
    match seqItems data n.slice fuel with
    | .ok items => some (items.map (·.entry.name))
    | .error _ => none
  | .error _ => none

end Snmp.UsmParams
