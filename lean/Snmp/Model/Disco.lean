/-
  Model of SNMPv3 engine discovery and timeliness in `V3MPM.encode` /
  `UserSecurityModel.send_discovery_message` / `set_engine_timing` /
  `generate_request_message`, against an authoritative engine with a clock and a boot counter.

  Client and agent live on one time line (`now`, in ticks of 0.1 s): the client's monotonic clock
  and the agent's clock advance together; engine times on the wire are whole seconds
  (`int(time.monotonic() - disco_timestamp)` on the client, the integer snmpEngineTime on the agent).  A history is a list of events; the trace is what goes over
  the wire and what the agent's time-window check says about each authenticated request.
-/
import Snmp.Model.Basic
namespace Snmp.Disco

structure Agent where
  engineId : Bytes
  boots : Nat
  /-- instant of the last (re)boot: `snmpEngineTime = now - bootAt` -/
  bootAt : Nat
  deriving Repr, DecidableEq, BEq, Inhabited

/-- the client's cached discovery result (`V3MPM.disco` + `disco_timestamp`) -/
structure Cached where
  engineId : Bytes
  boots : Nat
  time : Nat
  stamp : Nat
  deriving Repr, DecidableEq, BEq, Inhabited

structure St where
  now : Nat
  agent : Agent
  disco : Option Cached
  deriving Repr, DecidableEq, BEq, Inhabited

inductive Ev where
  | request
  | advance (dt : Nat)
  | reboot
  /-- a request whose discovery exchange (if one is needed) gets a reply that is refused
      (foreign message id / no bindings): the operation fails, nothing is cached -/
  | requestBadReply
  deriving Repr, DecidableEq, BEq, Inhabited

/-- what the agent sees -/
inductive Wire where
  /-- discovery probe: empty engine id, empty user, reportable, no auth -/
  | probe
  /-- a request with its security engine id, context engine id, boots, time and the agent's
      verdict for an authenticated user (`inWindow`) -/
  | req (engineId ctxEngineId : Bytes) (boots time : Nat) (inWindow : Bool)
  deriving Repr, DecidableEq, BEq, Inhabited

def Agent.time (a : Agent) (now : Nat) : Nat := (now - a.bootAt) / 10

/-- RFC 3414 3.2 (7b) on the authoritative side -/
def inWindow (a : Agent) (now boots time : Nat) : Bool :=
  boots == a.boots && decide (time ≤ a.time now + 150) && decide (a.time now ≤ time + 150)

/-- the wire form of a request sent with the cached discovery data `c` at instant `now` -/
def sendWith (a : Agent) (now : Nat) (ctx : Bytes) (c : Cached) : Wire × Bool :=
  let time := c.time + (now - c.stamp) / 10
  let iw := inWindow a now c.boots time
  (.req c.engineId (if ctx == [] then c.engineId else ctx) c.boots time iw, iw)

/-- what a discovery at instant `now` caches -/
def discover (s : St) : Cached := ⟨s.agent.engineId, s.agent.boots, s.agent.time s.now, s.now⟩

/-- one request (`Client._send`): discover if nothing is cached, then send with the extrapolated
    engine time.  An authenticated request outside the agent's window is answered by a
    notInTimeWindow report: `V3MPM.decode` forgets the discovery data and `_send` sends the request
    once more, which starts with a new discovery.  `ctx` is the configured context engine id
    (empty = use the discovered one). -/
def request (auth : Bool) (ctx : Bytes) (s : St) : St × List Wire :=
  let (c, pre) : Cached × List Wire := match s.disco with
    | some c => (c, [])
    | none => (discover s, [.probe])
  let (w, iw) := sendWith s.agent s.now ctx c
  if auth && !iw then
    let c' := discover s
    let (w', iw') := sendWith s.agent s.now ctx c'
    ({ s with disco := if iw' then some c' else none }, pre ++ [w, .probe, w'])
  else
    ({ s with disco := some c }, pre ++ [w])

/-- a request during which every discovery reply is refused (foreign message id / no bindings):
    nothing can be cached; with valid cached data the request itself goes through, unless the
    agent answers notInTimeWindow — then the repeated request fails in its discovery -/
def requestBad (auth : Bool) (ctx : Bytes) (s : St) : St × List Wire :=
  match s.disco with
  | none => (s, [.probe])
  | some c =>
    let (w, iw) := sendWith s.agent s.now ctx c
    if auth && !iw then ({ s with disco := none }, [w, .probe]) else (s, [w])

def step (auth : Bool) (ctx : Bytes) (s : St) : Ev → St × List Wire
  | .request => request auth ctx s
  | .advance dt => ({ s with now := s.now + dt }, [])
  | .reboot => ({ s with agent := { s.agent with boots := s.agent.boots + 1, bootAt := s.now } }, [])
  | .requestBadReply => requestBad auth ctx s

def run (auth : Bool) (ctx : Bytes) : St → List Ev → St × List Wire
  | s, [] => (s, [])
  | s, e :: es =>
    let (s', w) := step auth ctx s e
    let (s'', ws) := run auth ctx s' es
    (s'', w ++ ws)

/-! ### time passing during the discovery exchange

  The probe takes `lat` ticks to reach the engine (a slow or retransmitted discovery); the Report
  is back at once, and `disco_timestamp` is read when it has arrived, so what is cached is the
  engine's time at the instant of the stamp.  (`requestSlow 0 = request`.) -/

def tick (lat : Nat) (s : St) : St := { s with now := s.now + lat }

def requestSlow (lat : Nat) (auth : Bool) (ctx : Bytes) (s : St) : St × List Wire :=
  match s.disco with
  | none => request auth ctx (tick lat s)
  | some c =>
    let (w, iw) := sendWith s.agent s.now ctx c
    if auth && !iw then
      let s' := tick lat s
      let c' := discover s'
      let (w', iw') := sendWith s'.agent s'.now ctx c'
      ({ s' with disco := if iw' then some c' else none }, [w, .probe, w'])
    else
      ({ s with disco := some c }, [w])

/-- a fresh client facing an agent that booted at instant 0 -/
def init (engineId : Bytes) (boots start : Nat) : St := ⟨start, ⟨engineId, boots, 0⟩, none⟩

/-- handling of the discovery reply (`send_discovery_message`) -/
inductive DiscoErr where
  | invalidResponseId
  | snmpError
  deriving Repr, DecidableEq, BEq, Inhabited

structure Reply where
  msgId : Int
  engineId : Bytes
  boots : Nat
  time : Nat
  varbinds : Nat   -- number of bindings in the Report
  deriving Repr, Inhabited

def acceptReply (probeId : Int) (now : Nat) (r : Reply) : Except DiscoErr Cached :=
  if r.msgId ≠ probeId then .error .invalidResponseId
  else if r.varbinds = 0 then .error .snmpError
  else .ok ⟨r.engineId, r.boots, r.time, now⟩

end Snmp.Disco
