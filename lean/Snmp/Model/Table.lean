/-
  Model of `puresnmp.util.tablify` as `Client.table` (num_base_nodes = len(entry oid)) and
  `Client.bulktable` (len(table oid) + 1) call it.  Dictionaries are insertion-ordered
  association lists; `rows.setdefault(row_id, {"0": row_id})` followed by
  `row[str(col)] = value` mutates the row in place.

  Abstraction (trusted): row identifiers `'.'.join(str(n) for n in tail[1:])` and column keys
  `str(tail[0])` are compared as the tuples / numbers they are built from (the string rendering
  is injective on tuples of naturals); the index key `'0'` is column number 0, so a column
  numbered 0 clobbers the index exactly as in the code.
-/
import Snmp.Model.Py
namespace Snmp.Table

inductive Cell where
  | idx (i : List Nat)
  | val (v : Val)
  deriving Repr, DecidableEq, BEq, Inhabited

abbrev Row := List (Nat × Cell)
abbrev Rows := List (List Nat × Row)

def lookup {κ ν} [BEq κ] (d : List (κ × ν)) (k : κ) : Option ν := (d.find? (·.1 == k)).map (·.2)

/-- one iteration of the `for oid, value in varbinds:` loop -/
def step (n : Nat) (rows : Rows) (vb : VarBind) : Except Err Rows :=
  match vb.1.drop n with
  | [] => .error (.other "IndexError")
  | col :: rowId =>
    let row := (lookup rows rowId).getD [(0, .idx rowId)]
    .ok (Py.dictSet rows rowId (Py.dictSet row col (.val vb.2)))

def fold (n : Nat) : Rows → List VarBind → Except Err Rows
  | rows, [] => .ok rows
  | rows, vb :: rest =>
    match step n rows vb with
    | .ok rows' => fold n rows' rest
    | .error e => .error e

/-- `tablify(varbinds, num_base_nodes=n)` -/
def tablify (vbs : List VarBind) (n : Nat) : Except Err (List Row) :=
  (fold n [] vbs).map fun rows => rows.map (·.2)

end Snmp.Table
