/-
  From the octets of a received SNMPv3 message to the record `Usm.processIncoming` works on:
  `Message.decode` / `Message.from_sequence` (`puresnmp/adt.py`) and
  `USMSecurityParameters.decode` (first step of `process_incoming_message`), over the x690 mirror.
  x690 objects are lazy: only what these functions touch is decoded, and a field of the wrong
  class goes unnoticed until something is done with its value.  Errors are given the class the
  harness distinguishes: SnmpError and its subclasses by name, everything else `other`.
-/
import Snmp.Model.Usm
import Snmp.Model.UsmParams
namespace Snmp.V3Glue
open Snmp Snmp.Ber

/-- the `bytes` a field yields through `.value` / `.pythonize()`; `none`: some other Python type -/
def octetsOf (data : Bytes) (n : Node) : Option Bytes :=
  -- generated: the classes whose value is the content octets (OCTET STRING, Opaque, the fallback
  -- class for unregistered identifier octets, every class that keeps x690's default `decode_raw`)
  if Gen.bytesValued.contains n.entry.name then some (n.content data) else none

/-- an integer field: msgID, msgMaxSize and msgSecurityModel are stored without being looked at -/
def intOf (data : Bytes) (n : Node) : Int :=
  if n.entry.kind == "int" then intDecode n.entry.signed (n.content data) else 0

/-- `field.pythonize()` for its side effect: the value is decoded now, and a malformed one raises -/
def forced (data : Bytes) (n : Node) (fuel : Nat) : Except Err Unit :=
  match readNode data fuel 8 n with
  | .ok _ => .ok ()
  | .error _ => .error (.other "decode")

/-- the TLV of an item, re-written with a minimal length (what the strict reader is given) -/
def tlvOf (data : Bytes) (n : Node) : Bytes := Ber.tlv n.tagByte (n.content data)

def items (data : Bytes) (n : Node) (fuel : Nat) : Except Err (List Node) :=
  if n.entry.kind != "seq" then .error (.other "TypeError")   -- `obj[0]` on something that is no sequence
  else match seqItems data n.slice fuel with
    | .ok l => .ok l
    | .error _ => .error (.other "decode")

/-- what `from_sequence` keeps of msgData (identifier octet and content handed to `processIncoming`):
    untouched when the priv flag is set or the item is an OCTET STRING; otherwise taken apart at once
    into three items, whatever their classes (`ScopedPDU(scoped[0], scoped[1], scoped[2])`) — the
    strict reader is handed the two context fields as OCTET STRINGs and the third item as it came -/
def payloadOf (data : Bytes) (flags : Nat) (pl : Node) (fuel : Nat) : Except Err (Nat × Bytes) :=
  if flags / 2 % 2 == 1 then
    .ok (if UsmParams.isInstance pl.entry.name "OctetString" then 4 else pl.tagByte, pl.content data)
  else if UsmParams.isInstance pl.entry.name "OctetString" then .ok (4, pl.content data)
  else match items data pl fuel with
    | .error e => .error e
    | .ok (e :: nm :: p :: _) =>
      .ok (pl.tagByte, Ber.tlv 4 (e.content data) ++ Ber.tlv 4 (nm.content data) ++ tlvOf data p)
    | .ok _ => .error (.other "IndexError")

/-- `Message.decode(data)` followed by `USMSecurityParameters.decode(message.security_parameters)` -/
def v3OfBytes (data : Bytes) (fuel : Nat) : Except Err Spec.V3Msg :=
  match decodeAt data 0 with
  | .error _ => .error (.other "decode")
  | .ok (n, _) =>
    if !UsmParams.isInstance n.entry.name "Sequence" then .error (.other "UnexpectedType")
    else match items data n fuel with
    | .error e => .error e
    | .ok (_ver :: hdr :: sp :: pl :: _) =>
      match items data hdr fuel with
      | .error e => .error e
      | .ok (mid :: mms :: fl :: sm :: _) =>
        match octetsOf data fl with
        | none => .error (.other "TypeError")             -- int.from_bytes(<not bytes>)
        | some fb =>
          let flags := fromBE fb
          -- HeaderData(msg_id.pythonize(), msg_max_size.pythonize(), flags, security_model.pythonize())
          match forced data mid fuel, forced data mms fuel, forced data sm fuel with
          | .ok _, .ok _, .ok _ =>
            let payload := payloadOf data flags pl fuel
            match payload with
            | .error e => .error e
            | .ok (dtag, dcontent) =>
              match octetsOf data sp with
              | none => .error (.other "TypeError")         -- decode(<not bytes>)
              | some spb =>
                match UsmParams.ofBytes spb fuel with
                | .error .malformed => .error .snmpError
                | .error (.ber _) => .error (.other "decode")
                | .ok p =>
                  .ok ⟨intOf data mid, intOf data mms, flags, intOf data sm, p.engineId, p.boots, p.time, p.user, p.auth, p.priv,
                       dtag, dcontent⟩
          | _, _, _ => .error (.other "decode")
      | .ok _ => .error (.other "IndexError")
    | .ok _ => .error (.other "IndexError")

/-- `V3MPM.decode(whole_msg, credentials)` -/
def incoming (cr : Usm.Crypto) (c : Usm.Creds) (data : Bytes) (fuel : Nat) : Except Err Spec.ScopedPdu :=
  match v3OfBytes data fuel with
  | .error e => .error e
  | .ok m =>
    match Usm.processIncoming cr c (Usm.inMsgOfWire m data) with
    | .error e => .error e
    | .ok s =>
      -- whatever the third item of the scoped PDU is, it is handed on; only a PDU is of any use
      if (lookup s.pdu.tag).kind != "pdu" then .error (.other "not a PDU") else .ok s

end Snmp.V3Glue
