/-
  Python integer / sequence semantics used by the generated and hand-written model.
  (Validated against CPython by the `unit-py` correspondence suite.)
-/
import Snmp.Model.Basic
namespace Snmp.Py

/-- Python `a & b` on unbounded two's-complement integers. -/
def land : Int → Int → Int
  | .ofNat m, .ofNat n => .ofNat (m &&& n)
  | .ofNat m, .negSucc n => .ofNat (m - (m &&& n))
  | .negSucc m, .ofNat n => .ofNat (n - (n &&& m))
  | .negSucc m, .negSucc n => .negSucc (m ||| n)

/-- Python `a | b` on unbounded two's-complement integers. -/
def lor : Int → Int → Int
  | .ofNat m, .ofNat n => .ofNat (m ||| n)
  | .ofNat m, .negSucc n => .negSucc (n - (n &&& m))
  | .negSucc m, .ofNat n => .negSucc (m - (m &&& n))
  | .negSucc m, .negSucc n => .negSucc (m &&& n)

/-- Python `a << k` for a literal non-negative `k`. -/
def shl (a : Int) (k : Nat) : Int := a * (2 : Int) ^ k

/-- Python `a >> k` (arithmetic shift = floor division). -/
def shr (a : Int) (k : Nat) : Int := a / (2 : Int) ^ k

/-- Python `xs[i::n]` for `n ≥ 1`, `i ≥ 0`. -/
def stride {α} (xs : List α) (i n : Nat) : List α :=
  match n with
  | 0 => []
  | n + 1 =>
    let rec go (l : List α) (fuel : Nat) : List α :=
      match fuel, l with
      | 0, _ => []
      | _, [] => []
      | fuel + 1, x :: rest => x :: go (rest.drop n) fuel
    go (xs.drop i) xs.length

/-- Python `xs[k]` with negative indices counted from the end; `none` is `IndexError`. -/
def index {α} (xs : List α) (k : Int) : Option α :=
  if 0 ≤ k then xs[k.toNat]?
  else if (-k).toNat ≤ xs.length then xs[xs.length - (-k).toNat]? else none

/-- Python `dict` assignment `d[k] = v` on an insertion-ordered association list. -/
def dictSet {κ ν} [BEq κ] (d : List (κ × ν)) (k : κ) (v : ν) : List (κ × ν) :=
  if d.any (fun p => p.1 == k) then d.map (fun p => if p.1 == k then (p.1, v) else p)
  else d ++ [(k, v)]

/-- `dict(pairs)` -/
def dictOf {κ ν} [BEq κ] (ps : List (κ × ν)) : List (κ × ν) :=
  ps.foldl (fun d p => dictSet d p.1 p.2) []

theorem land_self (v : Int) : land v v = v := by
  cases v with
  | ofNat m => simp [land]
  | negSucc m => simp [land]

theorem land_mask_nonneg (v : Nat) (k : Nat) :
    land (Int.ofNat v) (Int.ofNat (2 ^ k - 1)) = Int.ofNat (v % 2 ^ k) := by
  simp [land, Nat.and_two_pow_sub_one_eq_mod]

end Snmp.Py
