/-
  PDU-level model of the request/response operations of `puresnmp.api.raw.Client`:
  `_send`, `multiget`, `get`, `multigetnext`, `getnext`, `multiset`, `set`, `bulkget`, with the
  request-id clock (`get_request_id`), the community/version checks of the v1/v2c security
  models, the error-status branch of `PDU.decode_raw` and `validate_response_id`.
  The network is a *script*: the list of answers the agent gives, consumed in order.
-/
import Snmp.Model.Py
import Snmp.Gen.Facts
namespace Snmp.Ops

inductive ReqKind where
  | get | getnext | set | getbulk
  deriving Repr, DecidableEq, BEq, Inhabited

structure PduReq where
  kind : ReqKind
  requestId : Int
  /-- error-status (0) or non-repeaters -/
  a : Int
  /-- error-index (0) or max-repetitions -/
  b : Int
  varbinds : List VarBind
  deriving Repr, BEq, Inhabited

structure PduResp where
  requestId : Int
  errorStatus : Int
  errorIndex : Int
  varbinds : List VarBind
  deriving Repr, BEq, Inhabited

/-- what arrives from the network, after BER decoding of the wrapper -/
structure RespMsg where
  version : Int
  community : Bytes
  pdu : PduResp
  deriving Repr, BEq, Inhabited

inductive Proto where
  | v1 (community : Bytes)
  | v2c (community : Bytes)
  | v3
  deriving Repr, BEq, Inhabited

/-- the class `ErrorResponse.construct` picks for a status (generated table) -/
def errorClass (status : Int) : String :=
  match Gen.errorTable.find? (fun e => e.1 == status) with
  | some e => e.2
  | none => "ErrorResponse"

/-- error branch of `PDU.decode_raw` -/
def errorOf (p : PduResp) : Err :=
  let off : Oid :=
    if 1 ≤ p.errorIndex ∧ p.errorIndex ≤ p.varbinds.length then
      match p.varbinds[(p.errorIndex - 1).toNat]? with
      | some vb => vb.1
      | none => []
    else []
  .errorResponse p.errorStatus (errorClass p.errorStatus) off

/-- reading `pdu.value` of a lazily decoded PDU -/
def forcePdu (p : PduResp) : Except Err PduResp :=
  if p.errorStatus ≠ 0 then .error (errorOf p) else .ok p

/-- `mpm.decode` for the community-based models (and the PDU hand-over for v3, whose USM
    processing is modelled in `Snmp.Usm`) -/
def mpmDecode (proto : Proto) (m : RespMsg) : Except Err PduResp :=
  match proto with
  | .v2c community =>
    if m.version ≠ 1 then .error .snmpError
    else if m.community ≠ community then .error .snmpError
    else .ok m.pdu
  | .v1 community => do
    let _ ← forcePdu m.pdu
    if m.version ≠ 0 then .error .snmpError
    else if m.community ≠ community then .error .snmpError
    else .ok m.pdu
  | .v3 => do
    let _ ← forcePdu m.pdu
    .ok m.pdu

/-- `Client._send` after the request left: what is made of the network's answer `r`
    (`r` is a transport error or the decoded wrapper), validated against `rid`. -/
def recv (proto : Proto) (rid : Int) (r : Except Err RespMsg) : Except Err PduResp := do
  let m ← r
  let p ← mpmDecode proto m
  let p ← forcePdu p
  if p.requestId ≠ rid then throw .invalidResponseId
  pure p

/-- what the first exchange of `Client._send` ended with: a decoded answer / a transport error, or
    a usmStatsNotInTimeWindows report (raised as `NotInTimeWindow` while the message is decoded) -/
inductive FirstExchange where
  | answer (r : Except Err RespMsg)
  | timeWindowReport

/-- `Client._send`: `_send_once`, repeated once — the same PDU, the same request id — after a
    notInTimeWindow report; whatever the second exchange yields is final -/
def sendRetry (proto : Proto) (rid : Int) (first : FirstExchange) (second : Except Err RespMsg) : Except Err PduResp :=
  match first with
  | .answer r => recv proto rid r
  | .timeWindowReport => recv proto rid second

def nullBinds (oids : List Oid) : List VarBind := oids.map (·, Val.null)

/-- Every operation performs exactly one read of the request-id clock (`rid`), emits one
    request and interprets one answer. An operation is modelled as the pair
    (request emitted for clock value `rid`, result as a function of the network's answer). -/
structure Op (α : Type) where
  request : Int → PduReq
  result : Int → Except Err RespMsg → Except Err α

def noSuchOid (oid : Oid) : Err := .errorResponse 2 (errorClass 2) oid

def multiget (proto : Proto) (oids : List Oid) : Op (List Val) where
  request rid := ⟨.get, rid, 0, 0, nullBinds oids⟩
  result rid r := do
    let resp ← recv proto rid r
    let output := resp.varbinds.map (·.2)
    if output.length ≠ oids.length then throw .snmpError
    pure output

def get (proto : Proto) (oid : Oid) : Op Val where
  request := (multiget proto [oid]).request
  result rid r := do
    let l ← (multiget proto [oid]).result rid r
    match l with
    | [] => throw (.other "IndexError")
    | v :: _ => if v.isMissing then throw (noSuchOid oid) else pure v

def multigetnext (proto : Proto) (oids : List Oid) : Op (List VarBind) where
  request rid := ⟨.getnext, rid, 0, 0, nullBinds oids⟩
  result rid r := do
    let resp ← recv proto rid r
    if resp.varbinds.length ≠ oids.length then throw .snmpError
    let output := resp.varbinds.takeWhile (fun vb => !vb.2.isEom)
    if (oids.zip output).all (fun p => decide (p.1 < p.2.1)) then pure output else throw .faulty

def getnext (proto : Proto) (oid : Oid) : Op VarBind where
  request := (multigetnext proto [oid]).request
  result rid r := do
    let l ← (multigetnext proto [oid]).result rid r
    match l with
    | [] => throw (.other "IndexError")
    | vb :: _ => if vb.2.isMissing then throw (noSuchOid oid) else pure vb

def multiset (proto : Proto) (mappings : List VarBind) : Op (List VarBind) where
  request rid := ⟨.set, rid, 0, 0, mappings⟩
  result rid r := do
    let resp ← recv proto rid r
    let output := Py.dictOf resp.varbinds
    if output.length ≠ mappings.length then throw .snmpError
    pure output

def set (proto : Proto) (oid : Oid) (v : Val) : Op Val where
  request := (multiset proto [(oid, v)]).request
  result rid r := do
    let l ← (multiset proto [(oid, v)]).result rid r
    match l.find? (fun p => p.1 == oid) with
    | some p => pure p.2
    | none => throw (.other "KeyError")

structure BulkResult where
  scalars : List VarBind
  listing : List VarBind
  deriving Repr, BEq, Inhabited

def bulkVarbinds (proto : Proto) (scalars reps : List Oid) (maxList : Int) : Op (List VarBind) where
  request rid := ⟨.getbulk, rid, scalars.length, maxList, nullBinds (scalars ++ reps)⟩
  result rid r := do
    let resp ← recv proto rid r
    if (resp.varbinds.length : Int) > Gen.bulkBound scalars.length (scalars ++ reps).length maxList then
      throw .snmpError
    pure resp.varbinds

def bulkget (proto : Proto) (scalars reps : List Oid) (maxList : Int) : Op BulkResult where
  request := (bulkVarbinds proto scalars reps maxList).request
  result rid r := do
    let vbs ← (bulkVarbinds proto scalars reps maxList).result rid r
    let scalarOut := Py.dictOf (vbs.take scalars.length)
    let listing := Py.dictOf ((vbs.drop scalars.length).takeWhile (fun vb => !vb.2.isEom))
    pure ⟨scalarOut, listing⟩

end Snmp.Ops
