/-
  Re-encoding of decoded structures (`bytes(obj)` of something that came out of the decoder):

  * an x690 object built by `x690.decode` keeps the datagram and the bounds of its content;
    `X690Type.__bytes__` writes the identifier octet OF ITS CLASS, `encode_length(len(content))`
    and the content octets as received (`self.raw_bytes[self.bounds] or self.encode_raw()`);
  * `ScopedPDU.decode(data).__bytes__()` builds a fresh `Sequence([engine_id, name, pdu])` around the
    three decoded items;
  * `USMSecurityParameters.decode(data).__bytes__()` rebuilds all six fields from their Python values;
  * `Message.decode(data).__bytes__()`: msgVersion as received, the header rebuilt from the Python
    values of its four fields (flags through `V3Flags.decode` / `V3Flags.__bytes__`: generated code),
    msgSecurityParameters as the octets received, msgData as received (encrypted) or as a fresh
    sequence around the three items of the scoped PDU (plain).

  `unmodelled` marks inputs whose outcome depends on Python details left out on purpose (a PDU with
  no content re-reads whatever follows it; header fields of non-integer classes); the
  correspondence suite skips exactly those and counts them.
-/
import Snmp.Model.V3Glue
namespace Snmp.Reenc
open Snmp Snmp.Ber

def unmodelled : Err := .other "unmodelled"

/-- `bytes(TypeInfo(cls.TYPECLASS, cls.NATURE[0], cls.TAG))` -/
def classTag (n : Node) : Nat := tagOf n.entry.name

/-- `bytes(obj)` for a decoded x690 object -/
def objBytes (data : Bytes) (n : Node) : Except Err Bytes :=
  let c := n.content data
  if n.entry.kind == "null" then .ok [5, 0]                        -- `Null.__bytes__`
  else if c.isEmpty then
    -- `b"" or self.encode_raw()` on an object whose Python value was never set
    if n.entry.kind == "marker" then .error (.other "TypeError")   -- `encode_raw()` returns None
    else if n.entry.kind == "pdu" then .error unmodelled           -- `PDU.encode_raw` decodes at the bounds
    else if n.entry.kind == "ip" then .ok (Ber.tlv (classTag n) [0, 0, 0, 0])   -- `int(ip_address(0)).to_bytes(4, "big")`
    else if n.entry.name == "Boolean" then .ok [classTag n, 1, 1]  -- `b"\x01" if self.pyvalue else b"\x00"`: the sentinel is truthy
    else .ok [classTag n, 0]
  else .ok (Ber.tlv (classTag n) c)

/-- `bytes(ScopedPDU(seq[0], seq[1], seq[2]))` for a decoded sequence node -/
def scopedBytes (data : Bytes) (sc : Node) (fuel : Nat) : Except Err Bytes :=
  if sc.entry.kind == "oid" then .error unmodelled     -- an OBJECT IDENTIFIER can be indexed too: its arcs become the "items"
  else
  match V3Glue.items data sc fuel with
  | .error e => .error e
  | .ok (e :: nm :: p :: _) =>
    match objBytes data e, objBytes data nm, objBytes data p with
    | .ok a, .ok b, .ok c => .ok (Ber.tlv (tagOf "Sequence") (a ++ b ++ c))
    | .error x, _, _ => .error x
    | _, .error x, _ => .error x
    | _, _, .error x => .error x
  | .ok _ => .error (.other "IndexError")

/-- `bytes(ScopedPDU.decode(data))` -/
def reencScoped (data : Bytes) (fuel : Nat) : Except Err Bytes :=
  match decodeAt data 0 with
  | .error _ => .error (.other "decode")
  | .ok (n, _) =>
    if !UsmParams.isInstance n.entry.name "Sequence" then .error (.other "UnexpectedType")
    else scopedBytes data n fuel

/-- `bytes(USMSecurityParameters.decode(data))` -/
def reencUsm (data : Bytes) (fuel : Nat) : Except Err Bytes :=
  match UsmParams.ofBytes data fuel with
  | .ok p => .ok (encodeUsmParams p.engineId p.boots p.time p.user p.auth p.priv)
  | .error .malformed => .error .snmpError
  | .error (.ber _) => .error (.other "decode")

/-- the seven nodes `Message.decode` / `from_sequence` pick out of a message -/
structure MsgNodes where
  ver : Node
  mid : Node
  mms : Node
  fl : Node
  sm : Node
  sp : Node
  pl : Node
  deriving Repr, BEq, Inhabited

def msgNodes (data : Bytes) (fuel : Nat) : Except Err MsgNodes :=
  match decodeAt data 0 with
  | .error _ => .error (.other "decode")
  | .ok (n, _) =>
    if !UsmParams.isInstance n.entry.name "Sequence" then .error (.other "UnexpectedType")
    else match V3Glue.items data n fuel with
    | .error e => .error e
    | .ok (ver :: hdr :: sp :: pl :: _) =>
      match V3Glue.items data hdr fuel with
      | .error e => .error e
      | .ok (mid :: mms :: fl :: sm :: _) => .ok ⟨ver, mid, mms, fl, sm, sp, pl⟩
      | .ok _ => .error (.other "IndexError")
    | .ok _ => .error (.other "IndexError")

/-- `field.pythonize()` of a header field, handed to `Integer(...)` again by `HeaderData.as_snmp_type` -/
def headerInt (data : Bytes) (n : Node) : Except Err Int :=
  if n.entry.kind != "int" then .error unmodelled
  else if n.entry.name == "TimeTicks" then .error (.other "TypeError")   -- `Integer(timedelta)`
  else .ok (intDecode n.entry.signed (n.content data))

/-- `bytes(V3Flags.decode(blob))`: generated from the two method bodies -/
def flagsNorm (flags : Nat) : Nat :=
  let d := Gen.flagsDecode flags
  (Gen.flagsEncode d.1 d.2.1 d.2.2).toNat

def assemble (ver : Bytes) (mid mms : Int) (flags : Nat) (sm : Int) (sp payload : Bytes) : Bytes :=
  Ber.tlv (tagOf "Sequence") (ver ++ encodeHeader mid mms flags sm ++ Ber.tlv (tagOf "OctetString") sp ++ payload)

/-- `bytes(Message.decode(data))` -/
def reencMsg (data : Bytes) (fuel : Nat) : Except Err Bytes :=
  match msgNodes data fuel with
  | .error e => .error e
  | .ok m =>
    match V3Glue.octetsOf data m.sp, V3Glue.octetsOf data m.fl with
    | none, _ => .error unmodelled    -- `OctetString(<value of another class>)`: falsy values and strings are accepted
    | _, none => .error (.other "TypeError")
    | some spb, some fb =>
      let flags := fromBE fb
      match headerInt data m.sm, headerInt data m.mid, headerInt data m.mms with
      | .ok sm, .ok mid, .ok mms =>
        let payload := if flags / 2 % 2 == 1 then objBytes data m.pl else scopedBytes data m.pl fuel
        match payload, objBytes data m.ver with
        | .ok pb, .ok vb => .ok (assemble vb mid mms (flagsNorm flags) sm spb pb)
        | .error e, _ => .error e
        | _, .error e => .error e
      | .error e, _, _ => .error e
      | _, .error e, _ => .error e
      | _, _, .error e => .error e

end Snmp.Reenc
