/-
  Python-faithful model of the walk machinery of puresnmp.api.raw / puresnmp.util:
  `group_varbinds`, `get_unfinished_walk_oids`, `deduped_varbinds`, `multigetnext`,
  the bulk-walk fetcher and `multiwalk` (hence `walk`, `bulkwalk`).
  Dicts are insertion-ordered association lists, `xs[i::n]` is `Py.stride`, `sorted` is the
  stable `List.mergeSort` with the tuple order.  An exchange is an abstract function from
  the request to the response bindings, so codec and ids are dealt with separately.
-/
import Snmp.Model.Py
import Snmp.Model.Agent
import Snmp.Gen.Facts
namespace Snmp

inductive Req where
  | get (oids : List Oid)
  | getnext (oids : List Oid)
  | getbulk (nonRep maxRep : Nat) (oids : List Oid)
  | set (vbs : List VarBind)
  deriving Repr, BEq, Inhabited

abbrev Exchange := Req → Except Err (List VarBind)
abbrev Fetcher := List Oid → Except Err (List VarBind)

namespace Walk

def oidLe (a b : Oid) : Bool := !decide (b < a)

/-- `sorted(oids)` -/
def sortOids (oids : List Oid) : List Oid := oids.mergeSort oidLe

def notEom (vb : VarBind) : Bool := !vb.2.isEom

/-- `Client.multigetnext` -/
def multigetnext (x : Exchange) (oids : List Oid) : Except Err (List VarBind) := do
  let resp ← x (.getnext oids)
  if resp.length != oids.length then throw .snmpError
  let output := resp.takeWhile notEom
  if (oids.zip output).all (fun p => decide (p.1 < p.2.1)) then pure output else throw .faulty

/-- the size check of `Client.bulkget` (bound generated from the source) -/
def bulkVarbinds (x : Exchange) (scalars reps : List Oid) (maxList : Nat) : Except Err (List VarBind) := do
  let oids := scalars ++ reps
  let resp ← x (.getbulk scalars.length maxList oids)
  if (resp.length : Int) > Gen.bulkBound scalars.length oids.length maxList then throw .snmpError
  pure resp

/-- per-column successor check of the bulk-walk fetcher -/
def checkColumns (n : Nat) : List Oid → Nat → List VarBind → Bool
  | _, _, [] => true
  | prev, i, vb :: rest =>
    let col := i % n
    match prev[col]? with
    | none => false
    | some p => if decide (p < vb.1) then checkColumns n (prev.set col vb.1) (i + 1) rest else false

/-- completion loop of `Client._bulkwalk_fetcher`: while the response holds fewer bindings than
    OIDs were requested and no endOfMibView, the columns left without a binding are requested
    with one repetition.  Every round adds at least one binding, so `oids.length` rounds are
    enough (the fuel runs out only when the loop condition is false anyway). -/
def completeRow (x : Exchange) (oids : List Oid) : Nat → List VarBind → Except Err (List VarBind)
  | 0, vbs => pure vbs
  | fuel + 1, vbs =>
    if 0 < vbs.length && vbs.length < oids.length && vbs.all notEom then do
      let missing ← bulkVarbinds x [] (oids.drop vbs.length) 1
      if missing.isEmpty then pure vbs else completeRow x oids fuel (vbs ++ missing)
    else pure vbs

/-- `Client._bulkwalk_fetcher(bulk_size)` -/
def bulkFetcher (x : Exchange) (size : Nat) (oids : List Oid) : Except Err (List VarBind) := do
  let first ← bulkVarbinds x [] oids size
  let vbs ← completeRow x oids oids.length first
  let output := vbs.takeWhile notEom
  if checkColumns oids.length oids 0 output then pure output else throw .faulty

/-- the extra requests `completeRow` puts on the wire (the same recursion, recording the requested
    OID lists instead of returning the bindings) — used by the driver to print the wire trace -/
def completeRowReqs (x : Exchange) (oids : List Oid) : Nat → List VarBind → List (List Oid)
  | 0, _ => []
  | fuel + 1, vbs =>
    if 0 < vbs.length && vbs.length < oids.length && vbs.all notEom then
      let rest := oids.drop vbs.length
      match bulkVarbinds x [] rest 1 with
      | .error _ => [rest]
      | .ok missing => if missing.isEmpty then [rest] else rest :: completeRowReqs x oids fuel (vbs ++ missing)
    else []

def bulkFetcherExtraReqs (x : Exchange) (size : Nat) (oids : List Oid) : List (List Oid) :=
  match bulkVarbinds x [] oids size with
  | .error _ => []
  | .ok first => completeRowReqs x oids oids.length first

abbrev Groups := List (Oid × List VarBind)

/-- `util.group_varbinds` -/
def groupVarbinds (vbs : List VarBind) (eff : List Oid) (user : List Oid) : Except Err Groups := do
  let n := eff.length
  let results : Groups :=
    (List.range n).foldl (fun d i => Py.dictSet d (eff.getD i []) (Py.stride vbs i n)) []
  if user.isEmpty then pure results
  else
    let rec go : List (Oid × List VarBind) → Groups → Bool → Except Err (Groups × Bool)
      | [], acc, hit => pure (acc, hit)
      | (key, value) :: rest, acc, hit =>
        let containment := user.filter (fun base => inside base key)
        if containment.length > 1 then throw (.other "RuntimeError")
        else match containment with
          | [] => go rest acc hit
          | c :: _ => go rest (Py.dictSet acc c value) true
    let (newResults, hit) ← go results [] false
    pure (if hit then newResults else results)

/-- `util.get_unfinished_walk_oids`: `(root, last binding)` of the groups whose last binding is
    still inside the root, sorted by root -/
def unfinished (g : Groups) : List (Oid × VarBind) :=
  let last := g.filterMap fun kv => kv.2.getLast?.map fun l => (kv.1, l)
  let sorted := last.mergeSort (fun a b => oidLe a.1 b.1)
  sorted.filter fun kl => inside kl.1 kl.2.1

def groupLe (a b : List VarBind) : Bool := !decide (b.map (·.1) < a.map (·.1))

/-- `deduped_varbinds`: returns the yielded bindings and the updated `yielded` set -/
def deduped (roots : List Oid) (g : Groups) (yielded : List Oid) : List VarBind × List Oid :=
  let groups := (g.map (·.2)).mergeSort groupLe
  groups.flatten.foldl
    (fun (acc : List VarBind × List Oid) vb =>
      if roots.any (fun r => inside r vb.1) && !acc.2.contains vb.1 then (acc.1 ++ [vb], acc.2 ++ [vb.1])
      else acc)
    ([], yielded)

inductive Event where
  | req (oids : List Oid)
  | yield (vb : VarBind)
  deriving Repr, BEq, Inhabited

inductive Outcome where
  | done
  | error (e : Err)
  | outOfFuel
  deriving Repr, BEq, Inhabited

structure Result where
  events : List Event
  outcome : Outcome
  deriving Repr, Inhabited

def Result.yields (r : Result) : List VarBind :=
  r.events.filterMap fun | .yield vb => some vb | _ => none

def Result.requests (r : Result) : List (List Oid) :=
  r.events.filterMap fun | .req o => some o | _ => none

def isNoSuchOid : Err → Bool
  | .errorResponse 2 _ _ => true
  | .noSuchOID => true
  | _ => false

/-- the `while unfinished_oids:` loop of `multiwalk` -/
def loop (fetch : Fetcher) (roots : List Oid) (lenient : Bool) :
    Nat → List (Oid × VarBind) → List Oid → List Event → Result
  | 0, unf, _, ev => if unf.isEmpty then ⟨ev, .done⟩ else ⟨ev, .outOfFuel⟩
  | fuel + 1, unf, yielded, ev =>
    if unf.isEmpty then ⟨ev, .done⟩
    else
      let next := unf.map (·.2.1)
      let ev := ev ++ [.req next]
      match fetch next with
      | .error e =>
        if isNoSuchOid e then ⟨ev, .done⟩
        else if e == .faulty && lenient then ⟨ev, .done⟩
        else ⟨ev, .error e⟩
      | .ok vbs =>
        match groupVarbinds vbs next roots with
        | .error e => ⟨ev, .error e⟩
        | .ok g =>
          let unf' := unfinished g
          let (ys, yielded') := deduped roots g yielded
          loop fetch roots lenient fuel unf' yielded' (ev ++ ys.map .yield)

/-- `Client.multiwalk(oids, fetcher, errors)` -/
def multiwalk (fetch : Fetcher) (oids0 : List Oid) (lenient : Bool) (fuel : Nat) : Result :=
  let oids := sortOids oids0
  let ev := [Event.req oids]
  match fetch oids with
  | .error e =>
    if e == .faulty && lenient then ⟨ev, .done⟩ else ⟨ev, .error e⟩
  | .ok vbs =>
    match groupVarbinds vbs oids [] with
    | .error e => ⟨ev, .error e⟩
    | .ok g =>
      let unf := unfinished g
      let (ys, yielded) := deduped oids g []
      loop fetch oids lenient fuel unf yielded (ev ++ ys.map .yield)

def walkGetnext (x : Exchange) (roots : List Oid) (lenient : Bool) (fuel : Nat) : Result :=
  multiwalk (multigetnext x) roots lenient fuel

def walkBulk (x : Exchange) (size : Nat) (roots : List Oid) (fuel : Nat) : Result :=
  multiwalk (bulkFetcher x size) roots false fuel

/-- the exchange offered by a model agent -/
def exchangeOf (a : AgentFn) (db : List VarBind) (pol : BulkPolicy) : Exchange
  | .get oids => .ok (Agent.getResp db oids)
  | .getnext oids => .ok (Agent.getnextResp a oids)
  | .getbulk n m oids => .ok (Agent.getbulkResp a pol n m oids)
  | .set vbs => .ok vbs

end Walk
end Snmp
