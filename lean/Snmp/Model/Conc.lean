/-
  Interleaving model of concurrent operations on one client (M-Conc).

  An operation is a coroutine tree: `exchange` is the only scheduling point of `Client._send`
  (`await self.sender(...)`), `needDisco` is the read of the shared discovery cache in
  `V3MPM.encode` (hit: continue without yielding; miss: emit a probe, yield, store the reply,
  continue).  Everything else an operation touches is local or written and re-read inside one
  atomic block.  asyncio runs a task until its next `await` that actually suspends; a schedule is
  the order in which pending sender calls are answered.
-/
namespace Snmp.Conc

universe u

inductive Proc (Req Resp Disco Res : Type) where
  | done (r : Res)
  | exchange (q : Req) (k : Resp → Proc Req Resp Disco Res)
  | needDisco (k : Disco → Proc Req Resp Disco Res)

variable {Req Resp Disco Res : Type}

/-- what a process is suspended on -/
inductive PState (Req Resp Disco Res : Type) where
  | waiting (q : Req) (k : Resp → Proc Req Resp Disco Res)
  | probing (k : Disco → Proc Req Resp Disco Res)
  | finished (r : Res)

inductive Wire (Req : Type) where
  | probe
  | req (q : Req)

/-- run a task until it suspends or finishes -/
def settle (shared : Option Disco) : Proc Req Resp Disco Res → PState Req Resp Disco Res × List (Wire Req)
  | .done r => (.finished r, [])
  | .exchange q k => (.waiting q k, [.req q])
  | .needDisco k =>
    match shared with
    | some d => settle shared (k d)
    | none => (.probing k, [.probe])

structure State (Req Resp Disco Res : Type) where
  shared : Option Disco
  /-- suspension point and everything the process has put on the wire so far -/
  procs : List (PState Req Resp Disco Res × List (Wire Req))
  /-- global order of wire events, tagged with the emitting process -/
  log : List (Nat × Wire Req)

/-- `asyncio.gather(op_0, op_1, …)`: every task runs to its first suspension, in order -/
def start (ps : List (Proc Req Resp Disco Res)) : State Req Resp Disco Res :=
  let sts := ps.map (settle (none : Option Disco))
  ⟨none, sts, sts.zipIdx.flatMap fun x => x.1.2.map (x.2, ·)⟩

/-- answer the pending sender call of process `i`.  `forgets q r`: the answer `r` to `q` is one on
    which `V3MPM.decode` drops the shared discovery data (any `SnmpError` raised while the message
    is processed: USM reports, error-status responses) — the next `needDisco` of any operation
    probes again. -/
def deliver (answer : Req → Resp) (forgets : Req → Resp → Bool) (d₀ : Disco) (s : State Req Resp Disco Res) (i : Nat) :
    State Req Resp Disco Res :=
  match s.procs[i]? with
  | some (.waiting q k, h) =>
    let shared' := if forgets q (answer q) then none else s.shared
    let r := settle shared' (k (answer q))
    { shared := shared', procs := s.procs.set i (r.1, h ++ r.2), log := s.log ++ r.2.map (i, ·) }
  | some (.probing k, h) =>
    -- `self.disco = await send_discovery_message(...)`, then the same atomic block goes on
    let r := settle (some d₀) (k d₀)
    { shared := some d₀, procs := s.procs.set i (r.1, h ++ r.2), log := s.log ++ r.2.map (i, ·) }
  | _ => s

def runSched (answer : Req → Resp) (forgets : Req → Resp → Bool) (d₀ : Disco) (s : State Req Resp Disco Res)
    (sched : List Nat) : State Req Resp Disco Res :=
  sched.foldl (deliver answer forgets d₀) s

/-- the result of running the operation alone -/
def denote (answer : Req → Resp) (d₀ : Disco) : Proc Req Resp Disco Res → Res
  | .done r => r
  | .exchange q k => denote answer d₀ (k (answer q))
  | .needDisco k => denote answer d₀ (k d₀)

/-- the requests of the solo run -/
def soloReqs (answer : Req → Resp) (d₀ : Disco) : Proc Req Resp Disco Res → List Req
  | .done _ => []
  | .exchange q k => q :: soloReqs answer d₀ (k (answer q))
  | .needDisco k => soloReqs answer d₀ (k d₀)

end Snmp.Conc
