/-
  Implementation-side model of the BER work puresnmp delegates to the `x690` package, function
  by function and index based, as the library does it:

   * `encode_length` (long form from 127 upward), `decode_length` (short, long, non-minimal,
     indefinite, reserved 0xFF), `get_value_slice` (with the `find(b"\0\0")` behaviour of the
     indefinite form), `TypeInfo.from_bytes`, `x690.decode` with the type registry generated
     from the working tree;
   * `Integer.encode_raw` / `decode_raw` (signed / unsigned per registry), OID base-128 coding
     as the library does it (first two arcs in one *octet*), lazy values, `Sequence.decode_raw`
     with an iteration budget (the real loop can restart and never end — C20),
     `X690Type.__bytes__`.

  Everything is total: Python exceptions are `BErr` values, loops carry fuel.
-/
import Snmp.Model.Basic
import Snmp.Gen.Facts
namespace Snmp.Ber

inductive BErr where
  | index            -- IndexError
  | notImplemented   -- NotImplementedError (0xFF identifier / reserved length)
  | x690             -- X690Error (slice beyond the data)
  | unexpectedType   -- UnexpectedType (enforce_type)
  | value            -- ValueError (unpacking, bytes() range)
  | stopIteration    -- truncated base-128 sub-identifier
  | type             -- TypeError
  | emptyMessage
  | outOfFuel        -- the iteration budget is exhausted: the real code would still be looping
  deriving Repr, DecidableEq, BEq, Inhabited

/-! ### integers and lengths -/

/-- big-endian base-256 digits, as the `while value > 0` loop of `encode_length` builds them -/
def toBE (n : Nat) : Bytes := if h : n = 0 then [] else toBE (n / 256) ++ [n % 256]
termination_by n
decreasing_by omega

/-- `int.from_bytes(bs, "big")` -/
def fromBE (bs : Bytes) : Nat := bs.foldl (fun a b => a * 256 + b) 0

/-- `x690.util.encode_length` -/
def encodeLength (n : Nat) : Bytes :=
  if n < 127 then [n] else let d := toBE n; (128 + d.length) :: d

/-- Python `data[start:stop]` for a non-negative start; `stop` may be negative (counted from the end) -/
def pySlice (data : Bytes) (start : Nat) (stop : Int) : Bytes :=
  let n := data.length
  let e : Nat := if stop < 0 then (Int.ofNat n + stop).toNat else min stop.toNat n
  (data.take e).drop start

inductive LenInfo where
  | definite (len offset : Nat)
  | indefinite
  deriving Repr, DecidableEq, BEq, Inhabited

/-- `x690.util.decode_length(data, index)` -/
def decodeLength (data : Bytes) (index : Nat) : Except BErr LenInfo :=
  match data[index]? with
  | none => .error .index
  | some d0 =>
    if d0 = 255 then .error .notImplemented
    else if d0 < 128 then .ok (.definite d0 1)
    else if d0 = 128 then .ok .indefinite
    else
      let k := d0 - 128
      .ok (.definite (fromBE ((data.drop (index + 1)).take k)) (k + 1))

/-- `data.find(b"\x00\x00", from)` -/
def find00 (data : Bytes) (frm : Nat) : Option Nat :=
  let rec go : Bytes → Nat → Option Nat
    | 0 :: 0 :: _, i => some i
    | _ :: rest, i => go rest (i + 1)
    | [], _ => none
  go (data.drop frm) frm

structure Slice where
  start : Nat
  stop : Int
  deriving Repr, DecidableEq, BEq, Inhabited

/-- `x690.util.get_value_slice(data, index)`: bounds of the value and index of the next TLV -/
def getValueSlice (data : Bytes) (index : Nat) : Except BErr (Slice × Nat) := do
  match ← decodeLength data (index + 1) with
  | .indefinite =>
    match find00 data index with
    | some e => pure (⟨index + 2, e⟩, e + 2)
    | none => pure (⟨index + 2, -1⟩, 1)   -- end = -1, next index = -1 + 2
  | .definite len off =>
    let start := index + 1 + off
    let stop := start + len
    if stop > data.length then throw .x690 else pure (⟨start, stop⟩, stop)

/-! ### identifier octet and registry -/

def clsName (b : Nat) : String :=
  match b / 64 % 4 with
  | 0 => "universal" | 1 => "application" | 2 => "context" | _ => "private"

def natureName (b : Nat) : String := if b / 32 % 2 = 1 then "constructed" else "primitive"

structure Entry where
  name : String
  kind : String
  signed : Bool
  deriving Repr, DecidableEq, BEq, Inhabited

/-- `X690Type.get(cls, tag, nature)` with `UnknownType` as fallback -/
def lookup (b : Nat) : Entry :=
  match Gen.registry.find? (fun e => e.1 == clsName b && e.2.1 == b % 32 && e.2.2.1 == natureName b) with
  | some e => ⟨e.2.2.2.1, e.2.2.2.2.1, e.2.2.2.2.2⟩
  | none => ⟨"UnknownType", "raw", false⟩

/-- a lazily decoded object: its class and where its value lies in the datagram -/
structure Node where
  entry : Entry
  tagByte : Nat
  slice : Slice
  deriving Repr, BEq, Inhabited

/-- `x690.decode(data, start_index)` (without `enforce_type`) -/
def decodeAt (data : Bytes) (i : Nat) : Except BErr (Node × Nat) :=
  match data[i]? with
  | none => .error .index
  | some t =>
    if t = 255 then .error .notImplemented
    else do
      let (sl, next) ← getValueSlice data i
      -- `cls.from_bytes`: a registered class without a no-argument constructor cannot be instantiated
      if Gen.noDefaultCtor.contains (lookup t).name then throw .x690
      pure (⟨lookup t, t, sl⟩, next)

def Node.content (data : Bytes) (n : Node) : Bytes := pySlice data n.slice.start n.slice.stop

/-! ### primitive values -/

/-- `int.from_bytes(bs, "big", signed=…)` -/
def intDecode (signed : Bool) (bs : Bytes) : Int :=
  match bs with
  | [] => 0
  | b :: _ =>
    if signed && decide (128 ≤ b) then (fromBE bs : Int) - (256 : Int) ^ bs.length else (fromBE bs : Int)

/-- octets appended by the `while remainder not in (0, -1)` loop (little-endian order) -/
def intLoop (r : Int) : Bytes :=
  if h : r = 0 ∨ r = -1 then [] else
    let r' := r / 256
    (r' % 256).toNat :: intLoop r'
termination_by r.natAbs
decreasing_by omega

def intLE (v : Int) : Bytes := (v % 256).toNat :: intLoop v

/-- removal of redundant leading sign octets -/
def intStrip : Bytes → Bytes
  | a :: b :: rest =>
    if (a = 0 ∧ b < 128) ∨ (a = 255 ∧ 128 ≤ b) then intStrip (b :: rest) else a :: b :: rest
  | l => l

/-- `Integer.encode_raw` (the `octets[-1] == 0x80` branch after the loop is dead code: the last
    octet appended when the remainder reaches 0 is 0) -/
def intEncode (v : Int) : Bytes := intStrip (intLE v).reverse

/-- continuation octets (bit 8 set) of a base-128 number, most significant first -/
def hi128 (x : Nat) : Bytes := if h : x = 0 then [] else hi128 (x / 128) ++ [x % 128 + 128]
termination_by x
decreasing_by omega

/-- `ObjectIdentifier.encode_large_value` -/
def subidEncode (v : Nat) : Bytes := if v ≤ 127 then [v] else hi128 (v / 128) ++ [v % 128]

/-- `ObjectIdentifier.encode_raw`: `none` is the ValueError of `bytes()` for an octet > 255 -/
def oidEncode : Oid → Option Bytes
  | [] => some []
  | [a] => if a < 256 then some [a] else none
  | a :: b :: rest => if 40 * a + b < 256 then some ((40 * a + b) :: rest.flatMap subidEncode) else none

/-- the loop of `ObjectIdentifier.decode_raw` over the octets after the first; `acc` is the value
    collected so far from continuation octets of the current sub-identifier -/
def subidsGo : Bytes → Option Nat → Except BErr (List Nat)
  | [], none => .ok []
  | [], some _ => .error .stopIteration
  | b :: rest, none => if b > 127 then subidsGo rest (some (b - 128)) else (subidsGo rest none).map (b :: ·)
  | b :: rest, some acc =>
    if b > 127 then subidsGo rest (some (acc * 128 + (b - 128))) else (subidsGo rest none).map ((acc * 128 + b) :: ·)

def subidsDecode (bs : Bytes) : Except BErr (List Nat) := subidsGo bs none

/-- `ObjectIdentifier.decode_raw` → `.nodes` -/
def oidDecode (bs : Bytes) : Except BErr Oid :=
  match bs with
  | [] => .ok []
  | d0 :: rest => (subidsDecode rest).map fun l => (d0 / 40) :: (d0 % 40) :: l

/-! ### encoders (`bytes(obj)` of freshly built objects) -/

def tagOf (cls : String) : Nat := ((Gen.typeTagBytes.find? (·.1 == cls)).map (·.2)).getD 0

/-- `X690Type.__bytes__`: identifier octet, `encode_length(len(value))`, value -/
def tlv (tag : Nat) (content : Bytes) : Bytes := tag :: (encodeLength content.length ++ content)

/-- `bytes(T(v))` for a value object built by the caller (SET values, NULL placeholders) -/
def encodeVal : Val → Option Bytes
  | .int v => some (tlv (tagOf "Integer") (intEncode v))
  | .str b => some (tlv (tagOf "OctetString") b)
  | .null => some [5, 0]
  | .oid o => (oidEncode o).map (tlv (tagOf "ObjectIdentifier"))
  | .ip b => some (tlv (tagOf "IpAddress") b)
  | .counter32 v => some (tlv (tagOf "Counter") (intEncode v))
  | .gauge32 v => some (tlv (tagOf "Gauge") (intEncode v))
  | .ticks v => some (tlv (tagOf "TimeTicks") (intEncode v))
  | .opaque b => some (tlv (tagOf "Opaque") b)
  | .nsap v => some (tlv (tagOf "NsapAddress") (intEncode v))
  | .counter64 v => some (tlv (tagOf "Counter64") (intEncode v))
  | _ => none

def encodeVarBind (vb : VarBind) : Option Bytes := do
  let o ← oidEncode vb.1
  let v ← encodeVal vb.2
  pure (tlv (tagOf "Sequence") (tlv (tagOf "ObjectIdentifier") o ++ v))

def encodeVarBinds (vbs : List VarBind) : Option Bytes := do
  let items ← vbs.mapM encodeVarBind
  pure (tlv (tagOf "Sequence") items.flatten)

/-- `PDU.encode_raw` / `BulkGetRequest.__bytes__`: request-id, two integers, binding list -/
def encodePdu (cls : String) (rid a b : Int) (vbs : List VarBind) : Option Bytes := do
  let v ← encodeVarBinds vbs
  pure (tlv (tagOf cls) (tlv 2 (intEncode rid) ++ tlv 2 (intEncode a) ++ tlv 2 (intEncode b) ++ v))

/-- community message wrapper of the v1 / v2c security models -/
def encodeCommunityMsg (version : Int) (community : Bytes) (pdu : Bytes) : Bytes :=
  tlv 48 (tlv 2 (intEncode version) ++ tlv 4 community ++ pdu)

/-- `USMSecurityParameters.__bytes__` -/
def encodeUsmParams (engineId : Bytes) (boots time : Int) (user auth priv : Bytes) : Bytes :=
  tlv 48 (tlv 4 engineId ++ tlv 2 (intEncode boots) ++ tlv 2 (intEncode time) ++ tlv 4 user ++ tlv 4 auth ++ tlv 4 priv)

/-- `HeaderData.as_snmp_type` -/
def encodeHeader (msgId maxSize : Int) (flags : Nat) (secModel : Int) : Bytes :=
  tlv 48 (tlv 2 (intEncode msgId) ++ tlv 2 (intEncode maxSize) ++ tlv 4 [flags] ++ tlv 2 (intEncode secModel))

/-- `ScopedPDU.as_snmp_type` -/
def encodeScoped (ctxEngine ctxName pdu : Bytes) : Bytes := tlv 48 (tlv 4 ctxEngine ++ tlv 4 ctxName ++ pdu)

/-- `Message.__bytes__`: `msgData` is the scoped PDU sequence or the ciphertext OCTET STRING -/
def encodeV3Msg (header secParams msgData : Bytes) : Bytes :=
  tlv 48 (tlv 2 (intEncode 3) ++ header ++ tlv 4 secParams ++ msgData)

/-! ### decoding of whole structures (eager, with an iteration budget) -/

inductive Tree where
  | int (cls : String) (v : Int)
  | str (cls : String) (b : Bytes)
  | null
  | oid (o : Oid)
  | marker (cls : String)
  | seq (cls : String) (items : List Tree)
  | raw (cls : String) (tag : Nat) (b : Bytes)
  deriving Repr, BEq, Inhabited

/-- `Sequence.decode_raw(data, slc)`: the item nodes, decoding at absolute indices.  `fuel` bounds
    the number of loop iterations. -/
def seqItems (data : Bytes) (sl : Slice) (fuel : Nat) : Except BErr (List Node) :=
  if (pySlice data sl.start sl.stop).isEmpty || sl.start > data.length then .ok []
  else do
    let (first, next) ← decodeAt data sl.start
    let stop : Int := if sl.stop = 0 then data.length else sl.stop
    let rec loop : Nat → Nat → List Node → Except BErr (List Node)
      | 0, pos, acc => if (pos : Int) < stop then .error .outOfFuel else .ok acc.reverse
      | f + 1, pos, acc =>
        if (pos : Int) < stop then do
          let (item, nxt) ← decodeAt data pos
          loop f nxt (item :: acc)
        else .ok acc.reverse
    loop fuel next [first]

/-- full (recursive) readout of a node, `depth` bounding the nesting and `fuel` each sequence loop -/
def readNode (data : Bytes) (fuel : Nat) : Nat → Node → Except BErr Tree
  | 0, _ => .error .outOfFuel
  | depth + 1, n =>
    let c := n.content data
    match n.entry.kind with
    | "int" => .ok (.int n.entry.name (intDecode n.entry.signed c))
    | "str" => .ok (.str n.entry.name c)
    | "ip" => .ok (.str n.entry.name c)
    | "null" => .ok .null
    | "oid" => (oidDecode c).map .oid
    | "marker" => .ok (.marker n.entry.name)
    | "seq" => do
      let items ← seqItems data n.slice fuel
      let ts ← items.mapM (readNode data fuel depth)
      pure (.seq n.entry.name ts)
    | "pdu" => do
      -- PDU.decode_raw reads four TLVs starting at the slice start (any stop)
      if data.isEmpty then throw .emptyMessage
      let (a, i1) ← decodeAt data n.slice.start
      let (b, i2) ← decodeAt data i1
      let (c3, i3) ← decodeAt data i2
      let (d, _) ← decodeAt data i3
      if a.entry.kind != "int" || b.entry.kind != "int" || c3.entry.kind != "int" then throw .unexpectedType
      if d.entry.name != "Sequence" then throw .unexpectedType
      let ts ← [a, b, c3, d].mapM (readNode data fuel depth)
      -- `for oid, value in values`: every binding must unpack into exactly two items
      match ts with
      | [_, _, _, .seq _ items] =>
        if items.all (fun t => match t with | .seq _ [_, _] => true | _ => false) then pure (.seq n.entry.name ts)
        else throw .value
      | _ => throw .value
    | _ => .ok (.raw n.entry.name n.tagByte c)

/-- decode one TLV at the start of a datagram and read it out completely -/
def decodeTree (data : Bytes) (fuel depth : Nat) : Except BErr Tree := do
  let (n, _) ← decodeAt data 0
  readNode data fuel depth n

/-- `Sequence.decode(data)` as `register_trap_callback` calls it: the first TLV is read as a
    sequence WITHOUT looking at its tag (x690's `X690Type.decode` does not validate the header) -/
def decodeTreeForced (data : Bytes) (fuel depth : Nat) : Except BErr Tree := do
  let (sl, _) ← getValueSlice data 0
  let items ← seqItems data sl fuel
  let ts ← items.mapM (readNode data fuel depth)
  pure (.seq "Sequence" ts)

end Snmp.Ber
