/-
  Model of `puresnmp.transport.send_udp` and `SNMPClientProtocol`: the retry loop creating one
  datagram endpoint per attempt, `get_data` (`wait_for(future, timeout)`, abort on timeout),
  `datagram_received` (result + close), `error_received` / `connection_lost(exc)` (exception).
  The network is a script: what happens to each attempt.  Time is counted in abstract ticks.
-/
import Snmp.Model.Basic
namespace Snmp.Udp

/-- what the network does with one transmitted datagram -/
inductive Outcome where
  /-- a reply `delay` ticks after sending (in time iff `delay < timeout`) -/
  | reply (delay : Nat) (data : Bytes)
  /-- nothing comes back -/
  | none
  /-- two replies, at `d1 ≤ d2` -/
  | twoReplies (d1 : Nat) (a : Bytes) (d2 : Nat) (b : Bytes)
  /-- ICMP / OS error reported through `error_received` after `delay` ticks -/
  | osError (delay : Nat)
  /-- `connection_lost(exc)` after `delay` ticks; `withExc = false` is a plain close -/
  | lost (delay : Nat) (withExc : Bool)
  deriving Repr, BEq, Inhabited

inductive UErr where
  | timeout
  | osError
  | connectionLost
  | unbound   -- `retries <= 0`: the loop body never runs, `response` is unbound
  deriving Repr, DecidableEq, BEq, Inhabited

structure Final where
  sends : List Bytes
  opened : Nat
  closed : Nat
  elapsed : Nat
  result : Except UErr Bytes
  deriving Repr, Inhabited

/-- what one attempt ends with: `some (result, time it took)` or `none` when the attempt stays
    unanswered for the whole `timeout` -/
def attempt (timeout : Nat) : Outcome → Option (Except UErr Bytes × Nat)
  | .reply d data => if d < timeout then some (.ok data, d) else Option.none
  | .none => Option.none
  | .twoReplies d1 a d2 b =>
    if d1 < timeout then some (.ok a, d1) else if d2 < timeout then some (.ok b, d2) else Option.none
  | .osError d => if d < timeout then some (.error .osError, d) else Option.none
  | .lost d true => if d < timeout then some (.error .connectionLost, d) else Option.none
  | .lost _ false => Option.none

/-- the `while retries > 0` loop; `outs` is consumed one outcome per attempt (exhausted = no reply).
    Every attempt opens one endpoint and closes it (reply: `close()` in `datagram_received`;
    timeout: `abort()`; error: the `finally` of `send_udp`; connection lost: closed by the loop). -/
def loop (packet : Bytes) (timeout : Nat) : Nat → List Outcome → Final → Final
  | 0, _, f => f
  | retries + 1, outs, f =>
    let o := outs.head?.getD .none
    let f := { f with sends := f.sends ++ [packet], opened := f.opened + 1, closed := f.closed + 1 }
    match attempt timeout o with
    | some (r, d) => { f with elapsed := f.elapsed + d, result := r }
    | Option.none =>
      let f := { f with elapsed := f.elapsed + timeout }
      if retries = 0 then { f with result := .error .timeout }
      else loop packet timeout retries outs.tail f

def sendUdp (packet : Bytes) (timeout retries : Nat) (outs : List Outcome) : Final :=
  loop packet timeout retries outs ⟨[], 0, 0, 0, .error .unbound⟩

/-! ### a call abandoned by its caller

  The task running `send_udp` is cancelled `cancelAt` ticks (and a half: never at the very instant
  of another event) after it began — the caller's own `wait_for` deadline, `task.cancel()`.
  `CancelledError` is raised inside `get_data`; the `finally` of `send_udp` closes the endpoint of the
  attempt in flight.  The flag says whether the call was cancelled before it ended by itself. -/

def loopCancel (packet : Bytes) (timeout cancelAt : Nat) : Nat → List Outcome → Final → Final × Bool
  | 0, _, f => (f, false)
  | retries + 1, outs, f =>
    let o := outs.head?.getD .none
    let f := { f with sends := f.sends ++ [packet], opened := f.opened + 1, closed := f.closed + 1 }
    let dur := match attempt timeout o with
      | some (_, d) => d
      | Option.none => timeout
    if cancelAt < f.elapsed + dur then ({ f with elapsed := cancelAt }, true)
    else
      match attempt timeout o with
      | some (r, d) => ({ f with elapsed := f.elapsed + d, result := r }, false)
      | Option.none =>
        let f := { f with elapsed := f.elapsed + timeout }
        if retries = 0 then ({ f with result := .error .timeout }, false)
        else loopCancel packet timeout cancelAt retries outs.tail f

def sendUdpCancel (packet : Bytes) (timeout retries : Nat) (outs : List Outcome) (cancelAt : Nat) : Final × Bool :=
  loopCancel packet timeout cancelAt retries outs ⟨[], 0, 0, 0, .error .unbound⟩

end Snmp.Udp
