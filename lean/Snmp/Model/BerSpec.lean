/-
  Specification side: a strict definite-length BER reader / writer written from X.690 §8 and
  RFC 3416 / 3412 / 3414 message definitions — independent of the x690 mirror in `Snmp.Ber`
  (suffix based, no registry, no laziness).  The writer is parameterised by the length form an
  agent may choose; the reader accepts every definite form.
-/
import Snmp.Model.Ber
namespace Snmp.Ber

/-- the definite length forms an agent may use: minimal, or long form with `k` octets -/
inductive LenForm where
  | minimal
  | long (k : Nat)
  deriving Repr, DecidableEq

/-- specification-side length octets (X.690 8.1.3) -/
def specLength (f : LenForm) (n : Nat) : Bytes :=
  match f with
  | .minimal => if n < 128 then [n] else (128 + (toBE n).length) :: toBE n
  | .long k => (128 + k) :: (List.replicate (k - (toBE n).length) 0 ++ toBE n)

def LenForm.ok (f : LenForm) (n : Nat) : Prop :=
  match f with
  | .minimal => n < 256 ^ 126
  | .long k => 1 ≤ k ∧ k ≤ 126 ∧ n < 256 ^ k

end Snmp.Ber

namespace Snmp.Spec
open Snmp.Ber (fromBE toBE LenForm specLength)

/-! ### reader -/

/-- length octets (X.690 8.1.3): `(length, rest)`; indefinite and reserved forms are refused -/
def readLength : Bytes → Option (Nat × Bytes)
  | [] => none
  | b0 :: rest =>
    if b0 < 128 then some (b0, rest)
    else if b0 = 128 ∨ 255 ≤ b0 then none
    else
      let k := b0 - 128
      if rest.length < k then none else some (fromBE (rest.take k), rest.drop k)

/-- one TLV: `(identifier octet, content, rest)` -/
def readTLV : Bytes → Option (Nat × Bytes × Bytes)
  | [] => none
  | t :: r =>
    match readLength r with
    | none => none
    | some (n, body) => if body.length < n then none else some (t, body.take n, body.drop n)

/-- all TLVs of a constructed value's content -/
def readAll : Nat → Bytes → Option (List (Nat × Bytes))
  | 0, _ => none
  | _ + 1, [] => some []
  | fuel + 1, bs =>
    match readTLV bs with
    | none => none
    | some (t, v, rest) => (readAll fuel rest).map ((t, v) :: ·)

def readSeq (bs : Bytes) : Option (List (Nat × Bytes)) := readAll (bs.length + 1) bs

/-- INTEGER content: two's complement, at least one octet (X.690 8.3) -/
def readInt (c : Bytes) : Option Int := if c = [] then none else some (Ber.intDecode true c)

/-- base-128 sub-identifiers (X.690 8.19); a dangling continuation octet is an error -/
def readSubids : Bytes → Nat → Bool → Option (List Nat)
  | [], _, pending => if pending then none else some []
  | b :: rest, acc, _ =>
    if 128 ≤ b then readSubids rest (acc * 128 + (b - 128)) true
    else (readSubids rest 0 false).map ((acc * 128 + b) :: ·)

/-- OBJECT IDENTIFIER content: the first sub-identifier carries the first two arcs -/
def readOid (c : Bytes) : Option Oid :=
  match readSubids c 0 false with
  | some (f :: rest) =>
    if f < 40 then some (0 :: f :: rest) else if f < 80 then some (1 :: (f - 40) :: rest) else some (2 :: (f - 80) :: rest)
  | some [] => some []
  | none => none

/-- SNMP values by identifier octet (RFC 3416 / RFC 2578) -/
def readVal (tag : Nat) (c : Bytes) : Option Val :=
  match tag with
  | 2 => (readInt c).map .int
  | 4 => some (.str c)
  | 5 => if c = [] then some .null else none
  | 6 => (readOid c).map .oid
  | 64 => some (.ip c)
  | 65 => (readInt c).map .counter32
  | 66 => (readInt c).map .gauge32
  | 67 => (readInt c).map .ticks
  | 68 => some (.opaque c)
  | 69 => (readInt c).map .nsap
  | 70 => (readInt c).map .counter64
  | 128 => if c = [] then some .noSuchObject else none
  | 129 => if c = [] then some .noSuchInstance else none
  | 130 => if c = [] then some .endOfMibView else none
  | _ => none

def readVarBind (p : Nat × Bytes) : Option VarBind :=
  if p.1 ≠ 48 then none else
  match readSeq p.2 with
  | some [(6, o), (t, v)] => do
    let oid ← readOid o
    let val ← readVal t v
    pure (oid, val)
  | _ => none

structure Pdu where
  tag : Nat
  requestId : Int
  a : Int
  b : Int
  varbinds : List VarBind
  deriving Repr, BEq, Inhabited

def readPdu (tag : Nat) (c : Bytes) : Option Pdu :=
  match readSeq c with
  | some [(2, rid), (2, a), (2, b), (48, vbs)] => do
    let items ← readSeq vbs
    let l ← items.mapM readVarBind
    pure ⟨tag, ← readInt rid, ← readInt a, ← readInt b, l⟩
  | _ => none

structure CommunityMsg where
  version : Int
  community : Bytes
  pdu : Pdu
  deriving Repr, BEq, Inhabited

/-- RFC 1157 / RFC 3416 community message; nothing may follow it -/
def readCommunityMsg (dg : Bytes) : Option CommunityMsg :=
  match readTLV dg with
  | some (48, c, []) =>
    match readSeq c with
    | some [(2, v), (4, comm), (t, p)] => do
      pure ⟨← readInt v, comm, ← readPdu t p⟩
    | _ => none
  | _ => none

structure V3Msg where
  msgId : Int
  maxSize : Int
  flags : Nat
  securityModel : Int
  engineId : Bytes
  boots : Int
  time : Int
  user : Bytes
  authParams : Bytes
  privParams : Bytes
  /-- the msgData field as it travels: identifier octet and content (scoped PDU or ciphertext) -/
  dataTag : Nat
  data : Bytes
  deriving Repr, BEq, Inhabited

structure ScopedPdu where
  contextEngineId : Bytes
  contextName : Bytes
  pdu : Pdu
  deriving Repr, BEq, Inhabited

def readScoped (c : Bytes) : Option ScopedPdu :=
  match readSeq c with
  | some [(4, e), (4, n), (t, p)] => do pure ⟨e, n, ← readPdu t p⟩
  | _ => none

/-- RFC 3412 SNMPv3Message with RFC 3414 UsmSecurityParameters -/
def readV3Msg (dg : Bytes) : Option V3Msg :=
  match readTLV dg with
  | some (48, c, []) =>
    match readSeq c with
    | some [(2, v), (48, hdr), (4, sp), (dt, d)] =>
      match readInt v, readSeq hdr, readTLV sp with
      | some 3, some [(2, mid), (2, mms), (4, [fl]), (2, sm)], some (48, spc, []) =>
        match readSeq spc with
        | some [(4, eid), (2, bo), (2, ti), (4, us), (4, au), (4, pr)] => do
          pure ⟨← readInt mid, ← readInt mms, fl, ← readInt sm, eid, ← readInt bo, ← readInt ti, us, au, pr, dt, d⟩
        | _ => none
      | _, _, _ => none
    | _ => none
  | _ => none

/-! ### writer (what a conformant agent may send) -/

def tlv (f : LenForm) (tag : Nat) (c : Bytes) : Bytes := tag :: (specLength f c.length ++ c)

end Snmp.Spec
