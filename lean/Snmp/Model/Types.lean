/-
  puresnmp.types: numeric application types (hand-written part; the constructor bodies are
  generated into `Snmp.Gen`).
-/
import Snmp.Model.Py
namespace Snmp.Types

/-- `TimeTicks.pythonize`: `timedelta(seconds = value / 100.0)`, modelled as the exact number of
    microseconds (the float path is argued in DESIGN.md and sampled by correspondence). -/
def ticksToMicros (t : Int) : Int := t * 10000

/-- `int(IPv4Address).to_bytes(4, "big")` -/
def ipToBytes (n : Nat) : Bytes := [n / 16777216 % 256, n / 65536 % 256, n / 256 % 256, n % 256]

/-- `int.from_bytes(data, "big")` -/
def fromBE (b : Bytes) : Nat := b.foldl (fun a x => a * 256 + x) 0

end Snmp.Types
