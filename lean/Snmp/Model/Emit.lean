/-
  From an API operation's request (`Snmp.Ops.PduReq`) to the datagram handed to the sender seam:
  the PDU class per request kind, the community wrapper of the v1 / v2c security models, and the
  SNMPv3 message around a scoped PDU (plain or as the privacy plug-in's ciphertext).
-/
import Snmp.Model.Ops
import Snmp.Model.Ber
namespace Snmp.Emit
open Snmp.Ber

def pduClass : Ops.ReqKind → String
  | .get => "GetRequest" | .getnext => "GetNextRequest" | .set => "SetRequest" | .getbulk => "BulkGetRequest"

def pduBytes (r : Ops.PduReq) : Option Bytes := encodePdu (pduClass r.kind) r.requestId r.a r.b r.varbinds

/-- `mpm.encode` of the v1 / v2c message-processing models -/
def community (version : Int) (comm : Bytes) (r : Ops.PduReq) : Option Bytes :=
  (pduBytes r).map (encodeCommunityMsg version comm)

structure V3Params where
  msgId : Int
  maxSize : Int
  flags : Nat
  engineId : Bytes
  boots : Int
  time : Int
  user : Bytes
  authParams : Bytes
  privParams : Bytes
  ctxEngine : Bytes
  ctxName : Bytes
  deriving Repr, Inhabited

def scopedBytes (p : V3Params) (r : Ops.PduReq) : Option Bytes := (pduBytes r).map (encodeScoped p.ctxEngine p.ctxName)

/-- the message around `msgData` (scoped PDU sequence, or `OCTET STRING ciphertext`) -/
def v3Around (p : V3Params) (msgData : Bytes) : Bytes :=
  encodeV3Msg (encodeHeader p.msgId p.maxSize p.flags 3)
    (encodeUsmParams p.engineId p.boots p.time p.user p.authParams p.privParams) msgData

def v3Plain (p : V3Params) (r : Ops.PduReq) : Option Bytes := (scopedBytes p r).map (v3Around p)

/-- the discovery probe of `send_discovery_message` (RFC 3414 section 4): noAuthNoPriv but reportable,
    zero-length engine id and user name, boots = time = 0, a GetRequest without bindings whose
    request-id is the message id; flags through the generated `V3Flags.__bytes__` -/
def probeParams (rid : Int) : V3Params :=
  ⟨rid, Gen.messageMaxSize, (Gen.flagsEncode false false true).toNat, [], 0, 0, [], [], [], [], []⟩

def probe (rid : Int) : Option Bytes := v3Plain (probeParams rid) ⟨.get, rid, 0, 0, []⟩

end Snmp.Emit
