/-
  `register_trap_callback`'s per-datagram `decode` from the octets on (`puresnmp/api/raw.py`):
  `Sequence.decode(packet.data)` (first TLV read as a sequence whatever its identifier octet),
  `as_sequence[0].value` selects the message-processing model, `mproc.decode(packet.data,
  credentials)` (x690 mirror, wrapper glue, community / version check of the security model), the
  bindings are taken apart before the callback is scheduled (since the repair of the
  malformed-content defect), the source is attached to Trap PDUs.

  The mirror decodes eagerly where x690 is lazy; for this function that is the same thing: every
  item is looked at before the callback runs, and any failure drops the datagram.
-/
import Snmp.Model.Trap
import Snmp.Model.Glue
namespace Snmp.Trap
open Snmp Snmp.Ber

/-- `type(trap).TAG` for a PDU class (generated table) -/
def pduTagOf (cls : String) : Nat := ((Gen.pduTags.find? (·.1 == cls)).map (·.2)).getD 0

def receiveWire (community : Bytes) (src : Source) (data : Bytes) (fuel depth : Nat) : Option Delivery :=
  match decodeTreeForced data fuel depth with
  | .ok (.seq _ (.int _ ver :: _)) =>
    -- `mpm.create(version.value, …)`: the community-based models; a V3 message cannot be decoded with
    -- community credentials, any other number has no plug-in
    let proto : Option Ops.Proto :=
      if ver = 1 then some (.v2c community) else if ver = 0 then some (.v1 community) else none
    match proto with
    | none => none
    | some pr =>
      match Glue.msgOfBytes data fuel depth with
      | none => none
      | some (m, cls) =>
        match (do let p ← Ops.mpmDecode pr m; Ops.forcePdu p : Except Err Ops.PduResp) with
        | .error _ => none
        | .ok p => some ⟨if cls == "Trap" then some src else none, pduTagOf cls, p.varbinds⟩
  | _ => none

/-- callback invocations for a sequence of datagrams as they arrive -/
def deliveriesWire (community : Bytes) (ds : List (Source × Bytes)) : List Delivery :=
  ds.filterMap fun p => receiveWire community p.1 p.2 (p.2.length + 16) 12

end Snmp.Trap
