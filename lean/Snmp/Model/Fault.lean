/-
  An agent that answers one particular request (identified by its OID list) with a non-zero
  error-status: the exchange function seen by the walk machinery then raises what the error
  branch of `PDU.decode_raw` raises for that response (`Ops.errorOf`).
-/
import Snmp.Model.Walk
import Snmp.Model.Ops
namespace Snmp.Fault

def reqOids : Req → List Oid
  | .get o => o
  | .getnext o => o
  | .getbulk _ _ o => o
  | .set vbs => vbs.map (·.1)

/-- `x`, except that the request for exactly `foids` is answered with `status` / `index`
    (bindings as the agent would have sent them, or `vbs'` when given) -/
def withFault (x : Exchange) (foids : List Oid) (status index : Int) (vbs' : Option (List VarBind)) : Exchange :=
  fun r =>
    if reqOids r == foids then
      match x r with
      | .ok vbs => .error (Ops.errorOf ⟨0, status, index, vbs'.getD vbs⟩)
      | .error e => .error e
    else x r

/-- `x`, except that every GETBULK whose first OID is `t` or above is answered with no binding at
    all (an agent that has nothing left to say, e.g. to a completion request for later columns) -/
def starve (x : Exchange) (t : Oid) : Exchange :=
  fun r =>
    match r with
    | .getbulk _ _ (o :: _) => if o < t then x r else .ok []
    | _ => x r

/-- `x` behind a message-size limit: every GETBULK answer is cut to its first `n` bindings (at least
    one is kept) — RFC 3416 4.2.3; the completion requests of the fetcher are cut in the same way -/
def limit (x : Exchange) (n : Nat) : Exchange :=
  fun r =>
    match r with
    | .getbulk _ _ _ =>
      match x r with
      | .ok vbs => .ok (vbs.take (max 1 n))
      | .error e => .error e
    | _ => x r

end Snmp.Fault
