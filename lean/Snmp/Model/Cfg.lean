/-
  Model of `Client.configure`, `Client.reconfigure` (a context manager: configure inside
  `try`, restore `config` and `mpm` in `finally`), and of what a request issued at some point
  shows at the sender seam (`timeout=`, `retries=`, protocol version of the datagram, the
  credentials' name, the SNMPv3 context, the message-processing instance, and the engine
  discovery a fresh SNMPv3 message-processing instance performs on first use).

  Programs are well-nested by construction: `reconfigure kw body` is `with client.reconfigure(**kw): body`,
  `raise` raises an exception of the harness, `catch body` is `try: body  except Boom: pass`
  (it does not catch the `TypeError` of an unknown setting).
-/
import Snmp.Gen.Facts
namespace Snmp.Cfg

/-- credential classes (`type(credentials)`): the three concrete classes -/
inductive Family where
  | v1 | v2c | v3
  deriving Repr, DecidableEq, BEq, Inhabited

def Family.name : Family → String
  | .v1 => "V1" | .v2c => "V2C" | .v3 => "V3"

/-- a credentials object: its class and an identity (community / user name chosen by the harness) -/
structure Cred where
  family : Family
  ident : Nat
  deriving Repr, DecidableEq, BEq, Inhabited

/-- `ClientConfig` -/
structure Config where
  credentials : Cred
  context : Nat
  lcd : Nat
  timeout : Int
  retries : Int
  deriving Repr, DecidableEq, BEq, Inhabited

/-- a message-processing instance: the plug-in's `IDENTIFIER` and an object identity -/
structure Mpm where
  ident : Nat
  inst : Nat
  deriving Repr, DecidableEq, BEq, Inhabited

structure St where
  config : Config
  mpm : Mpm
  /-- next object identity handed out by `mpm.create` (ghost) -/
  fresh : Nat
  /-- SNMPv3 message-processing instances that already hold a discovery result -/
  discovered : List Nat
  deriving Repr, DecidableEq, BEq, Inhabited

inductive KwVal where
  | cred (c : Cred)
  | num (n : Int)
  | ident (n : Nat)
  deriving Repr, DecidableEq, BEq, Inhabited

abbrev Kwargs := List (String × KwVal)

inductive CErr where
  | typeError
  | unknownMpm
  | boom
  deriving Repr, DecidableEq, BEq, Inhabited

/-- `credentials.mpm` for a credentials class (generated table) -/
def credMpm (f : Family) : Option Nat := (Gen.credentialMpm.find? (·.1 == f.name)).map (·.2)

/-- `mpm.create(identifier, …)`: a plug-in with that `IDENTIFIER` must exist (generated table) -/
def mpmCreate (ident fresh : Nat) : Except CErr Mpm :=
  if Gen.mpmIdentifiers.any (·.2 == ident) then .ok ⟨ident, fresh⟩ else .error .unknownMpm

/-- `dataclasses.replace(config, **kw)` for one known field -/
def setField (c : Config) (k : String) (v : KwVal) : Config :=
  match k, v with
  | "credentials", .cred x => { c with credentials := x }
  | "context", .ident n => { c with context := n }
  | "lcd", .ident n => { c with lcd := n }
  | "timeout", .num n => { c with timeout := n }
  | "retries", .num n => { c with retries := n }
  | _, _ => c

def knownKeys (kw : Kwargs) : Bool := kw.all fun p => Gen.configFields.contains p.1

def credOf (kw : Kwargs) : Option Cred :=
  match kw.find? (·.1 == "credentials") with
  | some (_, .cred c) => some c
  | _ => none

/-- `Client.configure(**kw)` -/
def configure (kw : Kwargs) (s : St) : Except CErr St :=
  if !knownKeys kw then .error .typeError
  else
    let newConfig := kw.foldl (fun c p => setField c p.1 p.2) s.config
    match credOf kw with
    | some c =>
      if c.family ≠ s.config.credentials.family then
        match credMpm c.family with
        | none => .error .unknownMpm
        | some ident =>
          match mpmCreate ident s.fresh with
          | .error e => .error e
          | .ok m => .ok { s with config := newConfig, mpm := m, fresh := s.fresh + 1 }
      else .ok { s with config := newConfig }
    | none => .ok { s with config := newConfig }

/-- one call of the sender seam -/
structure Obs where
  /-- 0 = request datagram, 1 = discovery probe, 2 = direct read of `client.config` / `client.mpm` -/
  kind : Nat
  timeout : Int
  retries : Int
  version : Nat
  cred : Option Nat
  context : Option Nat
  inst : Nat
  deriving Repr, DecidableEq, BEq, Inhabited

/-- what a request issued in state `s` shows at the seam (and the discovery it may cause) -/
def request (s : St) : St × List Obs :=
  let main : Obs :=
    { kind := 0, timeout := s.config.timeout, retries := s.config.retries,
      version := s.mpm.ident, cred := some s.config.credentials.ident,
      context := if s.mpm.ident = 3 then some s.config.context else none, inst := s.mpm.inst }
  if s.mpm.ident = 3 ∧ ¬ s.discovered.contains s.mpm.inst then
    ({ s with discovered := s.mpm.inst :: s.discovered },
     [{ main with kind := 1, cred := none, context := none }, main])
  else (s, [main])

/-- reading `client.config` and `client.mpm` directly -/
def peek (s : St) : Obs :=
  { kind := 2, timeout := s.config.timeout, retries := s.config.retries, version := s.mpm.ident,
    cred := some s.config.credentials.ident, context := some s.config.context, inst := s.mpm.inst }

inductive Prog where
  | request
  | peek
  | configure (kw : Kwargs)
  | reconfigure (kw : Kwargs) (body : List Prog)
  | raise
  | catch (body : List Prog)
  deriving Repr, Inhabited

structure R where
  state : St
  obs : List Obs
  err : Option CErr
  deriving Repr, Inhabited

mutual
/-- run one statement -/
def exec : Prog → St → R
  | .request, s => let (s', o) := request s; ⟨s', o, none⟩
  | .peek, s => ⟨s, [peek s], none⟩
  | .configure kw, s =>
    match configure kw s with
    | .ok s' => ⟨s', [], none⟩
    | .error e => ⟨s, [], some e⟩
  | .reconfigure kw body, s =>
    -- old_config, old_mpm = self.config, self.mpm ; try: configure; yield  finally: restore
    match configure kw s with
    | .error e => ⟨s, [], some e⟩
    | .ok s' =>
      let r := execList body s'
      ⟨{ r.state with config := s.config, mpm := s.mpm }, r.obs, r.err⟩
  | .raise, s => ⟨s, [], some .boom⟩
  | .catch body, s =>
    let r := execList body s
    match r.err with
    | some .boom => ⟨r.state, r.obs, none⟩
    | _ => r
/-- run a statement list; an exception skips the rest -/
def execList : List Prog → St → R
  | [], s => ⟨s, [], none⟩
  | p :: ps, s =>
    let r := exec p s
    match r.err with
    | some e => ⟨r.state, r.obs, some e⟩
    | none =>
      let r' := execList ps r.state
      ⟨r'.state, r.obs ++ r'.obs, r'.err⟩
end

end Snmp.Cfg
