/-
  C03 for the bulk walk, on the Python-faithful model and for an ARBITRARY exchange function: what
  the per-column successor check of the bulk fetcher guarantees about every accepted response, and
  the resulting "never re-request / at most |U|+1 rounds / never stopped by the budget" theorem —
  stated for any fetcher whose accepted answers advance every column.
-/
import Snmp.Lemmas.BulkWalk
namespace Snmp.Walk
open Snmp

/-! ### what an accepted bulk response looks like, whatever the agent sent -/

/-- a passed check says that every binding inside the current repetition advanced its column -/
theorem cc_true_imp (n : Nat) : ∀ (out : List VarBind) (prev : List Oid) (k : Nat) (rest : List VarBind)
    (hlen : prev.length = n) (hk : k + out.length ≤ n),
    checkColumns n prev k (out ++ rest) = true →
    ∀ j (h : j < out.length), prev[k + j]'(by omega) < (out[j]).1
  | [], _, _, _, _, _, _ => by intro j h; simp at h
  | vb :: out, prev, k, rest, hlen, hk, hc => by
    have hkn : k < n := by simp at hk; omega
    have hmod : k % n = k := Nat.mod_eq_of_lt hkn
    have hget : prev[k]? = some prev[k] := by simp [hlen, hkn]
    rw [List.cons_append, checkColumns] at hc
    simp only [hmod, hget] at hc
    by_cases h0 : prev[k] < vb.1
    · simp only [h0, decide_true, ↓reduceIte] at hc
      have ih := cc_true_imp n out (prev.set k vb.1) (k + 1) rest (by simp [hlen]) (by simp at hk ⊢; omega) hc
      intro j hj
      cases j with
      | zero => simpa using h0
      | succ j =>
        have := ih j (by simp at hj; omega)
        have hne : k ≠ k + 1 + j := by omega
        rw [List.getElem_set_ne hne] at this
        have e : k + 1 + j = k + (j + 1) := by omega
        simp only [e] at this
        simpa using this
    · simp [h0] at hc

/-- **Every column of an accepted response lies strictly above the OID it was requested for** —
    any number of repetitions, a partial last one included, any agent. -/
theorem cc_columns (n : Nat) (hn : 0 < n) : ∀ (m : Nat) (out : List VarBind) (prev : List Oid)
    (_ : out.length ≤ m) (hlen : prev.length = n), checkColumns n prev 0 out = true →
    ∀ i (hi : i < n), ∀ v ∈ Py.stride out i n, prev[i]'(by omega) < v.1 := by
  intro m
  induction m with
  | zero =>
    intro out prev hm _ _ i hi v hv
    have : out = [] := List.eq_nil_of_length_eq_zero (by omega)
    subst this
    simp [stride_nil] at hv
  | succ m ih =>
    intro out prev hm hlen hc i hi v hv
    by_cases hshort : out.length ≤ n
    · rw [stride_short out i n hshort hi] at hv
      have himp := cc_true_imp n out prev 0 [] hlen (by omega) (by simpa using hc)
      cases hoi : out[i]? with
      | none => simp [hoi] at hv
      | some w =>
        simp only [hoi, Option.toList_some, List.mem_singleton] at hv
        subst hv
        have hil : i < out.length := by
          rcases Nat.lt_or_ge i out.length with h | h
          · exact h
          · simp [List.getElem?_eq_none h] at hoi
        have := himp i hil
        rw [List.getElem?_eq_getElem hil, Option.some.injEq] at hoi
        simpa [hoi] using this
    · -- split off the first whole repetition
      have hsplit : out = out.take n ++ out.drop n := (List.take_append_drop n out).symm
      have hrow : (out.take n).length = n := by simp; omega
      rw [hsplit] at hc hv
      have himp := cc_true_imp n (out.take n) prev 0 (out.drop n) hlen (by omega) hc
      have heq := cc_prefix n (out.take n) prev 0 (out.drop n) hlen (by omega) himp
      rw [heq] at hc
      simp only [List.take_zero, List.nil_append, Nat.zero_add, hrow] at hc
      have hdropnil : prev.drop n = [] := List.drop_of_length_le (by omega)
      rw [hdropnil, List.append_nil] at hc
      have hshift := cc_shift n (out.drop n) ((out.take n).map (·.1)) 0
      simp only [Nat.zero_add] at hshift
      rw [hshift] at hc
      rw [stride_row' _ _ i n hrow hi] at hv
      have hfirst : prev[i] < ((out.take n)[i]'(by omega)).1 := by
        have := himp i (by omega)
        simpa using this
      rcases List.mem_cons.mp hv with rfl | hv'
      · exact hfirst
      · have hrec := ih (out.drop n) ((out.take n).map (·.1)) (by simp; omega) (by simp; omega) hc i hi v hv'
        simp only [List.getElem_map] at hrec
        exact Std.lt_trans hfirst hrec

/-! ### the loop, for any fetcher whose accepted answers advance every column -/

theorem stride_go_subset {α} (n : Nat) : ∀ (f : Nat) (l : List α), ∀ v ∈ Py.stride.go n l f, v ∈ l
  | 0, l, v, h => by
    cases l <;> simp [Py.stride.go] at h
  | f + 1, [], v, h => by simp [Py.stride.go] at h
  | f + 1, x :: rest, v, h => by
    rw [stride_go_cons] at h
    rcases List.mem_cons.mp h with rfl | h'
    · simp
    · have := stride_go_subset n f (rest.drop n) v h'
      exact List.mem_cons_of_mem _ (List.mem_of_mem_drop this)

theorem stride_subset {α} (xs : List α) (i n : Nat) : ∀ v ∈ Py.stride xs i n, v ∈ xs := by
  intro v hv
  cases n with
  | zero => simp [Py.stride] at hv
  | succ n =>
    have : v ∈ xs.drop i := stride_go_subset n xs.length (xs.drop i) v hv
    exact List.mem_of_mem_drop this

/-- what the walk loop needs from a fetcher, whatever agent is behind it: in an accepted answer the
    bindings regrouped for the `i`-th requested OID lie strictly above it, and every returned OID
    belongs to `U` -/
def Advancing (fetch : Fetcher) (U : List Oid) : Prop :=
  ∀ (cs : List Oid) (out : List VarBind), fetch cs = .ok out →
    (∀ i (hi : i < cs.length), ∀ v ∈ Py.stride out i cs.length, cs[i] < v.1) ∧ (∀ v ∈ out, v.1 ∈ U)

/-- the invariant after any accepted response -/
theorem BInv.step_gen {roots : List Oid} (hd : WalkAbs.Disjoint roots) {unf unf' : List (Oid × VarBind)}
    {past : List Oid} (hi : BInv roots unf past)
    (hsub' : (unf'.map (·.1)).Sublist (unf.map (·.1))) (hins' : ∀ p' ∈ unf', p'.1 <+: p'.2.1)
    (hadv : ∀ p' ∈ unf', ∃ p ∈ unf, p.1 = p'.1 ∧ p.2.1 < p'.2.1) :
    BInv roots unf' (past ++ unf.map (·.2.1)) := by
  have hknd : (unf.map (·.1)).Nodup := pairwise_lt_nodup ((disjoint_lt hd).sublist hi.sub)
  refine ⟨hsub'.trans hi.sub, hins', hi.request hd, ?_⟩
  intro o ho p' hp' hpre
  obtain ⟨p, hp, hk, hcv⟩ := hadv p' hp'
  rcases List.mem_append.mp ho with h | h
  · exact Std.lt_trans (hi.below o h p hp (hk ▸ hpre)) hcv
  · obtain ⟨q, hq, rfl⟩ := List.mem_map.mp h
    have hroot : q.1 = p.1 :=
      root_unique hd (hi.sub.subset (List.mem_map_of_mem (f := (·.1)) hq))
        (hi.sub.subset (List.mem_map_of_mem (f := (·.1)) hp)) (hi.ins q hq) (hk ▸ hpre)
    have : q = p := keys_inj hknd q hq p hp hroot
    subst this
    exact hcv

/-- what the regrouped answer turns the live columns into -/
theorem next_columns (fetch : Fetcher) (U : List Oid) (hadv : Advancing fetch U)
    (unf : List (Oid × VarBind)) (out : List VarBind) (hf : fetch (unf.map (·.2.1)) = .ok out) :
    let unf' := ((cols (unf.map (·.1)) out).filterMap lastOf).filter (fun kl => inside kl.1 kl.2.1)
    (unf'.map (·.1)).Sublist (unf.map (·.1)) ∧ (∀ p' ∈ unf', p'.1 <+: p'.2.1) ∧
    (∀ p' ∈ unf', ∃ p ∈ unf, p.1 = p'.1 ∧ p.2.1 < p'.2.1) ∧ (∀ p' ∈ unf', p'.2.1 ∈ U) := by
  intro unf'
  obtain ⟨hcol, hU⟩ := hadv _ out hf
  have hlen1 : (unf.map (·.1)).length = unf.length := by simp
  have key : ∀ p' ∈ unf', ∃ i, ∃ hi : i < unf.length, (unf[i]).1 = p'.1 ∧
      p'.2 ∈ Py.stride out i unf.length := by
    intro p' hp'
    obtain ⟨grp, hgrp, hlast⟩ := List.mem_filterMap.mp (List.mem_filter.mp hp').1
    obtain ⟨i, hi, rfl⟩ := cols_mem.mp hgrp
    rw [hlen1] at hi
    obtain ⟨h1, h2⟩ := lastOf_some hlast
    refine ⟨i, hi, ?_, ?_⟩
    · rw [h1]; simp [hi]
    · have := List.mem_of_getLast? h2
      simpa [hlen1] using this
  refine ⟨?_, ?_, ?_, ?_⟩
  · have h1 : (unf'.map (·.1)).Sublist (((cols (unf.map (·.1)) out).filterMap lastOf).map (·.1)) :=
      List.filter_sublist.map _
    have h2 := lastOf_keys_sublist (cols (unf.map (·.1)) out)
    rw [cols_keys] at h2
    exact h1.trans h2
  · intro p' hp'
    exact (inside_iff _ _).mp (List.mem_filter.mp hp').2
  · intro p' hp'
    obtain ⟨i, hi, hk, hmem⟩ := key p' hp'
    refine ⟨unf[i], List.getElem_mem hi, hk, ?_⟩
    have := hcol i (by simpa using hi) p'.2 (by simpa using hmem)
    simpa using this
  · intro p' hp'
    obtain ⟨i, hi, _, hmem⟩ := key p' hp'
    exact hU p'.2 (stride_subset out i unf.length p'.2 hmem)

/-- **The walk loop for any advancing fetcher**: the requests it adds never repeat an OID requested
    before, are non-empty, consist of OIDs the agent returned (members of `U`), and there are at
    most `fuel` of them — exactly `fuel` if the loop was stopped by the budget. -/
theorem loop_bound_gen (fetch : Fetcher) (U : List Oid) (hadv : Advancing fetch U) (roots : List Oid)
    (lenient : Bool) (hd : WalkAbs.Disjoint roots) :
    ∀ (fuel : Nat) (unf : List (Oid × VarBind)) (yielded : List Oid) (ev : List Event),
      BInv roots unf (reqsOf ev).flatten → (∀ p ∈ unf, p.2.1 ∈ U) →
      ∃ more : List (List Oid),
        reqsOf (loop fetch roots lenient fuel unf yielded ev).events = reqsOf ev ++ more ∧
        ((reqsOf ev).flatten ++ more.flatten).Nodup ∧
        (∀ q ∈ more, q ≠ [] ∧ ∀ c ∈ q, c ∈ U) ∧
        more.length ≤ fuel ∧
        ((loop fetch roots lenient fuel unf yielded ev).outcome = .outOfFuel → more.length = fuel) := by
  intro fuel
  induction fuel with
  | zero =>
    intro unf yielded ev hi _
    refine ⟨[], ?_, by simpa using hi.nodup, by simp, by simp, fun _ => rfl⟩
    unfold loop; split <;> simp
  | succ fuel ih =>
    intro unf yielded ev hi hrev
    by_cases hne : unf = []
    · subst hne
      refine ⟨[], ?_, by simpa using hi.nodup, by simp, by simp, ?_⟩
      · unfold loop; simp
      · unfold loop; simp
    · have hemp : unf.isEmpty = false := by cases unf <;> simp_all
      have hnext_ne : unf.map (·.2.1) ≠ [] := by cases unf <;> simp_all
      have hreq := hi.request hd
      have hrev1 : ∀ c ∈ unf.map (·.2.1), c ∈ U := by
        intro c hc
        obtain ⟨p, hp, rfl⟩ := List.mem_map.mp hc
        exact hrev p hp
      cases hf : fetch (unf.map (·.2.1)) with
      | error e =>
        refine ⟨[unf.map (·.2.1)], ?_, by simpa using hreq, ?_, by simp, ?_⟩
        · unfold loop
          simp only [hemp, Bool.false_eq_true, ↓reduceIte, hf]
          split
          · simp [reqsOf_append, reqsOf_req]
          · split <;> simp [reqsOf_append, reqsOf_req]
        · intro q hq
          simp only [List.mem_singleton] at hq; subst hq
          exact ⟨hnext_ne, hrev1⟩
        · unfold loop
          simp only [hemp, Bool.false_eq_true, ↓reduceIte, hf]
          split
          · simp
          · split <;> simp
      | ok out =>
        rw [loop_step_cols fetch roots lenient fuel unf yielded ev out hd hi.sub hi.ins hne hf]
        obtain ⟨hs', hi', ha', hu'⟩ := next_columns fetch U hadv unf out hf
        have hreqs : reqsOf (ev ++ [Event.req (unf.map (·.2.1))] ++
            (deduped roots (cols (unf.map (·.1)) out) yielded).1.map Event.yield)
            = reqsOf ev ++ [unf.map (·.2.1)] := by
          rw [reqsOf_append, reqsOf_append, reqsOf_req, reqsOf_map_yield, List.append_nil]
        have hinv' := hi.step_gen hd hs' hi' ha'
        have hflat : (reqsOf ev ++ [unf.map (·.2.1)]).flatten = (reqsOf ev).flatten ++ unf.map (·.2.1) := by simp
        obtain ⟨more, h1, h2, h3, h4, h5⟩ := ih _ (deduped roots (cols (unf.map (·.1)) out) yielded).2
          (ev ++ [Event.req (unf.map (·.2.1))] ++ (deduped roots (cols (unf.map (·.1)) out) yielded).1.map Event.yield)
          (by rw [hreqs, hflat]; exact hinv') hu'
        rw [hreqs] at h1 h2
        refine ⟨unf.map (·.2.1) :: more, ?_, ?_, ?_, by simp; omega, ?_⟩
        · rw [h1]; simp
        · simpa [List.append_assoc] using h2
        · intro q hq
          rcases List.mem_cons.mp hq with rfl | hq'
          · exact ⟨hnext_ne, hrev1⟩
          · exact h3 q hq'
        · intro ho
          have := h5 ho
          simp [this]

/-- the same for the whole `multiwalk`, the first request being the sorted roots -/
theorem multiwalk_bound_gen (fetch : Fetcher) (U : List Oid) (hadv : Advancing fetch U) (roots0 : List Oid)
    (lenient : Bool) (fuel : Nat) (hd : WalkAbs.Disjoint (sortOids roots0)) :
    ∃ more : List (List Oid),
      reqsOf (multiwalk fetch roots0 lenient fuel).events = sortOids roots0 :: more ∧
      (sortOids roots0 ++ more.flatten).Nodup ∧
      (∀ q ∈ more, q ≠ [] ∧ ∀ c ∈ q, c ∈ U) ∧
      more.length ≤ fuel ∧
      ((multiwalk fetch roots0 lenient fuel).outcome = .outOfFuel → more.length = fuel) := by
  unfold multiwalk
  simp only
  generalize sortOids roots0 = sroots at hd ⊢
  have hlt0 := disjoint_lt hd
  cases hf : fetch sroots with
  | error e =>
    refine ⟨[], ?_, by simpa using pairwise_lt_nodup hlt0, by simp, by simp, ?_⟩
    · split
      · split <;> simp [reqsOf]
      · rename_i heq; simp at heq
    · split
      · split <;> simp
      · rename_i heq; simp at heq
  | ok out =>
    simp only [group_first_gen out sroots (pairwise_lt_nodup hlt0)]
    rw [unfinished_sorted _ (by rw [cols_keys]; exact hlt0)]
    let unf0 : List (Oid × VarBind) := sroots.map (fun r => (r, (r, Val.null)))
    have h1 : unf0.map (·.1) = sroots := by simp [unf0, List.map_map, Function.comp_def]
    have h2 : unf0.map (·.2.1) = sroots := by simp [unf0, List.map_map, Function.comp_def]
    have hi0 : BInv sroots unf0 [] := by
      refine ⟨by rw [h1]; exact List.Sublist.refl _, ?_, List.nodup_nil, by simp⟩
      intro p hp
      obtain ⟨r, _, rfl⟩ := List.mem_map.mp hp
      exact List.prefix_refl _
    obtain ⟨hs', hi', ha', hu'⟩ := next_columns fetch U hadv unf0 out (by rw [h2]; exact hf)
    have hinv := hi0.step_gen hd hs' hi' ha'
    rw [h1] at hu' hinv
    rw [h2, List.nil_append] at hinv
    have hreqs : reqsOf ([Event.req sroots] ++ (deduped sroots (cols sroots out) []).1.map Event.yield) = [sroots] := by
      rw [reqsOf_append, reqsOf_req, reqsOf_map_yield, List.append_nil]
    obtain ⟨more, m1, m2, m3, m4, m5⟩ := loop_bound_gen fetch U hadv sroots lenient hd fuel
      (((cols sroots out).filterMap lastOf).filter (fun kl => inside kl.1 kl.2.1)) (deduped sroots (cols sroots out) []).2
      ([Event.req sroots] ++ (deduped sroots (cols sroots out) []).1.map Event.yield)
      (by rw [hreqs]; simpa using hinv) hu'
    rw [hreqs] at m1 m2
    exact ⟨more, by simpa using m1, by simpa using m2, m3, m4, m5⟩

theorem bulkVarbinds_ok (x : Exchange) (q : List Oid) (m : Nat) (r : List VarBind)
    (h : bulkVarbinds x [] q m = .ok r) : x (.getbulk 0 m q) = .ok r := by
  unfold bulkVarbinds at h
  simp only [List.nil_append, List.length_nil, bind, Except.bind] at h
  cases hx : x (.getbulk 0 m q) with
  | error e => simp [hx] at h
  | ok resp =>
    simp only [hx] at h
    split at h
    · simp at h
    · simp only [pure, Except.pure, Except.ok.injEq] at h
      rw [h]

theorem completeRow_mem (x : Exchange) (cs : List Oid) (P : VarBind → Prop)
    (hP : ∀ m q resp, x (.getbulk 0 m q) = .ok resp → ∀ v ∈ resp, P v) :
    ∀ (fuel : Nat) (vbs r : List VarBind), completeRow x cs fuel vbs = .ok r → (∀ v ∈ vbs, P v) → ∀ v ∈ r, P v := by
  intro fuel
  induction fuel with
  | zero =>
    intro vbs r h hv
    simp only [completeRow, pure, Except.pure, Except.ok.injEq] at h
    subst h; exact hv
  | succ fuel ih =>
    intro vbs r h hv
    rw [completeRow] at h
    split at h
    · cases hb : bulkVarbinds x [] (cs.drop vbs.length) 1 with
      | error e => simp [hb, bind, Except.bind] at h
      | ok missing =>
        simp only [hb, bind, Except.bind] at h
        split at h
        · simp only [pure, Except.pure, Except.ok.injEq] at h
          subst h; exact hv
        · apply ih _ _ h
          intro v hvm
          rcases List.mem_append.mp hvm with h1 | h1
          · exact hv v h1
          · exact hP 1 _ missing (bulkVarbinds_ok x _ 1 missing hb) v h1
    · simp only [pure, Except.pure, Except.ok.injEq] at h
      subst h; exact hv

/-- the bulk fetcher is advancing, whatever exchange is behind it -/
theorem bulkFetcher_advancing (x : Exchange) (size : Nat) (U : List Oid)
    (hU : ∀ m q resp, x (.getbulk 0 m q) = .ok resp → ∀ vb ∈ resp, vb.1 ∈ U) :
    Advancing (bulkFetcher x size) U := by
  intro cs out hf
  unfold bulkFetcher at hf
  cases hb : bulkVarbinds x [] cs size with
  | error e => simp [hb, bind, Except.bind] at hf
  | ok first =>
    simp only [hb, bind, Except.bind] at hf
    cases hc : completeRow x cs cs.length first with
    | error e => simp [hc] at hf
    | ok vbs =>
      simp only [hc] at hf
      split at hf
      · rename_i hcc
        simp only [pure, Except.pure, Except.ok.injEq] at hf
        subst hf
        refine ⟨?_, ?_⟩
        · intro i hi v hv
          exact cc_columns cs.length (by omega) _ _ cs (Nat.le_refl _) rfl hcc i hi v hv
        · intro v hv
          have hv' : v ∈ vbs := (List.takeWhile_sublist _).subset hv
          exact completeRow_mem x cs (fun v => v.1 ∈ U) hU cs.length first vbs hc
            (fun w hw => hU size cs first (bulkVarbinds_ok x cs size first hb) w hw) v hv'
      · simp at hf

end Snmp.Walk
