/-
  C03 on the Python-faithful model: against ANY exchange function, the GETNEXT walk of pairwise
  disjoint roots never requests an OID twice, every OID it continues from was returned by the agent
  in the previous response, hence the number of requests is bounded by the number of distinct
  OIDs the agent reveals (+1 for the first request), and the loop cannot run out of budget.
-/
import Snmp.Lemmas.WalkRefine
namespace Snmp.Walk
open Snmp

def reqsOf (evs : List Event) : List (List Oid) :=
  evs.filterMap fun | .req o => some o | _ => none

theorem reqsOf_append (a b : List Event) : reqsOf (a ++ b) = reqsOf a ++ reqsOf b := by
  simp [reqsOf, List.filterMap_append]

theorem reqsOf_map_yield (ys : List VarBind) : reqsOf (ys.map Event.yield) = [] := by
  induction ys with
  | nil => rfl
  | cons y ys ih => simp [reqsOf] at ih ⊢

theorem reqsOf_req (o : List Oid) : reqsOf [Event.req o] = [o] := rfl

theorem requests_eq (r : Result) : r.requests = reqsOf r.events := by
  unfold Result.requests reqsOf
  congr 1

/-- what `multigetnext` guarantees about an accepted response -/
theorem multigetnext_ok (x : Exchange) (oids : List Oid) (vbs : List VarBind)
    (h : multigetnext x oids = .ok vbs) :
    ∃ resp, x (.getnext oids) = .ok resp ∧ resp.length = oids.length ∧ vbs = resp.takeWhile notEom ∧
      ∀ p ∈ oids.zip vbs, p.1 < p.2.1 := by
  unfold multigetnext at h
  cases hx : x (.getnext oids) with
  | error e => simp [hx, bind, Except.bind] at h
  | ok resp =>
    simp only [hx, bind, Except.bind] at h
    split at h
    · simp at h
    · rename_i hlen
      split at h
      · rename_i hall
        simp only [pure, Except.pure, Except.ok.injEq] at h
        refine ⟨resp, rfl, by simpa using hlen, h.symm, ?_⟩
        subst h
        intro p hp
        simpa using List.all_eq_true.mp hall p hp
      · simp at h

theorem cursors_lt {roots : List Oid} (hd : WalkAbs.Disjoint roots) (unf : List (Oid × VarBind))
    (hsub : (unf.map (·.1)).Sublist roots) (hins : ∀ p ∈ unf, p.1 <+: p.2.1) :
    (unf.map (·.2.1)).Pairwise (· < ·) := by
  have h1 : (unf.map (·.1)).Pairwise (fun a b => a < b ∧ ¬ a <+: b) := hd.sublist hsub
  rw [List.pairwise_map] at h1 ⊢
  exact h1.imp_of_mem (fun {p q} hp hq h => WalkAbs.sub_lt p.1 q.1 p.2.1 q.2.1 h.1 h.2 (hins p hp) (hins q hq))

/-- One iteration of the walk loop with an arbitrary fetcher whose answer is at most one
    repetition long, for pairwise disjoint roots. -/
theorem loop_step_gen (fetch : Fetcher) (roots : List Oid) (lenient : Bool) (fuel : Nat)
    (unf : List (Oid × VarBind)) (yielded : List Oid) (ev : List Event) (vbs : List VarBind)
    (hd : WalkAbs.Disjoint roots) (hsub : (unf.map (·.1)).Sublist roots)
    (hins : ∀ p ∈ unf, p.1 <+: p.2.1) (hne : unf ≠ [])
    (hf : fetch (unf.map (·.2.1)) = .ok vbs) (hlen : vbs.length ≤ unf.length) :
    loop fetch roots lenient (fuel + 1) unf yielded ev =
      loop fetch roots lenient fuel
        (((unf.map (·.1)).zip vbs).filter (fun kl => inside kl.1 kl.2.1))
        (deduped roots (padZip (unf.map (·.1)) vbs) yielded).2
        (ev ++ [Event.req (unf.map (·.2.1))] ++
          (deduped roots (padZip (unf.map (·.1)) vbs) yielded).1.map Event.yield) := by
  have hemp : unf.isEmpty = false := by cases unf <;> simp_all
  have hks_lt : (unf.map (·.1)).Pairwise (· < ·) := (disjoint_lt hd).sublist hsub
  have hcur_lt := cursors_lt hd unf hsub hins
  have hroots : roots ≠ [] := by
    intro h; subst h
    have := List.sublist_nil.mp hsub
    cases unf <;> simp_all
  let rootOf : Oid → Oid := fun c => (roots.filter (fun b => inside b c)).headD []
  have hfil : ∀ p ∈ unf, roots.filter (fun b => inside b p.2.1) = [p.1] := by
    intro p hp
    exact filter_root_unique roots p.1 p.2.1 hd (hsub.subset (List.mem_map_of_mem (f := (·.1)) hp)) (hins p hp)
  have hgrp := group_loop vbs (unf.map (·.2.1)) (unf.map (·.1)) roots rootOf
    (by simpa using hlen) (by cases unf <;> simp_all) hroots
    (pairwise_lt_nodup hcur_lt)
    (by
      rw [List.map_map]
      apply List.map_congr_left
      intro p hp
      show (roots.filter (fun b => inside b p.2.1)).headD [] = p.1
      rw [hfil p hp]; rfl)
    (pairwise_lt_nodup hks_lt)
    (by
      intro c hc
      obtain ⟨p, hp, rfl⟩ := List.mem_map.mp hc
      show roots.filter (fun b => inside b p.2.1) = [(roots.filter (fun b => inside b p.2.1)).headD []]
      rw [hfil p hp]; rfl)
  rw [loop]
  simp only [hemp, Bool.false_eq_true, ↓reduceIte, hf, hgrp]
  rw [unfinished_padZip _ _ hks_lt]

/-- `c` was returned by the agent in answer to one of the requests `reqs` -/
def Rev (x : Exchange) (reqs : List (List Oid)) (c : Oid) : Prop :=
  ∃ q ∈ reqs, ∃ resp, x (.getnext q) = .ok resp ∧ c ∈ resp.map (·.1)

theorem Rev.mono {x : Exchange} {reqs reqs' : List (List Oid)} {c : Oid} (h : Rev x reqs c)
    (hsub : ∀ q ∈ reqs, q ∈ reqs') : Rev x reqs' c := by
  obtain ⟨q, hq, resp, hx, hc⟩ := h
  exact ⟨q, hsub q hq, resp, hx, hc⟩

/-- the invariant of the walk loop against an arbitrary agent: `past` = every OID requested so far -/
structure BInv (roots : List Oid) (unf : List (Oid × VarBind)) (past : List Oid) : Prop where
  sub : (unf.map (·.1)).Sublist roots
  ins : ∀ p ∈ unf, p.1 <+: p.2.1
  nodup : past.Nodup
  below : ∀ o ∈ past, ∀ p ∈ unf, p.1 <+: o → o < p.2.1

theorem root_unique {roots : List Oid} (hd : WalkAbs.Disjoint roots) {a b o : Oid}
    (ha : a ∈ roots) (hb : b ∈ roots) (hao : a <+: o) (hbo : b <+: o) : a = b := by
  have h1 := filter_root_unique roots a o hd ha hao
  have h2 := filter_root_unique roots b o hd hb hbo
  rw [h1] at h2
  simpa using h2

theorem zip_cols : ∀ (unf : List (Oid × VarBind)) (vbs : List VarBind) (k : Oid) (v : VarBind),
    (k, v) ∈ (unf.map (·.1)).zip vbs →
    ∃ p ∈ unf, p.1 = k ∧ (p.2.1, v) ∈ (unf.map (·.2.1)).zip vbs
  | [], _, _, _, h => by simp at h
  | _ :: _, [], _, _, h => by simp at h
  | p :: unf, w :: vbs, k, v, h => by
    simp only [List.map_cons, List.zip_cons_cons, List.mem_cons, Prod.mk.injEq] at h
    rcases h with ⟨rfl, rfl⟩ | h
    · exact ⟨p, by simp, rfl, by simp⟩
    · obtain ⟨q, hq, hk, hz⟩ := zip_cols unf vbs k v h
      exact ⟨q, by simp [hq], hk, by simp [hz]⟩

theorem keys_inj {unf : List (Oid × VarBind)} (h : (unf.map (·.1)).Nodup) :
    ∀ p ∈ unf, ∀ q ∈ unf, p.1 = q.1 → p = q := by
  induction unf with
  | nil => intro p hp; simp at hp
  | cons a unf ih =>
    simp only [List.map_cons, List.nodup_cons] at h
    intro p hp q hq hpq
    rcases List.mem_cons.mp hp with rfl | hp' <;> rcases List.mem_cons.mp hq with rfl | hq'
    · rfl
    · exact absurd (hpq ▸ List.mem_map_of_mem (f := (·.1)) hq') h.1
    · exact absurd (hpq ▸ List.mem_map_of_mem (f := (·.1)) hp') h.1
    · exact ih h.2 p hp' q hq' hpq

/-- requesting the current cursors keeps "nothing requested twice" -/
theorem BInv.request {roots : List Oid} (hd : WalkAbs.Disjoint roots) {unf : List (Oid × VarBind)}
    {past : List Oid} (hi : BInv roots unf past) : (past ++ unf.map (·.2.1)).Nodup := by
  rw [List.nodup_append]
  refine ⟨hi.nodup, pairwise_lt_nodup (cursors_lt hd unf hi.sub hi.ins), ?_⟩
  intro a ha b hb hab
  obtain ⟨p, hp, rfl⟩ := List.mem_map.mp hb
  subst hab
  exact absurd (hi.below _ ha p hp (hi.ins p hp)) (List.lt_irrefl _)

/-- the invariant after an accepted response -/
theorem BInv.step {roots : List Oid} (hd : WalkAbs.Disjoint roots) {unf : List (Oid × VarBind)}
    {past : List Oid} (hi : BInv roots unf past) (vbs : List VarBind)
    (hlt : ∀ p ∈ (unf.map (·.2.1)).zip vbs, p.1 < p.2.1) :
    BInv roots (((unf.map (·.1)).zip vbs).filter (fun kl => inside kl.1 kl.2.1)) (past ++ unf.map (·.2.1)) := by
  have hknd : (unf.map (·.1)).Nodup := pairwise_lt_nodup ((disjoint_lt hd).sublist hi.sub)
  refine ⟨?_, ?_, hi.request hd, ?_⟩
  · exact ((List.filter_sublist.map _).trans (zip_fst_sublist _ _)).trans hi.sub
  · intro p hp
    exact (inside_iff _ _).mp (List.mem_filter.mp hp).2
  · intro o ho p' hp' hpre
    have hz := (List.mem_filter.mp hp').1
    obtain ⟨p, hp, hk, hcv⟩ := zip_cols unf vbs p'.1 p'.2 hz
    have hcv' : p.2.1 < p'.2.1 := hlt _ hcv
    rcases List.mem_append.mp ho with h | h
    · exact Std.lt_trans (hi.below o h p hp (hk ▸ hpre)) hcv'
    · obtain ⟨q, hq, rfl⟩ := List.mem_map.mp h
      have hroot : q.1 = p.1 :=
        root_unique hd (hi.sub.subset (List.mem_map_of_mem (f := (·.1)) hq))
          (hi.sub.subset (List.mem_map_of_mem (f := (·.1)) hp)) (hi.ins q hq) (hk ▸ hpre)
      have : q = p := keys_inj hknd q hq p hp hroot
      subst this
      exact hcv'

/-- **The walk loop against an arbitrary agent.**  The requests it adds (`more`) never repeat an
    OID requested before, are non-empty, consist of OIDs the agent has returned, and there are at
    most `fuel` of them — exactly `fuel` if the loop was stopped by the budget. -/
theorem loop_bound (x : Exchange) (roots : List Oid) (lenient : Bool) (hd : WalkAbs.Disjoint roots) :
    ∀ (fuel : Nat) (unf : List (Oid × VarBind)) (yielded : List Oid) (ev : List Event),
      BInv roots unf (reqsOf ev).flatten → (∀ p ∈ unf, Rev x (reqsOf ev) p.2.1) →
      ∃ more : List (List Oid),
        reqsOf (loop (multigetnext x) roots lenient fuel unf yielded ev).events = reqsOf ev ++ more ∧
        ((reqsOf ev).flatten ++ more.flatten).Nodup ∧
        (∀ q ∈ more, q ≠ [] ∧ ∀ c ∈ q, Rev x (reqsOf ev ++ more) c) ∧
        more.length ≤ fuel ∧
        ((loop (multigetnext x) roots lenient fuel unf yielded ev).outcome = .outOfFuel → more.length = fuel) := by
  intro fuel
  induction fuel with
  | zero =>
    intro unf yielded ev hi _
    refine ⟨[], ?_, by simpa using hi.nodup, by simp, by simp, fun _ => rfl⟩
    unfold loop; split <;> simp
  | succ fuel ih =>
    intro unf yielded ev hi hrev
    by_cases hne : unf = []
    · subst hne
      refine ⟨[], ?_, by simpa using hi.nodup, by simp, by simp, ?_⟩
      · unfold loop; simp
      · unfold loop; simp
    · have hemp : unf.isEmpty = false := by cases unf <;> simp_all
      have hnext_ne : unf.map (·.2.1) ≠ [] := by cases unf <;> simp_all
      have hreq := hi.request hd
      have hrev1 : ∀ c ∈ unf.map (·.2.1), Rev x (reqsOf ev ++ [unf.map (·.2.1)]) c := by
        intro c hc
        obtain ⟨p, hp, rfl⟩ := List.mem_map.mp hc
        exact (hrev p hp).mono (fun q hq => List.mem_append_left _ hq)
      cases hf : multigetnext x (unf.map (·.2.1)) with
      | error e =>
        refine ⟨[unf.map (·.2.1)], ?_, by simpa using hreq, ?_, by simp, ?_⟩
        · unfold loop
          simp only [hemp, Bool.false_eq_true, ↓reduceIte, hf]
          split
          · simp [reqsOf_append, reqsOf_req]
          · split <;> simp [reqsOf_append, reqsOf_req]
        · intro q hq
          simp only [List.mem_singleton] at hq; subst hq
          exact ⟨hnext_ne, hrev1⟩
        · unfold loop
          simp only [hemp, Bool.false_eq_true, ↓reduceIte, hf]
          split
          · simp
          · split <;> simp
      | ok vbs =>
        obtain ⟨resp, hx, hlen, hvbs, hlt⟩ := multigetnext_ok x _ vbs hf
        have hvlen : vbs.length ≤ unf.length := by
          have : vbs.length ≤ resp.length := by rw [hvbs]; exact (List.takeWhile_sublist _).length_le
          simpa [hlen] using this
        rw [loop_step_gen (multigetnext x) roots lenient fuel unf yielded ev vbs hd hi.sub hi.ins hne hf hvlen]
        have hreqs : reqsOf (ev ++ [Event.req (unf.map (·.2.1))] ++
            (deduped roots (padZip (unf.map (·.1)) vbs) yielded).1.map Event.yield)
            = reqsOf ev ++ [unf.map (·.2.1)] := by
          rw [reqsOf_append, reqsOf_append, reqsOf_req, reqsOf_map_yield, List.append_nil]
        have hi' := hi.step hd vbs hlt
        have hflat : (reqsOf ev ++ [unf.map (·.2.1)]).flatten = (reqsOf ev).flatten ++ unf.map (·.2.1) := by simp
        obtain ⟨more, h1, h2, h3, h4, h5⟩ := ih _ (deduped roots (padZip (unf.map (·.1)) vbs) yielded).2
          (ev ++ [Event.req (unf.map (·.2.1))] ++ (deduped roots (padZip (unf.map (·.1)) vbs) yielded).1.map Event.yield)
          (by rw [hreqs, hflat]; exact hi')
          (by
            intro p' hp'
            rw [hreqs]
            have hz := (List.mem_filter.mp hp').1
            have hv : p'.2 ∈ vbs := (List.of_mem_zip hz).2
            have hv' : p'.2 ∈ resp := by rw [hvbs] at hv; exact (List.takeWhile_sublist _).subset hv
            exact ⟨unf.map (·.2.1), by simp, resp, hx, List.mem_map_of_mem (f := (·.1)) hv'⟩)
        rw [hreqs] at h1 h2 h3
        refine ⟨unf.map (·.2.1) :: more, ?_, ?_, ?_, by simp; omega, ?_⟩
        · rw [h1]; simp
        · simpa [List.append_assoc] using h2
        · intro q hq
          rcases List.mem_cons.mp hq with rfl | hq'
          · refine ⟨hnext_ne, fun c hc => (hrev1 c hc).mono ?_⟩
            intro q hq
            rcases List.mem_append.mp hq with h | h
            · exact List.mem_append_left _ h
            · simp only [List.mem_singleton] at h; subst h
              exact List.mem_append_right _ (by simp)
          · have := h3 q hq'
            refine ⟨this.1, fun c hc => (this.2 c hc).mono ?_⟩
            intro q hq; simpa [List.append_assoc] using hq
        · intro ho
          have := h5 ho
          simp [this]

/-- the same for the whole `multiwalk`, the first request being the sorted roots -/
theorem multiwalk_bound (x : Exchange) (roots0 : List Oid) (lenient : Bool) (fuel : Nat)
    (hd : WalkAbs.Disjoint (sortOids roots0)) :
    ∃ more : List (List Oid),
      reqsOf (multiwalk (multigetnext x) roots0 lenient fuel).events = sortOids roots0 :: more ∧
      (sortOids roots0 ++ more.flatten).Nodup ∧
      (∀ q ∈ more, q ≠ [] ∧ ∀ c ∈ q, Rev x (sortOids roots0 :: more) c) ∧
      more.length ≤ fuel ∧
      ((multiwalk (multigetnext x) roots0 lenient fuel).outcome = .outOfFuel → more.length = fuel) := by
  unfold multiwalk
  simp only
  generalize sortOids roots0 = sroots at hd ⊢
  have hlt0 := disjoint_lt hd
  cases hf : multigetnext x sroots with
  | error e =>
    refine ⟨[], ?_, by simpa using pairwise_lt_nodup hlt0, by simp, by simp, ?_⟩
    · split
      · split <;> simp [reqsOf]
      · rename_i heq; simp at heq
    · split
      · split <;> simp
      · rename_i heq; simp at heq
  | ok vbs =>
    obtain ⟨resp, hx, hlen, hvbs, hlt⟩ := multigetnext_ok x _ vbs hf
    have hvlen : vbs.length ≤ sroots.length := by
      have : vbs.length ≤ resp.length := by rw [hvbs]; exact (List.takeWhile_sublist _).length_le
      simpa [hlen] using this
    simp only [group_first vbs sroots hvlen (pairwise_lt_nodup hlt0)]
    rw [unfinished_padZip _ _ hlt0]
    let unf0 : List (Oid × VarBind) := sroots.map (fun r => (r, (r, Val.null)))
    have h1 : unf0.map (·.1) = sroots := by simp [unf0, List.map_map, Function.comp_def]
    have h2 : unf0.map (·.2.1) = sroots := by simp [unf0, List.map_map, Function.comp_def]
    have hi0 : BInv sroots unf0 [] := by
      refine ⟨by rw [h1]; exact List.Sublist.refl _, ?_, List.nodup_nil, by simp⟩
      intro p hp
      obtain ⟨r, _, rfl⟩ := List.mem_map.mp hp
      exact List.prefix_refl _
    have hi1 := hi0.step hd vbs (by rw [h2]; exact hlt)
    rw [h1, h2, List.nil_append] at hi1
    have hreqs : reqsOf ([Event.req sroots] ++ (deduped sroots (padZip sroots vbs) []).1.map Event.yield) = [sroots] := by
      rw [reqsOf_append, reqsOf_req, reqsOf_map_yield, List.append_nil]
    obtain ⟨more, m1, m2, m3, m4, m5⟩ := loop_bound x sroots lenient hd fuel
      ((sroots.zip vbs).filter (fun kl => inside kl.1 kl.2.1)) (deduped sroots (padZip sroots vbs) []).2
      ([Event.req sroots] ++ (deduped sroots (padZip sroots vbs) []).1.map Event.yield)
      (by rw [hreqs]; simpa using hi1)
      (by
        intro p' hp'
        rw [hreqs]
        have hv : p'.2 ∈ vbs := (List.of_mem_zip (List.mem_filter.mp hp').1).2
        have hv' : p'.2 ∈ resp := by rw [hvbs] at hv; exact (List.takeWhile_sublist _).subset hv
        exact ⟨sroots, by simp, resp, hx, List.mem_map_of_mem (f := (·.1)) hv'⟩)
    rw [hreqs] at m1 m2 m3
    exact ⟨more, by simpa using m1, by simpa using m2, by simpa using m3, m4, m5⟩

theorem length_le_flatten : ∀ (more : List (List Oid)), (∀ q ∈ more, q ≠ []) → more.length ≤ more.flatten.length
  | [], _ => by simp
  | q :: more, h => by
    have hq : q ≠ [] := h q (by simp)
    have : 1 ≤ q.length := by cases q <;> simp_all
    have ih := length_le_flatten more (fun q' hq' => h q' (by simp [hq']))
    simp only [List.length_cons, List.flatten_cons, List.length_append]
    omega

theorem nodup_subset_length : ∀ (l m : List Oid), l.Nodup → (∀ a ∈ l, a ∈ m) → l.length ≤ m.length
  | [], _, _, _ => by simp
  | a :: l, m, hn, hs => by
    have hn' := List.nodup_cons.mp hn
    have ham : a ∈ m := hs a (by simp)
    have ih := nodup_subset_length l (m.erase a) hn'.2 (by
      intro b hb
      have hne : b ≠ a := fun h => hn'.1 (h ▸ hb)
      exact (List.mem_erase_of_ne hne).mpr (hs b (by simp [hb])))
    rw [List.length_erase_of_mem ham] at ih
    have : 1 ≤ m.length := by cases m <;> simp_all
    simp only [List.length_cons]
    omega

end Snmp.Walk
