/-
  The strict RFC reader on PDUs an agent writes (`Glue.WritesPdu`, any admissible length form at
  every TLV): `Spec.readPdu` extracts exactly the record the x690 mirror + glue hand to the
  operation logic (`writesPdu_read`).  This is what lets the SNMPv3 path of the model — which hands
  the PDU inside a scoped PDU to the strict reader (`Usm.extractScoped`) — stand for the code,
  which reads it through `PDU.decode_raw`.
-/
import Snmp.Lemmas.GlueLemmas
import Snmp.Lemmas.SpecRaw
namespace Snmp.Glue
open Snmp Snmp.Ber Snmp.Ops

/-- the outer TLV of a structure: length form, identifier octet, content octets -/
def rawOf : Enc → RawTlv
  | .prim f t c => ⟨f, t, c⟩
  | .cons f t items => ⟨f, t, Enc.bytesL items⟩
  | .pdu f t items => ⟨f, t, Enc.bytesL items⟩

theorem bytes_rawOf (e : Enc) : e.bytes = (rawOf e).bytes := by
  cases e <;> simp [Enc.bytes, rawOf, RawTlv.bytes]

theorem bytesL_rawOf : ∀ es : List Enc, Enc.bytesL es = rawBytes (es.map rawOf)
  | [] => rfl
  | e :: es => by simp [Enc.bytesL, rawBytes, bytes_rawOf e, bytesL_rawOf es]

theorem wf_form (e : Enc) (h : e.WF) : (rawOf e).f.ok (rawOf e).c.length := by
  cases e <;> simp only [Enc.WF] at h <;> exact h.1

theorem wfl_forms : ∀ (es : List Enc), Enc.WFL es → ∀ x ∈ es.map rawOf, x.f.ok x.c.length
  | [], _, x, hx => by simp at hx
  | e :: es, h, x, hx => by
    simp only [Enc.WFL] at h
    simp only [List.map_cons, List.mem_cons] at hx
    rcases hx with rfl | hx
    · exact wf_form e h.1
    · exact wfl_forms es h.2 x hx

/-- the strict reader splits the content of a well-formed constructed TLV into its items -/
theorem readSeq_encs (es : List Enc) (h : Enc.WFL es) :
    Spec.readSeq (Enc.bytesL es) = some (es.map fun e => ((rawOf e).t, (rawOf e).c)) := by
  rw [bytesL_rawOf, Spec.readSeq_raw _ (wfl_forms es h)]
  simp [List.map_map, Function.comp_def]

theorem readVal_oid_tag {t : Nat} {c : Bytes} {o : Oid} (h : Spec.readVal t c = some (.oid o)) :
    t = 6 ∧ Spec.readOid c = some o := by
  unfold Spec.readVal at h
  split at h <;> first | (simp at h) | (split at h <;> simp at h) | skip
  refine ⟨rfl, ?_⟩
  cases hr : Spec.readOid c with
  | none => simp [hr] at h
  | some o' => simp [hr] at h; rw [h]

theorem readVal_int {c : Bytes} {v : Int} (h : Spec.readVal 2 c = some (.int v)) : Spec.readInt c = some v := by
  simp only [Spec.readVal] at h
  cases hr : Spec.readInt c with
  | none => simp [hr] at h
  | some v' => simp [hr] at h; rw [h]

/-- a binding as the strict reader sees it — provided it is written under the identifier octet
    RFC 3416 prescribes (SEQUENCE, 0x30) -/
def StdBind (e : Enc) : Prop := (rawOf e).t = 48

theorem writesBind_spec {e : Enc} {vb : VarBind} (h : WritesBind e vb) (hstd : StdBind e) :
    Spec.readVarBind ((rawOf e).t, (rawOf e).c) = some vb := by
  obtain ⟨wf, _, _, _⟩ := writesBind_read h
  obtain ⟨f, t, eo, ev, rfl, hf, ht, hk, ho, hv⟩ := h
  obtain ⟨fo, to, co, rfl, hfo, hso, _⟩ := ho
  obtain ⟨fv, tv, cv, rfl, hfv, hsv, _⟩ := hv
  obtain ⟨rfl, hoid⟩ := readVal_oid_tag hso
  simp only [StdBind, rawOf] at hstd
  subst hstd
  simp only [Enc.WF] at wf
  have hseq := readSeq_encs [.prim fo 6 co, .prim fv tv cv] wf.2.2.2
  simp only [rawOf, List.map_cons, List.map_nil] at hseq
  unfold Spec.readVarBind
  simp only [rawOf, ne_eq, not_true_eq_false, ↓reduceIte, hseq, hoid, hsv, bind, Option.bind, pure]

theorem writesBinds_spec : ∀ {es : List Enc} {vbs : List VarBind}, WritesBinds es vbs → (∀ e ∈ es, StdBind e) →
    (es.map fun e => ((rawOf e).t, (rawOf e).c)).mapM Spec.readVarBind = some vbs
  | _, _, .nil, _ => rfl
  | _, _, .cons hb hbs, hstd => by
    have h1 := writesBind_spec hb (hstd _ (List.mem_cons_self))
    have h2 := writesBinds_spec hbs (fun e he => hstd e (List.mem_cons_of_mem _ he))
    simp [List.mapM_cons, h1, h2]

/-- the PDU's binding list is written under 0x30, and so is every binding -/
def StdPdu : Enc → Prop
  | .pdu _ _ [_, _, _, .cons _ tl items] => tl = 48 ∧ ∀ e ∈ items, StdBind e
  | _ => False

/-- **The strict reader reads the PDU the agent wrote**: for every PDU in any admissible length
    forms (`WritesPdu`), written with the standard identifier octets for the binding list and the
    bindings, `Spec.readPdu` on its identifier octet and content yields request-id, error-status,
    error-index and the bindings the agent meant — the very record `PDU.decode_raw` (mirror + glue,
    `writesPdu_read`) hands to the operations. -/
theorem writesPdu_spec {e : Enc} {cls : String} {p : PduResp} (h : WritesPdu e cls p) (hstd : StdPdu e) :
    Spec.readPdu (rawOf e).t (rawOf e).c = some ⟨(rawOf e).t, p.requestId, p.errorStatus, p.errorIndex, p.varbinds⟩ := by
  obtain ⟨wf, _, _, _⟩ := writesPdu_read h
  obtain ⟨f, t, fl, tl, erid, ees, eei, items, rfl, hf, ht, hk, hn, hctor, hfl, htl, hkl, hnl, h1, h2, h3, hb⟩ := h
  simp only [StdPdu] at hstd
  obtain ⟨rfl, hitems⟩ := hstd
  have s1 := writesVal_int_shape h1
  have s2 := writesVal_int_shape h2
  have s3 := writesVal_int_shape h3
  obtain ⟨f1, t1, c1, rfl, _, r1, _⟩ := h1
  obtain ⟨f2, t2, c2, rfl, _, r2, _⟩ := h2
  obtain ⟨f3, t3, c3, rfl, _, r3, _⟩ := h3
  have := readVal_int_tag r1; subst this
  have := readVal_int_tag r2; subst this
  have := readVal_int_tag r3; subst this
  simp only [Enc.WF] at wf
  have hseq := readSeq_encs [.prim f1 2 c1, .prim f2 2 c2, .prim f3 2 c3, .cons fl 48 items] wf.2.2.2.1
  simp only [rawOf, List.map_cons, List.map_nil] at hseq
  have wfl : Enc.WFL items := by
    have := wf.2.2.2.1
    simp only [Enc.WFL, Enc.WF] at this
    exact this.2.2.2.1.2.2.2
  have hitemsSeq := readSeq_encs items wfl
  have hvbs := writesBinds_spec hb hitems
  unfold Spec.readPdu
  have e1 : (rawOf (.pdu f t [.prim f1 2 c1, .prim f2 2 c2, .prim f3 2 c3, .cons fl 48 items])).c
      = Enc.bytesL [.prim f1 2 c1, .prim f2 2 c2, .prim f3 2 c3, .cons fl 48 items] := rfl
  have e2 : (rawOf (.pdu f t [.prim f1 2 c1, .prim f2 2 c2, .prim f3 2 c3, .cons fl 48 items])).t = t := rfl
  rw [e1, e2, hseq]
  simp only [hitemsSeq, hvbs, readVal_int r1, readVal_int r2, readVal_int r3, bind, Option.bind, pure]

end Snmp.Glue
