/-
  `Sequence.decode_raw` (mirror: `seqItems`) over a run of TLVs written in any admissible
  definite length forms: the lazy item nodes it returns, spelled out (class, identifier octet,
  content bounds), for use by the glue models that look at item classes and contents rather than
  at fully decoded trees.
-/
import Snmp.Lemmas.BerTree
namespace Snmp.Ber

/-- a TLV as an agent writes it: length form, identifier octet, content -/
structure RawTlv where
  f : LenForm
  t : Nat
  c : Bytes

def RawTlv.bytes (x : RawTlv) : Bytes := Spec.tlv x.f x.t x.c

/-- admissible form, and an identifier octet `x690.decode` can make an object of -/
def RawTlv.ok (x : RawTlv) : Prop :=
  x.f.ok x.c.length ∧ (x.t ≠ 255 ∧ Gen.noDefaultCtor.contains (lookup x.t).name = false)

def rawBytes : List RawTlv → Bytes
  | [] => []
  | x :: xs => x.bytes ++ rawBytes xs

/-- the node of a TLV starting at offset `n` -/
def nodeAtLen (f : LenForm) (t : Nat) (c : Bytes) (n : Nat) : Node :=
  ⟨lookup t, t, ⟨n + 1 + (specLength f c.length).length, ((n + 1 + (specLength f c.length).length + c.length : Nat) : Int)⟩⟩

theorem nodeAt_eq (f : LenForm) (t : Nat) (c pre : Bytes) : nodeAt f t c pre = nodeAtLen f t c pre.length := rfl

/-- the nodes of a run of TLVs starting at offset `n` -/
def rawNodes : Nat → List RawTlv → List Node
  | _, [] => []
  | n, x :: xs => nodeAtLen x.f x.t x.c n :: rawNodes (n + x.bytes.length) xs

theorem RawTlv.bytes_pos (x : RawTlv) : 0 < x.bytes.length := by simp [RawTlv.bytes, Spec.tlv]

/-- the `while next_pos < end` loop over the remaining TLVs -/
theorem loop_raw : ∀ (xs : List RawTlv), (∀ x ∈ xs, x.ok) → ∀ (pre rest : Bytes) (f : Nat) (acc : List Node),
    xs.length ≤ f →
    seqItems.loop (pre ++ rawBytes xs ++ rest) ((pre.length + (rawBytes xs).length : Nat) : Int) f pre.length acc
      = .ok (acc.reverse ++ rawNodes pre.length xs)
  | [], _, pre, rest, f, acc, _ => by
    have hnot : ¬ ((pre.length : Int) < ((pre.length + (rawBytes []).length : Nat) : Int)) := by simp [rawBytes]
    cases f with
    | zero => rw [seqItems.loop]; simp only [hnot, ↓reduceIte, rawNodes, List.append_nil]
    | succ f => rw [seqItems.loop]; simp only [hnot, ↓reduceIte, rawNodes, List.append_nil]
  | x :: xs, h, pre, rest, f, acc, hf => by
    obtain ⟨f', rfl⟩ : ∃ f', f = f' + 1 := ⟨f - 1, by simp at hf; omega⟩
    have hx := h x (List.mem_cons_self ..)
    have hdec := decodeAt_node x.f x.t x.c pre (rawBytes xs ++ rest) hx.1 hx.2.1 hx.2.2
    have ih := loop_raw xs (fun y hy => h y (List.mem_cons_of_mem _ hy)) (pre ++ x.bytes) rest f'
      (nodeAtLen x.f x.t x.c pre.length :: acc) (by simp at hf; omega)
    have hd1 : pre ++ rawBytes (x :: xs) ++ rest = pre ++ Spec.tlv x.f x.t x.c ++ (rawBytes xs ++ rest) := by
      simp [rawBytes, RawTlv.bytes]
    have e1 : pre ++ Spec.tlv x.f x.t x.c ++ (rawBytes xs ++ rest) = (pre ++ x.bytes) ++ rawBytes xs ++ rest := by
      simp [RawTlv.bytes]
    have hlt : (pre.length : Int) < ((pre.length + (rawBytes (x :: xs)).length : Nat) : Int) := by
      have := x.bytes_pos
      simp only [rawBytes, List.length_append]
      omega
    rw [seqItems.loop]
    simp only [hlt, ↓reduceIte]
    rw [hd1, hdec]
    simp only [bind, Except.bind]
    have e2 : ((pre.length + (rawBytes (x :: xs)).length : Nat) : Int)
        = (((pre ++ x.bytes).length + (rawBytes xs).length : Nat) : Int) := by
      simp [rawBytes]; omega
    have e3 : pre.length + (Spec.tlv x.f x.t x.c).length = (pre ++ x.bytes).length := by simp [RawTlv.bytes]
    have ih' := ih
    simp only [nodeAtLen] at ih'
    rw [e1, e2, e3, ih']
    simp [rawNodes, nodeAtLen, RawTlv.bytes, List.append_assoc]

theorem pySlice_nonempty (pre c rest : Bytes) (hc : c ≠ []) :
    (pySlice (pre ++ c ++ rest) pre.length ((pre.length + c.length : Nat) : Int)).isEmpty = false := by
  rw [pySlice_mid]
  cases c with
  | nil => exact absurd rfl hc
  | cons a as => rfl

/-- `Sequence.decode_raw` on a slice holding a run of TLVs: the item nodes -/
theorem seqItems_raw (x : RawTlv) (xs : List RawTlv) (h : ∀ y ∈ x :: xs, y.ok) (pre rest : Bytes) (fuel : Nat)
    (hf : xs.length ≤ fuel) :
    seqItems (pre ++ rawBytes (x :: xs) ++ rest)
        ⟨pre.length, ((pre.length + (rawBytes (x :: xs)).length : Nat) : Int)⟩ fuel
      = .ok (rawNodes pre.length (x :: xs)) := by
  have hx := h x (List.mem_cons_self ..)
  have hne : rawBytes (x :: xs) ≠ [] := by
    have := x.bytes_pos
    intro h0
    have h00 : (rawBytes (x :: xs)).length = 0 := by rw [h0]; rfl
    simp only [rawBytes, List.length_append] at h00
    omega
  unfold seqItems
  have h1 := pySlice_nonempty pre (rawBytes (x :: xs)) rest hne
  have h2 : ¬ pre.length > (pre ++ rawBytes (x :: xs) ++ rest).length := by simp
  simp only [h1, h2, decide_false, Bool.or_false, Bool.false_eq_true, ↓reduceIte]
  have hd1 : pre ++ rawBytes (x :: xs) ++ rest = pre ++ Spec.tlv x.f x.t x.c ++ (rawBytes xs ++ rest) := by
    simp [rawBytes, RawTlv.bytes]
  have hdec := decodeAt_node x.f x.t x.c pre (rawBytes xs ++ rest) hx.1 hx.2.1 hx.2.2
  rw [hd1, hdec]
  simp only [bind, Except.bind]
  have hstop : ¬ (((pre.length + (rawBytes (x :: xs)).length : Nat) : Int) = 0) := by
    have := x.bytes_pos
    simp only [rawBytes, List.length_append]
    omega
  simp only [hstop, ↓reduceIte]
  have ih := loop_raw xs (fun y hy => h y (List.mem_cons_of_mem _ hy)) (pre ++ x.bytes) rest fuel
    [nodeAtLen x.f x.t x.c pre.length] hf
  have e1 : pre ++ Spec.tlv x.f x.t x.c ++ (rawBytes xs ++ rest) = (pre ++ x.bytes) ++ rawBytes xs ++ rest := by
    simp [RawTlv.bytes]
  have e2 : ((pre.length + (rawBytes (x :: xs)).length : Nat) : Int)
      = (((pre ++ x.bytes).length + (rawBytes xs).length : Nat) : Int) := by
    simp [rawBytes]; omega
  have e3 : pre.length + (Spec.tlv x.f x.t x.c).length = (pre ++ x.bytes).length := by simp [RawTlv.bytes]
  simp only [nodeAtLen] at ih
  rw [e1, e2, e3, ih]
  simp [rawNodes, nodeAtLen, RawTlv.bytes]

/-- the content of the node of a TLV lying at offset `|pre|` -/
theorem nodeAtLen_content (f : LenForm) (t : Nat) (c pre rest : Bytes) :
    (nodeAtLen f t c pre.length).content (pre ++ Spec.tlv f t c ++ rest) = c :=
  nodeAt_content f t c pre rest

theorem rawNodes_entry : ∀ (xs : List RawTlv) (n : Nat), (rawNodes n xs).map (·.entry) = xs.map (fun x => lookup x.t)
  | [], _ => rfl
  | x :: xs, n => by simp [rawNodes, nodeAtLen, rawNodes_entry xs]

theorem rawNodes_tag : ∀ (xs : List RawTlv) (n : Nat), (rawNodes n xs).map (·.tagByte) = xs.map (·.t)
  | [], _ => rfl
  | x :: xs, n => by simp [rawNodes, nodeAtLen, rawNodes_tag xs]

/-- the contents of the nodes of a run of TLVs lying at offset `|pre|` -/
theorem rawNodes_content : ∀ (xs : List RawTlv) (pre rest : Bytes),
    (rawNodes pre.length xs).map (·.content (pre ++ rawBytes xs ++ rest)) = xs.map (·.c)
  | [], _, _ => rfl
  | x :: xs, pre, rest => by
    have h1 : pre ++ rawBytes (x :: xs) ++ rest = pre ++ Spec.tlv x.f x.t x.c ++ (rawBytes xs ++ rest) := by
      simp [rawBytes, RawTlv.bytes]
    have h2 : pre ++ rawBytes (x :: xs) ++ rest = (pre ++ x.bytes) ++ rawBytes xs ++ rest := by
      simp [rawBytes]
    have ih := rawNodes_content xs (pre ++ x.bytes) rest
    simp only [rawNodes, List.map_cons]
    congr 1
    · rw [h1]; exact nodeAtLen_content x.f x.t x.c pre (rawBytes xs ++ rest)
    · rw [h2]
      have : pre.length + x.bytes.length = (pre ++ x.bytes).length := by simp
      rw [this]; exact ih

end Snmp.Ber
