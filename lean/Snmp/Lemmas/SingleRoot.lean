/-
  A single root: whatever the agent answers, GETNEXT walk and bulk walk yield strictly ascending
  OIDs; against a conformant agent both yield exactly the database entries strictly below the
  root, in database order — the same list.
-/
import Snmp.Lemmas.BulkBound
namespace Snmp.Walk
open Snmp

/-! ### columns of an accepted bulk response are strictly ascending -/

theorem cc_columns_sorted (n : Nat) (hn : 0 < n) : ∀ (m : Nat) (out : List VarBind) (prev : List Oid)
    (_ : out.length ≤ m) (hlen : prev.length = n), checkColumns n prev 0 out = true →
    ∀ i (_ : i < n), ((Py.stride out i n).map (·.1)).Pairwise (· < ·) := by
  intro m
  induction m with
  | zero =>
    intro out prev hm _ _ i hi
    have : out = [] := List.eq_nil_of_length_eq_zero (by omega)
    subst this
    simp [stride_nil]
  | succ m ih =>
    intro out prev hm hlen hc i hi
    by_cases hshort : out.length ≤ n
    · rw [stride_short out i n hshort hi]
      cases out[i]? <;> simp
    · have hsplit : out = out.take n ++ out.drop n := (List.take_append_drop n out).symm
      have hrow : (out.take n).length = n := by simp; omega
      rw [hsplit] at hc
      have himp := cc_true_imp n (out.take n) prev 0 (out.drop n) hlen (by omega) hc
      have heq := cc_prefix n (out.take n) prev 0 (out.drop n) hlen (by omega) himp
      rw [heq] at hc
      simp only [List.take_zero, List.nil_append, Nat.zero_add, hrow] at hc
      have hdropnil : prev.drop n = [] := List.drop_of_length_le (by omega)
      rw [hdropnil, List.append_nil] at hc
      have hshift := cc_shift n (out.drop n) ((out.take n).map (·.1)) 0
      simp only [Nat.zero_add] at hshift
      rw [hshift] at hc
      rw [hsplit, stride_row' _ _ i n hrow hi]
      simp only [List.map_cons, List.pairwise_cons]
      refine ⟨?_, ih (out.drop n) ((out.take n).map (·.1)) (by simp; omega) (by simp; omega) hc i hi⟩
      intro o ho
      obtain ⟨v, hv, rfl⟩ := List.mem_map.mp ho
      have := cc_columns n hn m (out.drop n) ((out.take n).map (·.1)) (by simp; omega) (by simp; omega) hc i hi v hv
      simpa using this

theorem stride_one {α} : ∀ (xs : List α), Py.stride xs 0 1 = xs := by
  intro xs
  have key : ∀ (f : Nat) (l : List α), l.length ≤ f → Py.stride.go 0 l f = l := by
    intro f
    induction f with
    | zero => intro l h; have : l = [] := List.eq_nil_of_length_eq_zero (by omega); subst this; rfl
    | succ f ih =>
      intro l h
      cases l with
      | nil => rfl
      | cons x rest => rw [stride_go_cons, List.drop_zero, ih rest (by simpa using h)]
  show Py.stride.go 0 (xs.drop 0) xs.length = xs
  rw [List.drop_zero]
  exact key xs.length xs (Nat.le_refl _)

theorem cols_single (root : Oid) (out : List VarBind) : cols [root] out = [(root, out)] := by
  simp [cols, stride_one]

/-! ### the walk loop with one column -/

/-- the step of `deduped_varbinds` for one requested root -/
def dstep (root : Oid) (acc : List VarBind × List Oid) (vb : VarBind) : List VarBind × List Oid :=
  if inside root vb.1 && !acc.2.contains vb.1 then (acc.1 ++ [vb], acc.2 ++ [vb.1]) else acc

/-- `deduped_varbinds` on one group whose bindings are ascending and all above what was yielded -/
theorem dedupFold_sorted (root : Oid) : ∀ (L : List VarBind) (acc : List VarBind × List Oid),
    (L.map (·.1)).Pairwise (· < ·) → (∀ y ∈ acc.2, ∀ v ∈ L, y < v.1) →
    L.foldl (dstep root) acc
      = (acc.1 ++ L.filter (fun v => inside root v.1), acc.2 ++ (L.filter (fun v => inside root v.1)).map (·.1))
  | [], acc, _, _ => by simp
  | v :: L, acc, hs, hgt => by
    simp only [List.map_cons, List.pairwise_cons] at hs
    have hnc : acc.2.contains v.1 = false := by
      cases hc : acc.2.contains v.1 with
      | false => rfl
      | true =>
        have hm : v.1 ∈ acc.2 := by simpa using hc
        exact absurd (hgt _ hm v (by simp)) (List.lt_irrefl _)
    rw [List.foldl_cons]
    by_cases hin : inside root v.1 = true
    · have hstep : dstep root acc v = (acc.1 ++ [v], acc.2 ++ [v.1]) := by
        unfold dstep; rw [hin, hnc]; rfl
      rw [hstep, dedupFold_sorted root L _ hs.2 (by
        intro y hy w hw
        rcases List.mem_append.mp hy with h | h
        · exact hgt y h w (by simp [hw])
        · simp only [List.mem_singleton] at h; subst h
          exact hs.1 w.1 (List.mem_map_of_mem (f := (·.1)) hw))]
      simp [List.filter_cons, hin]
    · have hstep : dstep root acc v = acc := by
        have : inside root v.1 = false := by simpa using hin
        unfold dstep; rw [this]; rfl
      rw [hstep, dedupFold_sorted root L acc hs.2 (fun y hy w hw => hgt y hy w (by simp [hw]))]
      simp [List.filter_cons, hin]

theorem deduped_single_sorted (root : Oid) (out : List VarBind) (yielded : List Oid)
    (hs : (out.map (·.1)).Pairwise (· < ·)) (hgt : ∀ y ∈ yielded, ∀ v ∈ out, y < v.1) :
    deduped [root] [(root, out)] yielded =
      (out.filter (fun v => inside root v.1), yielded ++ (out.filter (fun v => inside root v.1)).map (·.1)) := by
  unfold deduped
  simp only [List.map_cons, List.map_nil, List.mergeSort_singleton, List.flatten_cons, List.flatten_nil, List.append_nil]
  have hf : (fun (acc : List VarBind × List Oid) (vb : VarBind) =>
      if [root].any (fun r => inside r vb.1) && !acc.2.contains vb.1 then (acc.1 ++ [vb], acc.2 ++ [vb.1]) else acc)
      = dstep root := by
    funext acc vb; simp [dstep]
  rw [hf, dedupFold_sorted root out ([], yielded) hs hgt]
  simp

/-- state of a single-root walk: no cursor left, or one cursor inside the root; everything yielded
    so far is ascending and at most the cursor (the root itself at the start) -/
def AscInv (root : Oid) (unf : List (Oid × VarBind)) (yielded : List Oid) (bound : Oid) : Prop :=
  (unf = [] ∨ ∃ vb, unf = [(root, vb)] ∧ root <+: vb.1 ∧ vb.1 = bound) ∧
  yielded.Pairwise (· < ·) ∧ ∀ y ∈ yielded, y ≤ bound

/-- one iteration with an advancing fetcher keeps the yields ascending -/
theorem asc_step (root c : Oid) (out : List VarBind) (yielded : List Oid)
    (hp : yielded.Pairwise (· < ·)) (hy : ∀ y ∈ yielded, y ≤ c)
    (hs : (out.map (·.1)).Pairwise (· < ·)) (hgt : ∀ v ∈ out, c < v.1) :
    ∃ bound, AscInv root ((([(root, out)] : Groups).filterMap lastOf).filter (fun kl => inside kl.1 kl.2.1))
      (deduped [root] [(root, out)] yielded).2 bound := by
  have hgt' : ∀ y ∈ yielded, ∀ v ∈ out, y < v.1 := fun y hyy v hv => Std.lt_of_le_of_lt (hy y hyy) (hgt v hv)
  rw [deduped_single_sorted root out yielded hs hgt']
  have hfs : ((out.filter (fun v => inside root v.1)).map (·.1)).Pairwise (· < ·) := by
    have : ((out.filter (fun v => inside root v.1)).map (·.1)).Sublist (out.map (·.1)) := List.filter_sublist.map _
    exact hs.sublist this
  have hpw : (yielded ++ (out.filter (fun v => inside root v.1)).map (·.1)).Pairwise (· < ·) := by
    rw [List.pairwise_append]
    refine ⟨hp, hfs, ?_⟩
    intro a ha b hb
    obtain ⟨v, hv, rfl⟩ := List.mem_map.mp hb
    exact hgt' a ha v (List.mem_filter.mp hv).1
  cases hl : out.getLast? with
  | none =>
    have : out = [] := by cases out <;> simp_all
    subst this
    exact ⟨c, Or.inl (by simp [lastOf]), by simpa using hp, by simpa using hy⟩
  | some lst =>
    have hlm : lst ∈ out := List.mem_of_getLast? hl
    have hall : ∀ v ∈ out, v.1 ≤ lst.1 := by
      intro v hv
      obtain ⟨init, rfl⟩ : ∃ init, out = init ++ [lst] := by
        have := List.getLast?_eq_some_iff.mp hl
        obtain ⟨ys, h⟩ := this
        exact ⟨ys, h⟩
      rcases List.mem_append.mp hv with h | h
      · simp only [List.map_append, List.map_cons, List.map_nil, List.pairwise_append] at hs
        exact Std.le_of_lt (hs.2.2 v.1 (List.mem_map_of_mem (f := (·.1)) h) lst.1 (by simp))
      · simp only [List.mem_singleton] at h; subst h; exact List.le_refl _
    refine ⟨lst.1, ?_, hpw, ?_⟩
    · by_cases hin : inside root lst.1 = true
      · right
        refine ⟨lst, ?_, (inside_iff _ _).mp hin, rfl⟩
        simp [lastOf, hl, hin]
      · left
        simp [lastOf, hl, hin]
    · intro y hyy
      rcases List.mem_append.mp hyy with h | h
      · exact Std.le_of_lt (hgt' y h lst hlm)
      · obtain ⟨v, hv, rfl⟩ := List.mem_map.mp h
        exact hall v (List.mem_filter.mp hv).1

/-- what the single-root loop needs from a fetcher: an accepted answer to `[c]` is strictly
    ascending and lies strictly above `c` -/
def AdvSorted (fetch : Fetcher) : Prop :=
  ∀ (c : Oid) (out : List VarBind), fetch [c] = .ok out →
    (out.map (·.1)).Pairwise (· < ·) ∧ ∀ v ∈ out, c < v.1

theorem single_disjoint (root : Oid) : WalkAbs.Disjoint [root] := by
  unfold WalkAbs.Disjoint; simp

theorem loop_asc (fetch : Fetcher) (hadv : AdvSorted fetch) (root : Oid) (lenient : Bool) :
    ∀ (fuel : Nat) (unf : List (Oid × VarBind)) (yielded : List Oid) (ev : List Event) (bound : Oid),
      AscInv root unf yielded bound → yieldOids ev = yielded →
      (yieldOids (loop fetch [root] lenient fuel unf yielded ev).events).Pairwise (· < ·) := by
  intro fuel
  induction fuel with
  | zero =>
    intro unf yielded ev bound hi he
    unfold loop
    split <;> (simp only; rw [he]; exact hi.2.1)
  | succ fuel ih =>
    intro unf yielded ev bound hi he
    rcases hi.1 with rfl | ⟨vb, rfl, hpre, hb⟩
    · unfold loop
      simp only [List.isEmpty_nil, ↓reduceIte]
      rw [he]; exact hi.2.1
    · have hev : yieldOids (ev ++ [Event.req [vb.1]]) = yielded := by
        rw [yieldOids_append, he, yieldOids_req]; simp
      cases hf : fetch [vb.1] with
      | error e =>
        unfold loop
        simp only [List.isEmpty_cons, Bool.false_eq_true, ↓reduceIte, List.map_cons, List.map_nil, hf]
        split
        · simp only; rw [hev]; exact hi.2.1
        · split <;> (simp only; rw [hev]; exact hi.2.1)
      | ok out =>
        obtain ⟨hs, hgt⟩ := hadv vb.1 out hf
        rw [loop_step_cols fetch [root] lenient fuel [(root, vb)] yielded ev out (single_disjoint root)
          (by simp) (by intro p hp; simp at hp; subst hp; exact hpre) (by simp) (by simpa using hf)]
        simp only [List.map_cons, List.map_nil, cols_single]
        obtain ⟨bound', hinv'⟩ := asc_step root vb.1 out yielded hi.2.1 (by rw [hb]; exact hi.2.2) hs hgt
        apply ih _ _ _ bound' hinv'
        rw [yieldOids_append, hev, yieldOids_map_yield]
        exact (deduped_snd_eq [root] [(root, out)] yielded).symm

/-- **Single root, any advancing fetcher**: the yields are strictly ascending. -/
theorem multiwalk_asc (fetch : Fetcher) (hadv : AdvSorted fetch) (root : Oid) (lenient : Bool) (fuel : Nat) :
    (yieldOids (multiwalk fetch [root] lenient fuel).events).Pairwise (· < ·) := by
  unfold multiwalk
  have hsort : sortOids [root] = [root] := by simp [sortOids]
  simp only [hsort]
  cases hf : fetch [root] with
  | error e =>
    simp only
    split <;> simp [yieldOids]
  | ok out =>
    obtain ⟨hs, hgt⟩ := hadv root out hf
    simp only [group_first_gen out [root] (by simp)]
    rw [unfinished_sorted _ (by rw [cols_keys]; simp)]
    simp only [cols_single]
    obtain ⟨bound', hinv'⟩ := asc_step root root out [] (by simp) (by simp) hs hgt
    apply loop_asc fetch hadv root lenient fuel _ _ _ bound' hinv'
    rw [yieldOids_append, yieldOids_req, yieldOids_map_yield]
    simpa using (deduped_snd_eq [root] [(root, out)] []).symm

/-- the bulk fetcher qualifies, whatever exchange is behind it -/
theorem bulkFetcher_advSorted (x : Exchange) (size : Nat) : AdvSorted (bulkFetcher x size) := by
  intro c out hf
  unfold bulkFetcher at hf
  cases hb : bulkVarbinds x [] [c] size with
  | error e => simp [hb, bind, Except.bind] at hf
  | ok first =>
    simp only [hb, bind, Except.bind] at hf
    simp only [List.length_singleton] at hf
    cases hc : completeRow x [c] 1 first with
    | error e => simp [hc] at hf
    | ok vbs =>
      simp only [hc] at hf
      split at hf
      · rename_i hcc
        simp only [pure, Except.pure, Except.ok.injEq] at hf
        subst hf
        have h1 := cc_columns_sorted 1 (by omega) _ _ [c] (Nat.le_refl _) rfl hcc 0 (by omega)
        have h2 := cc_columns 1 (by omega) _ _ [c] (Nat.le_refl _) rfl hcc 0 (by omega)
        rw [stride_one] at h1 h2
        exact ⟨h1, by simpa using h2⟩
      · simp at hf

/-- **Single-root bulk walk, any agent**: strictly ascending yields -/
theorem bulk_single_ascending (x : Exchange) (size : Nat) (root : Oid) (fuel : Nat) :
    (yieldOids (walkBulk x size [root] fuel).events).Pairwise (· < ·) :=
  multiwalk_asc (bulkFetcher x size) (bulkFetcher_advSorted x size) root false fuel

theorem sorted_ext : ∀ (l1 l2 : List Oid), l1.Pairwise (· < ·) → l2.Pairwise (· < ·) →
    (∀ o, o ∈ l1 ↔ o ∈ l2) → l1 = l2
  | [], [], _, _, _ => rfl
  | [], b :: l2, _, _, h => by have := (h b).mpr (by simp); simp at this
  | a :: l1, [], _, _, h => by have := (h a).mp (by simp); simp at this
  | a :: l1, b :: l2, h1, h2, h => by
    have h1' := List.pairwise_cons.mp h1
    have h2' := List.pairwise_cons.mp h2
    have hab : a = b := by
      apply Decidable.byContradiction
      intro hne
      have ha : a ∈ l2 := by
        have := (h a).mp (by simp)
        rcases List.mem_cons.mp this with h' | h'
        · exact absurd h' hne
        · exact h'
      have hb : b ∈ l1 := by
        have := (h b).mpr (by simp)
        rcases List.mem_cons.mp this with h' | h'
        · exact absurd h'.symm hne
        · exact h'
      exact absurd (Std.lt_trans (h1'.1 b hb) (h2'.1 a ha)) (List.lt_irrefl _)
    subst hab
    congr 1
    apply sorted_ext l1 l2 h1'.2 h2'.2
    intro o
    constructor
    · intro ho
      have := (h o).mp (by simp [ho])
      rcases List.mem_cons.mp this with h' | h'
      · subst h'; exact absurd (h1'.1 o ho) (List.lt_irrefl _)
      · exact h'
    · intro ho
      have := (h o).mpr (by simp [ho])
      rcases List.mem_cons.mp this with h' | h'
      · subst h'; exact absurd (h2'.1 o ho) (List.lt_irrefl _)
      · exact h'

theorem keyed_ext (db : List VarBind) (hs : WalkAbs.Sorted (db.map (·.1))) :
    ∀ (l1 l2 : List VarBind), (∀ v ∈ l1, v ∈ db) → (∀ v ∈ l2, v ∈ db) → l1.map (·.1) = l2.map (·.1) → l1 = l2
  | [], [], _, _, _ => rfl
  | [], _ :: _, _, _, h => by simp at h
  | _ :: _, [], _, _, h => by simp at h
  | a :: l1, b :: l2, h1, h2, h => by
    simp only [List.map_cons, List.cons.injEq] at h
    have : a = b := sorted_keys_inj db hs a (h1 a (by simp)) b (h2 b (by simp)) h.1
    subst this
    congr 1
    exact keyed_ext db hs l1 l2 (fun v hv => h1 v (by simp [hv])) (fun v hv => h2 v (by simp [hv])) h.2

end Snmp.Walk
