/-
  The specification reader reads back what the x690 mirror writes: lengths, TLVs, sequences,
  integers, OIDs.
-/
import Snmp.Lemmas.BerInt
import Snmp.Lemmas.BerOid
namespace Snmp.Spec
open Snmp.Ber

def Small (n : Nat) : Prop := n < 256 ^ 126

theorem readLength_encodeLength (n : Nat) (hn : Small n) (rest : Bytes) :
    readLength (encodeLength n ++ rest) = some (n, rest) := by
  unfold encodeLength
  by_cases h : n < 127
  · have : n < 128 := by omega
    simp [h, readLength, this]
  · have hl := toBE_length_le n 126 hn
    have hpos : 0 < (toBE n).length := toBE_length_pos n (by omega)
    have h1 : ¬ (128 + (toBE n).length < 128) := by omega
    have h2 : ¬ (128 + (toBE n).length = 128 ∨ 255 ≤ 128 + (toBE n).length) := by omega
    simp only [h, ↓reduceIte, List.cons_append, readLength, h1, h2]
    have hk : 128 + (toBE n).length - 128 = (toBE n).length := by omega
    have hlen : ¬ (toBE n ++ rest).length < (toBE n).length := by simp
    simp only [hk, hlen, ↓reduceIte, List.take_left', List.drop_left', fromBE_toBE]

theorem readLength_specLength (f : LenForm) (n : Nat) (hf : f.ok n) (rest : Bytes) :
    readLength (specLength f n ++ rest) = some (n, rest) := by
  cases f with
  | minimal =>
    simp only [LenForm.ok] at hf
    simp only [specLength]
    by_cases h : n < 128
    · simp [h, readLength]
    · have hl := toBE_length_le n 126 hf
      have hpos : 0 < (toBE n).length := toBE_length_pos n (by omega)
      have h1 : ¬ (128 + (toBE n).length < 128) := by omega
      have h2 : ¬ (128 + (toBE n).length = 128 ∨ 255 ≤ 128 + (toBE n).length) := by omega
      simp only [h, ↓reduceIte, List.cons_append, readLength, h1, h2]
      have hk : 128 + (toBE n).length - 128 = (toBE n).length := by omega
      have hlen : ¬ (toBE n ++ rest).length < (toBE n).length := by simp
      simp only [hk, hlen, ↓reduceIte, List.take_left', List.drop_left', fromBE_toBE]
  | long k =>
    simp only [LenForm.ok] at hf
    rcases hf with ⟨hk1, hk2, hn⟩
    have hl := toBE_length_le n k hn
    simp only [specLength]
    have h1 : ¬ (128 + k < 128) := by omega
    have h2 : ¬ (128 + k = 128 ∨ 255 ≤ 128 + k) := by omega
    simp only [List.cons_append, readLength, h1, h2, ↓reduceIte]
    have hk : 128 + k - 128 = k := by omega
    have hlen : (List.replicate (k - (toBE n).length) 0 ++ toBE n).length = k := by simp; omega
    have hnl : ¬ (List.replicate (k - (toBE n).length) 0 ++ toBE n ++ rest).length < k := by
      rw [List.length_append, hlen]; omega
    simp only [hk, hnl, ↓reduceIte]
    rw [List.take_left' hlen, List.drop_left' hlen, fromBE_zeros, fromBE_toBE]

/-- the x690-style TLV is read back, whatever follows -/
theorem readTLV_tlv (t : Nat) (c rest : Bytes) (hc : Small c.length) :
    readTLV (Ber.tlv t c ++ rest) = some (t, c, rest) := by
  simp only [Ber.tlv, List.cons_append, List.append_assoc, readTLV]
  rw [readLength_encodeLength c.length hc (c ++ rest)]
  have : ¬ (c ++ rest).length < c.length := by simp
  simp [this]

/-- so is a TLV in any admissible length form -/
theorem readTLV_spec (f : LenForm) (t : Nat) (c rest : Bytes) (hf : f.ok c.length) :
    readTLV (Spec.tlv f t c ++ rest) = some (t, c, rest) := by
  simp only [Spec.tlv, List.cons_append, List.append_assoc, readTLV]
  rw [readLength_specLength f c.length hf (c ++ rest)]
  have : ¬ (c ++ rest).length < c.length := by simp
  simp [this]

theorem tlv_length (t : Nat) (c : Bytes) : c.length < (Ber.tlv t c).length := by
  simp [Ber.tlv]; omega

/-- a concatenation of TLVs is read back item by item -/
theorem readAll_concat (items : List (Nat × Bytes)) (h : ∀ p ∈ items, Small p.2.length) (fuel : Nat)
    (hf : items.length < fuel) :
    readAll fuel (items.map (fun p => Ber.tlv p.1 p.2)).flatten = some items := by
  induction items generalizing fuel with
  | nil =>
    cases fuel with
    | zero => omega
    | succ f => simp [readAll]
  | cons p ps ih =>
    cases fuel with
    | zero => omega
    | succ f =>
      have hp := h p (by simp)
      simp only [List.map_cons, List.flatten_cons]
      have hne : Ber.tlv p.1 p.2 ++ (ps.map fun p => Ber.tlv p.1 p.2).flatten ≠ [] := by simp [Ber.tlv]
      rw [readAll]
      · rw [readTLV_tlv p.1 p.2 _ hp]
        simp only
        rw [ih (fun q hq => h q (by simp [hq])) f (by simp at hf; omega)]
        simp
      · exact hne

theorem flatten_length_ge (items : List (Nat × Bytes)) :
    items.length ≤ ((items.map (fun p => Ber.tlv p.1 p.2)).flatten).length := by
  induction items with
  | nil => simp
  | cons p ps ih =>
    simp only [List.map_cons, List.flatten_cons, List.length_append, List.length_cons]
    have : 1 ≤ (Ber.tlv p.1 p.2).length := by simp [Ber.tlv]
    omega

theorem readSeq_concat (items : List (Nat × Bytes)) (h : ∀ p ∈ items, Small p.2.length) :
    readSeq (items.map (fun p => Ber.tlv p.1 p.2)).flatten = some items := by
  unfold readSeq
  exact readAll_concat items h _ (by have := flatten_length_ge items; omega)

theorem readInt_intEncode (v : Int) : readInt (intEncode v) = some v := by
  have h := intDecode_intEncode v
  simp [readInt, h.2.1, h.1]

/-! ### OIDs -/

theorem rs_hi (b acc : Nat) (p : Bool) (rest : Bytes) (h : 128 ≤ b) :
    readSubids (b :: rest) acc p = readSubids rest (acc * 128 + (b - 128)) true := by
  rw [readSubids]; simp [h]

theorem rs_lo (b acc : Nat) (p : Bool) (rest : Bytes) (h : ¬ 128 ≤ b) :
    readSubids (b :: rest) acc p = (readSubids rest 0 false).map ((acc * 128 + b) :: ·) := by
  rw [readSubids]; simp [h]

theorem readSubids_hi128 (x : Nat) (hx : x ≠ 0) (tail : Bytes) (p : Bool) :
    readSubids (hi128 x ++ tail) 0 p = readSubids tail x true := by
  induction x using Nat.strongRecOn generalizing tail p with
  | _ x ih =>
    rw [hi128_unfold x hx]
    by_cases hsmall : x / 128 = 0
    · rw [hsmall, hi128_zero]
      have hge : 128 ≤ x % 128 + 128 := by omega
      rw [List.nil_append, List.singleton_append, rs_hi _ _ _ _ hge]
      have e : 0 * 128 + (x % 128 + 128 - 128) = x := by omega
      rw [e]
    · rw [List.append_assoc, ih (x / 128) (by omega) hsmall]
      have hge : 128 ≤ x % 128 + 128 := by omega
      rw [List.singleton_append, rs_hi _ _ _ _ hge]
      have e : x / 128 * 128 + (x % 128 + 128 - 128) = x := by omega
      rw [e]

theorem readSubids_subidEncode (v : Nat) (rest : Bytes) (p : Bool) :
    readSubids (subidEncode v ++ rest) 0 p = (readSubids rest 0 false).map (v :: ·) := by
  unfold subidEncode
  by_cases hv : v ≤ 127
  · have : ¬ 128 ≤ v := by omega
    simp only [hv, ↓reduceIte, List.cons_append, List.nil_append]
    rw [rs_lo _ _ _ _ this]
    simp
  · have hx : v / 128 ≠ 0 := by omega
    simp only [hv, ↓reduceIte, List.append_assoc]
    rw [readSubids_hi128 (v / 128) hx]
    have : ¬ 128 ≤ v % 128 := by omega
    rw [List.singleton_append, rs_lo _ _ _ _ this]
    have e : v / 128 * 128 + v % 128 = v := by omega
    rw [e]

theorem readSubids_flatMap (l : List Nat) : readSubids (l.flatMap subidEncode) 0 false = some l := by
  induction l with
  | nil => simp only [List.flatMap_nil]; rw [readSubids]; simp
  | cons v l ih =>
    simp only [List.flatMap_cons]
    rw [readSubids_subidEncode, ih]
    rfl

/-- the specification reader reads the OID the x690 mirror wrote (domain: first two arcs fit) -/
theorem readOid_oidEncode (o : Oid) (h : OidDom o) : ∃ bs, oidEncode o = some bs ∧ readOid bs = some o := by
  rcases h with ⟨a, b, rest, rfl, ha, hb⟩
  have hlt : 40 * a + b < 256 := by omega
  refine ⟨(40 * a + b) :: rest.flatMap subidEncode, by simp [oidEncode, hlt], ?_⟩
  unfold readOid
  have hlo : ¬ 128 ≤ 40 * a + b := by omega
  rw [rs_lo _ _ _ _ hlo, readSubids_flatMap]
  simp only [Option.map_some, Nat.zero_mul, Nat.zero_add]
  have : a = 0 ∨ a = 1 ∨ a = 2 := by omega
  rcases this with rfl | rfl | rfl
  · simp [hb]
  · have h1 : ¬ (40 * 1 + b < 40) := by omega
    have h2 : 40 * 1 + b < 80 := by omega
    simp [h1, h2]
  · have h1 : ¬ (40 * 2 + b < 40) := by omega
    have h2 : ¬ (40 * 2 + b < 80) := by omega
    simp [h1, h2]

end Snmp.Spec
