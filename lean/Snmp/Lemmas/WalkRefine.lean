/-
  Refinement: the Python-faithful walk loop (`Snmp.Walk.loop` with the GETNEXT fetcher against a
  conformant agent) steps exactly as the abstract `(root, cursor)` loop of `Snmp.WalkAbs`, so
  that the completeness / termination theorem of the abstract loop holds for the faithful model.
-/
import Snmp.Model.Walk
import Snmp.Lemmas.WalkAbs
import Snmp.Lemmas.WalkFaithful
namespace Snmp.Walk
open Snmp

/-! ### `xs[i::n]` for a response of at most one repetition -/

theorem stride_go_nil {α} (n fuel : Nat) : Py.stride.go (α := α) n [] fuel = [] := by
  cases fuel <;> rfl

theorem stride_short {α} (xs : List α) (i n : Nat) (hn : xs.length ≤ n) (hi : i < n) :
    Py.stride xs i n = (xs[i]?).toList := by
  cases n with
  | zero => omega
  | succ n' =>
    unfold Py.stride
    simp only
    by_cases hlt : i < xs.length
    · have hd : xs.drop i = xs[i] :: xs.drop (i + 1) := List.drop_eq_getElem_cons hlt
      rw [hd]
      have hf : xs.length = (xs.length - 1) + 1 := by omega
      rw [hf]
      unfold Py.stride.go
      have : (xs.drop (i + 1)).drop n' = [] := by
        rw [List.drop_drop]; apply List.drop_of_length_le; omega
      rw [this, stride_go_nil]
      simp [List.getElem?_eq_getElem hlt]
    · have : xs.drop i = [] := List.drop_of_length_le (by omega)
      rw [this, stride_go_nil]
      have : xs[i]? = none := by simp; omega
      simp [this]

/-- one group per key: the key's binding if the (cut) response reaches that far -/
def padZip : List Oid → List VarBind → Groups
  | [], _ => []
  | k :: ks, [] => (k, []) :: padZip ks []
  | k :: ks, v :: vs => (k, [v]) :: padZip ks vs

theorem padZip_keys (ks : List Oid) (vbs : List VarBind) : (padZip ks vbs).map (·.1) = ks := by
  induction ks generalizing vbs with
  | nil => rfl
  | cons k ks ih => cases vbs <;> simp [padZip, ih]

theorem padZip_eq_map (ks : List Oid) (vbs : List VarBind) :
    padZip ks vbs = (List.range ks.length).map (fun i => (ks.getD i [], (vbs[i]?).toList)) := by
  induction ks generalizing vbs with
  | nil => rfl
  | cons k ks ih =>
    rw [List.length_cons, List.range_succ_eq_map, List.map_cons, List.map_map]
    cases vbs with
    | nil =>
      simp only [padZip, ih []]
      simp [Function.comp_def]
    | cons v vs =>
      simp only [padZip, ih vs]
      simp [Function.comp_def]

theorem dictSet_fresh {κ ν} [BEq κ] (d : List (κ × ν)) (k : κ) (v : ν)
    (h : d.any (fun p => p.1 == k) = false) : Py.dictSet d k v = d ++ [(k, v)] := by
  simp [Py.dictSet, h]

theorem foldl_dictSet_fresh (key : Nat → Oid) (val : Nat → List VarBind) :
    ∀ (l : List Nat) (acc : Groups),
      (l.map key).Nodup → (∀ i ∈ l, ∀ p ∈ acc, p.1 ≠ key i) →
      l.foldl (fun d i => Py.dictSet d (key i) (val i)) acc = acc ++ l.map (fun i => (key i, val i)) := by
  intro l
  induction l with
  | nil => intro acc _ _; simp
  | cons i l ih =>
    intro acc hnd hfr
    simp only [List.foldl_cons]
    have hfresh : acc.any (fun p => p.1 == key i) = false := by
      rw [List.any_eq_false]
      intro p hp
      have := hfr i (by simp) p hp
      simpa using this
    rw [dictSet_fresh _ _ _ hfresh]
    simp only [List.map_cons, List.nodup_cons] at hnd
    rw [ih _ hnd.2]
    · simp
    · intro j hj p hp
      rcases List.mem_append.mp hp with h | h
      · exact hfr j (by simp [hj]) p h
      · simp only [List.mem_singleton] at h
        subst h
        intro heq
        exact hnd.1 (by simp only [List.mem_map]; exact ⟨j, hj, heq.symm⟩)

theorem range_map_getD (l : List Oid) : (List.range l.length).map (fun i => l.getD i []) = l := by
  apply List.ext_getElem
  · simp
  · intro i h1 h2
    simp at h1
    simp [h1]

/-- the positional regrouping `varbinds[i::n]` keyed by the requested OIDs, for a response of at
    most one repetition and pairwise distinct requested OIDs -/
theorem group_results (vbs : List VarBind) (eff : List Oid) (hn : vbs.length ≤ eff.length)
    (hnd : eff.Nodup) :
    (List.range eff.length).foldl
      (fun d i => Py.dictSet d (eff.getD i []) (Py.stride vbs i eff.length)) [] = padZip eff vbs := by
  rw [foldl_dictSet_fresh (fun i => eff.getD i []) (fun i => Py.stride vbs i eff.length)]
  · rw [padZip_eq_map, List.nil_append]
    apply List.map_congr_left
    intro i hi
    rw [stride_short vbs i eff.length hn (by simpa using hi)]
  · rw [range_map_getD]; exact hnd
  · intro i _ p hp; simp at hp

/-- `group_varbinds(varbinds, oids)` of the first request (no user roots) -/
theorem group_first (vbs : List VarBind) (roots : List Oid) (hn : vbs.length ≤ roots.length)
    (hnd : roots.Nodup) : groupVarbinds vbs roots [] = .ok (padZip roots vbs) := by
  unfold groupVarbinds
  simp only [bind, Except.bind, List.isEmpty_nil, ↓reduceIte, pure, Except.pure]
  rw [group_results vbs roots hn hnd]

theorem padZip_map_key (f : Oid → Oid) (cs : List Oid) (vbs : List VarBind) :
    (padZip cs vbs).map (fun p => (f p.1, p.2)) = padZip (cs.map f) vbs := by
  induction cs generalizing vbs with
  | nil => rfl
  | cons c cs ih => cases vbs <;> simp [padZip, ih]

/-- the mapping of the requested (effective) OIDs back to the user's roots, when every key lies
    inside exactly one user root and these roots are pairwise distinct -/
theorem go_map (user : List Oid) (rootOf : Oid → Oid) :
    ∀ (rest : Groups) (acc : Groups) (hit : Bool),
      (∀ p ∈ rest, user.filter (fun base => inside base p.1) = [rootOf p.1]) →
      (rest.map (fun p => rootOf p.1)).Nodup →
      (∀ p ∈ rest, ∀ q ∈ acc, q.1 ≠ rootOf p.1) →
      groupVarbinds.go user rest acc hit
        = .ok (acc ++ rest.map (fun p => (rootOf p.1, p.2)), hit || !rest.isEmpty) := by
  intro rest
  induction rest with
  | nil => intro acc hit _ _ _; simp [groupVarbinds.go, pure, Except.pure]
  | cons p rest ih =>
    intro acc hit hf hnd hfr
    obtain ⟨key, value⟩ := p
    unfold groupVarbinds.go
    have hk := hf (key, value) (by simp)
    simp only at hk
    simp only [hk, List.length_singleton, Nat.lt_irrefl, ↓reduceIte, gt_iff_lt]
    have hfresh : acc.any (fun q => q.1 == rootOf key) = false := by
      rw [List.any_eq_false]
      intro q hq
      have := hfr (key, value) (by simp) q hq
      simpa using this
    rw [dictSet_fresh _ _ _ hfresh]
    simp only [List.map_cons, List.nodup_cons] at hnd
    rw [ih _ true (fun q hq => hf q (by simp [hq])) hnd.2]
    · simp
    · intro q hq r hr
      rcases List.mem_append.mp hr with h | h
      · exact hfr q (by simp [hq]) r h
      · simp only [List.mem_singleton] at h
        subst h
        intro heq
        exact hnd.1 (by simp only [List.mem_map]; exact ⟨q, hq, heq.symm⟩)

/-- `group_varbinds(varbinds, next_fetches, user_roots)` inside the walk loop -/
theorem group_loop (vbs : List VarBind) (cs ks roots : List Oid) (rootOf : Oid → Oid)
    (hn : vbs.length ≤ cs.length) (hne : cs ≠ []) (hroots : roots ≠ []) (hcs : cs.Nodup)
    (hks : cs.map rootOf = ks) (hknd : ks.Nodup)
    (hf : ∀ c ∈ cs, roots.filter (fun base => inside base c) = [rootOf c]) :
    groupVarbinds vbs cs roots = .ok (padZip ks vbs) := by
  unfold groupVarbinds
  have hre : roots.isEmpty = false := by cases roots <;> simp_all
  simp only [bind, Except.bind, hre, Bool.false_eq_true, ↓reduceIte, pure, Except.pure]
  rw [group_results vbs cs hn hcs]
  rw [go_map roots rootOf (padZip cs vbs) [] false]
  · have : (padZip cs vbs).isEmpty = false := by
      cases cs with
      | nil => exact absurd rfl hne
      | cons c cs => cases vbs <;> simp [padZip]
    simp only [List.nil_append, this, Bool.not_false, Bool.or_true, ↓reduceIte]
    rw [padZip_map_key, hks]
  · intro p hp
    have : p.1 ∈ cs := by
      have := List.mem_map_of_mem (f := (·.1)) hp
      rwa [padZip_keys] at this
    exact hf p.1 this
  · have : (padZip cs vbs).map (fun p => rootOf p.1) = ks := by
      rw [← hks]
      have := congrArg (List.map rootOf) (padZip_keys cs vbs)
      simpa [List.map_map, Function.comp_def] using this
    rw [this]; exact hknd
  · intro p _ q hq; simp at hq

theorem last_padZip (ks : List Oid) (vbs : List VarBind) :
    (padZip ks vbs).filterMap (fun kv => kv.2.getLast?.map fun l => (kv.1, l)) = ks.zip vbs := by
  induction ks generalizing vbs with
  | nil => rfl
  | cons k ks ih =>
    cases vbs with
    | nil =>
      have := ih []
      simp only [List.zip_nil_right] at this
      simp only [padZip, List.filterMap_cons, List.getLast?_nil, Option.map_none, this, List.zip_nil_right]
    | cons v vs => simp [padZip, ih vs]

theorem zip_fst_sublist (ks : List Oid) (vbs : List VarBind) : ((ks.zip vbs).map (·.1)).Sublist ks := by
  induction ks generalizing vbs with
  | nil => simp
  | cons k ks ih =>
    cases vbs with
    | nil => simp
    | cons v vs => simp only [List.zip_cons_cons, List.map_cons]; exact (ih vs).cons_cons k

/-- `get_unfinished_walk_oids` on such groups, the roots being strictly ascending: the pairs
    `(root, binding)` whose binding is still inside the root, in root order -/
theorem unfinished_padZip (ks : List Oid) (vbs : List VarBind) (hs : ks.Pairwise (· < ·)) :
    unfinished (padZip ks vbs) = (ks.zip vbs).filter (fun kl => inside kl.1 kl.2.1) := by
  unfold unfinished
  simp only [last_padZip]
  rw [List.mergeSort_of_pairwise]
  have h1 : ((ks.zip vbs).map (·.1)).Pairwise (· < ·) := hs.sublist (zip_fst_sublist ks vbs)
  rw [List.pairwise_map] at h1
  apply h1.imp
  intro a b hab
  rw [oidLe_iff]
  exact Std.le_of_lt hab

/-! ### what `deduped_varbinds` adds to the `yielded` set -/

theorem dedupFold_mem (roots : List Oid) (L : List VarBind) (acc : List VarBind × List Oid) (o : Oid) :
    let r := L.foldl (fun (acc : List VarBind × List Oid) vb =>
      if roots.any (fun r => inside r vb.1) && !acc.2.contains vb.1 then (acc.1 ++ [vb], acc.2 ++ [vb.1]) else acc) acc
    (o ∈ r.2 ↔ o ∈ acc.2 ∨ (roots.any (fun r => inside r o) = true ∧ ∃ vb ∈ L, vb.1 = o)) ∧
    (∀ vb ∈ r.1, vb ∈ acc.1 ∨ vb ∈ L) := by
  induction L generalizing acc with
  | nil => simp
  | cons v L ih =>
    simp only [List.foldl_cons]
    by_cases hc : (roots.any (fun r => inside r v.1) && !acc.2.contains v.1) = true
    · simp only [hc, ↓reduceIte]
      have h := ih (acc.1 ++ [v], acc.2 ++ [v.1])
      simp only at h
      refine ⟨?_, ?_⟩
      · rw [h.1]
        simp only [Bool.and_eq_true] at hc
        constructor
        · rintro (h1 | ⟨ha, vb, hvb, rfl⟩)
          · rcases List.mem_append.mp h1 with h2 | h2
            · exact Or.inl h2
            · simp only [List.mem_singleton] at h2
              subst h2
              exact Or.inr ⟨hc.1, v, by simp, rfl⟩
          · exact Or.inr ⟨ha, vb, by simp [hvb], rfl⟩
        · rintro (h1 | ⟨ha, vb, hvb, rfl⟩)
          · exact Or.inl (List.mem_append_left _ h1)
          · rcases List.mem_cons.mp hvb with h2 | h2
            · subst h2; exact Or.inl (by simp)
            · exact Or.inr ⟨ha, vb, h2, rfl⟩
      · intro vb hvb
        rcases h.2 vb hvb with h1 | h1
        · rcases List.mem_append.mp h1 with h2 | h2
          · exact Or.inl h2
          · simp only [List.mem_singleton] at h2; subst h2; exact Or.inr (by simp)
        · exact Or.inr (by simp [h1])
    · simp only [hc, Bool.false_eq_true, ↓reduceIte]
      have h := ih acc
      simp only at h
      refine ⟨?_, ?_⟩
      · rw [h.1]
        constructor
        · rintro (h1 | ⟨ha, vb, hvb, rfl⟩)
          · exact Or.inl h1
          · exact Or.inr ⟨ha, vb, by simp [hvb], rfl⟩
        · rintro (h1 | ⟨ha, vb, hvb, rfl⟩)
          · exact Or.inl h1
          · rcases List.mem_cons.mp hvb with h2 | h2
            · subst h2
              -- the binding was skipped: outside the roots (excluded by `ha`) or already yielded
              simp only [Bool.and_eq_true, not_and, Bool.not_eq_true', Bool.not_eq_false] at hc
              have := hc ha
              exact Or.inl (by simpa using this)
            · exact Or.inr ⟨ha, vb, h2, rfl⟩
      · intro vb hvb
        rcases h.2 vb hvb with h1 | h1
        · exact Or.inl h1
        · exact Or.inr (by simp [h1])

theorem deduped_mem (roots : List Oid) (g : Groups) (yielded : List Oid) (o : Oid) :
    (o ∈ (deduped roots g yielded).2 ↔
      o ∈ yielded ∨ (roots.any (fun r => inside r o) = true ∧ ∃ grp ∈ g, ∃ vb ∈ grp.2, vb.1 = o)) ∧
    (∀ vb ∈ (deduped roots g yielded).1, ∃ grp ∈ g, vb ∈ grp.2) := by
  unfold deduped
  have h := dedupFold_mem roots ((g.map (·.2)).mergeSort groupLe).flatten ([], yielded) o
  simp only at h
  have hflat : ∀ vb, vb ∈ ((g.map (·.2)).mergeSort groupLe).flatten ↔ ∃ grp ∈ g, vb ∈ grp.2 := by
    intro vb
    simp only [List.mem_flatten, List.mem_mergeSort, List.mem_map]
    constructor
    · rintro ⟨l, ⟨grp, hg, rfl⟩, hvb⟩; exact ⟨grp, hg, hvb⟩
    · rintro ⟨grp, hg, hvb⟩; exact ⟨_, ⟨grp, hg, rfl⟩, hvb⟩
  refine ⟨?_, ?_⟩
  · rw [h.1]
    constructor
    · rintro (h1 | ⟨ha, vb, hvb, rfl⟩)
      · exact Or.inl h1
      · obtain ⟨grp, hg, hm⟩ := (hflat vb).mp hvb
        exact Or.inr ⟨ha, grp, hg, vb, hm, rfl⟩
    · rintro (h1 | ⟨ha, grp, hg, vb, hm, rfl⟩)
      · exact Or.inl h1
      · exact Or.inr ⟨ha, vb, (hflat vb).mpr ⟨grp, hg, hm⟩, rfl⟩
  · intro vb hvb
    rcases h.2 vb hvb with h1 | h1
    · simp at h1
    · exact (hflat vb).mp h1

/-! ### the GETNEXT fetcher against a conformant agent -/

/-- database entries answering a GETNEXT on `qs`, cut at the first endOfMibView -/
def fetchVb (db : List VarBind) : List Oid → List VarBind
  | [] => []
  | q :: qs => match Agent.nextOf db q with
    | none => []
    | some e => e :: fetchVb db qs

theorem fetchVb_length (db : List VarBind) (qs : List Oid) : (fetchVb db qs).length ≤ qs.length := by
  induction qs with
  | nil => simp [fetchVb]
  | cons q qs ih => unfold fetchVb; split <;> simp <;> omega

theorem fetchVb_mem (db : List VarBind) (qs : List Oid) : ∀ vb ∈ fetchVb db qs, vb ∈ db := by
  induction qs with
  | nil => simp [fetchVb]
  | cons q qs ih =>
    unfold fetchVb
    split
    · simp
    · rename_i e he
      intro vb hvb
      rcases List.mem_cons.mp hvb with rfl | h
      · exact List.mem_of_find?_eq_some he
      · exact ih vb h

theorem nextOf_map (db : List VarBind) (o : Oid) :
    WalkAbs.nextOf (db.map (·.1)) o = (Agent.nextOf db o).map (·.1) := by
  unfold WalkAbs.nextOf Agent.nextOf
  rw [List.find?_map]
  rfl

theorem fetchVb_oids (db : List VarBind) (qs : List Oid) :
    (fetchVb db qs).map (·.1) = WalkAbs.fetchNext (db.map (·.1)) qs := by
  induction qs with
  | nil => rfl
  | cons q qs ih =>
    unfold fetchVb WalkAbs.fetchNext
    rw [nextOf_map]
    cases Agent.nextOf db q with
    | none => rfl
    | some e => simp [ih]

theorem multigetnext_conformant (db : List VarBind) (pol : BulkPolicy)
    (hv : ∀ vb ∈ db, vb.2.isEom = false) (oids : List Oid) :
    multigetnext (exchangeOf (Agent.conformant db) db pol) oids = .ok (fetchVb db oids) := by
  unfold multigetnext
  simp only [exchangeOf, bind, Except.bind, Agent.getnextResp, List.length_map, bne_self_eq_false,
    Bool.false_eq_true, ↓reduceIte, pure, Except.pure]
  have htw : (oids.map (Agent.conformant db · 0)).takeWhile notEom = fetchVb db oids := by
    induction oids with
    | nil => rfl
    | cons q qs ih =>
      simp only [List.map_cons, fetchVb, Agent.conformant]
      cases hq : Agent.nextOf db q with
      | none => simp [List.takeWhile, notEom, Val.isEom]
      | some e =>
        have he : e ∈ db := List.mem_of_find?_eq_some hq
        have : notEom e = true := by simp [notEom, hv e he]
        simp only [List.takeWhile_cons, this, ↓reduceIte, List.cons.injEq, true_and]
        exact ih
  rw [htw]
  clear htw
  have hall : ((oids.zip (fetchVb db oids)).all fun p => decide (p.1 < p.2.1)) = true := by
    induction oids with
    | nil => simp
    | cons q qs ih =>
      unfold fetchVb
      cases hq : Agent.nextOf db q with
      | none => simp
      | some e =>
        have := List.find?_some hq
        simp only [List.zip_cons_cons, List.all_cons, Bool.and_eq_true]
        exact ⟨this, ih⟩
  simp [hall]

/-! ### one step of the faithful loop is one step of the abstract loop -/

theorem prefix_le : ∀ (a b : Oid), a <+: b → a ≤ b
  | [], b, _ => by simp
  | x :: a, b, h => by
    obtain ⟨t, rfl⟩ := h
    simp only [List.cons_append, List.cons_le_cons_iff]
    exact Or.inr ⟨trivial, prefix_le a (a ++ t) (List.prefix_append _ _)⟩

theorem not_both_prefix {r k c : Oid} (hlt : r < k) (hnp : ¬ r <+: k) (hr : r <+: c) (hk : k <+: c) : False := by
  rcases Nat.le_total r.length k.length with h | h
  · exact hnp (List.prefix_of_prefix_length_le hr hk h)
  · have := prefix_le k r (List.prefix_of_prefix_length_le hk hr h)
    exact absurd hlt (List.not_lt.mpr this)

/-- with pairwise disjoint roots, a cursor lies inside exactly one of them -/
theorem filter_root_unique : ∀ (roots : List Oid) (k c : Oid), WalkAbs.Disjoint roots → k ∈ roots → k <+: c →
    roots.filter (fun b => inside b c) = [k]
  | [], _, _, _, hk, _ => by simp at hk
  | r :: rs, k, c, hd, hk, hkc => by
    have hd' := List.pairwise_cons.mp hd
    rcases List.mem_cons.mp hk with rfl | hk'
    · have hin : inside k c = true := (inside_iff k c).mpr hkc
      have hrest : rs.filter (fun b => inside b c) = [] := by
        rw [List.filter_eq_nil_iff]
        intro b hb hbc
        have := hd'.1 b hb
        exact not_both_prefix this.1 this.2 hkc ((inside_iff b c).mp hbc)
      simp [List.filter_cons, hin, hrest]
    · have hnr : inside r c = false := by
        cases hrc : inside r c with
        | false => rfl
        | true =>
          have := hd'.1 k hk'
          exact (not_both_prefix this.1 this.2 ((inside_iff r c).mp hrc) hkc).elim
      simp only [List.filter_cons, hnr, Bool.false_eq_true, ↓reduceIte]
      exact filter_root_unique rs k c hd'.2 hk' hkc

def absCur (unf : List (Oid × VarBind)) : List (Oid × Oid) := unf.map (fun p => (p.1, p.2.1))

theorem absCur_step : ∀ (ks cs : List Oid) (vbs : List VarBind), ks.length = cs.length →
    absCur ((ks.zip vbs).filter (fun kl => inside kl.1 kl.2.1)) =
      ((ks.zip cs).zip (vbs.map (·.1))).filterMap (fun p => if inside p.1.1 p.2 then some (p.1.1, p.2) else none)
  | [], cs, vbs, _ => by simp [absCur]
  | k :: ks, [], _, h => by simp at h
  | k :: ks, c :: cs, [], _ => by simp [absCur]
  | k :: ks, c :: cs, v :: vs, h => by
    have ih := absCur_step ks cs vs (by simpa using h)
    simp only [List.zip_cons_cons, List.map_cons, List.filter_cons, List.filterMap_cons]
    by_cases hin : inside k v.1 = true
    · simp only [hin, ↓reduceIte]
      unfold absCur at ih ⊢
      simp only [List.map_cons, ih]
    · simp only [hin, Bool.false_eq_true, ↓reduceIte]
      exact ih

theorem foldl_addY_sub (roots : List Oid) (ps : List ((Oid × Oid) × Oid)) (Y : List Oid) (o : Oid)
    (h : o ∈ ps.foldl (fun Y p => WalkAbs.addY roots Y p.2) Y) :
    o ∈ Y ∨ (roots.any (fun r => inside r o) = true ∧ ∃ p ∈ ps, p.2 = o) := by
  induction ps generalizing Y with
  | nil => exact Or.inl (by simpa using h)
  | cons p ps ih =>
    rw [List.foldl_cons] at h
    rcases ih _ h with h1 | ⟨ha, q, hq, rfl⟩
    · unfold WalkAbs.addY at h1
      split at h1
      · rename_i hc
        rcases List.mem_append.mp h1 with h2 | h2
        · exact Or.inl h2
        · simp only [List.mem_singleton] at h2
          subst h2
          simp only [Bool.and_eq_true] at hc
          exact Or.inr ⟨hc.1, p, by simp, rfl⟩
      · exact Or.inl h1
    · exact Or.inr ⟨ha, q, by simp [hq], rfl⟩

theorem padZip_mem (ks : List Oid) (vbs : List VarBind) (h : vbs.length ≤ ks.length) :
    ∀ vb ∈ vbs, ∃ grp ∈ padZip ks vbs, vb ∈ grp.2 := by
  induction ks generalizing vbs with
  | nil => intro vb hvb; cases vbs <;> simp_all
  | cons k ks ih =>
    cases vbs with
    | nil => simp
    | cons v vs =>
      intro vb hvb
      rcases List.mem_cons.mp hvb with rfl | h'
      · exact ⟨(k, [vb]), by simp [padZip], by simp⟩
      · obtain ⟨grp, hg, hm⟩ := ih vs (by simpa using h) vb h'
        exact ⟨grp, by simp [padZip, hg], hm⟩

theorem padZip_mem_rev (ks : List Oid) (vbs : List VarBind) :
    ∀ grp ∈ padZip ks vbs, ∀ vb ∈ grp.2, vb ∈ vbs := by
  induction ks generalizing vbs with
  | nil => simp [padZip]
  | cons k ks ih =>
    cases vbs with
    | nil =>
      intro grp hg vb hvb
      simp only [padZip, List.mem_cons] at hg
      rcases hg with rfl | hg
      · simp at hvb
      · exact ih [] grp hg vb hvb
    | cons v vs =>
      intro grp hg vb hvb
      simp only [padZip, List.mem_cons] at hg
      rcases hg with rfl | hg
      · simp only [List.mem_singleton] at hvb; subst hvb; simp
      · exact List.mem_cons_of_mem _ (ih vs grp hg vb hvb)

section Refine
variable (dbv : List VarBind) (pol : BulkPolicy) (roots : List Oid)

/-- the fetcher of `Client.walk` / `multiwalk` against the conformant agent holding `dbv` -/
abbrev cfetch : Fetcher := multigetnext (exchangeOf (Agent.conformant dbv) dbv pol)

theorem disjoint_lt {roots : List Oid} (hd : WalkAbs.Disjoint roots) : roots.Pairwise (· < ·) :=
  hd.imp (fun h => h.1)

theorem pairwise_lt_nodup {l : List Oid} (h : l.Pairwise (· < ·)) : l.Nodup :=
  h.imp (fun {a b} hab heq => by subst heq; exact absurd hab (List.lt_irrefl a))

theorem absCur_fst (unf : List (Oid × VarBind)) : (absCur unf).map (·.1) = unf.map (·.1) := by
  simp [absCur, List.map_map, Function.comp_def]

theorem absCur_snd (unf : List (Oid × VarBind)) : (absCur unf).map (·.2) = unf.map (·.2.1) := by
  simp [absCur, List.map_map, Function.comp_def]

theorem absCur_zip (unf : List (Oid × VarBind)) : absCur unf = (unf.map (·.1)).zip (unf.map (·.2.1)) := by
  induction unf with
  | nil => rfl
  | cons p unf ih => simp only [absCur, List.map_cons, List.zip_cons_cons] at ih ⊢; rw [ih]

/-- One iteration of the `while unfinished_oids:` loop against a conformant agent, spelled out. -/
theorem loop_step (lenient : Bool) (fuel : Nat) (unf : List (Oid × VarBind)) (yielded : List Oid)
    (ev : List Event) (s : WalkAbs.St)
    (hv : ∀ vb ∈ dbv, vb.2.isEom = false) (hd : WalkAbs.Disjoint roots)
    (hi : WalkAbs.Inv (dbv.map (·.1)) roots s) (habs : absCur unf = s.cur) (hne : unf ≠ []) :
    loop (cfetch dbv pol) roots lenient (fuel + 1) unf yielded ev =
      loop (cfetch dbv pol) roots lenient fuel
        (((unf.map (·.1)).zip (fetchVb dbv (unf.map (·.2.1)))).filter (fun kl => inside kl.1 kl.2.1))
        (deduped roots (padZip (unf.map (·.1)) (fetchVb dbv (unf.map (·.2.1)))) yielded).2
        (ev ++ [Event.req (unf.map (·.2.1))] ++
          (deduped roots (padZip (unf.map (·.1)) (fetchVb dbv (unf.map (·.2.1)))) yielded).1.map Event.yield) := by
  have hemp : unf.isEmpty = false := by cases unf <;> simp_all
  have hks_sub : (unf.map (·.1)).Sublist roots := by rw [← absCur_fst, habs]; exact hi.sub
  have hks_lt : (unf.map (·.1)).Pairwise (· < ·) := (disjoint_lt hd).sublist hks_sub
  have hins : ∀ p ∈ unf, p.1 <+: p.2.1 := by
    intro p hp
    have : (p.1, p.2.1) ∈ s.cur := by rw [← habs]; exact List.mem_map_of_mem (f := fun p => (p.1, p.2.1)) hp
    exact hi.ins _ this
  have hcur_lt : (unf.map (·.2.1)).Pairwise (· < ·) := by
    have := WalkAbs.cursors_sorted hd hi
    rw [← habs] at this
    unfold absCur at this
    rw [List.pairwise_map] at this ⊢
    exact this
  have hroots : roots ≠ [] := by
    intro h; subst h
    have := List.sublist_nil.mp hks_sub
    cases unf <;> simp_all
  let rootOf : Oid → Oid := fun c => (roots.filter (fun b => inside b c)).headD []
  have hfil : ∀ p ∈ unf, roots.filter (fun b => inside b p.2.1) = [p.1] := by
    intro p hp
    exact filter_root_unique roots p.1 p.2.1 hd (hks_sub.subset (List.mem_map_of_mem (f := (·.1)) hp)) (hins p hp)
  have hgrp := group_loop (fetchVb dbv (unf.map (·.2.1))) (unf.map (·.2.1)) (unf.map (·.1)) roots rootOf
    (by simpa using fetchVb_length dbv (unf.map (·.2.1))) (by cases unf <;> simp_all) hroots
    (pairwise_lt_nodup hcur_lt)
    (by
      rw [List.map_map]
      apply List.map_congr_left
      intro p hp
      show (roots.filter (fun b => inside b p.2.1)).headD [] = p.1
      rw [hfil p hp]; rfl)
    (pairwise_lt_nodup hks_lt)
    (by
      intro c hc
      obtain ⟨p, hp, rfl⟩ := List.mem_map.mp hc
      show roots.filter (fun b => inside b p.2.1) = [(roots.filter (fun b => inside b p.2.1)).headD []]
      rw [hfil p hp]; rfl)
  rw [loop]
  simp only [hemp, Bool.false_eq_true, ↓reduceIte]
  rw [show cfetch dbv pol (unf.map (·.2.1)) = .ok (fetchVb dbv (unf.map (·.2.1))) from
    multigetnext_conformant dbv pol hv _]
  simp only [hgrp]
  rw [unfinished_padZip _ _ hks_lt]

def yieldsOf (evs : List Event) : List VarBind :=
  evs.filterMap fun | .yield vb => some vb | _ => none

theorem yieldsOf_append (a b : List Event) : yieldsOf (a ++ b) = yieldsOf a ++ yieldsOf b := by
  simp [yieldsOf, List.filterMap_append]

theorem yieldsOf_map_yield (ys : List VarBind) : yieldsOf (ys.map Event.yield) = ys := by
  induction ys with
  | nil => rfl
  | cons y ys ih => simp [yieldsOf] at ih ⊢; exact ih

theorem yieldsOf_req (o : List Oid) : yieldsOf [Event.req o] = [] := rfl

theorem run_nil (db roots : List Oid) (k : Nat) (s : WalkAbs.St) (h : s.cur = []) :
    WalkAbs.run db roots k s = s := by
  cases k <;> simp [WalkAbs.run, h]

theorem step_nil (db roots : List Oid) (s : WalkAbs.St) (h : s.cur = []) : WalkAbs.step db roots s = s := by
  cases s with
  | mk cur y => simp only at h; subst h; simp [WalkAbs.step, WalkAbs.fetchNext]

theorem run_succ (db roots : List Oid) (k : Nat) (s : WalkAbs.St) :
    WalkAbs.run db roots (k + 1) s = WalkAbs.run db roots k (WalkAbs.step db roots s) := by
  by_cases h : s.cur = []
  · rw [step_nil db roots s h, run_nil _ _ _ _ h, run_nil _ _ _ _ h]
  · simp [WalkAbs.run, h]

/-- what one conformant step adds, on both sides -/
theorem step_corr (unf : List (Oid × VarBind)) (yielded : List Oid) (s : WalkAbs.St)
    (habs : absCur unf = s.cur) (hy : ∀ o ∈ s.yielded, o ∈ yielded) :
    absCur (((unf.map (·.1)).zip (fetchVb dbv (unf.map (·.2.1)))).filter (fun kl => inside kl.1 kl.2.1))
      = (WalkAbs.step (dbv.map (·.1)) roots s).cur ∧
    ∀ o ∈ (WalkAbs.step (dbv.map (·.1)) roots s).yielded,
      o ∈ (deduped roots (padZip (unf.map (·.1)) (fetchVb dbv (unf.map (·.2.1)))) yielded).2 := by
  have hcs : s.cur.map (·.2) = unf.map (·.2.1) := by rw [← habs, absCur_snd]
  refine ⟨?_, ?_⟩
  · rw [absCur_step (unf.map (·.1)) (unf.map (·.2.1)) _ (by simp)]
    unfold WalkAbs.step
    simp only [hcs]
    rw [← habs, absCur_zip unf, fetchVb_oids]
  · intro o ho
    unfold WalkAbs.step at ho
    simp only [hcs] at ho
    rcases foldl_addY_sub roots _ _ o ho with h | ⟨ha, p, hp, rfl⟩
    · exact ((deduped_mem roots _ yielded o).1).mpr (Or.inl (hy o h))
    · refine ((deduped_mem roots _ yielded p.2).1).mpr (Or.inr ⟨ha, ?_⟩)
      have hp2 : p.2 ∈ WalkAbs.fetchNext (dbv.map (·.1)) (unf.map (·.2.1)) := (List.of_mem_zip hp).2
      rw [← fetchVb_oids] at hp2
      obtain ⟨vb, hvb, hvo⟩ := List.mem_map.mp hp2
      obtain ⟨grp, hg, hm⟩ := padZip_mem (unf.map (·.1)) (fetchVb dbv (unf.map (·.2.1)))
        (by simpa using fetchVb_length dbv (unf.map (·.2.1))) vb hvb
      exact ⟨grp, hg, vb, hm, hvo⟩

/-- **Refinement.**  Run against a conformant agent, the Python-faithful loop passes through the
    states of the abstract `(root, cursor)` loop: it ends normally when the abstract loop has no
    cursor left, has yielded (at least) what the abstract loop has, and yields database entries
    only. -/
theorem loop_refines (lenient : Bool) (hs : WalkAbs.Sorted (dbv.map (·.1)))
    (hv : ∀ vb ∈ dbv, vb.2.isEom = false) (hd : WalkAbs.Disjoint roots) :
    ∀ (fuel : Nat) (unf : List (Oid × VarBind)) (yielded : List Oid) (ev : List Event) (s : WalkAbs.St),
      WalkAbs.Inv (dbv.map (·.1)) roots s → absCur unf = s.cur → (∀ o ∈ s.yielded, o ∈ yielded) →
      Good roots yielded → yieldOids ev = yielded → (∀ vb ∈ yieldsOf ev, vb ∈ dbv) →
      ((WalkAbs.run (dbv.map (·.1)) roots fuel s).cur = [] →
          (loop (cfetch dbv pol) roots lenient fuel unf yielded ev).outcome = .done) ∧
      (∀ o ∈ (WalkAbs.run (dbv.map (·.1)) roots fuel s).yielded,
          o ∈ yieldOids (loop (cfetch dbv pol) roots lenient fuel unf yielded ev).events) ∧
      (∀ vb ∈ yieldsOf (loop (cfetch dbv pol) roots lenient fuel unf yielded ev).events, vb ∈ dbv) := by
  intro fuel
  induction fuel with
  | zero =>
    intro unf yielded ev s _ habs hy _ hev hdb
    have hrun : WalkAbs.run (dbv.map (·.1)) roots 0 s = s := rfl
    rw [hrun]
    unfold loop
    refine ⟨?_, ?_, ?_⟩
    · intro hc
      have : unf = [] := by
        rw [hc] at habs
        cases unf <;> simp_all [absCur]
      simp [this]
    · intro o ho
      have := hy o ho
      split <;> (simp only; rw [hev]; exact this)
    · split <;> exact hdb
  | succ fuel ih =>
    intro unf yielded ev s hi habs hy hg hev hdb
    by_cases hne : unf = []
    · subst hne
      have hc : s.cur = [] := by rw [← habs]; rfl
      rw [run_nil _ _ _ _ hc]
      unfold loop
      simp only [List.isEmpty_nil, ↓reduceIte]
      exact ⟨fun _ => trivial, fun o ho => by rw [hev]; exact hy o ho, hdb⟩
    · rw [run_succ, loop_step dbv pol roots lenient fuel unf yielded ev s hv hd hi habs hne]
      have hc := step_corr dbv roots unf yielded s habs hy
      have hdd := deduped_good roots (padZip (unf.map (·.1)) (fetchVb dbv (unf.map (·.2.1)))) yielded hg
      apply ih _ _ _ _ (WalkAbs.step_inv hs hd hi) hc.1 hc.2 hdd.1
      · rw [yieldOids_append, yieldOids_append, hev, yieldOids_req, yieldOids_map_yield]
        simp only [List.append_nil]
        exact hdd.2.symm
      · intro vb hvb
        rw [yieldsOf_append, yieldsOf_append, yieldsOf_req, yieldsOf_map_yield] at hvb
        simp only [List.append_nil] at hvb
        rcases List.mem_append.mp hvb with h | h
        · exact hdb vb h
        · obtain ⟨grp, hgm, hm⟩ := (deduped_mem roots _ yielded vb.1).2 vb h
          exact fetchVb_mem dbv _ vb (padZip_mem_rev _ _ grp hgm vb hm)

/-- the same for the whole `multiwalk` (first request included) -/
theorem multiwalk_refines (roots0 : List Oid) (lenient : Bool) (fuel : Nat)
    (hs : WalkAbs.Sorted (dbv.map (·.1))) (hv : ∀ vb ∈ dbv, vb.2.isEom = false)
    (hd : WalkAbs.Disjoint (sortOids roots0)) :
    ((WalkAbs.run (dbv.map (·.1)) (sortOids roots0) (fuel + 1) (WalkAbs.init (sortOids roots0))).cur = [] →
        (multiwalk (cfetch dbv pol) roots0 lenient fuel).outcome = .done) ∧
    (∀ o ∈ (WalkAbs.run (dbv.map (·.1)) (sortOids roots0) (fuel + 1) (WalkAbs.init (sortOids roots0))).yielded,
        o ∈ yieldOids (multiwalk (cfetch dbv pol) roots0 lenient fuel).events) ∧
    (∀ vb ∈ yieldsOf (multiwalk (cfetch dbv pol) roots0 lenient fuel).events, vb ∈ dbv) := by
  generalize hsr : sortOids roots0 = sroots at hd
  let unf0 : List (Oid × VarBind) := sroots.map (fun r => (r, (r, Val.null)))
  have h1 : unf0.map (·.1) = sroots := by simp [unf0, List.map_map, Function.comp_def]
  have h2 : unf0.map (·.2.1) = sroots := by simp [unf0, List.map_map, Function.comp_def]
  have habs0 : absCur unf0 = (WalkAbs.init sroots).cur := by
    simp [absCur, unf0, WalkAbs.init, List.map_map, Function.comp_def]
  have hi0 := WalkAbs.init_inv (dbv.map (·.1)) sroots
  have hc := step_corr dbv sroots unf0 [] (WalkAbs.init sroots) habs0 (by simp [WalkAbs.init])
  rw [h1, h2] at hc
  have hlt := disjoint_lt hd
  have hgrp := group_first (fetchVb dbv sroots) sroots (fetchVb_length dbv sroots) (pairwise_lt_nodup hlt)
  have hg0 : Good sroots [] := ⟨List.nodup_nil, by simp⟩
  have hdd := deduped_good sroots (padZip sroots (fetchVb dbv sroots)) [] hg0
  rw [run_succ]
  unfold multiwalk
  simp only [hsr]
  rw [show cfetch dbv pol sroots = .ok (fetchVb dbv sroots) from multigetnext_conformant dbv pol hv _]
  simp only [hgrp]
  rw [unfinished_padZip _ _ hlt]
  apply loop_refines dbv pol sroots lenient hs hv hd fuel _ _ _ _ (WalkAbs.step_inv hs hd hi0) hc.1 hc.2 hdd.1
  · rw [yieldOids_append, yieldOids_req, yieldOids_map_yield]
    simpa using hdd.2.symm
  · intro vb hvb
    rw [yieldsOf_append, yieldsOf_req, yieldsOf_map_yield] at hvb
    simp only [List.nil_append] at hvb
    obtain ⟨grp, hgm, hm⟩ := (deduped_mem sroots _ [] vb.1).2 vb hvb
    exact fetchVb_mem dbv _ vb (padZip_mem_rev _ _ grp hgm vb hm)

end Refine

theorem run_add (db roots : List Oid) (k j : Nat) (s : WalkAbs.St) :
    WalkAbs.run db roots (k + j) s = WalkAbs.run db roots j (WalkAbs.run db roots k s) := by
  induction k generalizing s with
  | zero => simp [WalkAbs.run]
  | succ k ih => rw [show k + 1 + j = (k + j) + 1 by omega, run_succ, ih, ← run_succ]

theorem yieldOids_eq (evs : List Event) : yieldOids evs = (yieldsOf evs).map (·.1) := by
  induction evs with
  | nil => rfl
  | cons e evs ih =>
    cases e with
    | req o => simpa [yieldOids, yieldsOf] using ih
    | yield vb => simp only [yieldOids, yieldsOf, List.filterMap_cons, List.map_cons] at ih ⊢; rw [ih]

theorem yields_eq (r : Result) : r.yields = yieldsOf r.events := by
  unfold Result.yields yieldsOf
  congr 1

theorem sorted_keys_inj : ∀ (dbv : List VarBind), WalkAbs.Sorted (dbv.map (·.1)) →
    ∀ a ∈ dbv, ∀ b ∈ dbv, a.1 = b.1 → a = b
  | [], _, a, ha, _, _, _ => by simp at ha
  | x :: xs, hs, a, ha, b, hb, hab => by
    have hs' := List.pairwise_cons.mp hs
    have hx : ∀ y ∈ xs, x.1 < y.1 := fun y hy => hs'.1 y.1 (List.mem_map_of_mem (f := (·.1)) hy)
    rcases List.mem_cons.mp ha with rfl | ha' <;> rcases List.mem_cons.mp hb with rfl | hb'
    · rfl
    · exact absurd (hab ▸ hx b hb') (List.lt_irrefl _)
    · exact absurd (hab ▸ hx a ha') (List.lt_irrefl _)
    · exact sorted_keys_inj xs hs'.2 a ha' b hb' hab

/-- pairwise disjoint subtrees, in any listing order -/
def PrefixFree (roots : List Oid) : Prop := roots.Pairwise (fun a b => ¬ a <+: b ∧ ¬ b <+: a)

theorem prefixFree_sorted (roots : List Oid) (h : PrefixFree roots) : WalkAbs.Disjoint (sortOids roots) := by
  have hperm := List.mergeSort_perm roots oidLe
  have hpf : (sortOids roots).Pairwise (fun a b => ¬ a <+: b ∧ ¬ b <+: a) :=
    (hperm.pairwise_iff (fun {x y} h => ⟨h.2, h.1⟩)).mpr h
  have hle : (sortOids roots).Pairwise (fun a b => oidLe a b = true) :=
    List.pairwise_mergeSort (fun a b c => oidLe_trans a b c) (fun a b => oidLe_total a b) roots
  unfold WalkAbs.Disjoint
  refine (hpf.and hle).imp ?_
  intro a b hab
  have hne : a ≠ b := fun heq => hab.1.1 (heq ▸ List.prefix_refl a)
  have hle' : a ≤ b := (oidLe_iff a b).mp hab.2
  refine ⟨?_, hab.1.1⟩
  apply Decidable.byContradiction
  intro hnlt
  exact hne (List.le_antisymm hle' (List.not_lt.mp hnlt))


/-! ### a single root: ascending order, for any agent -/

theorem dedupFold_eq (roots : List Oid) (L : List VarBind) (acc : List VarBind × List Oid) :
    let r := L.foldl (fun (acc : List VarBind × List Oid) vb =>
      if roots.any (fun r => inside r vb.1) && !acc.2.contains vb.1 then (acc.1 ++ [vb], acc.2 ++ [vb.1]) else acc) acc
    ∃ new : List VarBind, r.1 = acc.1 ++ new ∧ r.2 = acc.2 ++ new.map (·.1) := by
  induction L generalizing acc with
  | nil => exact ⟨[], by simp, by simp⟩
  | cons v L ih =>
    simp only [List.foldl_cons]
    split
    · obtain ⟨new, h1, h2⟩ := ih (acc.1 ++ [v], acc.2 ++ [v.1])
      exact ⟨v :: new, by rw [h1]; simp, by rw [h2]; simp⟩
    · exact ih acc

theorem deduped_snd_eq (roots : List Oid) (g : Groups) (yielded : List Oid) :
    (deduped roots g yielded).2 = yielded ++ (deduped roots g yielded).1.map (·.1) := by
  unfold deduped
  obtain ⟨new, h1, h2⟩ := dedupFold_eq roots ((g.map (·.2)).mergeSort groupLe).flatten ([], yielded)
  simp only [List.nil_append] at h1
  rw [h2, h1]

theorem multigetnext_single (x : Exchange) (c : Oid) (vbs : List VarBind)
    (h : multigetnext x [c] = .ok vbs) : vbs = [] ∨ ∃ v, vbs = [v] ∧ c < v.1 := by
  unfold multigetnext at h
  cases hx : x (.getnext [c]) with
  | error e => simp [hx, bind, Except.bind] at h
  | ok resp =>
    simp only [hx, bind, Except.bind] at h
    split at h
    · simp at h
    · rename_i hlen
      simp only [List.length_singleton, bne_iff_ne, ne_eq, Decidable.not_not] at hlen
      match resp, hlen with
      | [v], _ =>
        by_cases hv : notEom v = true
        · simp only [List.takeWhile_cons, hv, ↓reduceIte, List.takeWhile_nil, List.zip_cons_cons, List.zip_nil_right,
            List.all_cons, List.all_nil, Bool.and_true, decide_eq_true_eq, pure, Except.pure] at h
          split at h
          · rename_i hlt
            simp only [Except.ok.injEq] at h
            exact Or.inr ⟨v, h.symm, hlt⟩
          · simp at h
        · simp only [List.takeWhile_cons, hv, Bool.false_eq_true, ↓reduceIte, List.zip_nil_right, List.all_nil,
            pure, Except.pure, Except.ok.injEq] at h
          exact Or.inl h.symm

theorem deduped_single_nil (root : Oid) (yielded : List Oid) :
    deduped [root] (padZip [root] []) yielded = ([], yielded) := by
  simp [deduped, padZip]

theorem deduped_single (root : Oid) (v : VarBind) (yielded : List Oid) :
    deduped [root] (padZip [root] [v]) yielded =
      if inside root v.1 && !yielded.contains v.1 then ([v], yielded ++ [v.1]) else ([], yielded) := by
  simp [deduped, padZip]

/-- state of a single-root walk: no cursor left, or one cursor inside the root that bounds
    everything yielded so far -/
def SingleInv (root : Oid) (unf : List (Oid × VarBind)) (yielded : List Oid) : Prop :=
  (unf = [] ∨ ∃ vb, unf = [(root, vb)] ∧ root <+: vb.1 ∧ ∀ y ∈ yielded, y ≤ vb.1) ∧
  yielded.Pairwise (· < ·)

theorem single_step (root c : Oid) (vbs : List VarBind) (yielded : List Oid)
    (hv : vbs = [] ∨ ∃ v, vbs = [v] ∧ c < v.1) (hy : ∀ y ∈ yielded, y ≤ c) (hp : yielded.Pairwise (· < ·)) :
    SingleInv root (([root].zip vbs).filter (fun kl => inside kl.1 kl.2.1))
      (deduped [root] (padZip [root] vbs) yielded).2 := by
  rcases hv with rfl | ⟨v, rfl, hlt⟩
  · rw [deduped_single_nil]
    exact ⟨Or.inl (by simp), hp⟩
  · rw [deduped_single]
    have hnew : ∀ y ∈ yielded, y < v.1 := fun y hyy => Std.lt_of_le_of_lt (hy y hyy) hlt
    have hnc : yielded.contains v.1 = false := by
      cases hc : yielded.contains v.1 with
      | false => rfl
      | true =>
        have : v.1 ∈ yielded := by simpa using hc
        exact absurd (hnew _ this) (List.lt_irrefl _)
    by_cases hin : inside root v.1 = true
    · simp only [hin, hnc, Bool.not_false, Bool.and_self, ↓reduceIte, List.zip_cons_cons, List.zip_nil_right,
        List.filter_cons, List.filter_nil]
      refine ⟨Or.inr ⟨v, rfl, (inside_iff _ _).mp hin, ?_⟩, ?_⟩
      · intro y hyy
        rcases List.mem_append.mp hyy with h | h
        · exact Std.le_of_lt (hnew y h)
        · simp only [List.mem_singleton] at h; subst h; exact List.le_refl _
      · rw [List.pairwise_append]
        refine ⟨hp, by simp, ?_⟩
        intro a ha b hb
        simp only [List.mem_singleton] at hb; subst hb
        exact hnew a ha
    · simp only [hin, Bool.false_eq_true, Bool.false_and, ↓reduceIte, List.zip_cons_cons, List.zip_nil_right,
        List.filter_cons, List.filter_nil]
      exact ⟨Or.inl rfl, hp⟩

theorem loop_single (x : Exchange) (root : Oid) (lenient : Bool) :
    ∀ (fuel : Nat) (unf : List (Oid × VarBind)) (yielded : List Oid) (ev : List Event),
      SingleInv root unf yielded → yieldOids ev = yielded →
      (yieldOids (loop (multigetnext x) [root] lenient fuel unf yielded ev).events).Pairwise (· < ·) := by
  intro fuel
  induction fuel with
  | zero =>
    intro unf yielded ev hi he
    unfold loop
    split <;> (simp only; rw [he]; exact hi.2)
  | succ fuel ih =>
    intro unf yielded ev hi he
    rcases hi.1 with rfl | ⟨vb, rfl, hpre, hbound⟩
    · unfold loop
      simp only [List.isEmpty_nil, ↓reduceIte]
      rw [he]; exact hi.2
    · unfold loop
      simp only [List.isEmpty_cons, Bool.false_eq_true, ↓reduceIte, List.map_cons, List.map_nil]
      have hev : yieldOids (ev ++ [Event.req [vb.1]]) = yielded := by
        rw [yieldOids_append, he, yieldOids_req]; simp
      cases hf : multigetnext x [vb.1] with
      | error e =>
        simp only
        split
        · simp only; rw [hev]; exact hi.2
        · split <;> (simp only; rw [hev]; exact hi.2)
      | ok vbs =>
        simp only
        have hshape := multigetnext_single x vb.1 vbs hf
        have hlen : vbs.length ≤ [vb.1].length := by
          rcases hshape with rfl | ⟨v, rfl, _⟩ <;> simp
        have hgrp := group_loop vbs [vb.1] [root] [root] (fun _ => root) hlen (by simp) (by simp) (by simp)
          (by simp) (by simp)
          (by
            intro c hc
            simp only [List.mem_singleton] at hc; subst hc
            simp [List.filter_cons, (inside_iff root vb.1).mpr hpre])
        simp only [hgrp]
        rw [unfinished_padZip _ _ (by simp)]
        have hst := single_step root vb.1 vbs yielded hshape hbound hi.2
        apply ih _ _ _ hst
        rw [yieldOids_append, hev, yieldOids_map_yield]
        exact (deduped_snd_eq [root] (padZip [root] vbs) yielded).symm

/-- **Single root, any agent**: what a GETNEXT walk of one root yields is strictly ascending. -/
theorem walk_single_ascending (x : Exchange) (root : Oid) (lenient : Bool) (fuel : Nat) :
    (yieldOids (walkGetnext x [root] lenient fuel).events).Pairwise (· < ·) := by
  unfold walkGetnext multiwalk
  have hsort : sortOids [root] = [root] := by simp [sortOids]
  simp only [hsort]
  cases hf : multigetnext x [root] with
  | error e =>
    simp only
    split <;> simp [yieldOids]
  | ok vbs =>
    simp only
    have hshape := multigetnext_single x root vbs hf
    have hlen : vbs.length ≤ [root].length := by
      rcases hshape with rfl | ⟨v, rfl, _⟩ <;> simp
    rw [group_first vbs [root] hlen (by simp)]
    simp only
    rw [unfinished_padZip _ _ (by simp)]
    have hst := single_step root root vbs [] hshape (by simp) (by simp)
    apply loop_single x root lenient fuel _ _ _ hst
    rw [yieldOids_append, yieldOids_req, yieldOids_map_yield]
    simpa using (deduped_snd_eq [root] (padZip [root] vbs) []).symm

end Snmp.Walk
