/-
  Base-128 sub-identifier coding of `ObjectIdentifier`: what the encoder writes, the decoder's
  loop reads back.
-/
import Snmp.Lemmas.BerLemmas
namespace Snmp.Ber

theorem hi128_unfold (x : Nat) (h : x ≠ 0) : hi128 x = hi128 (x / 128) ++ [x % 128 + 128] := by
  rw [hi128]; simp [h]

theorem hi128_zero : hi128 0 = [] := by rw [hi128]; simp

theorem go_none_hi (b : Nat) (rest : Bytes) (h : b > 127) :
    subidsGo (b :: rest) none = subidsGo rest (some (b - 128)) := by
  rw [subidsGo]; simp [h]

theorem go_none_lo (b : Nat) (rest : Bytes) (h : ¬ b > 127) :
    subidsGo (b :: rest) none = (subidsGo rest none).map (b :: ·) := by
  rw [subidsGo]; simp [h]

theorem go_some_hi (b acc : Nat) (rest : Bytes) (h : b > 127) :
    subidsGo (b :: rest) (some acc) = subidsGo rest (some (acc * 128 + (b - 128))) := by
  rw [subidsGo]; simp [h]

theorem go_some_lo (b acc : Nat) (rest : Bytes) (h : ¬ b > 127) :
    subidsGo (b :: rest) (some acc) = (subidsGo rest none).map ((acc * 128 + b) :: ·) := by
  rw [subidsGo]; simp [h]

/-- continuation octets are consumed into the accumulator -/
theorem subidsGo_hi128 (x : Nat) (hx : x ≠ 0) (tail : Bytes) :
    subidsGo (hi128 x ++ tail) none = subidsGo tail (some x) := by
  induction x using Nat.strongRecOn generalizing tail with
  | _ x ih =>
    rw [hi128_unfold x hx]
    by_cases hsmall : x / 128 = 0
    · rw [hsmall, hi128_zero]
      have hgt : x % 128 + 128 > 127 := by omega
      have hx' : x % 128 = x := by omega
      rw [List.nil_append, List.singleton_append, go_none_hi _ _ hgt]
      have e : x % 128 + 128 - 128 = x := by omega
      rw [e]
    · rw [List.append_assoc, ih (x / 128) (by omega) hsmall]
      have hgt : x % 128 + 128 > 127 := by omega
      rw [List.singleton_append, go_some_hi _ _ _ hgt]
      have e : x / 128 * 128 + (x % 128 + 128 - 128) = x := by omega
      rw [e]

/-- one encoded sub-identifier in front of anything is read back as that sub-identifier -/
theorem subidsGo_subidEncode (v : Nat) (rest : Bytes) :
    subidsGo (subidEncode v ++ rest) none = (subidsGo rest none).map (v :: ·) := by
  unfold subidEncode
  by_cases hv : v ≤ 127
  · have : ¬ v > 127 := by omega
    simp only [hv, ↓reduceIte, List.cons_append, List.nil_append]
    rw [go_none_lo _ _ this]
  · have hx : v / 128 ≠ 0 := by omega
    simp only [hv, ↓reduceIte, List.append_assoc]
    rw [subidsGo_hi128 (v / 128) hx]
    have : ¬ v % 128 > 127 := by omega
    simp only [List.cons_append, List.nil_append]
    rw [go_some_lo _ _ _ this]
    have : v / 128 * 128 + v % 128 = v := by omega
    rw [this]

theorem subidsDecode_flatMap (l : List Nat) : subidsDecode (l.flatMap subidEncode) = .ok l := by
  unfold subidsDecode
  induction l with
  | nil => simp only [List.flatMap_nil]; rw [subidsGo]
  | cons v l ih =>
    simp only [List.flatMap_cons]
    rw [subidsGo_subidEncode, ih]
    rfl

/-- the OIDs BER (and x690) can carry with the first two arcs in one octet -/
def OidDom (o : Oid) : Prop := ∃ a b rest, o = a :: b :: rest ∧ a ≤ 2 ∧ b < 40

/-- `ObjectIdentifier` round trip on the domain: any number of further arcs, of any size -/
theorem oidDecode_oidEncode (o : Oid) (h : OidDom o) : ∃ bs, oidEncode o = some bs ∧ oidDecode bs = .ok o := by
  rcases h with ⟨a, b, rest, rfl, ha, hb⟩
  have hlt : 40 * a + b < 256 := by omega
  refine ⟨(40 * a + b) :: rest.flatMap subidEncode, by simp [oidEncode, hlt], ?_⟩
  simp only [oidDecode]
  rw [subidsDecode_flatMap]
  have h1 : (40 * a + b) / 40 = a := by omega
  have h2 : (40 * a + b) % 40 = b := by omega
  simp [Except.map, h1, h2]

theorem hi128_bytes (x : Nat) : ∀ b ∈ hi128 x, b < 256 := by
  induction x using Nat.strongRecOn with
  | _ x ih =>
    by_cases hx : x = 0
    · subst hx; rw [hi128_zero]; simp
    · rw [hi128_unfold x hx]
      intro b hb
      rcases List.mem_append.mp hb with h | h
      · exact ih (x / 128) (by omega) b h
      · simp at h; omega

theorem subidEncode_bytes (v : Nat) : ∀ b ∈ subidEncode v, b < 256 := by
  unfold subidEncode
  split
  · intro b hb; simp at hb; omega
  · intro b hb
    rcases List.mem_append.mp hb with h | h
    · exact hi128_bytes _ b h
    · simp at h; omega

end Snmp.Ber
