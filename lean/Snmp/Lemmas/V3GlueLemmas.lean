/-
  The glue of `Snmp.V3Glue` on what a conformant agent writes: an SNMPv3 message in any admissible
  definite length forms is taken apart into exactly the fields that were written.
-/
import Snmp.Model.V3Glue
import Snmp.Lemmas.SeqItems
namespace Snmp.V3Glue
open Snmp Snmp.Ber

theorem look :
    lookup 2 = ⟨"Integer", "int", true⟩ ∧ lookup 4 = ⟨"OctetString", "str", false⟩ ∧
    lookup 48 = ⟨"Sequence", "seq", false⟩ := by decide

/-- an INTEGER / OCTET STRING / SEQUENCE written in form `f` -/
def tInt (f : LenForm) (c : Bytes) : RawTlv := ⟨f, 2, c⟩
def tStr (f : LenForm) (c : Bytes) : RawTlv := ⟨f, 4, c⟩
def tSeq (f : LenForm) (c : Bytes) : RawTlv := ⟨f, 48, c⟩

theorem ok_of_form (f : LenForm) (t : Nat) (c : Bytes) (hf : f.ok c.length) (ht : t = 2 ∨ t = 4 ∨ t = 48) :
    (⟨f, t, c⟩ : RawTlv).ok := by
  obtain ⟨r2, r4, r48⟩ := look
  refine ⟨hf, ?_, ?_⟩
  · show t ≠ 255; omega
  · rcases ht with rfl | rfl | rfl
    · show Gen.noDefaultCtor.contains (lookup 2).name = false; rw [r2]; decide
    · show Gen.noDefaultCtor.contains (lookup 4).name = false; rw [r4]; decide
    · show Gen.noDefaultCtor.contains (lookup 48).name = false; rw [r48]; decide

/-- the six fields of a USM parameter block -/
structure ParamForms where
  fe : LenForm
  fb : LenForm
  ft : LenForm
  fu : LenForm
  fa : LenForm
  fp : LenForm

def paramItems (F : ParamForms) (p : UsmParams.Params) (boots time : Bytes) : List RawTlv :=
  [tStr F.fe p.engineId, tInt F.fb boots, tInt F.ft time, tStr F.fu p.user, tStr F.fa p.auth, tStr F.fp p.priv]

def ParamForms.ok (F : ParamForms) (p : UsmParams.Params) (boots time : Bytes) : Prop :=
  F.fe.ok p.engineId.length ∧ F.fb.ok boots.length ∧ F.ft.ok time.length ∧ F.fu.ok p.user.length ∧
  F.fa.ok p.auth.length ∧ F.fp.ok p.priv.length

/-- `USMSecurityParameters.decode` reads back what was written, in whatever length forms -/
theorem params_wire (f : LenForm) (F : ParamForms) (p : UsmParams.Params) (boots time : Bytes)
    (hF : F.ok p boots time) (hf : f.ok (rawBytes (paramItems F p boots time)).length)
    (hb : p.boots = intDecode true boots) (ht : p.time = intDecode true time) (fuel : Nat) (hfuel : 5 ≤ fuel) :
    UsmParams.ofBytes (Spec.tlv f 48 (rawBytes (paramItems F p boots time))) fuel = .ok p := by
  obtain ⟨r2, r4, r48⟩ := look
  obtain ⟨he, hbo, hti, hu, ha, hp⟩ := hF
  let c := rawBytes (paramItems F p boots time)
  let pre : Bytes := 48 :: specLength f c.length
  have hdata : Spec.tlv f 48 c = pre ++ c ++ [] := by simp [Spec.tlv, pre]
  have hdec := decodeAt_node f 48 c [] [] hf (by decide) (by rw [r48]; decide)
  have hdec' : decodeAt (Spec.tlv f 48 c) 0 = .ok (nodeAtLen f 48 c 0, (Spec.tlv f 48 c).length) := by
    have := hdec
    simp only [List.nil_append, List.append_nil, List.length_nil, Nat.zero_add] at this
    rw [this]; simp [nodeAtLen]
  have hoks : ∀ y ∈ paramItems F p boots time, y.ok := by
    intro y hy
    simp only [paramItems, List.mem_cons, List.not_mem_nil, or_false] at hy
    rcases hy with rfl | rfl | rfl | rfl | rfl | rfl
    · exact ok_of_form _ 4 _ he (by simp)
    · exact ok_of_form _ 2 _ hbo (by simp)
    · exact ok_of_form _ 2 _ hti (by simp)
    · exact ok_of_form _ 4 _ hu (by simp)
    · exact ok_of_form _ 4 _ ha (by simp)
    · exact ok_of_form _ 4 _ hp (by simp)
  let xs : List RawTlv := paramItems F p boots time
  have hitems := seqItems_raw (tStr F.fe p.engineId)
    [tInt F.fb boots, tInt F.ft time, tStr F.fu p.user, tStr F.fa p.auth, tStr F.fp p.priv] hoks pre [] fuel (by simp; omega)
  have hcont := rawNodes_content xs pre []
  have hent := rawNodes_entry xs pre.length
  have hpre : pre.length = 0 + 1 + (specLength f c.length).length := by simp [pre]; omega
  unfold UsmParams.ofBytes
  rw [hdec']
  simp only [UsmParams.lift, nodeAtLen, r48]
  have hinst : UsmParams.isInstance "Sequence" "Sequence" = true := by decide
  simp only [hinst, Bool.not_true, Bool.false_eq_true, ↓reduceIte]
  have hsl : seqItems (Spec.tlv f 48 c) ⟨0 + 1 + (specLength f c.length).length,
      ((0 + 1 + (specLength f c.length).length + c.length : Nat) : Int)⟩ fuel = .ok (rawNodes pre.length xs) := by
    rw [hdata, ← hpre]
    exact hitems
  rw [hsl]
  -- the six nodes, their classes and contents
  simp only [xs, paramItems, rawNodes, List.map_cons, List.map_nil, List.cons.injEq, and_true, tStr, tInt] at hcont hent ⊢
  obtain ⟨c1, c2, c3, c4, c5, c6⟩ := hcont
  obtain ⟨e1, e2, e3, e4, e5, e6⟩ := hent
  simp only [r2, r4] at e1 e2 e3 e4 e5 e6
  have hdata' : pre ++ rawBytes [(⟨F.fe, 4, p.engineId⟩ : RawTlv), ⟨F.fb, 2, boots⟩, ⟨F.ft, 2, time⟩, ⟨F.fu, 4, p.user⟩,
      ⟨F.fa, 4, p.auth⟩, ⟨F.fp, 4, p.priv⟩] ++ [] = Spec.tlv f 48 (rawBytes [(⟨F.fe, 4, p.engineId⟩ : RawTlv), ⟨F.fb, 2, boots⟩,
      ⟨F.ft, 2, time⟩, ⟨F.fu, 4, p.user⟩, ⟨F.fa, 4, p.auth⟩, ⟨F.fp, 4, p.priv⟩]) := hdata.symm
  rw [hdata'] at c1 c2 c3 c4 c5 c6
  generalize nodeAtLen F.fe 4 p.engineId (List.length pre) = n1 at *
  generalize nodeAtLen F.fb 2 boots _ = n2 at *
  generalize nodeAtLen F.ft 2 time _ = n3 at *
  generalize nodeAtLen F.fu 4 p.user _ = n4 at *
  generalize nodeAtLen F.fa 4 p.auth _ = n5 at *
  generalize nodeAtLen F.fp 4 p.priv _ = n6 at *
  have hcls : ([n1, n2, n3, n4, n5, n6].zip Gen.usmParamClasses).all (fun q => UsmParams.classOk q.2 q.1.entry.name) = true := by
    simp [Gen.usmParamClasses, UsmParams.classOk, Gen.usmParamExact, e1, e2, e3, e4, e5, e6]
  have hlen : ([n1, n2, n3, n4, n5, n6].length != Gen.usmParamClasses.length) = false := by
    simp [Gen.usmParamClasses]
  simp only [hcls, hlen, Bool.not_true, Bool.or_self, Bool.false_eq_true, ↓reduceIte, UsmParams.octets, UsmParams.integer,
    c1, c2, c3, c4, c5, c6, e2, e3]
  rw [← hb, ← ht]

/-! ### the whole message -/

structure MsgForms where
  f0 : LenForm   -- message
  fv : LenForm   -- msgVersion
  fh : LenForm   -- msgGlobalData
  fm : LenForm
  fs : LenForm
  fl : LenForm
  fo : LenForm
  fsp : LenForm  -- msgSecurityParameters (the OCTET STRING)
  fsi : LenForm  -- … and the SEQUENCE inside

/-- contents of msgVersion and of the four header fields -/
structure HdrC where
  ver : Bytes
  mid : Bytes
  mms : Bytes
  flg : Bytes
  mdl : Bytes

def hdrItems (G : MsgForms) (h : HdrC) : List RawTlv :=
  [tInt G.fm h.mid, tInt G.fs h.mms, tStr G.fl h.flg, tInt G.fo h.mdl]

def spBlock (G : MsgForms) (F : ParamForms) (p : UsmParams.Params) (boots time : Bytes) : Bytes :=
  Spec.tlv G.fsi 48 (rawBytes (paramItems F p boots time))

def msgItems (G : MsgForms) (F : ParamForms) (h : HdrC) (p : UsmParams.Params) (boots time : Bytes) (pl : RawTlv) : List RawTlv :=
  [tInt G.fv h.ver, tSeq G.fh (rawBytes (hdrItems G h)), tStr G.fsp (spBlock G F p boots time), pl]

/-- the datagram -/
def v3wire (G : MsgForms) (F : ParamForms) (h : HdrC) (p : UsmParams.Params) (boots time : Bytes) (pl : RawTlv) (trailing : Bytes) : Bytes :=
  Spec.tlv G.f0 48 (rawBytes (msgItems G F h p boots time pl)) ++ trailing

def MsgForms.ok (G : MsgForms) (F : ParamForms) (h : HdrC) (p : UsmParams.Params) (boots time : Bytes) (pl : RawTlv) : Prop :=
  G.f0.ok (rawBytes (msgItems G F h p boots time pl)).length ∧ G.fv.ok h.ver.length ∧
  G.fh.ok (rawBytes (hdrItems G h)).length ∧ G.fm.ok h.mid.length ∧ G.fs.ok h.mms.length ∧ G.fl.ok h.flg.length ∧
  G.fo.ok h.mdl.length ∧ G.fsp.ok (spBlock G F p boots time).length ∧
  G.fsi.ok (rawBytes (paramItems F p boots time)).length ∧ pl.ok

theorem forced_int (data : Bytes) (n : Node) (fuel : Nat) (h : n.entry.kind = "int") : forced data n fuel = .ok () := by
  unfold forced
  rw [show (8 : Nat) = 7 + 1 from rfl, readNode]
  simp [h]

/-- `obj[k]` on a SEQUENCE lying at offset `|P|`: the nodes of its items -/
theorem items_seq (f : LenForm) (x : RawTlv) (xs : List RawTlv) (P R : Bytes) (fuel : Nat)
    (hoks : ∀ y ∈ x :: xs, y.ok) (hfuel : xs.length ≤ fuel) :
    items (P ++ Spec.tlv f 48 (rawBytes (x :: xs)) ++ R) (nodeAtLen f 48 (rawBytes (x :: xs)) P.length) fuel
      = .ok (rawNodes (P ++ 48 :: specLength f (rawBytes (x :: xs)).length).length (x :: xs)) := by
  obtain ⟨_, _, r48⟩ := look
  unfold items
  have hk : (nodeAtLen f 48 (rawBytes (x :: xs)) P.length).entry.kind = "seq" := by simp [nodeAtLen, r48]
  simp only [hk, bne_self_eq_false, Bool.false_eq_true, ↓reduceIte]
  have hd : P ++ Spec.tlv f 48 (rawBytes (x :: xs)) ++ R
      = (P ++ 48 :: specLength f (rawBytes (x :: xs)).length) ++ rawBytes (x :: xs) ++ R := by
    simp [Spec.tlv]
  have hl : (P ++ 48 :: specLength f (rawBytes (x :: xs)).length).length = P.length + 1 + (specLength f (rawBytes (x :: xs)).length).length := by
    simp; omega
  have := seqItems_raw x xs hoks (P ++ 48 :: specLength f (rawBytes (x :: xs)).length) R fuel hfuel
  rw [hl] at this
  simp only [nodeAtLen]
  rw [hd, this, hl]

/-- the node of msgData in the datagram -/
def plNode (G : MsgForms) (F : ParamForms) (h : HdrC) (p : UsmParams.Params) (boots time : Bytes) (pl : RawTlv) : Node :=
  nodeAtLen pl.f pl.t pl.c ((48 :: specLength G.f0 (rawBytes (msgItems G F h p boots time pl)).length).length
    + (tInt G.fv h.ver).bytes.length + (tSeq G.fh (rawBytes (hdrItems G h))).bytes.length
    + (tStr G.fsp (spBlock G F p boots time)).bytes.length)

/-- **The fields read from the wire are the fields written**: an SNMPv3 message in any admissible
    length forms, with anything behind it, is taken apart into msgID, msgMaxSize, msgFlags,
    msgSecurityModel and the six USM parameters exactly as written; msgData is what `payloadOf`
    makes of its node (two lemmas below). -/
theorem v3OfBytes_wire (G : MsgForms) (F : ParamForms) (h : HdrC) (p : UsmParams.Params) (boots time : Bytes)
    (pl : RawTlv) (trailing : Bytes) (fuel : Nat) (dt : Nat) (dc : Bytes)
    (hok : G.ok F h p boots time pl) (hF : F.ok p boots time)
    (hb : p.boots = intDecode true boots) (ht : p.time = intDecode true time)
    (hpay : payloadOf (v3wire G F h p boots time pl trailing) (fromBE h.flg) (plNode G F h p boots time pl) fuel = .ok (dt, dc))
    (hfuel : 5 ≤ fuel) :
    v3OfBytes (v3wire G F h p boots time pl trailing) fuel =
      .ok ⟨intDecode true h.mid, intDecode true h.mms, fromBE h.flg, intDecode true h.mdl,
           p.engineId, p.boots, p.time, p.user, p.auth, p.priv, dt, dc⟩ := by
  obtain ⟨r2, r4, r48⟩ := look
  obtain ⟨h0, hv, hh, hm, hs, hl, ho, hsp, hsi, hpl⟩ := hok
  -- the four items of the message
  let I := msgItems G F h p boots time pl
  let c0 := rawBytes I
  let pre0 : Bytes := 48 :: specLength G.f0 c0.length
  have hoksI : ∀ y ∈ I, y.ok := by
    intro y hy
    simp only [I, msgItems, List.mem_cons, List.not_mem_nil, or_false] at hy
    rcases hy with rfl | rfl | rfl | rfl
    · exact ok_of_form _ 2 _ hv (by simp)
    · exact ok_of_form _ 48 _ hh (by simp)
    · exact ok_of_form _ 4 _ hsp (by simp)
    · exact hpl
  have hdec := decodeAt_node G.f0 48 c0 [] trailing h0 (by decide) (by rw [r48]; decide)
  have hdec' : decodeAt (v3wire G F h p boots time pl trailing) 0
      = .ok (nodeAtLen G.f0 48 c0 0, (Spec.tlv G.f0 48 c0).length) := by
    have := hdec
    simp only [List.nil_append, List.length_nil, Nat.zero_add] at this
    show decodeAt (Spec.tlv G.f0 48 c0 ++ trailing) 0 = _
    rw [this]; simp [nodeAtLen]
  have hitems0 := items_seq G.f0 (tInt G.fv h.ver)
    [tSeq G.fh (rawBytes (hdrItems G h)), tStr G.fsp (spBlock G F p boots time), pl] [] trailing fuel hoksI (by simp; omega)
  simp only [List.nil_append, List.length_nil] at hitems0
  -- the four items of the header
  let Pv : Bytes := pre0 ++ (tInt G.fv h.ver).bytes
  let Rh : Bytes := (tStr G.fsp (spBlock G F p boots time)).bytes ++ (pl.bytes ++ trailing)
  have hdataH : v3wire G F h p boots time pl trailing = Pv ++ Spec.tlv G.fh 48 (rawBytes (hdrItems G h)) ++ Rh := by
    simp [v3wire, msgItems, rawBytes, RawTlv.bytes, tSeq, tInt, tStr, Spec.tlv, Pv, Rh, pre0, c0, I, List.append_assoc]
  have hoksH : ∀ y ∈ hdrItems G h, y.ok := by
    intro y hy
    simp only [hdrItems, List.mem_cons, List.not_mem_nil, or_false] at hy
    rcases hy with rfl | rfl | rfl | rfl
    · exact ok_of_form _ 2 _ hm (by simp)
    · exact ok_of_form _ 2 _ hs (by simp)
    · exact ok_of_form _ 4 _ hl (by simp)
    · exact ok_of_form _ 2 _ ho (by simp)
  have hitemsH := items_seq G.fh (tInt G.fm h.mid) [tInt G.fs h.mms, tStr G.fl h.flg, tInt G.fo h.mdl] Pv Rh fuel hoksH (by simp; omega)
  have hdata0 : v3wire G F h p boots time pl trailing = pre0 ++ rawBytes I ++ trailing := by
    simp [v3wire, Spec.tlv, pre0, c0, I]
  have hc0 := rawNodes_content I pre0 trailing
  have he0 := rawNodes_entry I pre0.length
  have ht0 := rawNodes_tag I pre0.length
  have hcH := rawNodes_content (hdrItems G h) (Pv ++ 48 :: specLength G.fh (rawBytes (hdrItems G h)).length) Rh
  have heH := rawNodes_entry (hdrItems G h) (Pv ++ 48 :: specLength G.fh (rawBytes (hdrItems G h)).length).length
  have hpsp := params_wire G.fsi F p boots time hF hsi hb ht fuel hfuel
  unfold v3OfBytes
  rw [hdec']
  have hinst : UsmParams.isInstance (nodeAtLen G.f0 48 c0 0).entry.name "Sequence" = true := by
    simp [nodeAtLen, r48]; decide
  simp only [hinst, Bool.not_true, Bool.false_eq_true, ↓reduceIte]
  rw [show items (v3wire G F h p boots time pl trailing) (nodeAtLen G.f0 48 c0 0) fuel
        = .ok (rawNodes pre0.length I) from hitems0]
  -- expose the nodes
  rw [← hdata0] at hc0
  simp only [I, msgItems, rawNodes, List.map_cons, List.map_nil, List.cons.injEq, and_true, tStr, tInt, tSeq] at hc0 he0 ht0 ⊢
  obtain ⟨c1, c2, c3, c4⟩ := hc0
  obtain ⟨e1, e2, e3, e4⟩ := he0
  obtain ⟨t1, t2, t3, t4⟩ := ht0
  have hPv : Pv.length = pre0.length + ({ f := G.fv, t := 2, c := h.ver } : RawTlv).bytes.length := by
    simp [Pv, tInt]
  have hitemsH' : items (v3wire G F h p boots time pl trailing)
      (nodeAtLen G.fh 48 (rawBytes (hdrItems G h)) (pre0.length + ({ f := G.fv, t := 2, c := h.ver } : RawTlv).bytes.length)) fuel
      = .ok (rawNodes (Pv ++ 48 :: specLength G.fh (rawBytes (hdrItems G h)).length).length (hdrItems G h)) := by
    rw [hdataH, ← hPv]; exact hitemsH
  rw [hitemsH']
  -- message nodes
  have hm4 : nodeAtLen pl.f pl.t pl.c (pre0.length + ({ f := G.fv, t := 2, c := h.ver } : RawTlv).bytes.length
      + ({ f := G.fh, t := 48, c := rawBytes (hdrItems G h) } : RawTlv).bytes.length
      + ({ f := G.fsp, t := 4, c := spBlock G F p boots time } : RawTlv).bytes.length) = plNode G F h p boots time pl := rfl
  rw [hm4] at c4 e4 t4 ⊢
  generalize nodeAtLen G.fsp 4 (spBlock G F p boots time) _ = m3 at *
  have hdataH2 : v3wire G F h p boots time pl trailing
      = (Pv ++ 48 :: specLength G.fh (rawBytes (hdrItems G h)).length) ++ rawBytes (hdrItems G h) ++ Rh := by
    rw [hdataH]; simp [Spec.tlv]
  rw [← hdataH2] at hcH
  simp only [hdrItems, rawNodes, List.map_cons, List.map_nil, List.cons.injEq, and_true, tStr, tInt] at hcH heH ⊢
  obtain ⟨d1, d2, d3, d4⟩ := hcH
  obtain ⟨g1, g2, g3, g4⟩ := heH
  simp only [r2, r4, r48] at e1 e2 e3 g1 g2 g3 g4
  -- header nodes
  generalize nodeAtLen G.fm 2 h.mid _ = n1 at *
  generalize nodeAtLen G.fs 2 h.mms _ = n2 at *
  generalize nodeAtLen G.fl 4 h.flg _ = n3 at *
  generalize nodeAtLen G.fo 2 h.mdl _ = n4 at *
  have hoct : octetsOf (v3wire G F h p boots time pl trailing) n3 = some h.flg := by
    simp [octetsOf, g3, d3]; decide
  have hoctsp : octetsOf (v3wire G F h p boots time pl trailing) m3 = some (spBlock G F p boots time) := by
    simp [octetsOf, e3, c3]; decide
  have f1 := forced_int (v3wire G F h p boots time pl trailing) n1 fuel (by rw [g1])
  have f2 := forced_int (v3wire G F h p boots time pl trailing) n2 fuel (by rw [g2])
  have f4 := forced_int (v3wire G F h p boots time pl trailing) n4 fuel (by rw [g4])
  simp only [hoct, f1, f2, f4, hpay, hoctsp]
  rw [show spBlock G F p boots time = Spec.tlv G.fsi 48 (rawBytes (paramItems F p boots time)) from rfl, hpsp]
  simp only [intOf, g1, g2, g4, d1, d2, d4, beq_self_eq_true, ↓reduceIte]

/-- everything in front of msgData -/
def beforePl (G : MsgForms) (F : ParamForms) (h : HdrC) (p : UsmParams.Params) (boots time : Bytes) (pl : RawTlv) : Bytes :=
  (48 :: specLength G.f0 (rawBytes (msgItems G F h p boots time pl)).length) ++ (tInt G.fv h.ver).bytes
    ++ (tSeq G.fh (rawBytes (hdrItems G h))).bytes ++ (tStr G.fsp (spBlock G F p boots time)).bytes

theorem v3wire_pl (G : MsgForms) (F : ParamForms) (h : HdrC) (p : UsmParams.Params) (boots time : Bytes) (pl : RawTlv) (trailing : Bytes) :
    v3wire G F h p boots time pl trailing = beforePl G F h p boots time pl ++ Spec.tlv pl.f pl.t pl.c ++ trailing := by
  simp [v3wire, beforePl, msgItems, rawBytes, RawTlv.bytes, Spec.tlv, List.append_assoc]

theorem plNode_eq (G : MsgForms) (F : ParamForms) (h : HdrC) (p : UsmParams.Params) (boots time : Bytes) (pl : RawTlv) :
    plNode G F h p boots time pl = nodeAtLen pl.f pl.t pl.c (beforePl G F h p boots time pl).length := by
  simp only [plNode, beforePl, List.length_append, List.length_cons]

theorem plNode_content (G : MsgForms) (F : ParamForms) (h : HdrC) (p : UsmParams.Params) (boots time : Bytes) (pl : RawTlv) (trailing : Bytes) :
    (plNode G F h p boots time pl).content (v3wire G F h p boots time pl trailing) = pl.c := by
  rw [plNode_eq, v3wire_pl]
  exact nodeAtLen_content pl.f pl.t pl.c _ trailing

/-- msgData of a message with the priv flag set: kept as it is -/
theorem payload_priv (G : MsgForms) (F : ParamForms) (h : HdrC) (p : UsmParams.Params) (boots time : Bytes)
    (pl : RawTlv) (trailing : Bytes) (fuel : Nat) (flags : Nat) (hpriv : flags / 2 % 2 = 1) :
    payloadOf (v3wire G F h p boots time pl trailing) flags (plNode G F h p boots time pl) fuel
      = .ok (if UsmParams.isInstance (lookup pl.t).name "OctetString" then 4 else pl.t, pl.c) := by
  unfold payloadOf
  have hp' : (flags / 2 % 2 == 1) = true := by simp [hpriv]
  simp only [hp', ↓reduceIte, plNode_content]
  rfl

/-- msgData of a plain message — a SEQUENCE of context engine id, context name and a PDU, each in any
    form: the strict reader is given the three of them with minimal length octets -/
theorem payload_plain (G : MsgForms) (F : ParamForms) (h : HdrC) (p : UsmParams.Params) (boots time : Bytes)
    (fpl : LenForm) (ce cn pdu : RawTlv) (trailing : Bytes) (fuel : Nat) (flags : Nat)
    (hplain : flags / 2 % 2 = 0) (hoks : ∀ y ∈ [ce, cn, pdu], y.ok) (hfuel : 2 ≤ fuel) :
    payloadOf (v3wire G F h p boots time (tSeq fpl (rawBytes [ce, cn, pdu])) trailing) flags
        (plNode G F h p boots time (tSeq fpl (rawBytes [ce, cn, pdu]))) fuel
      = .ok (48, Ber.tlv 4 ce.c ++ Ber.tlv 4 cn.c ++ Ber.tlv pdu.t pdu.c) := by
  obtain ⟨_, _, r48⟩ := look
  unfold payloadOf
  have hp' : (flags / 2 % 2 == 1) = false := by simp [hplain]
  have hent : (plNode G F h p boots time (tSeq fpl (rawBytes [ce, cn, pdu]))).entry.name = "Sequence" := by
    simp [plNode, nodeAtLen, tSeq, r48]
  have hnot : UsmParams.isInstance "Sequence" "OctetString" = false := by decide
  simp only [hp', Bool.false_eq_true, ↓reduceIte, hent, hnot]
  have hw := v3wire_pl G F h p boots time (tSeq fpl (rawBytes [ce, cn, pdu])) trailing
  have hn := plNode_eq G F h p boots time (tSeq fpl (rawBytes [ce, cn, pdu]))
  rw [hn, hw]
  simp only [tSeq]
  generalize beforePl G F h p boots time { f := fpl, t := 48, c := rawBytes [ce, cn, pdu] } = B
  have hitems := items_seq fpl ce [cn, pdu] B trailing fuel hoks (by simp; omega)
  rw [hitems]
  have hcont := rawNodes_content [ce, cn, pdu] (B ++ 48 :: specLength fpl (rawBytes [ce, cn, pdu]).length) trailing
  have htag := rawNodes_tag [ce, cn, pdu] (B ++ 48 :: specLength fpl (rawBytes [ce, cn, pdu]).length).length
  have hd2 : B ++ Spec.tlv fpl 48 (rawBytes [ce, cn, pdu]) ++ trailing
      = (B ++ 48 :: specLength fpl (rawBytes [ce, cn, pdu]).length) ++ rawBytes [ce, cn, pdu] ++ trailing := by
    simp [Spec.tlv]
  rw [← hd2] at hcont
  simp only [rawNodes, List.map_cons, List.map_nil, List.cons.injEq, and_true] at hcont htag ⊢
  obtain ⟨k1, k2, k3⟩ := hcont
  obtain ⟨_, _, q3⟩ := htag
  simp only [tlvOf, k1, k2, k3, q3]
  rfl

end Snmp.V3Glue
