/-
  Values, bindings and PDUs written by the x690 mirror are read back by the specification
  reader.
-/
import Snmp.Lemmas.SpecLemmas
namespace Snmp.Spec
open Snmp.Ber

theorem Small.mono {a b : Nat} (h : a ≤ b) (hb : Small b) : Small a := Nat.lt_of_le_of_lt h hb

theorem tag_facts :
    tagOf "Integer" = 2 ∧ tagOf "OctetString" = 4 ∧ tagOf "ObjectIdentifier" = 6 ∧ tagOf "IpAddress" = 64 ∧
    tagOf "Counter" = 65 ∧ tagOf "Gauge" = 66 ∧ tagOf "TimeTicks" = 67 ∧ tagOf "Opaque" = 68 ∧
    tagOf "NsapAddress" = 69 ∧ tagOf "Counter64" = 70 ∧ tagOf "Sequence" = 48 := by decide

theorem pdu_tag_facts :
    tagOf "GetRequest" = 160 ∧ tagOf "GetNextRequest" = 161 ∧ tagOf "GetResponse" = 162 ∧
    tagOf "SetRequest" = 163 ∧ tagOf "BulkGetRequest" = 165 ∧ tagOf "InformRequest" = 166 ∧
    tagOf "Trap" = 167 ∧ tagOf "Report" = 168 := by decide

/-- the values a caller can put into a SET request (or NULL placeholders) -/
def SetVal : Val → Prop
  | .int _ | .counter32 _ | .gauge32 _ | .ticks _ | .counter64 _ | .nsap _ | .null => True
  | .str b | .ip b | .opaque b => Small b.length
  | .oid o => OidDom o
  | _ => False

/-- an encoded value is one x690-style TLV whose tag and content the reader maps back to the value -/
theorem encodeVal_read (v : Val) (hv : SetVal v) (hs : ∀ bs, encodeVal v = some bs → Small bs.length) :
    ∃ t c, encodeVal v = some (Ber.tlv t c) ∧ Small c.length ∧ readVal t c = some v := by
  have hsm : ∀ t c, encodeVal v = some (Ber.tlv t c) → Small c.length := fun t c h =>
    Small.mono (Nat.le_of_lt (tlv_length t c)) (hs _ h)
  obtain ⟨h2, h4, h6, h64, h65, h66, h67, h68, h69, h70, _⟩ := tag_facts
  cases v with
  | int x => exact ⟨2, intEncode x, by simp [encodeVal, h2], hsm 2 _ (by simp [encodeVal, h2]), by simp [readVal, readInt_intEncode]⟩
  | str b => exact ⟨4, b, by simp [encodeVal, h4], hv, by simp [readVal]⟩
  | null => exact ⟨5, [], by simp [encodeVal, Ber.tlv, encodeLength], by simp [Small], by simp [readVal]⟩
  | oid o =>
    rcases readOid_oidEncode o hv with ⟨bs, he, hr⟩
    exact ⟨6, bs, by simp [encodeVal, he, h6], hsm 6 bs (by simp [encodeVal, he, h6]), by simp [readVal, hr]⟩
  | ip b => exact ⟨64, b, by simp [encodeVal, h64], hv, by simp [readVal]⟩
  | counter32 x => exact ⟨65, intEncode x, by simp [encodeVal, h65], hsm 65 _ (by simp [encodeVal, h65]), by simp [readVal, readInt_intEncode]⟩
  | gauge32 x => exact ⟨66, intEncode x, by simp [encodeVal, h66], hsm 66 _ (by simp [encodeVal, h66]), by simp [readVal, readInt_intEncode]⟩
  | ticks x => exact ⟨67, intEncode x, by simp [encodeVal, h67], hsm 67 _ (by simp [encodeVal, h67]), by simp [readVal, readInt_intEncode]⟩
  | «opaque» b => exact ⟨68, b, by simp [encodeVal, h68], hv, by simp [readVal]⟩
  | nsap x => exact ⟨69, intEncode x, by simp [encodeVal, h69], hsm 69 _ (by simp [encodeVal, h69]), by simp [readVal, readInt_intEncode]⟩
  | counter64 x => exact ⟨70, intEncode x, by simp [encodeVal, h70], hsm 70 _ (by simp [encodeVal, h70]), by simp [readVal, readInt_intEncode]⟩
  | noSuchObject => exact absurd hv (by simp [SetVal])
  | noSuchInstance => exact absurd hv (by simp [SetVal])
  | endOfMibView => exact absurd hv (by simp [SetVal])
  | unknown t b => exact absurd hv (by simp [SetVal])

theorem encodeVal_isSome (v : Val) (hv : SetVal v) : ∃ bs, encodeVal v = some bs := by
  cases v with
  | oid o =>
    rcases readOid_oidEncode o hv with ⟨bs, hb, _⟩
    exact ⟨_, by simp only [encodeVal, hb, Option.map_some]; rfl⟩
  | noSuchObject => exact absurd hv (by simp [SetVal])
  | noSuchInstance => exact absurd hv (by simp [SetVal])
  | endOfMibView => exact absurd hv (by simp [SetVal])
  | unknown t b => exact absurd hv (by simp [SetVal])
  | _ => exact ⟨_, by simp only [encodeVal]; rfl⟩

def BindOk (vb : VarBind) : Prop := OidDom vb.1 ∧ SetVal vb.2

/-- a binding is a SEQUENCE of the OID and the value -/
theorem encodeVarBind_read (vb : VarBind) (hv : BindOk vb)
    (hs : ∀ bs, encodeVarBind vb = some bs → Small bs.length) :
    ∃ c, encodeVarBind vb = some (Ber.tlv 48 c) ∧ Small c.length ∧ readVarBind (48, c) = some vb := by
  obtain ⟨h2, h4, h6, h64, h65, h66, h67, h68, h69, h70, h48⟩ := tag_facts
  rcases readOid_oidEncode vb.1 hv.1 with ⟨ob, he, hr⟩
  -- sizes
  have hval : ∃ vbs, encodeVal vb.2 = some vbs := encodeVal_isSome vb.2 hv.2
  rcases hval with ⟨vbytes, hvb⟩
  have henc : encodeVarBind vb = some (Ber.tlv 48 (Ber.tlv 6 ob ++ vbytes)) := by
    simp [encodeVarBind, he, hvb, h6, h48]
  have hsmall := hs _ henc
  have hc : Small (Ber.tlv 6 ob ++ vbytes).length := Small.mono (Nat.le_of_lt (tlv_length 48 _)) hsmall
  have hvs : ∀ bs, encodeVal vb.2 = some bs → Small bs.length := by
    intro bs hb
    rw [hvb] at hb; cases hb
    exact Small.mono (by simp) hc
  rcases encodeVal_read vb.2 hv.2 hvs with ⟨t, c, hvt, hcs, hrv⟩
  have hvbytes : vbytes = Ber.tlv t c := by rw [hvb] at hvt; exact Option.some.inj hvt
  have hob : Small ob.length := Small.mono (by simp [Ber.tlv]; omega) hc
  refine ⟨_, henc, hc, ?_⟩
  unfold readVarBind
  simp only [ne_eq, not_true_eq_false, ↓reduceIte]
  have hseq : readSeq (Ber.tlv 6 ob ++ vbytes) = some [(6, ob), (t, c)] := by
    have := readSeq_concat [(6, ob), (t, c)] (by
      intro p hp; simp at hp; rcases hp with rfl | rfl
      · exact hob
      · exact hcs)
    simpa [hvbytes] using this
  rw [hseq]
  simp [hr, hrv]

end Snmp.Spec

namespace Snmp.Spec
open Snmp.Ber

theorem length_le_flatten_of_mem {l : List Bytes} {x : Bytes} (h : x ∈ l) : x.length ≤ l.flatten.length := by
  induction l with
  | nil => cases h
  | cons y l ih =>
    simp only [List.flatten_cons, List.length_append]
    rcases List.mem_cons.mp h with rfl | h
    · omega
    · have := ih h; omega

theorem mapM_isSome {α β} (f : α → Option β) (l : List α) (h : ∀ w ∈ l, ∃ b, f w = some b) :
    ∃ items, l.mapM f = some items := by
  induction l with
  | nil => exact ⟨[], by simp⟩
  | cons w ws ih =>
    rcases h w (by simp) with ⟨bw, hbw⟩
    rcases ih (fun x hx => h x (by simp [hx])) with ⟨its, hits⟩
    exact ⟨bw :: its, by simp [List.mapM_cons, hbw, hits]⟩

/-- the encoded bindings are TLVs with tag 48 whose contents the reader maps back, in order -/
theorem mapM_encodeVarBind (vbs : List VarBind) (hv : ∀ vb ∈ vbs, BindOk vb)
    (hs : ∀ items, vbs.mapM encodeVarBind = some items → Small items.flatten.length) :
    ∃ cs : List Bytes, vbs.mapM encodeVarBind = some (cs.map (Ber.tlv 48)) ∧
      (∀ c ∈ cs, Small c.length) ∧ cs.mapM (fun c => readVarBind (48, c)) = some vbs := by
  induction vbs with
  | nil => exact ⟨[], by simp, by simp, by simp⟩
  | cons vb vbs ih =>
    -- every single binding encodes
    have hsome : ∀ w ∈ vb :: vbs, ∃ bs, encodeVarBind w = some bs := by
      intro w hw
      have hb := hv w hw
      rcases readOid_oidEncode w.1 hb.1 with ⟨ob, he, _⟩
      rcases encodeVal_isSome w.2 hb.2 with ⟨vb', hvb'⟩
      exact ⟨_, by simp only [encodeVarBind, he, hvb', Option.bind_eq_bind, Option.bind_some]; rfl⟩
    have hall : ∃ items, (vb :: vbs).mapM encodeVarBind = some items := mapM_isSome _ _ hsome
    rcases hall with ⟨items, hitems⟩
    have hsmall := hs items hitems
    rcases hsome vb (by simp) with ⟨b0, hb0⟩
    have htail : ∃ its, vbs.mapM encodeVarBind = some its ∧ items = b0 :: its := by
      simp only [List.mapM_cons, hb0, Option.bind_eq_bind, Option.bind_some] at hitems
      cases hm : vbs.mapM encodeVarBind with
      | none => simp [hm] at hitems
      | some its => simp [hm] at hitems; exact ⟨its, rfl, hitems.symm⟩
    rcases htail with ⟨its, hits, rfl⟩
    have hb0s : Small b0.length := Small.mono (length_le_flatten_of_mem (by simp)) hsmall
    rcases encodeVarBind_read vb (hv vb (by simp)) (fun bs hb => by rw [hb0] at hb; cases hb; exact hb0s) with ⟨c, hc, hcs, hrc⟩
    rcases ih (fun w hw => hv w (by simp [hw])) (fun its' h' => by
      rw [hits] at h'; cases h'
      exact Small.mono (by simp) hsmall) with ⟨cs, hcs1, hcs2, hcs3⟩
    refine ⟨c :: cs, ?_, ?_, ?_⟩
    · simp [List.mapM_cons, hc, hcs1]
    · intro x hx; rcases List.mem_cons.mp hx with rfl | hx
      · exact hcs
      · exact hcs2 x hx
    · simp [List.mapM_cons, hrc, hcs3]

/-- the binding list of a PDU is read back -/
theorem encodeVarBinds_read (vbs : List VarBind) (hv : ∀ vb ∈ vbs, BindOk vb)
    (hs : ∀ bs, encodeVarBinds vbs = some bs → Small bs.length) :
    ∃ c, encodeVarBinds vbs = some (Ber.tlv 48 c) ∧ Small c.length ∧
      ∃ items, readSeq c = some items ∧ items.mapM readVarBind = some vbs := by
  obtain ⟨_, _, _, _, _, _, _, _, _, _, h48⟩ := tag_facts
  have hitems : ∀ items, vbs.mapM encodeVarBind = some items → Small items.flatten.length := by
    intro items hi
    have := hs (Ber.tlv 48 items.flatten) (by simp [encodeVarBinds, hi, h48])
    exact Small.mono (Nat.le_of_lt (tlv_length 48 _)) this
  rcases mapM_encodeVarBind vbs hv hitems with ⟨cs, h1, h2, h3⟩
  refine ⟨(cs.map (Ber.tlv 48)).flatten, by simp [encodeVarBinds, h1, h48], hitems _ h1, cs.map (fun c => (48, c)), ?_, ?_⟩
  · have := readSeq_concat (cs.map fun c => (48, c)) (by
      intro p hp; simp at hp; rcases hp with ⟨c, hc, rfl⟩; exact h2 c hc)
    have hcomp : ((fun p : Nat × Bytes => Ber.tlv p.1 p.2) ∘ fun c => (48, c)) = Ber.tlv 48 := rfl
    rw [List.map_map, hcomp] at this
    exact this
  · rw [List.mapM_map]; exact h3

end Snmp.Spec
