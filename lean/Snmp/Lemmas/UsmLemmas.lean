/-
  Structural lemmas about `Snmp.Usm.generate` / `extractScoped` shared by C10 and C11.
-/
import Snmp.Model.Usm
namespace Snmp.Usm
open Snmp.Ber

theorem generate_some (cr : Crypto) (c : Creds) (d : Disco) (ce cn : Bytes) (r : Ops.PduReq)
    (p : Emit.V3Params) (md dg : Bytes) (h : generate cr c d ce cn r = some (p, md, dg)) :
    ∃ spdu, Emit.scopedBytes (baseParams c d ce cn r) r = some spdu ∧
      md = (encryptStep cr c d (baseParams c d ce cn r) spdu).2 ∧
      p = authStep cr c d (encryptStep cr c d (baseParams c d ce cn r) spdu).1 md ∧ dg = Emit.v3Around p md := by
  unfold generate at h
  cases hs : Emit.scopedBytes (baseParams c d ce cn r) r with
  | none => simp [hs] at h
  | some spdu =>
    simp only [hs, Option.map_some, Option.some.injEq, Prod.mk.injEq] at h
    obtain ⟨h1, h2, h3⟩ := h
    exact ⟨spdu, rfl, h2.symm, by rw [← h1, ← h2], by rw [← h3, ← h1, ← h2]⟩

/-- with privacy: the payload of an authentic encrypted response is recovered whenever the
    plug-in's decrypt inverts its encrypt -/
theorem payload_priv (cr : Crypto) (c : Creds) (pp : Bytes) (hc : c.priv = some pp) (m : Spec.V3Msg)
    (s : Spec.ScopedPdu) (plain sc rest : Bytes) (hflag : privFlag m = true) (htag : m.dataTag = 4)
    (hdec : cr.dec (cr.loc pp m.engineId) m.engineId m.boots m.time m.privParams m.data = some plain)
    (hparse : Spec.readTLV plain = some (48, sc, rest)) (hs : Spec.readScoped sc = some s) :
    extractScoped cr c m = .ok s := by
  unfold extractScoped
  simp [htag, hflag, hc, hdec, hparse, hs]


end Snmp.Usm
