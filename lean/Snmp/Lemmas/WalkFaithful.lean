/-
  Theorems about the Python-faithful walk model `Snmp.Walk.multiwalk` itself (the model the
  correspondence suites compare with the real `Client.multiwalk`): independence of the listing
  order of the roots, and — for ANY fetcher, conformant or not — every yielded binding lies inside
  a requested root and no OID is yielded twice.
-/
import Snmp.Model.Walk
namespace Snmp.Walk

theorem oidLe_iff (a b : Oid) : oidLe a b = true ↔ a ≤ b := by
  unfold oidLe
  simp [List.not_lt]

theorem oidLe_trans (a b c : Oid) (h1 : oidLe a b = true) (h2 : oidLe b c = true) : oidLe a c = true := by
  rw [oidLe_iff] at *
  exact List.le_trans h1 h2

theorem oidLe_total (a b : Oid) : (oidLe a b || oidLe b a) = true := by
  rcases List.le_total a b with h | h
  · simp [(oidLe_iff a b).mpr h]
  · simp [(oidLe_iff b a).mpr h]

theorem oidLe_antisymm (a b : Oid) (h1 : oidLe a b = true) (h2 : oidLe b a = true) : a = b := by
  rw [oidLe_iff] at *
  exact List.le_antisymm h1 h2

/-- `sorted(oids)` does not depend on the order in which the roots were listed -/
theorem sortOids_perm (l l' : List Oid) (h : l'.Perm l) : sortOids l' = sortOids l := by
  unfold sortOids
  apply List.Perm.eq_of_pairwise (le := fun a b => oidLe a b = true)
  · intro a b _ _ hab hba; exact oidLe_antisymm a b hab hba
  · exact List.pairwise_mergeSort oidLe_trans oidLe_total l'
  · exact List.pairwise_mergeSort oidLe_trans oidLe_total l
  · exact ((List.mergeSort_perm l' oidLe).trans h).trans (List.mergeSort_perm l oidLe).symm

/-- the whole walk — requests, yields, outcome — is the same for every listing order -/
theorem multiwalk_perm (fetch : Fetcher) (roots roots' : List Oid) (h : roots'.Perm roots) (lenient : Bool) (fuel : Nat) :
    multiwalk fetch roots' lenient fuel = multiwalk fetch roots lenient fuel := by
  unfold multiwalk
  rw [sortOids_perm roots roots' h]

/-! ### what `deduped_varbinds` lets through -/

def yieldOids (evs : List Event) : List Oid :=
  evs.filterMap fun | .yield vb => some vb.1 | _ => none

theorem yieldOids_append (a b : List Event) : yieldOids (a ++ b) = yieldOids a ++ yieldOids b := by
  simp [yieldOids, List.filterMap_append]

theorem yieldOids_map_yield (ys : List VarBind) : yieldOids (ys.map Event.yield) = ys.map (·.1) := by
  induction ys with
  | nil => rfl
  | cons y ys ih => simp [yieldOids] at ih ⊢; exact ih

theorem yieldOids_req (o : List Oid) : yieldOids [Event.req o] = [] := rfl

/-- the invariant: what has been yielded so far is exactly the `yielded` set, without repetition,
    and every element lies inside a requested root -/
def Good (roots : List Oid) (yielded : List Oid) : Prop :=
  yielded.Nodup ∧ ∀ y ∈ yielded, ∃ r ∈ roots, inside r y = true

theorem deduped_fold (roots : List Oid) (vbs : List VarBind) (acc : List VarBind × List Oid)
    (hg : Good roots acc.2) :
    let r := vbs.foldl (fun (acc : List VarBind × List Oid) vb =>
      if roots.any (fun r => inside r vb.1) && !acc.2.contains vb.1 then (acc.1 ++ [vb], acc.2 ++ [vb.1]) else acc) acc
    Good roots r.2 ∧ ∃ new : List VarBind, r.1 = acc.1 ++ new ∧ r.2 = acc.2 ++ new.map (·.1) := by
  induction vbs generalizing acc with
  | nil => exact ⟨hg, [], by simp, by simp⟩
  | cons vb vbs ih =>
    simp only [List.foldl_cons]
    by_cases hc : (roots.any (fun r => inside r vb.1) && !acc.2.contains vb.1) = true
    · simp only [hc, ↓reduceIte]
      have hin : ∃ r ∈ roots, inside r vb.1 = true := by
        simp only [Bool.and_eq_true, List.any_eq_true] at hc
        exact hc.1
      have hnot : vb.1 ∉ acc.2 := by
        simp only [Bool.and_eq_true, Bool.not_eq_true', List.contains_eq_mem, decide_eq_false_iff_not] at hc
        exact hc.2
      have hg' : Good roots (acc.2 ++ [vb.1]) := by
        refine ⟨?_, ?_⟩
        · rw [List.nodup_append]
          refine ⟨hg.1, by simp, ?_⟩
          intro a ha b hb
          simp only [List.mem_singleton] at hb
          subst hb
          intro hab; subst hab; exact hnot ha
        · intro y hy
          rcases List.mem_append.mp hy with h | h
          · exact hg.2 y h
          · simp only [List.mem_singleton] at h; subst h; exact hin
      rcases ih (acc.1 ++ [vb], acc.2 ++ [vb.1]) hg' with ⟨h1, new, h2, h3⟩
      refine ⟨h1, vb :: new, ?_, ?_⟩
      · rw [h2]; simp
      · rw [h3]; simp
    · simp only [hc, Bool.false_eq_true, ↓reduceIte]
      exact ih acc hg

/-- `deduped_varbinds`: what it yields is appended to the `yielded` set, which stays duplicate
    free and inside the roots -/
theorem deduped_good (roots : List Oid) (g : Groups) (yielded : List Oid) (hg : Good roots yielded) :
    Good roots (deduped roots g yielded).2 ∧
    (deduped roots g yielded).2 = yielded ++ (deduped roots g yielded).1.map (·.1) := by
  unfold deduped
  have := deduped_fold roots ((g.map (·.2)).mergeSort groupLe).flatten ([], yielded) hg
  rcases this with ⟨h1, new, h2, h3⟩
  refine ⟨h1, ?_⟩
  simp only [List.nil_append] at h2
  rw [h3, h2]

/-- the `while unfinished_oids:` loop keeps the invariant, whatever the fetcher answers -/
theorem loop_good (fetch : Fetcher) (roots : List Oid) (lenient : Bool) :
    ∀ (fuel : Nat) (unf : List (Oid × VarBind)) (yielded : List Oid) (ev : List Event),
      Good roots yielded → yieldOids ev = yielded →
      Good roots (yieldOids (loop fetch roots lenient fuel unf yielded ev).events) := by
  intro fuel
  induction fuel with
  | zero =>
    intro unf yielded ev hg he
    unfold loop
    split <;> (simp only; rw [he]; exact hg)
  | succ fuel ih =>
    intro unf yielded ev hg he
    unfold loop
    by_cases hu : unf.isEmpty = true
    · simp only [hu, ↓reduceIte]; rw [he]; exact hg
    · simp only [hu, Bool.false_eq_true, ↓reduceIte]
      have hev : yieldOids (ev ++ [Event.req (unf.map (·.2.1))]) = yielded := by
        rw [yieldOids_append, he, yieldOids_req]; simp
      cases hf : fetch (unf.map (·.2.1)) with
      | error e =>
        simp only [hf]
        split
        · simp only; rw [hev]; exact hg
        · split <;> (simp only; rw [hev]; exact hg)
      | ok vbs =>
        simp only [hf]
        cases hgv : groupVarbinds vbs (unf.map (·.2.1)) roots with
        | error e => simp only [hgv]; rw [hev]; exact hg
        | ok g =>
          simp only [hgv]
          have hd := deduped_good roots g yielded hg
          apply ih _ _ _ hd.1
          rw [yieldOids_append, hev, yieldOids_map_yield]
          exact hd.2.symm

/-- **Soundness and exactly-once for any agent.**  Whatever the fetcher returns — conformant,
    truncating, lying — every binding the walk yields lies inside one of the requested roots and
    no OID is yielded twice. -/
theorem multiwalk_good (fetch : Fetcher) (roots : List Oid) (lenient : Bool) (fuel : Nat) :
    Good (sortOids roots) (yieldOids (multiwalk fetch roots lenient fuel).events) := by
  unfold multiwalk
  have hg0 : Good (sortOids roots) [] := ⟨List.nodup_nil, by intro y hy; cases hy⟩
  cases hf : fetch (sortOids roots) with
  | error e =>
    simp only [hf]
    split <;> (simp only [yieldOids_req]; exact hg0)
  | ok vbs =>
    simp only [hf]
    cases hgv : groupVarbinds vbs (sortOids roots) [] with
    | error e => simp only [hgv, yieldOids_req]; exact hg0
    | ok g =>
      simp only [hgv]
      have hd := deduped_good (sortOids roots) g [] hg0
      apply loop_good fetch (sortOids roots) lenient fuel _ _ _ hd.1
      rw [yieldOids_append, yieldOids_req, yieldOids_map_yield]
      simpa using hd.2.symm

end Snmp.Walk
