/-
  `Integer.encode_raw` / `decode_raw`: the encoder's loop invariant and the round trip.
-/
import Snmp.Lemmas.BerLemmas
namespace Snmp.Ber

def uLE : Bytes → Nat
  | [] => 0
  | x :: xs => x + 256 * uLE xs

theorem fromBE_reverse (L : Bytes) : fromBE L.reverse = uLE L := by
  induction L with
  | nil => simp [fromBE, uLE]
  | cons x xs ih =>
    simp only [List.reverse_cons, uLE, fromBE, List.foldl_append, List.foldl_cons, List.foldl_nil]
    simp only [fromBE] at ih
    rw [ih]; omega

theorem fromBE_lt (bs : Bytes) (h : ∀ b ∈ bs, b < 256) : fromBE bs < 256 ^ bs.length := by
  induction bs with
  | nil => simp [fromBE]
  | cons b rest ih =>
    rw [fromBE_cons]
    have hr := ih (fun x hx => h x (List.mem_cons_of_mem _ hx))
    have hb := h b (by simp)
    simp only [List.length_cons]
    have h1 : b * 256 ^ rest.length + fromBE rest < (b + 1) * 256 ^ rest.length := by
      rw [Nat.add_mul]; omega
    have h2 : (b + 1) * 256 ^ rest.length ≤ 256 * 256 ^ rest.length := Nat.mul_le_mul_right _ (by omega)
    have h3 : 256 * 256 ^ rest.length = 256 ^ (rest.length + 1) := by rw [Nat.pow_succ]; omega
    omega

/-- signed reading of a big-endian octet string (two's complement, X.690 8.3) -/
def sval (bs : Bytes) : Int := intDecode true bs

theorem sval_cons (b : Nat) (rest : Bytes) :
    sval (b :: rest) = if b < 128 then (fromBE (b :: rest) : Int) else (fromBE (b :: rest) : Int) - (256 : Int) ^ (rest.length + 1) := by
  unfold sval intDecode
  by_cases h : b < 128
  · have : ¬ 128 ≤ b := by omega
    simp [h, this]
  · have : 128 ≤ b := by omega
    simp [h, this]

theorem intStrip_val : ∀ (bs : Bytes), (∀ b ∈ bs, b < 256) → sval (intStrip bs) = sval bs
  | [], _ => by simp [intStrip]
  | [a], _ => by simp [intStrip]
  | a :: b :: rest, h => by
    unfold intStrip
    split
    · rename_i hc
      rw [intStrip_val (b :: rest) (fun x hx => h x (List.mem_cons_of_mem _ hx))]
      rcases hc with ⟨rfl, hb⟩ | ⟨rfl, hb⟩
      · simp [sval_cons, hb, fromBE_cons]
      · have hnb : ¬ b < 128 := by omega
        have h255 : ¬ (255 : Nat) < 128 := by omega
        simp only [sval_cons, hnb, h255, ↓reduceIte, fromBE_cons, List.length_cons]
        have e : (256 : Int) ^ (rest.length + 1 + 1) = 256 * 256 ^ (rest.length + 1) := by
          rw [Int.pow_succ]; omega
        rw [e]
        generalize b * 256 ^ rest.length + fromBE rest = X
        rw [Int.natCast_add, Int.natCast_mul, Int.natCast_pow]
        show (X : Int) - (256 : Int) ^ (rest.length + 1) =
          ((255 : Nat) : Int) * ((256 : Nat) : Int) ^ (rest.length + 1) + (X : Int) - 256 * (256 : Int) ^ (rest.length + 1)
        have : ((256 : Nat) : Int) = 256 := rfl
        rw [this]
        generalize (256 : Int) ^ (rest.length + 1) = P
        omega
    · rfl

theorem intStrip_bytes : ∀ (bs : Bytes), (∀ b ∈ bs, b < 256) → ∀ b ∈ intStrip bs, b < 256
  | [], _ => by simp [intStrip]
  | [a], h => by simpa [intStrip] using h
  | a :: b :: rest, h => by
    unfold intStrip
    split
    · exact intStrip_bytes (b :: rest) (fun x hx => h x (List.mem_cons_of_mem _ hx))
    · exact h

theorem intStrip_ne_nil : ∀ (bs : Bytes), bs ≠ [] → intStrip bs ≠ []
  | [], h => absurd rfl h
  | [a], _ => by simp [intStrip]
  | a :: b :: rest, _ => by
    unfold intStrip
    split
    · exact intStrip_ne_nil (b :: rest) (by simp)
    · simp

theorem intLE_ne_nil (v : Int) : intLE v ≠ [] := by simp [intLE]

theorem intLE_unfold (r : Int) (h : ¬ (r = 0 ∨ r = -1)) :
    intLE r = (r % 256).toNat :: intLE (r / 256) := by
  simp only [intLE]
  rw [intLoop]
  simp [h]

/-- main invariant of the encoding loop, in little-endian form -/
theorem intLE_spec (v : Int) :
    (∀ b ∈ intLE v, b < 256) ∧
    (0 ≤ v → (uLE (intLE v) : Int) = v ∧ (intLE v).getLast (intLE_ne_nil v) < 128) ∧
    (v < 0 → (uLE (intLE v) : Int) = v + 256 ^ (intLE v).length ∧ (intLE v).getLast (intLE_ne_nil v) = 255) := by
  induction h : v.natAbs using Nat.strongRecOn generalizing v with
  | _ n ih =>
    by_cases hb : v = 0 ∨ v = -1
    · rcases hb with rfl | rfl
      · simp [intLE, intLoop, uLE]
      · simp [intLE, intLoop, uLE]
    · have hu := intLE_unfold v hb
      have := ih (v / 256).natAbs (by omega) (v / 256) rfl
      obtain ⟨hb', hpos, hneg⟩ := this
      have hne := intLE_ne_nil (v / 256)
      have hlast : (intLE v).getLast (intLE_ne_nil v) = (intLE (v / 256)).getLast hne := by
        simp only [hu]; exact List.getLast_cons hne
      refine ⟨?_, ?_, ?_⟩
      · intro b hbm; rw [hu] at hbm
        rcases List.mem_cons.mp hbm with rfl | hbm
        · omega
        · exact hb' b hbm
      · intro hv
        have hv' : 0 ≤ v / 256 := by omega
        obtain ⟨h1, h2⟩ := hpos hv'
        refine ⟨?_, by rw [hlast]; exact h2⟩
        rw [hu]; simp only [uLE]
        rw [Int.natCast_add, Int.natCast_mul, h1, Int.toNat_of_nonneg (by omega)]
        show v % 256 + 256 * (v / 256) = v
        omega
      · intro hv
        have hv' : v / 256 < 0 := by omega
        obtain ⟨h1, h2⟩ := hneg hv'
        refine ⟨?_, by rw [hlast]; exact h2⟩
        rw [hu]; simp only [uLE, List.length_cons]
        rw [Int.natCast_add, Int.natCast_mul, h1, Int.toNat_of_nonneg (by omega), Int.pow_succ]
        generalize (256 : Int) ^ (intLE (v / 256)).length = P
        show v % 256 + 256 * (v / 256 + P) = v + P * 256
        omega

/-- the reversed loop output, read as a two's-complement number, is the integer -/
theorem sval_reverse_intLE (v : Int) : sval (intLE v).reverse = v := by
  obtain ⟨_, hpos, hneg⟩ := intLE_spec v
  have hne := intLE_ne_nil v
  -- the first octet of the reversed list is the last octet of the loop output
  obtain ⟨hd, tl, hrev⟩ : ∃ hd tl, (intLE v).reverse = hd :: tl := by
    cases hr : (intLE v).reverse with
    | nil => simp at hr; exact absurd hr hne
    | cons a l => exact ⟨a, l, rfl⟩
  have hhd : hd = (intLE v).getLast hne := by
    have := List.getLast_eq_head_reverse hne
    simp [this, hrev]
  have hlen : tl.length + 1 = (intLE v).length := by
    have := congrArg List.length hrev; simp at this; omega
  have hfrom : fromBE (hd :: tl) = uLE (intLE v) := by rw [← hrev, fromBE_reverse]
  rw [hrev, sval_cons, hfrom]
  by_cases hv : 0 ≤ v
  · obtain ⟨h1, h2⟩ := hpos hv
    have : hd < 128 := by rw [hhd]; exact h2
    simp [this, h1]
  · obtain ⟨h1, h2⟩ := hneg (by omega)
    have : ¬ hd < 128 := by rw [hhd, h2]; omega
    simp only [this, ↓reduceIte, h1, hlen]
    omega

/-- `Integer.decode_raw(Integer(v).encode_raw()) == v` for every integer, and the content is
    a non-empty string of octets -/
theorem intDecode_intEncode (v : Int) :
    intDecode true (intEncode v) = v ∧ intEncode v ≠ [] ∧ ∀ b ∈ intEncode v, b < 256 := by
  have hb : ∀ b ∈ (intLE v).reverse, b < 256 := by
    intro b hb; exact (intLE_spec v).1 b (List.mem_reverse.mp hb)
  refine ⟨?_, ?_, ?_⟩
  · show sval (intStrip (intLE v).reverse) = v
    rw [intStrip_val _ hb, sval_reverse_intLE]
  · exact intStrip_ne_nil _ (by simpa using intLE_ne_nil v)
  · exact intStrip_bytes _ hb

/-- unsigned classes (`SIGNED = False`): the value is the plain big-endian number — never
    negative, whatever the leading bit -/
theorem intDecode_unsigned (bs : Bytes) : intDecode false bs = (fromBE bs : Int) ∧ 0 ≤ intDecode false bs := by
  cases bs with
  | nil => simp [intDecode, fromBE]
  | cons b rest => simp [intDecode]

/-- a non-negative integer written by the encoder is read back by the unsigned classes too -/
theorem intDecode_unsigned_intEncode (v : Int) (hv : 0 ≤ v) : intDecode false (intEncode v) = v := by
  have h1 := (intDecode_intEncode v).1
  have hne := (intDecode_intEncode v).2.1
  cases hb : intEncode v with
  | nil => exact absurd hb hne
  | cons b rest =>
    rw [hb] at h1
    have hs : sval (b :: rest) = v := h1
    rw [sval_cons] at hs
    by_cases hlt : b < 128
    · simp only [hlt, ↓reduceIte] at hs
      simp [intDecode, hs]
    · -- leading bit set would make the signed reading negative... unless it is not: derive a contradiction
      simp only [hlt, ↓reduceIte] at hs
      have hbytes := (intDecode_intEncode v).2.2
      rw [hb] at hbytes
      have hlt256 : fromBE (b :: rest) < 256 ^ (rest.length + 1) := by
        have := fromBE_lt (b :: rest) hbytes
        simpa using this
      have : (fromBE (b :: rest) : Int) < (256 : Int) ^ (rest.length + 1) := by
        have := Int.ofNat_lt.mpr hlt256
        simpa using this
      omega

end Snmp.Ber
