/-
  From "an agent wrote this record in BER" to "the client's decoder + unpacking glue hands the
  operation logic the same record": the relation `Writes` between TLV structures (`Enc`, any mix of
  definite length forms) and response records, and the read-back theorem.
-/
import Snmp.Lemmas.BerTree
import Snmp.Model.Glue
namespace Snmp.Glue
open Snmp Snmp.Ber Snmp.Ops

/-- where x690's reading of a value TLV coincides with the RFC reading (see Props/C06) -/
def LeafDom (t : Nat) (c : Bytes) : Prop :=
  (t = 6 → ∀ d0 rest, c = d0 :: rest → d0 < 120) ∧
  ((t = 65 ∨ t = 66 ∨ t = 67 ∨ t = 70) → ∀ b rest, c = b :: rest → b < 128)

theorem unsigned_eq_signed' (c : Bytes) (h : ∀ b rest, c = b :: rest → b < 128) :
    intDecode false c = intDecode true c := by
  cases c with
  | nil => rfl
  | cons b rest =>
    have := h b rest rfl
    have hn : ¬ 128 ≤ b := by omega
    simp [intDecode, hn]

theorem lookup_facts :
    lookup 2 = ⟨"Integer", "int", true⟩ ∧ lookup 4 = ⟨"OctetString", "str", false⟩ ∧
    lookup 5 = ⟨"Null", "null", false⟩ ∧ lookup 6 = ⟨"ObjectIdentifier", "oid", false⟩ ∧
    lookup 64 = ⟨"IpAddress", "ip", false⟩ ∧ lookup 65 = ⟨"Counter", "int", false⟩ ∧
    lookup 66 = ⟨"Gauge", "int", false⟩ ∧ lookup 67 = ⟨"TimeTicks", "int", false⟩ ∧
    lookup 68 = ⟨"Opaque", "str", false⟩ ∧ lookup 69 = ⟨"NsapAddress", "int", true⟩ ∧
    lookup 70 = ⟨"Counter64", "int", false⟩ ∧ lookup 128 = ⟨"NoSuchObject", "marker", false⟩ ∧
    lookup 129 = ⟨"NoSuchInstance", "marker", false⟩ ∧ lookup 130 = ⟨"EndOfMibView", "marker", false⟩ := by decide

/-- a value TLV the specification reads as `v` is read out by the x690 mirror to a leaf that the
    glue turns into the same `v`; its class is a leaf class -/
theorem leaf_val (t : Nat) (c : Bytes) (v : Val) (hspec : Spec.readVal t c = some v) (hdom : LeafDom t c) :
    ∃ tr, readLeaf (lookup t) t c = .ok tr ∧ valOfTree tr = some v ∧
      t ≠ 255 ∧ (lookup t).kind ≠ "seq" ∧ (lookup t).kind ≠ "pdu" := by
  obtain ⟨r2, r4, r5, r6, r64, r65, r66, r67, r68, r69, r70, r128, r129, r130⟩ := lookup_facts
  unfold Spec.readVal at hspec
  split at hspec
  · simp only [Spec.readInt] at hspec
    by_cases hc : c = []
    · simp [hc] at hspec
    · simp only [hc, ↓reduceIte, Option.map_some, Option.some.injEq] at hspec
      exact ⟨_, by rw [r2]; rfl, by simp [valOfTree, hspec], by decide, by rw [r2]; decide, by rw [r2]; decide⟩
  · simp only [Option.some.injEq] at hspec
    exact ⟨_, by rw [r4]; rfl, by simp [valOfTree, hspec], by decide, by rw [r4]; decide, by rw [r4]; decide⟩
  · by_cases hc : c = [] <;> simp [hc] at hspec
    exact ⟨_, by rw [r5]; rfl, by simp [valOfTree, hspec], by decide, by rw [r5]; decide, by rw [r5]; decide⟩
  · cases ho : Spec.readOid c with
    | none => simp [ho] at hspec
    | some o =>
      simp only [ho, Option.map_some, Option.some.injEq] at hspec
      have hd := oidDecode_eq_readOid c o (hdom.1 rfl) ho
      refine ⟨.oid o, ?_, by simp [valOfTree, hspec], by decide, by rw [r6]; decide, by rw [r6]; decide⟩
      rw [r6]; simp [readLeaf, hd, Except.map]
  · simp only [Option.some.injEq] at hspec
    exact ⟨_, by rw [r64]; rfl, by simp [valOfTree, hspec], by decide, by rw [r64]; decide, by rw [r64]; decide⟩
  · simp only [Spec.readInt] at hspec
    by_cases hc : c = []
    · simp [hc] at hspec
    · simp only [hc, ↓reduceIte, Option.map_some, Option.some.injEq] at hspec
      refine ⟨.int "Counter" (intDecode false c), by rw [r65]; rfl, ?_, by decide, by rw [r65]; decide, by rw [r65]; decide⟩
      rw [unsigned_eq_signed' c (hdom.2 (Or.inl rfl))]; simp [valOfTree, hspec]
  · simp only [Spec.readInt] at hspec
    by_cases hc : c = []
    · simp [hc] at hspec
    · simp only [hc, ↓reduceIte, Option.map_some, Option.some.injEq] at hspec
      refine ⟨.int "Gauge" (intDecode false c), by rw [r66]; rfl, ?_, by decide, by rw [r66]; decide, by rw [r66]; decide⟩
      rw [unsigned_eq_signed' c (hdom.2 (Or.inr (Or.inl rfl)))]; simp [valOfTree, hspec]
  · simp only [Spec.readInt] at hspec
    by_cases hc : c = []
    · simp [hc] at hspec
    · simp only [hc, ↓reduceIte, Option.map_some, Option.some.injEq] at hspec
      refine ⟨.int "TimeTicks" (intDecode false c), by rw [r67]; rfl, ?_, by decide, by rw [r67]; decide, by rw [r67]; decide⟩
      rw [unsigned_eq_signed' c (hdom.2 (Or.inr (Or.inr (Or.inl rfl))))]; simp [valOfTree, hspec]
  · simp only [Option.some.injEq] at hspec
    exact ⟨_, by rw [r68]; rfl, by simp [valOfTree, hspec], by decide, by rw [r68]; decide, by rw [r68]; decide⟩
  · simp only [Spec.readInt] at hspec
    by_cases hc : c = []
    · simp [hc] at hspec
    · simp only [hc, ↓reduceIte, Option.map_some, Option.some.injEq] at hspec
      exact ⟨_, by rw [r69]; rfl, by simp [valOfTree, hspec], by decide, by rw [r69]; decide, by rw [r69]; decide⟩
  · simp only [Spec.readInt] at hspec
    by_cases hc : c = []
    · simp [hc] at hspec
    · simp only [hc, ↓reduceIte, Option.map_some, Option.some.injEq] at hspec
      refine ⟨.int "Counter64" (intDecode false c), by rw [r70]; rfl, ?_, by decide, by rw [r70]; decide, by rw [r70]; decide⟩
      rw [unsigned_eq_signed' c (hdom.2 (Or.inr (Or.inr (Or.inr rfl))))]; simp [valOfTree, hspec]
  · by_cases hc : c = [] <;> simp [hc] at hspec
    exact ⟨_, by rw [r128]; rfl, by simp [valOfTree, hspec], by decide, by rw [r128]; decide, by rw [r128]; decide⟩
  · by_cases hc : c = [] <;> simp [hc] at hspec
    exact ⟨_, by rw [r129]; rfl, by simp [valOfTree, hspec], by decide, by rw [r129]; decide, by rw [r129]; decide⟩
  · by_cases hc : c = [] <;> simp [hc] at hspec
    exact ⟨_, by rw [r130]; rfl, by simp [valOfTree, hspec], by decide, by rw [r130]; decide, by rw [r130]; decide⟩
  · cases hspec

/-! ### what an agent writes -/

/-- `e` is one value TLV, in any definite length form, that the specification reads as `v` -/
def WritesVal (e : Enc) (v : Val) : Prop :=
  ∃ f t c, e = .prim f t c ∧ f.ok c.length ∧ Spec.readVal t c = some v ∧ LeafDom t c

/-- a binding: a sequence of exactly the name and the value -/
def WritesBind (e : Enc) (vb : VarBind) : Prop :=
  ∃ f t eo ev, e = .cons f t [eo, ev] ∧ f.ok (Enc.bytesL [eo, ev]).length ∧ t ≠ 255 ∧
    (lookup t).kind = "seq" ∧ WritesVal eo (.oid vb.1) ∧ WritesVal ev vb.2

inductive WritesBinds : List Enc → List VarBind → Prop where
  | nil : WritesBinds [] []
  | cons {e es vb vbs} : WritesBind e vb → WritesBinds es vbs → WritesBinds (e :: es) (vb :: vbs)

/-- a PDU of class `cls` with content `p` -/
def WritesPdu (e : Enc) (cls : String) (p : PduResp) : Prop :=
  ∃ f t fl tl erid ees eei items, e = .pdu f t [erid, ees, eei, .cons fl tl items] ∧
    f.ok (Enc.bytesL [erid, ees, eei, .cons fl tl items]).length ∧ t ≠ 255 ∧
    (lookup t).kind = "pdu" ∧ (lookup t).name = cls ∧ Gen.noDefaultCtor.contains cls = false ∧
    fl.ok (Enc.bytesL items).length ∧ tl ≠ 255 ∧ (lookup tl).kind = "seq" ∧ (lookup tl).name = "Sequence" ∧
    WritesVal erid (.int p.requestId) ∧ WritesVal ees (.int p.errorStatus) ∧ WritesVal eei (.int p.errorIndex) ∧
    WritesBinds items p.varbinds

/-- a community message: version, community, PDU -/
def WritesMsg (e : Enc) (m : RespMsg) (cls : String) : Prop :=
  ∃ f t ev ec ep, e = .cons f t [ev, ec, ep] ∧ f.ok (Enc.bytesL [ev, ec, ep]).length ∧ t ≠ 255 ∧
    (lookup t).kind = "seq" ∧ WritesVal ev (.int m.version) ∧ WritesVal ec (.str m.community) ∧
    WritesPdu ep cls m.pdu

/-! ### … is what the client reads -/

theorem writesVal_read {e : Enc} {v : Val} (h : WritesVal e v) :
    e.WF ∧ ∃ tr, e.tree = .ok tr ∧ valOfTree tr = some v := by
  obtain ⟨f, t, c, rfl, hf, hspec, hdom⟩ := h
  obtain ⟨tr, h1, h2, h3, h4, h5⟩ := leaf_val t c v hspec hdom
  exact ⟨by simp only [Enc.WF]; exact ⟨hf, ⟨h3, ctor_of_not_pdu t h5⟩, h4, h5⟩, tr, by simpa [Enc.tree] using h1, h2⟩

theorem valOfTree_int {tr : Tree} {v : Int} (h : valOfTree tr = some (.int v)) : tr = .int "Integer" v := by
  unfold valOfTree at h
  split at h <;> simp_all

theorem valOfTree_str {tr : Tree} {b : Bytes} (h : valOfTree tr = some (.str b)) : tr = .str "OctetString" b := by
  unfold valOfTree at h
  split at h <;> simp_all

theorem valOfTree_oid {tr : Tree} {o : Oid} (h : valOfTree tr = some (.oid o)) : tr = .oid o := by
  unfold valOfTree at h
  split at h <;> simp_all

theorem readVal_int_tag {t : Nat} {c : Bytes} {v : Int} (h : Spec.readVal t c = some (.int v)) : t = 2 := by
  unfold Spec.readVal at h
  split at h <;> first | rfl | (simp at h) | (split at h <;> simp at h)

theorem writesVal_int_shape {e : Enc} {v : Int} (h : WritesVal e (.int v)) : e.isIntPrim := by
  obtain ⟨f, t, c, rfl, _, hspec, _⟩ := h
  have := readVal_int_tag hspec
  subst this
  simp only [Enc.isIntPrim]
  decide

theorem writesBind_read {e : Enc} {vb : VarBind} (h : WritesBind e vb) :
    e.WF ∧ e.isPair ∧ ∃ tr, e.tree = .ok tr ∧ bindOfTree tr = some vb := by
  obtain ⟨f, t, eo, ev, rfl, hf, ht, hk, ho, hv⟩ := h
  obtain ⟨wo, tro, hto, hvo⟩ := writesVal_read ho
  obtain ⟨wv, trv, htv, hvv⟩ := writesVal_read hv
  have := valOfTree_oid hvo
  subst this
  refine ⟨?_, trivial, .seq (lookup t).name [.oid vb.1, trv], ?_, ?_⟩
  · simp only [Enc.WF, Enc.WFL]; exact ⟨hf, ⟨ht, ctor_of_not_pdu t (by rw [hk]; decide)⟩, hk, wo, wv, trivial⟩
  · simp [Enc.tree, Enc.treeL, hto, htv, bind, Except.bind, pure, Except.pure]
  · simp [bindOfTree, hvv]

theorem writesBinds_read : ∀ {es : List Enc} {vbs : List VarBind}, WritesBinds es vbs →
    Enc.WFL es ∧ (∀ it ∈ es, it.isPair) ∧ ∃ trs, Enc.treeL es = .ok trs ∧ trs.mapM bindOfTree = some vbs
  | [], [], .nil => ⟨trivial, by simp, [], rfl, rfl⟩
  | e :: es, vb :: vbs, .cons h hs => by
    obtain ⟨w1, p1, tr, ht, hb⟩ := writesBind_read h
    obtain ⟨w2, p2, trs, hts, hbs⟩ := writesBinds_read hs
    refine ⟨⟨w1, w2⟩, ?_, tr :: trs, ?_, ?_⟩
    · intro it hit
      rcases List.mem_cons.mp hit with rfl | h'
      · exact p1
      · exact p2 it h'
    · simp [Enc.treeL, ht, hts, bind, Except.bind, pure, Except.pure]
    · simp [List.mapM_cons, hb, hbs]

theorem writesPdu_read {e : Enc} {cls : String} {p : PduResp} (h : WritesPdu e cls p) :
    e.WF ∧ ∃ tr, e.tree = .ok tr ∧ pduOfTree tr = some (cls, p) := by
  obtain ⟨f, t, fl, tl, erid, ees, eei, items, rfl, hf, ht, hk, hn, hctor, hfl, htl, hkl, hnl, h1, h2, h3, hb⟩ := h
  obtain ⟨w1, t1, e1, v1⟩ := writesVal_read h1
  obtain ⟨w2, t2, e2, v2⟩ := writesVal_read h2
  obtain ⟨w3, t3, e3, v3⟩ := writesVal_read h3
  obtain ⟨wb, pb, trs, hts, hbs⟩ := writesBinds_read hb
  have := valOfTree_int v1; subst this
  have := valOfTree_int v2; subst this
  have := valOfTree_int v3; subst this
  refine ⟨?_, .seq (lookup t).name [.int "Integer" p.requestId, .int "Integer" p.errorStatus, .int "Integer" p.errorIndex,
    .seq (lookup tl).name trs], ?_, ?_⟩
  · simp only [Enc.WF, Enc.WFL, pduShape, Enc.isBindList]
    exact ⟨hf, ⟨ht, by rw [hn]; exact hctor⟩, hk, ⟨w1, w2, w3, ⟨hfl, ⟨htl, ctor_of_not_pdu tl (by rw [hkl]; decide)⟩, hkl, wb⟩, trivial⟩,
      writesVal_int_shape h1, writesVal_int_shape h2, writesVal_int_shape h3, hnl, pb⟩
  · simp [Enc.tree, Enc.treeL, e1, e2, e3, hts, bind, Except.bind, pure, Except.pure]
  · simp [pduOfTree, hbs, hn]

/-- **Read-back of a whole response message.** -/
theorem writesMsg_read {e : Enc} {m : RespMsg} {cls : String} (h : WritesMsg e m cls) :
    e.WF ∧ ∃ tr, e.tree = .ok tr ∧ msgOfTree tr = some (m, cls) := by
  obtain ⟨f, t, ev, ec, ep, rfl, hf, ht, hk, hv, hc, hp⟩ := h
  obtain ⟨w1, t1, e1, v1⟩ := writesVal_read hv
  obtain ⟨w2, t2, e2, v2⟩ := writesVal_read hc
  obtain ⟨w3, t3, e3, v3⟩ := writesPdu_read hp
  have := valOfTree_int v1; subst this
  have := valOfTree_str v2; subst this
  refine ⟨?_, .seq (lookup t).name [.int "Integer" m.version, .str "OctetString" m.community, t3], ?_, ?_⟩
  · simp only [Enc.WF, Enc.WFL]; exact ⟨hf, ⟨ht, ctor_of_not_pdu t (by rw [hk]; decide)⟩, hk, w1, w2, w3, trivial⟩
  · simp [Enc.tree, Enc.treeL, e1, e2, e3, bind, Except.bind, pure, Except.pure]
  · simp [msgOfTree, v3]

end Snmp.Glue
