/-
  `register_trap_callback` from the octets on: for a message an agent writes, the forced sequence
  readout (`Sequence.decode(data)` without a look at the identifier octet) sees the same items as
  the regular decoder, so the version field selects the model and the rest is `C06_message_readback`.
-/
import Snmp.Model.TrapWire
import Snmp.Lemmas.GlueLemmas
namespace Snmp.Trap
open Snmp Snmp.Ber

/-- the node `decodeAt` returns carries the slice `get_value_slice` computed -/
theorem decodeAt_slice (data : Bytes) (i : Nat) (n : Node) (nx : Nat) (h : decodeAt data i = .ok (n, nx)) :
    getValueSlice data i = .ok (n.slice, nx) := by
  unfold decodeAt at h
  cases hd : data[i]? with
  | none => simp [hd] at h
  | some t =>
    simp only [hd] at h
    by_cases ht : t = 255
    · simp [ht] at h
    · simp only [ht, ↓reduceIte, bind, Except.bind] at h
      cases hg : getValueSlice data i with
      | error e => simp [hg] at h
      | ok r =>
        obtain ⟨sl, next⟩ := r
        simp only [hg] at h
        by_cases hc : Gen.noDefaultCtor.contains (lookup t).name = true
        · have hc' : (lookup t).name ∈ Gen.noDefaultCtor := by simpa using hc
          simp [hc', throw, throwThe, MonadExceptOf.throw] at h
        · simp only [hc, Bool.false_eq_true, ↓reduceIte, pure, Except.pure, Except.ok.injEq, Prod.mk.injEq] at h
          obtain ⟨rfl, rfl⟩ := h
          rfl

/-- the forced readout of a well-formed constructed TLV: its items, decoded -/
theorem forced_cons (f : LenForm) (t : Nat) (items : List Enc) (h : (Enc.cons f t items).WF) (fuel depth : Nat)
    (hw : (Enc.cons f t items).width ≤ fuel) (hd : (Enc.cons f t items).depth ≤ depth + 1) :
    decodeTreeForced (Enc.cons f t items).bytes fuel depth = (Enc.treeL items).map (Tree.seq "Sequence") := by
  obtain ⟨n, hdec, hent, hread⟩ := decode_enc (.cons f t items) h [] [] fuel (depth + 1) hw hd
  simp only [List.nil_append, List.append_nil, List.length_nil] at hdec hread
  have hk : n.entry.kind = "seq" := by
    rw [hent]; simp only [Enc.WF] at h; exact h.2.2.1
  have hsl := decodeAt_slice _ _ _ _ hdec
  rw [readNode_seq _ _ _ _ hk] at hread
  unfold decodeTreeForced
  simp only [hsl, bind, Except.bind]
  simp only [Enc.tree, bind, Except.bind, pure, Except.pure] at hread
  cases hs : seqItems (Enc.cons f t items).bytes n.slice fuel with
  | error e =>
    simp only [hs] at hread
    cases ht : Enc.treeL items with
    | error e' => simp only [ht] at hread; simp [Except.map]; injection hread
    | ok ts => simp [ht] at hread
  | ok nodes =>
    simp only [hs] at hread ⊢
    cases hm : nodes.mapM (readNode (Enc.cons f t items).bytes fuel depth) with
    | error e =>
      simp only [hm] at hread
      cases ht : Enc.treeL items with
      | error e' => simp only [ht] at hread; simp [Except.map]; injection hread
      | ok ts => simp [ht] at hread
    | ok ts =>
      simp only [hm] at hread
      cases ht : Enc.treeL items with
      | error e' => simp [ht] at hread
      | ok ts' =>
        simp only [ht, Except.ok.injEq, Tree.seq.injEq] at hread
        simp [Except.map, hread.2, pure, Except.pure]

theorem msgOfTree_shape {tr : Tree} {m : Ops.RespMsg} {cls : String} (h : Glue.msgOfTree tr = some (m, cls)) :
    ∃ n vc cc sc p, tr = .seq n [.int vc m.version, .str sc cc, p] := by
  unfold Glue.msgOfTree at h
  split at h
  · rename_i n vc v sc c p
    cases hp : Glue.pduOfTree p with
    | none => simp [hp] at h
    | some cp =>
      simp only [hp, Option.map_some, Option.some.injEq, Prod.mk.injEq] at h
      refine ⟨n, vc, c, sc, p, ?_⟩
      rw [← h.1]
  · simp at h

end Snmp.Trap
