/-
  The index-based decoder of the x690 mirror on a well-formed TLV in any admissible definite
  length form, placed anywhere in a datagram.
-/
import Snmp.Lemmas.SpecLemmas
namespace Snmp.Ber
open Snmp.Spec (Small)

theorem pySlice_mid (pre c rest : Bytes) :
    pySlice (pre ++ c ++ rest) pre.length ((pre.length + c.length : Nat) : Int) = c := by
  unfold pySlice
  have h1 : ¬ ((pre.length + c.length : Nat) : Int) < 0 := by omega
  simp only [h1, ↓reduceIte, Int.toNat_natCast]
  have h2 : min (pre.length + c.length) (pre ++ c ++ rest).length = pre.length + c.length := by
    simp
  rw [h2]
  have : (pre ++ c ++ rest).take (pre.length + c.length) = pre ++ c := by
    rw [← List.length_append]; exact List.take_left' rfl
  rw [this]
  simp

/-- `get_value_slice` on a TLV in form `f` at offset `|pre|` -/
theorem getValueSlice_spec (f : LenForm) (t : Nat) (c pre rest : Bytes) (hf : f.ok c.length) :
    getValueSlice (pre ++ Spec.tlv f t c ++ rest) pre.length =
      .ok (⟨pre.length + 1 + (specLength f c.length).length,
            ((pre.length + 1 + (specLength f c.length).length + c.length : Nat) : Int)⟩,
           pre.length + 1 + (specLength f c.length).length + c.length) := by
  unfold getValueSlice
  have hdata : pre ++ Spec.tlv f t c ++ rest = (pre ++ [t]) ++ (specLength f c.length ++ (c ++ rest)) := by
    simp [Spec.tlv]
  have hlen : (pre ++ [t]).length = pre.length + 1 := by simp
  rw [hdata, ← hlen, decodeLength_drop, decodeLength_specLength f c.length hf]
  simp only [Except.bind, bind, hlen]
  have hstop : ¬ (pre.length + 1 + (specLength f c.length).length + c.length > ((pre ++ [t]) ++ (specLength f c.length ++ (c ++ rest))).length) := by
    simp only [List.length_append, List.length_cons, List.length_nil]; omega
  simp only [hstop, ↓reduceIte, pure, Except.pure]

/-- the registered classes `x690.decode` cannot instantiate are PDU classes (generated tables) -/
theorem noDefaultCtor_pdu :
    ∀ e ∈ Gen.registry, Gen.noDefaultCtor.contains e.2.2.2.1 = true → e.2.2.2.2.1 = "pdu" := by
  decide +kernel

/-- hence every identifier octet of another kind stands for a class that can be instantiated -/
theorem ctor_of_not_pdu (t : Nat) (h : (lookup t).kind ≠ "pdu") :
    Gen.noDefaultCtor.contains (lookup t).name = false := by
  unfold lookup at h ⊢
  cases hf : Gen.registry.find? (fun e => e.1 == clsName t && e.2.1 == t % 32 && e.2.2.1 == natureName t) with
  | none => simp [hf]; decide
  | some e =>
    simp only [hf] at h ⊢
    have hmem := List.mem_of_find?_eq_some hf
    cases hc : Gen.noDefaultCtor.contains e.2.2.2.1 with
    | false => rfl
    | true => exact absurd (noDefaultCtor_pdu e hmem hc) h

/-- `x690.decode` finds the class registered for the identifier octet and the exact content -/
theorem decodeAt_spec (f : LenForm) (t : Nat) (c pre rest : Bytes) (hf : f.ok c.length) (ht : t ≠ 255)
    (hctor : Gen.noDefaultCtor.contains (lookup t).name = false) :
    ∃ n, decodeAt (pre ++ Spec.tlv f t c ++ rest) pre.length =
        .ok (n, pre.length + (Spec.tlv f t c).length) ∧
      n.entry = lookup t ∧ n.tagByte = t ∧ n.content (pre ++ Spec.tlv f t c ++ rest) = c := by
  have hget : (pre ++ Spec.tlv f t c ++ rest)[pre.length]? = some t := by
    simp [Spec.tlv]
  refine ⟨⟨lookup t, t, ⟨pre.length + 1 + (specLength f c.length).length,
    ((pre.length + 1 + (specLength f c.length).length + c.length : Nat) : Int)⟩⟩, ?_, rfl, rfl, ?_⟩
  · unfold decodeAt
    simp only [hget, ht, ↓reduceIte]
    rw [getValueSlice_spec f t c pre rest hf]
    simp only [Except.bind, bind, pure, Except.pure, hctor, Bool.false_eq_true, ↓reduceIte]
    congr 2
    simp [Spec.tlv]; omega
  · unfold Node.content
    simp only
    have : pre ++ Spec.tlv f t c ++ rest = (pre ++ t :: specLength f c.length) ++ c ++ rest := by
      simp [Spec.tlv]
    have hl : (pre ++ t :: specLength f c.length).length = pre.length + 1 + (specLength f c.length).length := by
      simp; omega
    rw [this, ← hl]
    exact pySlice_mid _ c rest

/-! ### reading a primitive node -/

theorem readNode_int (data : Bytes) (fuel depth : Nat) (n : Node) (h : n.entry.kind = "int") :
    readNode data fuel (depth + 1) n = .ok (.int n.entry.name (intDecode n.entry.signed (n.content data))) := by
  rw [readNode]; simp [h]

theorem readNode_str (data : Bytes) (fuel depth : Nat) (n : Node) (h : n.entry.kind = "str") :
    readNode data fuel (depth + 1) n = .ok (.str n.entry.name (n.content data)) := by
  rw [readNode]; simp [h]

theorem readNode_ip (data : Bytes) (fuel depth : Nat) (n : Node) (h : n.entry.kind = "ip") :
    readNode data fuel (depth + 1) n = .ok (.str n.entry.name (n.content data)) := by
  rw [readNode]; simp [h]

theorem readNode_null (data : Bytes) (fuel depth : Nat) (n : Node) (h : n.entry.kind = "null") :
    readNode data fuel (depth + 1) n = .ok .null := by
  rw [readNode]; simp [h]

theorem readNode_oid (data : Bytes) (fuel depth : Nat) (n : Node) (h : n.entry.kind = "oid") :
    readNode data fuel (depth + 1) n = (oidDecode (n.content data)).map .oid := by
  rw [readNode]; simp [h]

theorem readNode_marker (data : Bytes) (fuel depth : Nat) (n : Node) (h : n.entry.kind = "marker") :
    readNode data fuel (depth + 1) n = .ok (.marker n.entry.name) := by
  rw [readNode]; simp [h]

/-! ### the two sub-identifier loops agree -/

def toOpt {α} : Except BErr α → Option α
  | .ok a => some a
  | .error _ => none

theorem readSubids_eq_go (bs : Bytes) :
    (∀ acc, Spec.readSubids bs acc true = toOpt (subidsGo bs (some acc))) ∧
    Spec.readSubids bs 0 false = toOpt (subidsGo bs none) := by
  induction bs with
  | nil =>
    constructor
    · intro acc; rw [Spec.readSubids, subidsGo]; simp [toOpt]
    · rw [Spec.readSubids, subidsGo]; simp [toOpt]
  | cons b rest ih =>
    constructor
    · intro acc
      by_cases hb : 128 ≤ b
      · have hgt : b > 127 := by omega
        rw [Spec.rs_hi _ _ _ _ hb, go_some_hi _ _ _ hgt, ih.1]
      · have hgt : ¬ b > 127 := by omega
        rw [Spec.rs_lo _ _ _ _ hb, go_some_lo _ _ _ hgt, ih.2]
        cases subidsGo rest none <;> simp [toOpt, Except.map]
    · by_cases hb : 128 ≤ b
      · have hgt : b > 127 := by omega
        rw [Spec.rs_hi _ _ _ _ hb, go_none_hi _ _ hgt, ih.1]
        simp
      · have hgt : ¬ b > 127 := by omega
        rw [Spec.rs_lo _ _ _ _ hb, go_none_lo _ _ hgt, ih.2]
        cases subidsGo rest none <;> simp [toOpt, Except.map]

/-- on OID content whose first octet is below 120 (first arc ≤ 2, second arc < 40) the library
    reads the OID the specification reader reads -/
theorem oidDecode_eq_readOid (c : Bytes) (o : Oid) (hdom : ∀ d0 rest, c = d0 :: rest → d0 < 120)
    (h : Spec.readOid c = some o) : oidDecode c = .ok o := by
  cases c with
  | nil =>
    simp [Spec.readOid, Spec.readSubids] at h
    simp [oidDecode, h]
  | cons d0 rest =>
    have hd := hdom d0 rest rfl
    have hlo : ¬ 128 ≤ d0 := by omega
    unfold Spec.readOid at h
    rw [Spec.rs_lo _ _ _ _ hlo, (readSubids_eq_go rest).2] at h
    unfold oidDecode subidsDecode
    cases hg : subidsGo rest none with
    | error e => simp [hg, toOpt] at h
    | ok l =>
      simp only [hg, toOpt, Option.map_some, Nat.zero_mul, Nat.zero_add] at h
      simp only [Except.map]
      by_cases h40 : d0 < 40
      · simp only [h40, ↓reduceIte, Option.some.injEq] at h
        have h1 : d0 / 40 = 0 := by omega
        have h2 : d0 % 40 = d0 := by omega
        rw [h1, h2, hg]; simp [h]
      · by_cases h80 : d0 < 80
        · simp only [h40, h80, ↓reduceIte, Option.some.injEq] at h
          have h1 : d0 / 40 = 1 := by omega
          have h2 : d0 % 40 = d0 - 40 := by omega
          rw [h1, h2, hg]; simp [h]
        · simp only [h40, h80, ↓reduceIte, Option.some.injEq] at h
          have h1 : d0 / 40 = 2 := by omega
          have h2 : d0 % 40 = d0 - 80 := by omega
          rw [h1, h2, hg]; simp [h]

end Snmp.Ber
