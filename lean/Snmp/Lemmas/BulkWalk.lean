/-
  The bulk walk against a conformant agent, on the Python-faithful model: regrouping of
  multi-repetition responses (`varbinds[i::n]`), the per-column successor check, and the
  completeness / termination invariant.
-/
import Snmp.Lemmas.WalkRefine
import Snmp.Lemmas.WalkBound
namespace Snmp.Walk
open Snmp

/-! ### `xs[i::n]` on whole repetitions -/

theorem stride_go_fuel {α} (n : Nat) : ∀ (f f' : Nat) (l : List α), l.length ≤ f → l.length ≤ f' →
    Py.stride.go n l f = Py.stride.go n l f'
  | 0, f', l, h, _ => by
    have : l = [] := List.eq_nil_of_length_eq_zero (by omega)
    subst this; rw [stride_go_nil, stride_go_nil]
  | f + 1, 0, l, _, h' => by
    have : l = [] := List.eq_nil_of_length_eq_zero (by omega)
    subst this; rw [stride_go_nil, stride_go_nil]
  | f + 1, f' + 1, [], _, _ => by rw [stride_go_nil, stride_go_nil]
  | f + 1, f' + 1, x :: rest, h, h' => by
    unfold Py.stride.go
    have hl : (rest.drop n).length ≤ rest.length := by simp
    simp only [List.length_cons] at h h'
    rw [stride_go_fuel n f f' (rest.drop n) (by omega) (by omega)]

theorem stride_nil {α} (i n : Nat) : Py.stride ([] : List α) i n = [] := by
  cases n with
  | zero => rfl
  | succ n => simp [Py.stride, stride_go_nil]

theorem stride_go_cons {α} (n f : Nat) (x : α) (rest : List α) :
    Py.stride.go n (x :: rest) (f + 1) = x :: Py.stride.go n (rest.drop n) f := by
  rw [Py.stride.go]

/-- one whole repetition in front: its `i`-th binding heads column `i` -/
theorem stride_row {α} (row rest : List α) (i n : Nat) (hrow : row.length = n + 1) (hi : i ≤ n) :
    Py.stride (row ++ rest) i (n + 1) = row[i]'(by omega) :: Py.stride rest i (n + 1) := by
  have hri : row.drop i = row[i]'(by omega) :: row.drop (i + 1) := List.drop_eq_getElem_cons (by omega)
  have hd : (row ++ rest).drop i = row[i]'(by omega) :: (row.drop (i + 1) ++ rest) := by
    rw [List.drop_append_of_le_length (by omega), hri]; rfl
  have hlen : (row ++ rest).length = (row.length + rest.length - 1) + 1 := by simp; omega
  have hdrop : (row.drop (i + 1) ++ rest).drop n = rest.drop i := by
    have h1 : (row.drop (i + 1)).length = n - i := by simp; omega
    rw [List.drop_append, h1]
    have : (row.drop (i + 1)).drop n = [] := List.drop_of_length_le (by omega)
    rw [this]
    simp only [List.nil_append]
    congr 1
    omega
  show Py.stride.go n ((row ++ rest).drop i) (row ++ rest).length = _ :: Py.stride.go n (rest.drop i) rest.length
  rw [hd, hlen, stride_go_cons, hdrop]
  congr 1
  apply stride_go_fuel
  · simp; omega
  · simp

theorem stride_row' {α} (row rest : List α) (i n : Nat) (hrow : row.length = n) (hi : i < n) :
    Py.stride (row ++ rest) i n = row[i]'(by omega) :: Py.stride rest i n := by
  cases n with
  | zero => omega
  | succ n => exact stride_row row rest i n hrow (by omega)

theorem mem_takeWhile_pos {α} (p : α → Bool) : ∀ (l : List α) (a : α), a ∈ l.takeWhile p → p a = true
  | [], a, h => by simp at h
  | x :: l, a, h => by
    by_cases hx : p x = true
    · simp only [List.takeWhile_cons, hx, ↓reduceIte, List.mem_cons] at h
      rcases h with rfl | h
      · exact hx
      · exact mem_takeWhile_pos p l a h
    · simp [List.takeWhile_cons, hx] at h

/-! ### what a conformant agent puts into a GETBULK response -/

/-- GETNEXT of the conformant agent (endOfMibView keeps the requested OID) -/
def nextE (db : List VarBind) (o : Oid) : VarBind := Agent.conformant db o 0

/-- `k` repetitions, flattened: every repetition answers the OIDs of the one before -/
def rowsFlat (db : List VarBind) : Nat → List Oid → List VarBind
  | 0, _ => []
  | k + 1, cs => cs.map (nextE db) ++ rowsFlat db k ((cs.map (nextE db)).map (·.1))

/-- the first `ℓ` successors of `c` in the database -/
def chain (db : List VarBind) : Nat → Oid → List VarBind
  | 0, _ => []
  | ℓ + 1, c => match Agent.nextOf db c with
    | some e => e :: chain db ℓ e.1
    | none => []

theorem rowsFlat_length (db : List VarBind) : ∀ (k : Nat) (cs : List Oid), (rowsFlat db k cs).length = k * cs.length
  | 0, _ => by simp [rowsFlat]
  | k + 1, cs => by
    simp only [rowsFlat, List.length_append, List.length_map, rowsFlat_length db k, Nat.add_mul, Nat.one_mul]
    omega

theorem nextE_some {db : List VarBind} {o : Oid} {e : VarBind} (h : Agent.nextOf db o = some e) : nextE db o = e := by
  simp [nextE, Agent.conformant, h]

theorem nextE_none {db : List VarBind} {o : Oid} (h : Agent.nextOf db o = none) : nextE db o = (o, .endOfMibView) := by
  simp [nextE, Agent.conformant, h]

theorem nextE_notEom {db : List VarBind} (hv : ∀ vb ∈ db, vb.2.isEom = false) (o : Oid) :
    notEom (nextE db o) = true ↔ ∃ e, Agent.nextOf db o = some e := by
  cases h : Agent.nextOf db o with
  | none => simp [nextE_none h, notEom, Val.isEom]
  | some e =>
    have he : e ∈ db := List.mem_of_find?_eq_some h
    simp [nextE_some h, notEom, hv e he]

/-- where `takeWhile` stops, the predicate fails -/
theorem takeWhile_stop {α} (p : α → Bool) : ∀ (l : List α) (h : (l.takeWhile p).length < l.length),
    p (l[(l.takeWhile p).length]'h) = false
  | [], h => by simp at h
  | x :: l, h => by
    by_cases hx : p x = true
    · simp only [List.takeWhile_cons, hx, ↓reduceIte, List.length_cons, List.getElem_cons_succ] at h ⊢
      exact takeWhile_stop p l (by omega)
    · simp only [List.takeWhile_cons, hx, Bool.false_eq_true, ↓reduceIte, List.length_nil, List.getElem_cons_zero]

theorem takeWhile_getElem {α} (p : α → Bool) : ∀ (l : List α) (i : Nat) (h : i < (l.takeWhile p).length),
    (l.takeWhile p)[i] = l[i]'(Nat.lt_of_lt_of_le h (List.takeWhile_sublist p).length_le) ∧
    p ((l.takeWhile p)[i]) = true
  | [], i, h => by simp at h
  | x :: l, i, h => by
    by_cases hx : p x = true
    · cases i with
      | zero => simp [List.takeWhile_cons, hx]
      | succ i =>
        simp only [List.takeWhile_cons, hx, ↓reduceIte, List.length_cons] at h
        have := takeWhile_getElem p l i (by omega)
        simp only [List.takeWhile_cons, hx, ↓reduceIte, List.getElem_cons_succ]
        exact this
    · simp [List.takeWhile_cons, hx] at h

/-- the first repetition, shortened by the agent and cut at the first endOfMibView -/
theorem short_row (db : List VarBind) (hv : ∀ vb ∈ db, vb.2.isEom = false) (cs : List Oid) (L i : Nat)
    (hi : i < cs.length) :
    let P := ((cs.map (nextE db)).take L).takeWhile notEom
    (i < P.length → ∃ e, Agent.nextOf db cs[i] = some e ∧ P[i]? = some e) ∧
    (P.length ≤ i → L ≤ i ∨ ∃ j, j ≤ i ∧ ∃ hj : j < cs.length, Agent.nextOf db cs[j] = none) := by
  intro P
  have hPle : P.length ≤ ((cs.map (nextE db)).take L).length := (List.takeWhile_sublist _).length_le
  have htl : ((cs.map (nextE db)).take L).length = min L cs.length := by simp
  refine ⟨?_, ?_⟩
  · intro hlt
    obtain ⟨h1, h2⟩ := takeWhile_getElem notEom ((cs.map (nextE db)).take L) i hlt
    have h3 : ((cs.map (nextE db)).take L)[i]'(by omega) = nextE db cs[i] := by simp
    have h4 : P[i] = nextE db cs[i] := by rw [← h3]; exact h1
    have h5 : notEom (nextE db cs[i]) = true := by rw [← h4]; exact h2
    obtain ⟨e, he⟩ := (nextE_notEom hv cs[i]).mp h5
    refine ⟨e, he, ?_⟩
    rw [List.getElem?_eq_getElem hlt, h4, nextE_some he]
  · intro hge
    by_cases hL : L ≤ i
    · exact Or.inl hL
    · right
      have hlt : P.length < ((cs.map (nextE db)).take L).length := by rw [htl]; omega
      have hstop := takeWhile_stop notEom ((cs.map (nextE db)).take L) hlt
      have hj : P.length < cs.length := by omega
      refine ⟨P.length, hge, hj, ?_⟩
      have h3 : ((cs.map (nextE db)).take L)[P.length]'hlt = nextE db (cs[P.length]'hj) := by simp
      rw [h3] at hstop
      cases hn : Agent.nextOf db (cs[P.length]'hj) with
      | none => rfl
      | some e =>
        have := (nextE_notEom hv (cs[P.length]'hj)).mpr ⟨e, hn⟩
        rw [this] at hstop
        cases hstop

theorem chain_length_le (db : List VarBind) : ∀ (ℓ : Nat) (c : Oid), (chain db ℓ c).length ≤ ℓ
  | 0, _ => by simp [chain]
  | ℓ + 1, c => by
    unfold chain
    split
    · rename_i e _
      simp only [List.length_cons]; have := chain_length_le db ℓ e.1; omega
    · simp

/-- **Columns are successor chains.**  Whatever number of repetitions `k` the agent produces and
    wherever it shortens the response (`L`), after the endOfMibView cut the bindings at positions
    `i, i+n, i+2n, …` are exactly the first `ℓ` database successors of the `i`-th requested OID. -/
theorem column_chain (db : List VarBind) (hv : ∀ vb ∈ db, vb.2.isEom = false) :
    ∀ (k : Nat) (cs : List Oid) (L i : Nat) (hi : i < cs.length),
      ∃ ℓ, Py.stride (((rowsFlat db k cs).take L).takeWhile notEom) i cs.length = chain db ℓ cs[i] ∧
        (chain db ℓ cs[i]).length = ℓ ∧
        (ℓ = 0 → L ≤ i ∨ k = 0 ∨ ∃ j, j ≤ i ∧ ∃ hj : j < cs.length, Agent.nextOf db cs[j] = none)
  | 0, cs, L, i, hi => ⟨0, by simp [rowsFlat, stride_nil, chain], by simp [chain], fun _ => Or.inr (Or.inl rfl)⟩
  | k + 1, cs, L, i, hi => by
    obtain ⟨n', hn'⟩ : ∃ n', cs.length = n' + 1 := ⟨cs.length - 1, by omega⟩
    have hrowlen : (cs.map (nextE db)).length = cs.length := by simp
    by_cases hB : cs.length < L ∧ (cs.map (nextE db)).all notEom = true
    · -- a whole first repetition without endOfMibView, then the rest
      obtain ⟨hL, hall⟩ := hB
      have htake : (rowsFlat db (k + 1) cs).take L
          = cs.map (nextE db) ++ (rowsFlat db k ((cs.map (nextE db)).map (·.1))).take (L - cs.length) := by
        simp only [rowsFlat]
        rw [List.take_append, hrowlen, List.take_of_length_le (by omega)]
      have htw : ((rowsFlat db (k + 1) cs).take L).takeWhile notEom
          = cs.map (nextE db) ++ ((rowsFlat db k ((cs.map (nextE db)).map (·.1))).take (L - cs.length)).takeWhile notEom := by
        rw [htake, List.takeWhile_append_of_pos]
        intro a ha
        exact List.all_eq_true.mp hall a ha
      have hcs' : ((cs.map (nextE db)).map (·.1)).length = cs.length := by simp
      obtain ⟨ℓ', h1, h2, _⟩ := column_chain db hv k ((cs.map (nextE db)).map (·.1)) (L - cs.length) i (by omega)
      have hnot : notEom (nextE db cs[i]) = true := List.all_eq_true.mp hall _ (List.mem_map_of_mem (List.getElem_mem hi))
      obtain ⟨e, he⟩ := (nextE_notEom hv cs[i]).mp hnot
      refine ⟨ℓ' + 1, ?_, ?_, by omega⟩
      · rw [htw, stride_row' _ _ i cs.length hrowlen hi]
        simp only [hcs'] at h1
        rw [h1]
        have hrow_i : (cs.map (nextE db))[i]'(by omega) = e := by simp [nextE_some he]
        have hcs'_i : ((cs.map (nextE db)).map (·.1))[i]'(by omega) = e.1 := by simp [nextE_some he]
        rw [hrow_i, hcs'_i]
        simp [chain, he]
      · have hcs'_i : ((cs.map (nextE db)).map (·.1))[i]'(by omega) = e.1 := by simp [nextE_some he]
        rw [hcs'_i] at h2
        simp [chain, he, h2]
    · -- the response ends inside the first repetition
      have hP : ((rowsFlat db (k + 1) cs).take L).takeWhile notEom = ((cs.map (nextE db)).take L).takeWhile notEom := by
        simp only [rowsFlat]
        by_cases hL : L ≤ cs.length
        · rw [List.take_append_of_le_length (by omega)]
        · have hnall : ¬ (cs.map (nextE db)).all notEom = true := fun h => hB ⟨by omega, h⟩
          rw [List.take_append, hrowlen, List.take_of_length_le (l := cs.map (nextE db)) (by omega)]
          rw [List.takeWhile_append]
          have : ¬ ((cs.map (nextE db)).takeWhile notEom).length = (cs.map (nextE db)).length := by
            intro heq
            apply hnall
            rw [List.all_eq_true]
            intro a ha
            have hfull : (cs.map (nextE db)).takeWhile notEom = cs.map (nextE db) :=
              (List.takeWhile_sublist _).eq_of_length heq
            rw [← hfull] at ha
            exact mem_takeWhile_pos notEom _ a ha
          simp only [this, ↓reduceIte]
      obtain ⟨hin, hout⟩ := short_row db hv cs L i hi
      have hshort : (((cs.map (nextE db)).take L).takeWhile notEom).length ≤ cs.length := by
        have := (List.takeWhile_sublist notEom (l := (cs.map (nextE db)).take L)).length_le
        simp at this ⊢; omega
      rw [hP, stride_short _ i cs.length hshort hi]
      by_cases hlt : i < (((cs.map (nextE db)).take L).takeWhile notEom).length
      · obtain ⟨e, he, hPi⟩ := hin hlt
        exact ⟨1, by simp [hPi, chain, he], by simp [chain, he], by omega⟩
      · have hnone : (((cs.map (nextE db)).take L).takeWhile notEom)[i]? = none := by
          simp; omega
        refine ⟨0, by simp [hnone, chain], by simp [chain], fun _ => ?_⟩
        rcases hout (by omega) with h | h
        · exact Or.inl h
        · exact Or.inr (Or.inr h)

/-! ### the per-column successor check of the bulk fetcher -/

theorem cc_shift (n : Nat) : ∀ (out : List VarBind) (prev : List Oid) (i : Nat),
    checkColumns n prev (i + n) out = checkColumns n prev i out
  | [], _, _ => by simp [checkColumns]
  | vb :: out, prev, i => by
    unfold checkColumns
    simp only [Nat.add_mod_right]
    split
    · rfl
    · split
      · rw [show i + n + 1 = (i + 1) + n by omega, cc_shift n out _ (i + 1)]
      · rfl

theorem set_take_succ {α} : ∀ (l : List α) (k : Nat) (v : α), k < l.length →
    (l.set k v).take (k + 1) = l.take k ++ [v]
  | [], _, _, h => by simp at h
  | x :: l, 0, v, _ => by simp
  | x :: l, k + 1, v, h => by
    simp only [List.set_cons_succ, List.take_succ_cons, List.cons_append, List.cons.injEq, true_and]
    exact set_take_succ l k v (by simpa using h)

/-- bindings that stay inside one repetition and advance their columns are accepted one by one -/
theorem cc_prefix (n : Nat) : ∀ (out : List VarBind) (prev : List Oid) (k : Nat) (rest : List VarBind)
    (hlen : prev.length = n) (hk : k + out.length ≤ n),
    (∀ j (h : j < out.length), prev[k + j]'(by omega) < (out[j]).1) →
    checkColumns n prev k (out ++ rest) =
      checkColumns n (prev.take k ++ out.map (·.1) ++ prev.drop (k + out.length)) (k + out.length) rest
  | [], prev, k, rest, _, _, _ => by simp
  | vb :: out, prev, k, rest, hlen, hk, hlt => by
    have hkn : k < n := by simp at hk; omega
    have hmod : k % n = k := Nat.mod_eq_of_lt hkn
    have hget : prev[k]? = some prev[k] := by simp [hlen, hkn]
    have h0 : prev[k] < vb.1 := by
      have := hlt 0 (by simp)
      simp only [Nat.add_zero, List.getElem_cons_zero] at this
      exact this
    rw [List.cons_append, checkColumns]
    simp only [hmod, hget, h0, decide_true, ↓reduceIte]
    rw [cc_prefix n out (prev.set k vb.1) (k + 1) rest (by simp [hlen]) (by simp at hk ⊢; omega)]
    · congr 1
      · have h1 : (prev.set k vb.1).take (k + 1) = prev.take k ++ [vb.1] := set_take_succ prev k vb.1 (by omega)
        have h2 : (prev.set k vb.1).drop (k + 1 + out.length) = prev.drop (k + (vb :: out).length) := by
          rw [List.drop_set_of_lt (by omega)]
          congr 1
          simp; omega
        rw [h1, h2]
        simp
      · simp; omega
    · intro j hj
      have := hlt (j + 1) (by simp; omega)
      simp only [List.getElem_cons_succ] at this
      have hne : k ≠ k + 1 + j := by omega
      rw [List.getElem_set_ne hne]
      have e : k + 1 + j = k + (j + 1) := by omega
      simp only [e]
      exact this

theorem nextOf_lt {db : List VarBind} {c : Oid} {e : VarBind} (h : Agent.nextOf db c = some e) : c < e.1 := by
  have := List.find?_some h
  simpa using this

/-- a (shortened, cut) first repetition of a conformant agent passes the check -/
theorem cc_short (db : List VarBind) (hv : ∀ vb ∈ db, vb.2.isEom = false) (cs : List Oid) (L : Nat) :
    checkColumns cs.length cs 0 (((cs.map (nextE db)).take L).takeWhile notEom) = true := by
  have hshort : (((cs.map (nextE db)).take L).takeWhile notEom).length ≤ cs.length := by
    have := (List.takeWhile_sublist notEom (l := (cs.map (nextE db)).take L)).length_le
    simp at this ⊢; omega
  have := cc_prefix cs.length (((cs.map (nextE db)).take L).takeWhile notEom) cs 0 [] rfl (by omega) (by
    intro j hj
    obtain ⟨e, he, hPj⟩ := (short_row db hv cs L j (by omega)).1 hj
    rw [List.getElem?_eq_getElem hj, Option.some.injEq] at hPj
    simp only [Nat.zero_add, hPj]
    exact nextOf_lt he)
  rw [List.append_nil] at this
  rw [this]
  simp [checkColumns]

/-- every response of a conformant agent — any number of repetitions, shortened anywhere — passes
    the per-column successor check of the bulk fetcher -/
theorem cc_conformant (db : List VarBind) (hv : ∀ vb ∈ db, vb.2.isEom = false) :
    ∀ (k : Nat) (cs : List Oid) (L : Nat),
      checkColumns cs.length cs 0 (((rowsFlat db k cs).take L).takeWhile notEom) = true
  | 0, cs, L => by simp [rowsFlat, checkColumns]
  | k + 1, cs, L => by
    have hrowlen : (cs.map (nextE db)).length = cs.length := by simp
    by_cases hB : cs.length < L ∧ (cs.map (nextE db)).all notEom = true
    · obtain ⟨hL, hall⟩ := hB
      have htw : ((rowsFlat db (k + 1) cs).take L).takeWhile notEom
          = cs.map (nextE db) ++ ((rowsFlat db k ((cs.map (nextE db)).map (·.1))).take (L - cs.length)).takeWhile notEom := by
        simp only [rowsFlat]
        rw [List.take_append, hrowlen, List.take_of_length_le (by omega), List.takeWhile_append_of_pos]
        intro a ha
        exact List.all_eq_true.mp hall a ha
      rw [htw, cc_prefix cs.length (cs.map (nextE db)) cs 0 _ rfl (by simp) (by
        intro j hj
        simp only [List.length_map] at hj
        have hnot : notEom (nextE db cs[j]) = true :=
          List.all_eq_true.mp hall _ (List.mem_map_of_mem (List.getElem_mem hj))
        obtain ⟨e, he⟩ := (nextE_notEom hv cs[j]).mp hnot
        simp only [Nat.zero_add, List.getElem_map, nextE_some he]
        exact nextOf_lt he)]
      simp only [List.take_zero, List.nil_append, Nat.zero_add, hrowlen, List.drop_length, List.append_nil]
      have := cc_conformant db hv k ((cs.map (nextE db)).map (·.1)) (L - cs.length)
      simp only [List.length_map] at this
      have hshift := cc_shift cs.length (((rowsFlat db k ((cs.map (nextE db)).map (·.1))).take (L - cs.length)).takeWhile notEom)
        ((cs.map (nextE db)).map (·.1)) 0
      simp only [Nat.zero_add] at hshift
      rw [hshift]
      exact this
    · have hP : ((rowsFlat db (k + 1) cs).take L).takeWhile notEom = ((cs.map (nextE db)).take L).takeWhile notEom := by
        simp only [rowsFlat]
        by_cases hL : L ≤ cs.length
        · rw [List.take_append_of_le_length (by omega)]
        · have hnall : ¬ (cs.map (nextE db)).all notEom = true := fun h => hB ⟨by omega, h⟩
          rw [List.take_append, hrowlen, List.take_of_length_le (l := cs.map (nextE db)) (by omega)]
          rw [List.takeWhile_append]
          have : ¬ ((cs.map (nextE db)).takeWhile notEom).length = (cs.map (nextE db)).length := by
            intro heq
            apply hnall
            rw [List.all_eq_true]
            intro a ha
            have hfull : (cs.map (nextE db)).takeWhile notEom = cs.map (nextE db) :=
              (List.takeWhile_sublist _).eq_of_length heq
            rw [← hfull] at ha
            exact mem_takeWhile_pos notEom _ a ha
          simp only [this, ↓reduceIte]
      rw [hP]
      exact cc_short db hv cs L

/-! ### the bulk fetcher against a conformant agent -/

/-- what the walk needs to know about the agent: a GETBULK without non-repeaters is answered by at
    least one and at most `max-repetitions` repetitions of the conformant successor function,
    shortened ANYWHERE — even inside the first repetition (RFC 3416 4.2.3), as long as one binding
    is left ("however many repetitions the agent chooses to put into each response") -/
structure ConformantBulk (x : Exchange) (db : List VarBind) : Prop where
  resp : ∀ (m : Nat) (cs : List Oid), cs ≠ [] → 1 ≤ m →
    ∃ k L, 1 ≤ k ∧ k ≤ m ∧ 1 ≤ L ∧ x (.getbulk 0 m cs) = .ok ((rowsFlat db k cs).take L)

theorem completeRow_done (x : Exchange) (oids : List Oid) (fuel : Nat) (vbs : List VarBind)
    (h : oids.length ≤ vbs.length) : completeRow x oids fuel vbs = .ok vbs := by
  cases fuel with
  | zero => rfl
  | succ f =>
    unfold completeRow
    have : ¬ vbs.length < oids.length := by omega
    simp [this]; rfl

theorem bulkVarbinds_conformant (x : Exchange) (db : List VarBind) (hx : ConformantBulk x db) (size : Nat)
    (hsize : 1 ≤ size) (cs : List Oid) (hcs : cs ≠ []) :
    ∃ k L, 1 ≤ k ∧ k ≤ size ∧ 1 ≤ L ∧ bulkVarbinds x [] cs size = .ok ((rowsFlat db k cs).take L) := by
  obtain ⟨k, L, hk1, hkm, hL, hresp⟩ := hx.resp size cs hcs hsize
  refine ⟨k, L, hk1, hkm, hL, ?_⟩
  have hlen : ((rowsFlat db k cs).take L).length = min L (k * cs.length) := by
    simp [rowsFlat_length]
  have hmn : k * cs.length ≤ size * cs.length := Nat.mul_le_mul_right _ hkm
  unfold bulkVarbinds
  simp only [List.nil_append, List.length_nil, hresp, bind, Except.bind]
  have hb : ¬ ((((rowsFlat db k cs).take L).length : Int) >
      Gen.bulkBound ((0 : Nat) : Int) (cs.length : Int) (size : Int)) := by
    simp only [Gen.bulkBound, hlen]
    have h1 : ((min L (k * cs.length) : Nat) : Int) ≤ ((size * cs.length : Nat) : Int) := by
      have : min L (k * cs.length) ≤ size * cs.length := by omega
      exact Int.ofNat_le.mpr this
    have h2 : ((size * cs.length : Nat) : Int) = (size : Int) * (cs.length : Int) := by simp
    rw [h2] at h1
    have h3 : min ((0 : Nat) : Int) (cs.length : Int) = 0 := by omega
    have h4 : max ((cs.length : Int) - 0) 0 = (cs.length : Int) := by omega
    simp only [h3, h4, Int.zero_add]
    omega
  rw [if_neg hb]
  rfl

/-- the completion loop of the fetcher: a first repetition that was shortened by the agent is
    completed binding by binding until it is whole or shows an endOfMibView -/
theorem completeRow_conformant (x : Exchange) (db : List VarBind) (hx : ConformantBulk x db) (cs : List Oid) :
    ∀ (fuel Lc : Nat), 1 ≤ Lc → cs.length - Lc ≤ fuel →
      ∃ Lf, Lc ≤ Lf ∧ completeRow x cs fuel ((cs.map (nextE db)).take Lc) = .ok ((cs.map (nextE db)).take Lf) ∧
        (cs.length ≤ Lf ∨ ((cs.map (nextE db)).take Lf).all notEom = false) := by
  intro fuel
  induction fuel with
  | zero =>
    intro Lc _ hf
    exact ⟨Lc, Nat.le_refl _, rfl, Or.inl (by omega)⟩
  | succ fuel ih =>
    intro Lc hLc hf
    have hlen : ((cs.map (nextE db)).take Lc).length = min Lc cs.length := by simp
    by_cases hfull : cs.length ≤ Lc
    · refine ⟨Lc, Nat.le_refl _, ?_, Or.inl hfull⟩
      exact completeRow_done x cs _ _ (by rw [hlen]; omega)
    · by_cases hall : ((cs.map (nextE db)).take Lc).all notEom = true
      · -- ask for the columns that are still missing
        have hrest : cs.drop Lc ≠ [] := by
          intro h
          have := congrArg List.length h
          simp at this; omega
        obtain ⟨k', L', hk1, hk2, hL', hbv⟩ := bulkVarbinds_conformant x db hx 1 (Nat.le_refl 1) (cs.drop Lc) hrest
        have hk' : k' = 1 := by omega
        subst hk'
        have hmiss : (rowsFlat db 1 (cs.drop Lc)).take L' = ((cs.map (nextE db)).drop Lc).take L' := by
          simp [rowsFlat, List.map_drop]
        have hne : (((cs.map (nextE db)).drop Lc).take L').isEmpty = false := by
          cases hd : ((cs.map (nextE db)).drop Lc).take L' with
          | nil =>
            have := congrArg List.length hd
            simp at this; omega
          | cons _ _ => rfl
        have happ : (cs.map (nextE db)).take Lc ++ ((cs.map (nextE db)).drop Lc).take L' = (cs.map (nextE db)).take (Lc + L') := by
          rw [List.take_add]
        obtain ⟨Lf, h1, h2, h3⟩ := ih (Lc + L') (by omega) (by omega)
        refine ⟨Lf, by omega, ?_, h3⟩
        rw [completeRow]
        have hmin : min Lc cs.length = Lc := by omega
        simp only [hlen, hmin]
        have hcond : (decide (0 < Lc) && decide (Lc < cs.length) && ((cs.map (nextE db)).take Lc).all notEom) = true := by
          rw [hall]; simp; omega
        simp only [hcond, ↓reduceIte, bind, Except.bind, hbv, hmiss, hne, Bool.false_eq_true, happ]
        exact h2
      · refine ⟨Lc, Nat.le_refl _, ?_, Or.inr (by simpa using hall)⟩
        rw [completeRow]
        have hcond : (decide (0 < ((cs.map (nextE db)).take Lc).length) && decide (((cs.map (nextE db)).take Lc).length < cs.length) &&
            ((cs.map (nextE db)).take Lc).all notEom) = false := by
          have : ((cs.map (nextE db)).take Lc).all notEom = false := by simpa using hall
          rw [this]; simp
        simp only [hcond, Bool.false_eq_true, ↓reduceIte]
        rfl

theorem bulkFetcher_conformant (x : Exchange) (db : List VarBind) (hv : ∀ vb ∈ db, vb.2.isEom = false)
    (hx : ConformantBulk x db) (size : Nat) (hsize : 1 ≤ size) (cs : List Oid) (hcs : cs ≠ []) :
    ∃ k L, 1 ≤ k ∧
      (cs.length ≤ L ∨ ∃ j, j < L ∧ ∃ hj : j < cs.length, Agent.nextOf db cs[j] = none) ∧
      bulkFetcher x size cs = .ok (((rowsFlat db k cs).take L).takeWhile notEom) := by
  obtain ⟨k, L, hk1, _, hL, hbv⟩ := bulkVarbinds_conformant x db hx size hsize cs hcs
  have hrl : (rowsFlat db k cs).length = k * cs.length := rowsFlat_length db k cs
  have hkn : cs.length ≤ k * cs.length := Nat.le_mul_of_pos_left _ hk1
  by_cases hfull : cs.length ≤ L
  · refine ⟨k, L, hk1, Or.inl hfull, ?_⟩
    unfold bulkFetcher
    simp only [hbv, bind, Except.bind]
    rw [completeRow_done x cs cs.length _ (by simp [hrl]; omega)]
    simp only [cc_conformant db hv k cs L, ↓reduceIte, pure, Except.pure]
  · -- less than one repetition: the fetcher completes it
    have hfirst : (rowsFlat db k cs).take L = (cs.map (nextE db)).take L := by
      obtain ⟨k', rfl⟩ : ∃ k', k = k' + 1 := ⟨k - 1, by omega⟩
      simp only [rowsFlat]
      rw [List.take_append_of_le_length (by simp; omega)]
    obtain ⟨Lf, hLf, hcomp, hend⟩ := completeRow_conformant x db hx cs cs.length L hL (by omega)
    have hone : (rowsFlat db 1 cs).take Lf = (cs.map (nextE db)).take Lf := by simp [rowsFlat]
    refine ⟨1, Lf, Nat.le_refl 1, ?_, ?_⟩
    · rcases hend with h | h
      · exact Or.inl h
      · right
        rw [List.all_eq_false] at h
        obtain ⟨a, ha, hna⟩ := h
        obtain ⟨j, hj, rfl⟩ := List.getElem_of_mem ha
        have hj1 : j < Lf := by simp at hj; omega
        have hj2 : j < cs.length := by simp at hj; omega
        refine ⟨j, hj1, hj2, ?_⟩
        have heq : ((cs.map (nextE db)).take Lf)[j] = nextE db cs[j] := by simp
        rw [heq] at hna
        cases hn : Agent.nextOf db cs[j] with
        | none => rfl
        | some e => exact absurd ((nextE_notEom hv cs[j]).mpr ⟨e, hn⟩) hna
    · unfold bulkFetcher
      simp only [hbv, hfirst, hcomp, bind, Except.bind, hone]
      simp only [cc_short db hv cs Lf, ↓reduceIte, pure, Except.pure]

/-! ### regrouping a multi-repetition response -/

/-- one group per root: the bindings at positions `i, i+n, i+2n, …` -/
def cols (ks : List Oid) (vbs : List VarBind) : Groups :=
  (List.range ks.length).map (fun i => (ks.getD i [], Py.stride vbs i ks.length))

theorem cols_keys (ks : List Oid) (vbs : List VarBind) : (cols ks vbs).map (·.1) = ks := by
  unfold cols
  rw [List.map_map]
  exact range_map_getD ks

theorem group_loop_gen (vbs : List VarBind) (cs ks roots : List Oid) (rootOf : Oid → Oid)
    (hne : cs ≠ []) (hroots : roots ≠ []) (hcs : cs.Nodup)
    (hks : cs.map rootOf = ks) (hknd : ks.Nodup)
    (hf : ∀ c ∈ cs, roots.filter (fun base => inside base c) = [rootOf c]) :
    groupVarbinds vbs cs roots = .ok (cols ks vbs) := by
  unfold groupVarbinds
  have hre : roots.isEmpty = false := by cases roots <;> simp_all
  simp only [bind, Except.bind, hre, Bool.false_eq_true, ↓reduceIte, pure, Except.pure]
  rw [foldl_dictSet_fresh (fun i => cs.getD i []) (fun i => Py.stride vbs i cs.length) _ []
    (by rw [range_map_getD]; exact hcs) (by intro i _ p hp; simp at hp)]
  simp only [List.nil_append]
  have hmem : ∀ p ∈ (List.range cs.length).map (fun i => (cs.getD i [], Py.stride vbs i cs.length)), p.1 ∈ cs := by
    intro p hp
    obtain ⟨i, hi, rfl⟩ := List.mem_map.mp hp
    have hi' : i < cs.length := by simpa using hi
    simp [hi']
  have hkeys : ((List.range cs.length).map (fun i => (cs.getD i [], Py.stride vbs i cs.length))).map (fun p => rootOf p.1) = ks := by
    rw [← hks, List.map_map]
    have := congrArg (List.map rootOf) (range_map_getD cs)
    simpa [List.map_map, Function.comp_def] using this
  rw [go_map roots rootOf _ [] false (fun p hp => hf p.1 (hmem p hp)) (by rw [hkeys]; exact hknd)
    (by intro p _ q hq; simp at hq)]
  have hnonempty : ((List.range cs.length).map (fun i => (cs.getD i [], Py.stride vbs i cs.length))).isEmpty = false := by
    cases cs with
    | nil => exact absurd rfl hne
    | cons c cs => simp [List.range_succ_eq_map]
  simp only [List.nil_append, hnonempty, Bool.not_false, Bool.or_true, ↓reduceIte]
  congr 1
  unfold cols
  have hlen : ks.length = cs.length := by rw [← hks]; simp
  rw [hlen, List.map_map]
  apply List.map_congr_left
  intro i hi
  have hi' : i < cs.length := by simpa using hi
  simp only [Function.comp]
  congr 1
  rw [← hks]
  simp [hi']

def lastOf (kv : Oid × List VarBind) : Option (Oid × VarBind) := kv.2.getLast?.map fun l => (kv.1, l)

theorem lastOf_keys_sublist : ∀ (g : Groups), ((g.filterMap lastOf).map (·.1)).Sublist (g.map (·.1))
  | [] => by simp
  | kv :: g => by
    simp only [List.filterMap_cons, List.map_cons]
    cases h : lastOf kv with
    | none => exact (lastOf_keys_sublist g).cons _
    | some p =>
      simp only [List.map_cons]
      have : p.1 = kv.1 := by
        unfold lastOf at h
        cases hl : kv.2.getLast? with
        | none => simp [hl] at h
        | some l => simp [hl] at h; rw [← h]
      rw [this]
      exact (lastOf_keys_sublist g).cons_cons _

/-- `get_unfinished_walk_oids` on groups whose keys are strictly ascending -/
theorem unfinished_sorted (g : Groups) (hs : (g.map (·.1)).Pairwise (· < ·)) :
    unfinished g = (g.filterMap lastOf).filter (fun kl => inside kl.1 kl.2.1) := by
  unfold unfinished
  show (List.filter _ ((g.filterMap lastOf).mergeSort _)) = _
  rw [List.mergeSort_of_pairwise]
  have h1 : ((g.filterMap lastOf).map (·.1)).Pairwise (· < ·) := hs.sublist (lastOf_keys_sublist g)
  rw [List.pairwise_map] at h1
  apply h1.imp
  intro a b hab
  rw [oidLe_iff]
  exact Std.le_of_lt hab

/-- One iteration of the walk loop with an arbitrary fetcher and a response of any length, for
    pairwise disjoint roots. -/
theorem loop_step_cols (fetch : Fetcher) (roots : List Oid) (lenient : Bool) (fuel : Nat)
    (unf : List (Oid × VarBind)) (yielded : List Oid) (ev : List Event) (vbs : List VarBind)
    (hd : WalkAbs.Disjoint roots) (hsub : (unf.map (·.1)).Sublist roots)
    (hins : ∀ p ∈ unf, p.1 <+: p.2.1) (hne : unf ≠ [])
    (hf : fetch (unf.map (·.2.1)) = .ok vbs) :
    loop fetch roots lenient (fuel + 1) unf yielded ev =
      loop fetch roots lenient fuel
        (((cols (unf.map (·.1)) vbs).filterMap lastOf).filter (fun kl => inside kl.1 kl.2.1))
        (deduped roots (cols (unf.map (·.1)) vbs) yielded).2
        (ev ++ [Event.req (unf.map (·.2.1))] ++
          (deduped roots (cols (unf.map (·.1)) vbs) yielded).1.map Event.yield) := by
  have hemp : unf.isEmpty = false := by cases unf <;> simp_all
  have hks_lt : (unf.map (·.1)).Pairwise (· < ·) := (disjoint_lt hd).sublist hsub
  have hcur_lt := cursors_lt hd unf hsub hins
  have hroots : roots ≠ [] := by
    intro h; subst h
    have := List.sublist_nil.mp hsub
    cases unf <;> simp_all
  let rootOf : Oid → Oid := fun c => (roots.filter (fun b => inside b c)).headD []
  have hfil : ∀ p ∈ unf, roots.filter (fun b => inside b p.2.1) = [p.1] := by
    intro p hp
    exact filter_root_unique roots p.1 p.2.1 hd (hsub.subset (List.mem_map_of_mem (f := (·.1)) hp)) (hins p hp)
  have hgrp := group_loop_gen vbs (unf.map (·.2.1)) (unf.map (·.1)) roots rootOf
    (by cases unf <;> simp_all) hroots (pairwise_lt_nodup hcur_lt)
    (by
      rw [List.map_map]
      apply List.map_congr_left
      intro p hp
      show (roots.filter (fun b => inside b p.2.1)).headD [] = p.1
      rw [hfil p hp]; rfl)
    (pairwise_lt_nodup hks_lt)
    (by
      intro c hc
      obtain ⟨p, hp, rfl⟩ := List.mem_map.mp hc
      show roots.filter (fun b => inside b p.2.1) = [(roots.filter (fun b => inside b p.2.1)).headD []]
      rw [hfil p hp]; rfl)
  rw [loop]
  simp only [hemp, Bool.false_eq_true, ↓reduceIte, hf, hgrp]
  rw [unfinished_sorted _ (by rw [cols_keys]; exact hks_lt)]

/-! ### successor chains -/

theorem chain_mem_db (db : List VarBind) : ∀ (ℓ : Nat) (c : Oid), ∀ e ∈ chain db ℓ c, e ∈ db
  | 0, _, e, h => by simp [chain] at h
  | ℓ + 1, c, e, h => by
    unfold chain at h
    split at h
    · rename_i e1 he1
      rcases List.mem_cons.mp h with rfl | h'
      · exact List.mem_of_find?_eq_some he1
      · exact chain_mem_db db ℓ e1.1 e h'
    · simp at h

/-- everything in a chain lies above its starting point -/
theorem chain_gt (db : List VarBind) : ∀ (ℓ : Nat) (c : Oid), ∀ e ∈ chain db ℓ c, c < e.1
  | 0, _, e, h => by simp [chain] at h
  | ℓ + 1, c, e, h => by
    unfold chain at h
    split at h
    · rename_i e1 he1
      rcases List.mem_cons.mp h with rfl | h'
      · exact nextOf_lt he1
      · exact Std.lt_trans (nextOf_lt he1) (chain_gt db ℓ e1.1 e h')
    · simp at h

theorem nextOf_least {db : List VarBind} (hs : WalkAbs.Sorted (db.map (·.1))) {c : Oid} {e1 : VarBind}
    (h : Agent.nextOf db c = some e1) : ∀ e ∈ db, c < e.1 → e1.1 ≤ e.1 := by
  intro e he hlt
  have h' : WalkAbs.nextOf (db.map (·.1)) c = some e1.1 := by rw [nextOf_map, h]; rfl
  exact (WalkAbs.nextOf_some hs h').2.2 e.1 (List.mem_map_of_mem (f := (·.1)) he) hlt

/-- a full chain contains every database entry between its start and its last element -/
theorem chain_covers {db : List VarBind} (hs : WalkAbs.Sorted (db.map (·.1))) :
    ∀ (ℓ : Nat) (c : Oid) (lst : VarBind), (chain db ℓ c).getLast? = some lst →
      ∀ e ∈ db, c < e.1 → e.1 ≤ lst.1 → e ∈ chain db ℓ c
  | 0, _, _, h, _, _, _, _ => by simp [chain] at h
  | ℓ + 1, c, lst, h, e, he, hce, hel => by
    unfold chain at h ⊢
    cases hn : Agent.nextOf db c with
    | none => simp [hn] at h
    | some e1 =>
      simp only [hn] at h ⊢
      by_cases heq : e = e1
      · simp [heq]
      · have hle : e1.1 ≤ e.1 := nextOf_least hs hn e he hce
        have hne : e1.1 ≠ e.1 := by
          intro h1
          exact heq (sorted_keys_inj db hs e he e1 (List.mem_of_find?_eq_some hn) h1.symm)
        have hlt : e1.1 < e.1 := by
          apply Decidable.byContradiction
          intro hnlt
          exact hne (List.le_antisymm hle (List.not_lt.mp hnlt))
        refine List.mem_cons_of_mem _ ?_
        cases hrest : chain db ℓ e1.1 with
        | nil =>
          simp only [hrest, List.getLast?_singleton, Option.some.injEq] at h
          subst h
          exact absurd hlt (List.not_lt.mpr hel)
        | cons y ys =>
          have hl : (chain db ℓ e1.1).getLast? = some lst := by
            rw [hrest] at h ⊢
            simpa [List.getLast?_cons_cons] using h
          rw [← hrest]
          exact chain_covers hs ℓ e1.1 lst hl e he hlt hel

/-! ### one bulk iteration keeps the completeness invariant and makes progress -/

theorem above_mono (db : List Oid) {c v : Oid} (h : c < v) :
    (WalkAbs.above db v).length ≤ (WalkAbs.above db c).length := by
  induction db with
  | nil => simp [WalkAbs.above]
  | cons x xs ih =>
    unfold WalkAbs.above at ih ⊢
    simp only [List.filter_cons]
    by_cases hvx : v < x
    · have hcx : c < x := Std.lt_trans h hvx
      simp only [hvx, hcx, decide_true, ↓reduceIte, List.length_cons]; omega
    · by_cases hcx : c < x
      · simp only [hvx, hcx, decide_true, decide_false, Bool.false_eq_true, ↓reduceIte, List.length_cons]; omega
      · simp only [hvx, hcx, decide_false, Bool.false_eq_true, ↓reduceIte]; exact ih

theorem above_lt (db : List Oid) {c v : Oid} (h : c < v) (hv : v ∈ db) :
    (WalkAbs.above db v).length < (WalkAbs.above db c).length := by
  induction db with
  | nil => simp at hv
  | cons x xs ih =>
    rcases List.mem_cons.mp hv with rfl | hv'
    · have hm := above_mono xs h
      unfold WalkAbs.above at hm ⊢
      simp only [List.filter_cons, List.lt_irrefl, decide_false, Bool.false_eq_true, ↓reduceIte, h, decide_true,
        List.length_cons]
      omega
    · have ih' := ih hv'
      unfold WalkAbs.above at ih' ⊢
      simp only [List.filter_cons]
      by_cases hvx : v < x
      · have hcx : c < x := Std.lt_trans h hvx
        simp only [hvx, hcx, decide_true, ↓reduceIte, List.length_cons]; omega
      · by_cases hcx : c < x
        · simp only [hvx, hcx, decide_true, decide_false, Bool.false_eq_true, ↓reduceIte, List.length_cons]; omega
        · simp only [hvx, hcx, decide_false, Bool.false_eq_true, ↓reduceIte]; exact ih'

theorem cols_mem {ks : List Oid} {vbs : List VarBind} {grp : Oid × List VarBind} :
    grp ∈ cols ks vbs ↔ ∃ i, i < ks.length ∧ grp = (ks.getD i [], Py.stride vbs i ks.length) := by
  unfold cols
  simp only [List.mem_map, List.mem_range]
  constructor
  · rintro ⟨i, hi, rfl⟩; exact ⟨i, hi, rfl⟩
  · rintro ⟨i, hi, rfl⟩; exact ⟨i, hi, rfl⟩

/-- the groups of a conformant response: per live column its root and a full successor chain
    from its cursor; an empty chain only when some cursor at or before it has no successor -/
theorem conformant_groups (db : List VarBind) (hv : ∀ vb ∈ db, vb.2.isEom = false)
    (unf : List (Oid × VarBind)) (k L : Nat) (hk : 1 ≤ k)
    (hL : unf.length ≤ L ∨ ∃ j, j < L ∧ ∃ hj : j < unf.length, Agent.nextOf db (unf[j]).2.1 = none)
    (hcur : (unf.map (·.2.1)).Pairwise (· < ·)) :
    let P := ((rowsFlat db k (unf.map (·.2.1))).take L).takeWhile notEom
    (∀ grp ∈ cols (unf.map (·.1)) P, ∃ p ∈ unf, ∃ ℓ, grp = (p.1, chain db ℓ p.2.1) ∧ (chain db ℓ p.2.1).length = ℓ) ∧
    (∀ p ∈ unf, ∃ ℓ, (p.1, chain db ℓ p.2.1) ∈ cols (unf.map (·.1)) P ∧ (chain db ℓ p.2.1).length = ℓ ∧
      (ℓ = 0 → ∃ q ∈ unf, q.2.1 ≤ p.2.1 ∧ Agent.nextOf db q.2.1 = none)) := by
  intro P
  have hlen1 : (unf.map (·.1)).length = unf.length := by simp
  have hlen2 : (unf.map (·.2.1)).length = unf.length := by simp
  have key : ∀ i (hi : i < unf.length), ∃ ℓ,
      ((unf.map (·.1)).getD i [], Py.stride P i (unf.map (·.1)).length) = ((unf[i]).1, chain db ℓ (unf[i]).2.1) ∧
      (chain db ℓ (unf[i]).2.1).length = ℓ ∧
      (ℓ = 0 → ∃ q ∈ unf, q.2.1 ≤ (unf[i]).2.1 ∧ Agent.nextOf db q.2.1 = none) := by
    intro i hi
    obtain ⟨ℓ, h1, h2, h3⟩ := column_chain db hv k (unf.map (·.2.1)) L i (by simpa using hi)
    have hci : (unf.map (·.2.1))[i]'(by simpa using hi) = (unf[i]).2.1 := by simp
    simp only [hci] at h1 h2 h3
    refine ⟨ℓ, ?_, h2, ?_⟩
    · have hk1 : (unf.map (·.1)).getD i [] = (unf[i]).1 := by simp [hi]
      rw [hk1, hlen1, ← hlen2, h1]
    · intro h0
      have hle : ∀ j (hj' : j < unf.length), j ≤ i → (unf[j]).2.1 ≤ (unf[i]).2.1 := by
        intro j hj' hji
        by_cases hjeq : j = i
        · subst hjeq; exact List.le_refl _
        · have hlt : j < i := by omega
          have := List.pairwise_iff_getElem.mp hcur j i (by simpa using hj') (by simpa using hi) hlt
          simp only [List.getElem_map] at this
          exact Std.le_of_lt this
      rcases h3 h0 with h | h | ⟨j, hji, hj, hnone⟩
      · rcases hL with hL | ⟨j, hjL, hj', hnone⟩
        · omega
        · exact ⟨unf[j], List.getElem_mem hj', hle j hj' (by omega), hnone⟩
      · omega
      · have hj' : j < unf.length := by simpa using hj
        exact ⟨unf[j], List.getElem_mem hj', hle j hj' hji, by simpa using hnone⟩
  refine ⟨?_, ?_⟩
  · intro grp hg
    obtain ⟨i, hi, rfl⟩ := cols_mem.mp hg
    rw [hlen1] at hi
    obtain ⟨ℓ, h1, h2, _⟩ := key i hi
    exact ⟨unf[i], List.getElem_mem hi, ℓ, h1, h2⟩
  · intro p hp
    obtain ⟨i, hi, rfl⟩ := List.getElem_of_mem hp
    obtain ⟨ℓ, h1, h2, h3⟩ := key i hi
    refine ⟨ℓ, ?_, h2, h3⟩
    rw [← h1]
    exact cols_mem.mpr ⟨i, by rw [hlen1]; exact hi, rfl⟩

theorem lastOf_some {kv : Oid × List VarBind} {p : Oid × VarBind} (h : lastOf kv = some p) :
    p.1 = kv.1 ∧ kv.2.getLast? = some p.2 := by
  unfold lastOf at h
  cases hl : kv.2.getLast? with
  | none => simp [hl] at h
  | some l => simp [hl] at h; rw [← h]; exact ⟨rfl, rfl⟩

/-- **One bulk iteration** against a conformant agent: the completeness invariant is kept, every
    column that stays has moved its cursor forward along the database, and only database entries
    are yielded. -/
theorem bulk_step_inv (db : List VarBind) (roots : List Oid)
    (hs : WalkAbs.Sorted (db.map (·.1))) (hv : ∀ vb ∈ db, vb.2.isEom = false)
    (hd : WalkAbs.Disjoint roots) (unf : List (Oid × VarBind)) (yielded : List Oid)
    (hi : WalkAbs.Inv (db.map (·.1)) roots ⟨absCur unf, yielded⟩)
    (k L : Nat) (hk : 1 ≤ k)
    (hL : unf.length ≤ L ∨ ∃ j, j < L ∧ ∃ hj : j < unf.length, Agent.nextOf db (unf[j]).2.1 = none) :
    let g := cols (unf.map (·.1)) (((rowsFlat db k (unf.map (·.2.1))).take L).takeWhile notEom)
    let unf' := (g.filterMap lastOf).filter (fun kl => inside kl.1 kl.2.1)
    WalkAbs.Inv (db.map (·.1)) roots ⟨absCur unf', (deduped roots g yielded).2⟩ ∧
    (∀ p' ∈ unf', ∃ p ∈ unf, (WalkAbs.above (db.map (·.1)) p'.2.1).length < (WalkAbs.above (db.map (·.1)) p.2.1).length) ∧
    (∀ vb ∈ (deduped roots g yielded).1, vb ∈ db) := by
  intro g unf'
  have hsub : (unf.map (·.1)).Sublist roots := by
    have := hi.sub; simpa [absCur, List.map_map, Function.comp_def] using this
  have hins : ∀ p ∈ unf, p.1 <+: p.2.1 := by
    intro p hp
    exact hi.ins (p.1, p.2.1) (List.mem_map_of_mem (f := fun p => (p.1, p.2.1)) hp)
  have hcur := cursors_lt hd unf hsub hins
  obtain ⟨hg1, hg2⟩ := conformant_groups db hv unf k L hk hL hcur
  have hmem' : ∀ p' ∈ unf', ∃ p ∈ unf, ∃ ℓ, p'.1 = p.1 ∧ (chain db ℓ p.2.1).getLast? = some p'.2 ∧ inside p'.1 p'.2.1 = true := by
    intro p' hp'
    obtain ⟨hfm, hin⟩ := List.mem_filter.mp hp'
    obtain ⟨grp, hgrp, hlast⟩ := List.mem_filterMap.mp hfm
    obtain ⟨p, hp, ℓ, rfl, _⟩ := hg1 grp hgrp
    obtain ⟨h1, h2⟩ := lastOf_some hlast
    exact ⟨p, hp, ℓ, h1, h2, hin⟩
  refine ⟨⟨?_, ?_, ?_⟩, ?_, ?_⟩
  · -- the live roots are still a sublist of the roots
    have h1 : ((unf'.map (·.1))).Sublist ((g.filterMap lastOf).map (·.1)) := List.filter_sublist.map _
    have h2 := lastOf_keys_sublist g
    have h3 : g.map (·.1) = unf.map (·.1) := cols_keys _ _
    rw [h3] at h2
    have : (absCur unf').map (·.1) = unf'.map (·.1) := absCur_fst unf'
    show ((absCur unf').map (·.1)).Sublist roots
    rw [this]
    exact (h1.trans h2).trans hsub
  · intro q hq
    obtain ⟨p', hp', rfl⟩ := List.mem_map.mp hq
    exact (inside_iff _ _).mp (List.mem_filter.mp hp').2
  · -- coverage
    intro r hr o ho hro hne
    obtain ⟨e, he, rfl⟩ := List.mem_map.mp ho
    rcases hi.cov r hr e.1 ho hro hne with hy | ⟨c, hc, hco⟩
    · exact Or.inl (((deduped_mem roots g yielded e.1).1).mpr (Or.inl hy))
    · obtain ⟨p, hp, hpeq⟩ := List.mem_map.mp hc
      simp only [Prod.mk.injEq] at hpeq
      obtain ⟨hpr, hpc⟩ := hpeq
      obtain ⟨ℓ, hgm, hlen, hzero⟩ := hg2 p hp
      rw [hpc] at hgm hlen hzero
      have hany : roots.any (fun r' => inside r' e.1) = true :=
        List.any_eq_true.mpr ⟨r, hr, (inside_iff r e.1).mpr hro⟩
      cases hch : chain db ℓ c with
      | nil =>
        -- no binding for this column: some cursor at or before it is at the end of the view
        have h0 : ℓ = 0 := by rw [hch] at hlen; simpa using hlen.symm
        obtain ⟨q, _, hqc, hnone⟩ := hzero h0
        have hnone' : WalkAbs.nextOf (db.map (·.1)) q.2.1 = none := by rw [nextOf_map, hnone]; rfl
        have hqe : q.2.1 < e.1 := Std.lt_of_le_of_lt hqc hco
        exact absurd hqe (WalkAbs.nextOf_none hnone' e.1 ho)
      | cons y ys =>
        obtain ⟨lst, hlst⟩ : ∃ lst, (chain db ℓ c).getLast? = some lst := by
          rw [hch]; exact ⟨_, List.getLast?_eq_some_getLast (by simp)⟩
        by_cases hle : e.1 ≤ lst.1
        · have hin := chain_covers hs ℓ c lst hlst e he hco hle
          exact Or.inl (((deduped_mem roots g yielded e.1).1).mpr
            (Or.inr ⟨hany, (p.1, chain db ℓ c), hgm, e, hin, rfl⟩))
        · have hlt : lst.1 < e.1 := List.not_le.mp hle
          have hlstmem : lst ∈ chain db ℓ c := List.mem_of_getLast? hlst
          have hclst : c < lst.1 := chain_gt db ℓ c lst hlstmem
          have hrc : r <+: c := by rw [← hpr, ← hpc]; exact hins p hp
          have hrl : r <+: lst.1 := WalkAbs.convex r c lst.1 e.1 hrc hro (Std.le_of_lt hclst) (Std.le_of_lt hlt)
          right
          refine ⟨lst.1, ?_, hlt⟩
          have hun : (r, lst) ∈ unf' := by
            refine List.mem_filter.mpr ⟨List.mem_filterMap.mpr ⟨(p.1, chain db ℓ c), hgm, ?_⟩, (inside_iff r lst.1).mpr hrl⟩
            simp [lastOf, hlst, hpr]
          exact List.mem_map_of_mem (f := fun p => (p.1, p.2.1)) hun
  · -- progress
    intro p' hp'
    obtain ⟨p, hp, ℓ, _, hlast, _⟩ := hmem' p' hp'
    have hmem : p'.2 ∈ chain db ℓ p.2.1 := List.mem_of_getLast? hlast
    refine ⟨p, hp, above_lt _ (chain_gt db ℓ p.2.1 p'.2 hmem) ?_⟩
    exact List.mem_map_of_mem (f := (·.1)) (chain_mem_db db ℓ p.2.1 p'.2 hmem)
  · intro vb hvb
    obtain ⟨grp, hgrp, hm⟩ := (deduped_mem roots g yielded vb.1).2 vb hvb
    obtain ⟨p, _, ℓ, rfl, _⟩ := hg1 grp hgrp
    exact chain_mem_db db ℓ p.2.1 vb hm

/-- **The bulk-walk loop against a conformant agent**: with a budget that covers the entries still
    above the cursors, it ends normally, has yielded every entry strictly below a root, and yields
    database entries only. -/
theorem loop_bulk (x : Exchange) (db : List VarBind) (roots : List Oid) (size : Nat) (hsize : 1 ≤ size)
    (hs : WalkAbs.Sorted (db.map (·.1))) (hv : ∀ vb ∈ db, vb.2.isEom = false)
    (hd : WalkAbs.Disjoint roots) (hx : ConformantBulk x db) (lenient : Bool) :
    ∀ (fuel : Nat) (unf : List (Oid × VarBind)) (yielded : List Oid) (ev : List Event),
      WalkAbs.Inv (db.map (·.1)) roots ⟨absCur unf, yielded⟩ →
      WalkAbs.Fuel (db.map (·.1)) fuel ⟨absCur unf, yielded⟩ →
      yieldOids ev = yielded → (∀ vb ∈ yieldsOf ev, vb ∈ db) →
      (loop (bulkFetcher x size) roots lenient fuel unf yielded ev).outcome = .done ∧
      (∀ r ∈ roots, ∀ e ∈ db, r <+: e.1 → e.1 ≠ r →
        e.1 ∈ yieldOids (loop (bulkFetcher x size) roots lenient fuel unf yielded ev).events) ∧
      (∀ vb ∈ yieldsOf (loop (bulkFetcher x size) roots lenient fuel unf yielded ev).events, vb ∈ db) := by
  intro fuel
  induction fuel with
  | zero =>
    intro unf yielded ev hi hf hev hdb
    have hnil : unf = [] := by
      cases unf with
      | nil => rfl
      | cons p ps => exact absurd (hf (p.1, p.2.1) (by simp [absCur])) (by omega)
    subst hnil
    unfold loop
    refine ⟨by simp, ?_, by simpa using hdb⟩
    intro r hr e he hre hne
    rcases hi.cov r hr e.1 (List.mem_map_of_mem (f := (·.1)) he) hre hne with h | ⟨c, hc, _⟩
    · simpa [hev] using h
    · simp [absCur] at hc
  | succ fuel ih =>
    intro unf yielded ev hi hf hev hdb
    by_cases hne : unf = []
    · subst hne
      unfold loop
      refine ⟨by simp, ?_, by simpa using hdb⟩
      intro r hr e he hre hne'
      rcases hi.cov r hr e.1 (List.mem_map_of_mem (f := (·.1)) he) hre hne' with h | ⟨c, hc, _⟩
      · simpa [hev] using h
      · simp [absCur] at hc
    · have hsub : (unf.map (·.1)).Sublist roots := by
        have := hi.sub; simpa [absCur, List.map_map, Function.comp_def] using this
      have hins : ∀ p ∈ unf, p.1 <+: p.2.1 := by
        intro p hp
        exact hi.ins (p.1, p.2.1) (List.mem_map_of_mem (f := fun p => (p.1, p.2.1)) hp)
      obtain ⟨k, L, hk, hL, hfetch⟩ := bulkFetcher_conformant x db hv hx size hsize (unf.map (·.2.1))
        (by cases unf <;> simp_all)
      rw [loop_step_cols (bulkFetcher x size) roots lenient fuel unf yielded ev _ hd hsub hins hne hfetch]
      obtain ⟨hinv, hprog, hyd⟩ := bulk_step_inv db roots hs hv hd unf yielded hi k L hk (by simpa using hL)
      apply ih _ _ _ hinv
      · intro q hq
        obtain ⟨p', hp', rfl⟩ := List.mem_map.mp hq
        obtain ⟨p, hp, hlt⟩ := hprog p' hp'
        have := hf (p.1, p.2.1) (List.mem_map_of_mem (f := fun p => (p.1, p.2.1)) hp)
        simp only at this ⊢
        omega
      · rw [yieldOids_append, yieldOids_append, hev, yieldOids_req, yieldOids_map_yield]
        simp only [List.append_nil]
        exact (deduped_snd_eq roots _ yielded).symm
      · intro vb hvb
        rw [yieldsOf_append, yieldsOf_append, yieldsOf_req, yieldsOf_map_yield] at hvb
        simp only [List.append_nil] at hvb
        rcases List.mem_append.mp hvb with h | h
        · exact hdb vb h
        · exact hyd vb h

theorem group_first_gen (vbs : List VarBind) (roots : List Oid) (hnd : roots.Nodup) :
    groupVarbinds vbs roots [] = .ok (cols roots vbs) := by
  unfold groupVarbinds
  simp only [bind, Except.bind, List.isEmpty_nil, ↓reduceIte, pure, Except.pure]
  rw [foldl_dictSet_fresh (fun i => roots.getD i []) (fun i => Py.stride vbs i roots.length) _ []
    (by rw [range_map_getD]; exact hnd) (by intro i _ p hp; simp at hp)]
  simp [cols]

/-- the whole bulk walk, first request included -/
theorem multiwalk_bulk (x : Exchange) (db : List VarBind) (roots0 : List Oid) (size fuel : Nat)
    (hsize : 1 ≤ size) (hs : WalkAbs.Sorted (db.map (·.1))) (hv : ∀ vb ∈ db, vb.2.isEom = false)
    (hd : WalkAbs.Disjoint (sortOids roots0)) (hne : roots0 ≠ []) (hx : ConformantBulk x db)
    (hfuel : db.length ≤ fuel) (lenient : Bool) :
    (multiwalk (bulkFetcher x size) roots0 lenient fuel).outcome = .done ∧
    (∀ r ∈ sortOids roots0, ∀ e ∈ db, r <+: e.1 → e.1 ≠ r →
      e.1 ∈ yieldOids (multiwalk (bulkFetcher x size) roots0 lenient fuel).events) ∧
    (∀ vb ∈ yieldsOf (multiwalk (bulkFetcher x size) roots0 lenient fuel).events, vb ∈ db) := by
  have hsne : sortOids roots0 ≠ [] := by
    intro h
    have := (List.mergeSort_perm roots0 oidLe).length_eq
    unfold sortOids at h
    rw [h] at this
    cases roots0 <;> simp_all
  unfold multiwalk
  simp only
  generalize sortOids roots0 = sroots at hd hsne ⊢
  have hlt := disjoint_lt hd
  let unf0 : List (Oid × VarBind) := sroots.map (fun r => (r, (r, Val.null)))
  have h1 : unf0.map (·.1) = sroots := by simp [unf0, List.map_map, Function.comp_def]
  have h2 : unf0.map (·.2.1) = sroots := by simp [unf0, List.map_map, Function.comp_def]
  have habs0 : absCur unf0 = (WalkAbs.init sroots).cur := by
    simp [absCur, unf0, WalkAbs.init, List.map_map, Function.comp_def]
  have hi0 : WalkAbs.Inv (db.map (·.1)) sroots ⟨absCur unf0, []⟩ := by
    have := WalkAbs.init_inv (db.map (·.1)) sroots
    rw [habs0]; exact this
  obtain ⟨k, L, hk, hL, hfetch⟩ := bulkFetcher_conformant x db hv hx size hsize sroots hsne
  obtain ⟨hinv, hprog, hyd⟩ := bulk_step_inv db sroots hs hv hd unf0 [] hi0 k L hk (by simpa [unf0] using hL)
  rw [h1, h2] at hinv hprog hyd
  simp only [hfetch, group_first_gen _ sroots (pairwise_lt_nodup hlt)]
  rw [unfinished_sorted _ (by rw [cols_keys]; exact hlt)]
  apply loop_bulk x db sroots size hsize hs hv hd hx lenient fuel _ _ _ hinv
  · intro q hq
    obtain ⟨p', hp', rfl⟩ := List.mem_map.mp hq
    obtain ⟨p, _, hlt'⟩ := hprog p' hp'
    have : (WalkAbs.above (db.map (·.1)) p.2.1).length ≤ db.length := by
      have := List.length_filter_le (fun x => decide (p.2.1 < x)) (db.map (·.1))
      simpa [WalkAbs.above] using this
    simp only at hlt' ⊢
    omega
  · rw [yieldOids_append, yieldOids_req, yieldOids_map_yield]
    simpa using (deduped_snd_eq sroots _ []).symm
  · intro vb hvb
    rw [yieldsOf_append, yieldsOf_req, yieldsOf_map_yield] at hvb
    simp only [List.nil_append] at hvb
    exact hyd vb hvb

/-! ### the model agent is such an agent -/

theorem bulkRows_conformant (db : List VarBind) (stop : Bool) :
    ∀ (N j : Nat) (cur : List Oid), 1 ≤ N →
      ∃ k, 1 ≤ k ∧ k ≤ N ∧ (Agent.bulkRows (Agent.conformant db) stop N j cur).flatten = rowsFlat db k cur ∧
        (Agent.bulkRows (Agent.conformant db) stop N j cur).length = k
  | 0, _, _, h => by omega
  | N + 1, j, cur, _ => by
    have hrow : cur.map (fun o => Agent.conformant db o j) = cur.map (nextE db) := rfl
    unfold Agent.bulkRows
    simp only [hrow]
    split
    · exact ⟨1, by omega, by omega, by simp [rowsFlat], by simp⟩
    · cases N with
      | zero => exact ⟨1, by omega, by omega, by simp [rowsFlat, Agent.bulkRows], by simp [Agent.bulkRows]⟩
      | succ N' =>
        obtain ⟨k', h1, h2, h3, h4⟩ := bulkRows_conformant db stop (N' + 1) (j + 1) ((cur.map (nextE db)).map (·.1)) (by omega)
        exact ⟨k' + 1, by omega, by omega, by simp only [List.flatten_cons, h3, rowsFlat], by simp only [List.length_cons, h4]⟩

theorem getbulk_form (a : AgentFn) (pol : BulkPolicy) (m : Nat) (cs : List Oid) (hcs : cs ≠ []) (hm : 1 ≤ m)
    (hdeep : pol.deep = false) :
    ∃ N, 1 ≤ N ∧ N ≤ m ∧ Agent.getbulkResp a pol 0 m cs =
      (if (decide (pol.cut > 0) && decide ((Agent.bulkRows a pol.stopAfterEomRow N 0 cs).length > 1)) = true then
        (Agent.bulkRows a pol.stopAfterEomRow N 0 cs).flatten.take
          (max (Agent.bulkRows a pol.stopAfterEomRow N 0 cs).head!.length
            ((Agent.bulkRows a pol.stopAfterEomRow N 0 cs).flatten.length - pol.cut))
      else (Agent.bulkRows a pol.stopAfterEomRow N 0 cs).flatten) := by
  have hemp : cs.isEmpty = false := by cases cs <;> simp_all
  cases hr : pol.rows with
  | none =>
    refine ⟨m, hm, Nat.le_refl _, ?_⟩
    simp only [Agent.getbulkResp, Nat.zero_min, List.take_zero, List.map_nil, List.drop_zero,
      List.nil_append, hemp, Bool.false_eq_true, ↓reduceIte, hdeep, Bool.and_false, Bool.false_and, hr]
  | some r =>
    refine ⟨min m (max 1 r), by omega, by omega, ?_⟩
    simp only [Agent.getbulkResp, Nat.zero_min, List.take_zero, List.map_nil, List.drop_zero,
      List.nil_append, hemp, Bool.false_eq_true, ↓reduceIte, hdeep, Bool.and_false, Bool.false_and, hr]

theorem getbulk_form_deep (a : AgentFn) (pol : BulkPolicy) (m : Nat) (cs : List Oid) (hcs : cs ≠ []) (hm : 1 ≤ m)
    (hdeep : pol.deep = true) :
    ∃ N, 1 ≤ N ∧ N ≤ m ∧ Agent.getbulkResp a pol 0 m cs =
      (if (decide (pol.cut > 0) && !(Agent.bulkRows a pol.stopAfterEomRow N 0 cs).flatten.isEmpty) = true then
        (Agent.bulkRows a pol.stopAfterEomRow N 0 cs).flatten.take
          (max 1 ((Agent.bulkRows a pol.stopAfterEomRow N 0 cs).flatten.length - pol.cut))
      else (Agent.bulkRows a pol.stopAfterEomRow N 0 cs).flatten) := by
  have hemp : cs.isEmpty = false := by cases cs <;> simp_all
  cases hr : pol.rows with
  | none =>
    refine ⟨m, hm, Nat.le_refl _, ?_⟩
    simp only [Agent.getbulkResp, Nat.zero_min, List.take_zero, List.map_nil, List.drop_zero,
      List.nil_append, hemp, Bool.false_eq_true, ↓reduceIte, hdeep, Bool.and_true, hr]
    split
    · rfl
    · rename_i h1
      split
      · rename_i h2
        exfalso
        simp only [Bool.and_eq_true, decide_eq_true_eq] at h1 h2
        apply h1
        refine ⟨h2.1, ?_⟩
        cases hb : Agent.bulkRows a pol.stopAfterEomRow m 0 cs with
        | nil => simp [hb] at h2
        | cons row rest =>
          have : row.length = cs.length := by
            cases m with
            | zero => omega
            | succ m' =>
              unfold Agent.bulkRows at hb
              simp only [] at hb
              split at hb <;> (simp only [List.cons.injEq] at hb; rw [← hb.1]; simp)
          cases row with
          | nil => simp at this; cases cs <;> simp_all
          | cons _ _ => simp
      · rfl
  | some r =>
    refine ⟨min m (max 1 r), by omega, by omega, ?_⟩
    simp only [Agent.getbulkResp, Nat.zero_min, List.take_zero, List.map_nil, List.drop_zero,
      List.nil_append, hemp, Bool.false_eq_true, ↓reduceIte, hdeep, Bool.and_true, hr]
    split
    · rfl
    · rename_i h1
      split
      · rename_i h2
        exfalso
        simp only [Bool.and_eq_true, decide_eq_true_eq] at h1 h2
        apply h1
        refine ⟨h2.1, ?_⟩
        cases hb : Agent.bulkRows a pol.stopAfterEomRow (min m (max 1 r)) 0 cs with
        | nil => simp [hb] at h2
        | cons row rest =>
          have : row.length = cs.length := by
            obtain ⟨N', hN'⟩ : ∃ N', min m (max 1 r) = N' + 1 := ⟨min m (max 1 r) - 1, by omega⟩
            rw [hN'] at hb
            unfold Agent.bulkRows at hb
            simp only [] at hb
            split at hb <;> (simp only [List.cons.injEq] at hb; rw [← hb.1]; simp)
          cases row with
          | nil => simp at this; cases cs <;> simp_all
          | cons _ _ => simp
      · rfl

/-- the model's conformant agent under EVERY truncation policy: number of repetitions capped,
    trailing bindings cut — also into the first repetition (`deep`) —, with or without the early
    stop after an all-endOfMibView repetition -/
theorem exchange_conformantBulk (db : List VarBind) (pol : BulkPolicy) :
    ConformantBulk (exchangeOf (Agent.conformant db) db pol) db := by
  constructor
  intro m cs hcs hm
  have hn1 : 1 ≤ cs.length := by cases cs <;> simp_all
  cases hdeep : pol.deep with
  | true =>
    obtain ⟨N, hN1, hNm, hform⟩ := getbulk_form_deep (Agent.conformant db) pol m cs hcs hm hdeep
    obtain ⟨k, hk1, hkN, hflat, hlen⟩ := bulkRows_conformant db pol.stopAfterEomRow N 0 cs hN1
    simp only [exchangeOf, hform]
    rw [hflat]
    have hrl : (rowsFlat db k cs).length = k * cs.length := rowsFlat_length db k cs
    have hkn : cs.length ≤ k * cs.length := Nat.le_mul_of_pos_left _ hk1
    split
    · exact ⟨k, max 1 ((rowsFlat db k cs).length - pol.cut), hk1, by omega, by omega, rfl⟩
    · refine ⟨k, k * cs.length, hk1, by omega, by omega, ?_⟩
      rw [List.take_of_length_le (by rw [hrl]; exact Nat.le_refl _)]
  | false =>
    obtain ⟨N, hN1, hNm, hform⟩ := getbulk_form (Agent.conformant db) pol m cs hcs hm hdeep
    obtain ⟨k, hk1, hkN, hflat, hlen⟩ := bulkRows_conformant db pol.stopAfterEomRow N 0 cs hN1
    simp only [exchangeOf, hform]
    rw [hflat, hlen]
    have hrl : (rowsFlat db k cs).length = k * cs.length := rowsFlat_length db k cs
    have hkn : cs.length ≤ k * cs.length := Nat.le_mul_of_pos_left _ hk1
    by_cases hcut : (decide (pol.cut > 0) && decide (k > 1)) = true
    · simp only [hcut, ↓reduceIte]
      refine ⟨k, max cs.length (k * cs.length - pol.cut), hk1, by omega, by omega, ?_⟩
      congr 2
      have : (Agent.bulkRows (Agent.conformant db) pol.stopAfterEomRow N 0 cs).head!.length = cs.length := by
        cases N with
        | zero => omega
        | succ N' =>
          unfold Agent.bulkRows
          simp only []
          split <;> (show (List.map _ cs).length = cs.length; exact List.length_map ..)
      rw [this, hrl]
    · simp only [hcut, Bool.false_eq_true, ↓reduceIte]
      refine ⟨k, k * cs.length, hk1, by omega, by omega, ?_⟩
      rw [List.take_of_length_le (by rw [hrl]; exact Nat.le_refl _)]

end Snmp.Walk
