/-
  Abstract GETNEXT walk over `(root, cursor)` pairs against a conformant agent, with the
  response cut at the first endOfMibView (what `multigetnext` hands to the walk loop).
  OIDs only; values are carried by the refinement in `Snmp.Lemmas.WalkRefine`.
-/
import Snmp.Model.Basic
namespace Snmp.WalkAbs
open List Snmp




def nextOf (db : List Oid) (o : Oid) : Option Oid := db.find? (fun x => decide (o < x))

/-- single-root GETNEXT walk, fuel-bounded -/
def walk1 (db : List Oid) (root : Oid) : Nat → Oid → List Oid
  | 0, _ => []
  | fuel+1, cur =>
    match nextOf db cur with
    | none => []
    | some n => if inside root n then n :: walk1 db root fuel n else []


/-- subtree convexity -/
theorem convex (root a b c : Oid) (ha : root <+: a) (hc : root <+: c)
    (hab : a ≤ b) (hbc : b ≤ c) : root <+: b := by
  induction root generalizing a b c with
  | nil => exact List.nil_prefix
  | cons r rs ih =>
    obtain ⟨a', rfl⟩ := ha
    obtain ⟨c', rfl⟩ := hc
    cases b with
    | nil => simp at hab
    | cons h b' =>
      simp only [List.cons_append, List.cons_le_cons_iff] at hab hbc
      have : h = r := by omega
      subst this
      simp only [Nat.lt_irrefl, true_and, false_or] at hab hbc
      have := ih (rs ++ a') b' (rs ++ c') (List.prefix_append _ _) (List.prefix_append _ _) hab hbc
      exact List.cons_prefix_cons.mpr ⟨rfl, this⟩



def Sorted (db : List Oid) : Prop := db.Pairwise (· < ·)

def above (db : List Oid) (cur : Oid) : List Oid := db.filter (fun x => decide (cur < x))

theorem nextOf_eq_head (db : List Oid) (cur : Oid) : nextOf db cur = (above db cur).head? := by
  simp [nextOf, above, List.head?_filter]

theorem above_tail (db : List Oid) (hs : Sorted db) (cur n : Oid) (rest : List Oid)
    (h : above db cur = n :: rest) : above db n = rest := by
  induction db with
  | nil => simp [above] at h
  | cons x xs ih =>
    have hs' : Sorted xs := (List.pairwise_cons.mp hs).2
    have hx : ∀ y ∈ xs, x < y := (List.pairwise_cons.mp hs).1
    unfold above at h ⊢
    by_cases hcx : cur < x
    · simp only [List.filter_cons, hcx, decide_true, ↓reduceIte, List.cons.injEq] at h
      obtain ⟨rfl, h⟩ := h
      have h1 : xs.filter (fun y => decide (cur < y)) = xs := by
        apply List.filter_eq_self.mpr
        intro y hy; simpa using List.lt_trans hcx (hx y hy)
      have h2 : xs.filter (fun y => decide (x < y)) = xs := by
        apply List.filter_eq_self.mpr
        intro y hy; simpa using hx y hy
      simp [List.filter_cons, List.lt_irrefl, h2, ← h, h1]
    · simp only [List.filter_cons, hcx, decide_false, Bool.false_eq_true, ↓reduceIte] at h
      have hn : n ∈ xs := by
        have : n ∈ xs.filter (fun y => decide (cur < y)) := by rw [h]; simp
        exact (List.mem_filter.mp this).1
      have : ¬ n < x := List.lt_asymm (hx n hn)
      simp only [List.filter_cons, this, decide_false, Bool.false_eq_true, ↓reduceIte]
      exact ih hs' h

theorem walk1_eq (db : List Oid) (root : Oid) (hs : Sorted db) :
    ∀ (fuel : Nat) (cur : Oid), (above db cur).length < fuel →
      walk1 db root fuel cur = (above db cur).takeWhile (inside root) := by
  intro fuel
  induction fuel with
  | zero => intro cur h; simp at h
  | succ fuel ih =>
    intro cur hf
    simp only [walk1, nextOf_eq_head]
    cases hL : above db cur with
    | nil => simp
    | cons n rest =>
      have ht := above_tail db hs cur n rest hL
      simp only [List.head?_cons, List.takeWhile_cons]
      split
      · rw [ih n (by rw [ht]; simp [hL] at hf; omega), ht]
      · rfl



/-- responses of a conformant agent to a GETNEXT on `reqs`, cut at the first endOfMibView -/
def fetchNext (db : List Oid) : List Oid → List Oid
  | [] => []
  | q :: qs => match nextOf db q with
    | none => []
    | some n => n :: fetchNext db qs

structure St where
  cur : List (Oid × Oid)
  yielded : List Oid

def addY (roots : List Oid) (Y : List Oid) (n : Oid) : List Oid :=
  if roots.any (fun r => inside r n) && !Y.contains n then Y ++ [n] else Y

def step (db roots : List Oid) (s : St) : St :=
  let resp := fetchNext db (s.cur.map (·.2))
  let paired := s.cur.zip resp
  { cur := paired.filterMap fun p => if inside p.1.1 p.2 then some (p.1.1, p.2) else none
    yielded := paired.foldl (fun Y p => addY roots Y p.2) s.yielded }

def run (db roots : List Oid) : Nat → St → St
  | 0, s => s
  | k+1, s => if s.cur = [] then s else run db roots k (step db roots s)

def init (roots : List Oid) : St := ⟨roots.map fun r => (r, r), []⟩

def Disjoint (roots : List Oid) : Prop :=
  roots.Pairwise fun a b => a < b ∧ ¬ a <+: b




theorem sub_lt : ∀ (a b x y : Oid), a < b → ¬ a <+: b → a <+: x → b <+: y → x < y
  | [], b, _, _, _, h, _, _ => absurd List.nil_prefix h
  | _ :: _, [], _, _, h, _, _, _ => by simp at h
  | h :: t, h' :: t', x, y, hlt, hnp, hx, hy => by
    obtain ⟨x', rfl⟩ := hx
    obtain ⟨y', rfl⟩ := hy
    simp only [List.cons_append, List.cons_lt_cons_iff] at hlt ⊢
    rcases hlt with hlt | ⟨rfl, hlt⟩
    · exact Or.inl hlt
    · refine Or.inr ⟨rfl, ?_⟩
      have hnp' : ¬ t <+: t' := fun hp => hnp (List.cons_prefix_cons.mpr ⟨rfl, hp⟩)
      exact sub_lt t t' _ _ hlt hnp' (List.prefix_append _ _) (List.prefix_append _ _)

theorem above_sorted (db : List Oid) (hs : Sorted db) (c : Oid) : Sorted (above db c) :=
  List.Pairwise.filter _ hs

theorem mem_above {db : List Oid} {c o : Oid} : o ∈ above db c ↔ o ∈ db ∧ c < o := by
  simp [above]

theorem nextOf_some {db : List Oid} (hs : Sorted db) {c n : Oid} (h : nextOf db c = some n) :
    n ∈ db ∧ c < n ∧ ∀ o ∈ db, c < o → n ≤ o := by
  rw [nextOf_eq_head] at h
  cases hL : above db c with
  | nil => simp [hL] at h
  | cons m rest =>
    simp only [hL, List.head?_cons, Option.some.injEq] at h; subst h
    have hm : m ∈ above db c := by simp [hL]
    refine ⟨(mem_above.mp hm).1, (mem_above.mp hm).2, ?_⟩
    intro o ho hco
    have : o ∈ above db c := mem_above.mpr ⟨ho, hco⟩
    rw [hL] at this
    rcases List.mem_cons.mp this with rfl | hr
    · exact List.le_refl _
    · have hp := above_sorted db hs c
      rw [hL] at hp
      exact List.le_of_lt ((List.pairwise_cons.mp hp).1 o hr)

theorem nextOf_none {db : List Oid} {c : Oid} (h : nextOf db c = none) : ∀ o ∈ db, ¬ c < o := by
  intro o ho hco
  simp [nextOf] at h
  exact absurd hco (by simpa using h o ho)



/-- if every cursor up to and including `(r,c)` has a successor, `(r,c)` is paired with its own successor -/
theorem zip_fetch (db : List Oid) :
    ∀ (pre : List (Oid × Oid)) (p : Oid × Oid) (post : List (Oid × Oid)) (n : Oid),
      (∀ q ∈ pre, (nextOf db q.2).isSome) → nextOf db p.2 = some n →
      (p, n) ∈ (pre ++ p :: post).zip (fetchNext db ((pre ++ p :: post).map (·.2)))
  | [], p, post, n, _, hn => by simp [fetchNext, hn]
  | q :: pre, p, post, n, hpre, hn => by
    have hq := hpre q (by simp)
    cases hq' : nextOf db q.2 with
    | none => simp [hq'] at hq
    | some m =>
      simp only [List.cons_append, List.map_cons, fetchNext, hq', List.zip_cons_cons]
      exact List.mem_cons_of_mem _ (zip_fetch db pre p post n (fun x hx => hpre x (by simp [hx])) hn)

/-- everything paired is a genuine successor -/
theorem zip_fetch_sound (db : List Oid) :
    ∀ (cur : List (Oid × Oid)) (p : Oid × Oid) (n : Oid),
      (p, n) ∈ cur.zip (fetchNext db (cur.map (·.2))) → p ∈ cur ∧ nextOf db p.2 = some n
  | [], _, _, h => by simp [fetchNext] at h
  | q :: cur, p, n, h => by
    cases hq' : nextOf db q.2 with
    | none => simp [fetchNext, hq'] at h
    | some m =>
      simp only [List.map_cons, fetchNext, hq', List.zip_cons_cons, List.mem_cons, Prod.mk.injEq] at h
      rcases h with ⟨rfl, rfl⟩ | h
      · exact ⟨by simp, hq'⟩
      · have := zip_fetch_sound db cur p n h
        exact ⟨List.mem_cons_of_mem _ this.1, this.2⟩

theorem foldl_addY_mono (roots : List Oid) (ps : List ((Oid × Oid) × Oid)) (Y : List Oid) (o : Oid)
    (h : o ∈ Y) : o ∈ ps.foldl (fun Y p => addY roots Y p.2) Y := by
  induction ps generalizing Y with
  | nil => simpa
  | cons p ps ih =>
    apply ih
    show o ∈ addY roots Y p.2
    unfold addY; split <;> simp [h]

theorem foldl_addY_mem (roots : List Oid) (ps : List ((Oid × Oid) × Oid)) (Y : List Oid)
    (p : (Oid × Oid) × Oid) (hp : p ∈ ps) (hr : roots.any (fun r => inside r p.2) = true) :
    p.2 ∈ ps.foldl (fun Y p => addY roots Y p.2) Y := by
  induction ps generalizing Y with
  | nil => simp at hp
  | cons q ps ih =>
    rcases List.mem_cons.mp hp with rfl | hp
    · rw [List.foldl_cons]
      apply foldl_addY_mono
      show p.2 ∈ addY roots Y p.2
      unfold addY
      by_cases hc : Y.contains p.2 = true
      · simp only [hc, Bool.not_true, Bool.and_false, Bool.false_eq_true, ↓reduceIte]
        simpa using hc
      · have hc' : p.2 ∉ Y := by simpa using hc
        simp [hr, hc']
    · exact ih _ hp



structure Inv (db roots : List Oid) (s : St) : Prop where
  sub : (s.cur.map (·.1)).Sublist roots
  ins : ∀ p ∈ s.cur, p.1 <+: p.2
  cov : ∀ r ∈ roots, ∀ o ∈ db, r <+: o → o ≠ r → o ∈ s.yielded ∨ ∃ c, (r, c) ∈ s.cur ∧ c < o

theorem cursors_sorted {db roots : List Oid} {s : St} (hd : Disjoint roots) (hi : Inv db roots s) :
    s.cur.Pairwise (fun p q => p.2 < q.2) := by
  have h1 : (s.cur.map (·.1)).Pairwise (fun a b => a < b ∧ ¬ a <+: b) := hd.sublist hi.sub
  rw [List.pairwise_map] at h1
  exact h1.imp_of_mem (fun {p q} hp hq h => sub_lt p.1 q.1 p.2 q.2 h.1 h.2 (hi.ins p hp) (hi.ins q hq))

theorem newCur_sublist (cur : List (Oid × Oid)) (resp : List Oid) :
    (((cur.zip resp).filterMap fun p => if inside p.1.1 p.2 then some (p.1.1, p.2) else none).map (·.1)).Sublist
      (cur.map (·.1)) := by
  induction cur generalizing resp with
  | nil => simp
  | cons q cur ih =>
    cases resp with
    | nil => simp
    | cons n resp =>
      simp only [List.zip_cons_cons, List.filterMap_cons, List.map_cons]
      split
      · exact (ih resp).cons _
      · rename_i a h; split at h
        · cases h; simp only [List.map_cons]; exact (ih resp).cons_cons _
        · simp at h

theorem step_inv {db roots : List Oid} (hs : Sorted db) (hd : Disjoint roots) {s : St}
    (hi : Inv db roots s) : Inv db roots (step db roots s) := by
  have hcs := cursors_sorted hd hi
  refine ⟨(newCur_sublist _ _).trans hi.sub, ?_, ?_⟩
  · intro p hp
    simp only [step, List.mem_filterMap] at hp
    obtain ⟨q, _, hq⟩ := hp
    split at hq
    · rename_i h; cases hq; exact (inside_iff _ _).mp h
    · simp at hq
  · intro r hr o ho hro hne
    rcases hi.cov r hr o ho hro hne with hy | ⟨c, hc, hco⟩
    · exact Or.inl (foldl_addY_mono _ _ _ _ hy)
    · -- split cur at (r,c)
      obtain ⟨pre, post, hsplit⟩ := List.append_of_mem hc
      have hpre : ∀ q ∈ pre, (nextOf db q.2).isSome := by
        intro q hq
        have hlt : q.2 < c := by
          rw [hsplit] at hcs
          have := (List.pairwise_append.mp hcs).2.2 q hq (r, c) (by simp)
          exact this
        cases hn : nextOf db q.2 with
        | some _ => rfl
        | none => exact absurd (List.lt_trans hlt hco) (nextOf_none hn o ho)
      cases hn : nextOf db c with
      | none => exact absurd hco (nextOf_none hn o ho)
      | some n =>
        obtain ⟨hndb, hcn, hleast⟩ := nextOf_some hs hn
        have hmem := zip_fetch db pre (r, c) post n hpre hn
        rw [← hsplit] at hmem
        have hno : n ≤ o := hleast o ho hco
        have hrn : r <+: n :=
          convex r c n o (hi.ins (r, c) hc) hro (List.le_of_lt hcn) hno
        have hdec : n < o ∨ n = o := by
          by_cases he : n = o
          · exact Or.inr he
          · exact Or.inl (Std.lt_of_le_of_ne hno he)
        rcases hdec with hlt | heq
        · right
          refine ⟨n, ?_, hlt⟩
          simp only [step, List.mem_filterMap]
          exact ⟨((r, c), n), hmem, by simp [(inside_iff r n).mpr hrn]⟩
        · left
          subst heq
          simp only [step]
          exact foldl_addY_mem roots _ _ ((r, c), n) hmem
            (List.any_eq_true.mpr ⟨r, hr, (inside_iff r n).mpr hrn⟩)



def Fuel (db : List Oid) (k : Nat) (s : St) : Prop := ∀ p ∈ s.cur, (above db p.2).length < k

theorem step_fuel {db roots : List Oid} (hs : Sorted db) {s : St} {k : Nat}
    (hf : Fuel db (k+1) s) : Fuel db k (step db roots s) := by
  intro p hp
  simp only [step, List.mem_filterMap] at hp
  obtain ⟨q, hq, hqp⟩ := hp
  split at hqp
  · cases hqp
    obtain ⟨hmem, hn⟩ := zip_fetch_sound db s.cur q.1 q.2 hq
    have h1 := hf q.1 hmem
    rw [nextOf_eq_head] at hn
    cases hL : above db q.1.2 with
    | nil => simp [hL] at hn
    | cons m rest =>
      simp only [hL, List.head?_cons, Option.some.injEq] at hn; subst hn
      rw [above_tail db hs _ _ _ hL]
      simp [hL] at h1; omega
  · simp at hqp

theorem run_done {db roots : List Oid} (hs : Sorted db) (hd : Disjoint roots) :
    ∀ (k : Nat) (s : St), Inv db roots s → Fuel db k s →
      (run db roots k s).cur = [] ∧ Inv db roots (run db roots k s)
  | 0, s, hi, hf => by
    refine ⟨?_, hi⟩
    cases hc : s.cur with
    | nil => simp [run, hc]
    | cons p ps => exact absurd (hf p (by simp [hc])) (by omega)
  | k+1, s, hi, hf => by
    simp only [run]
    split
    · exact ⟨by assumption, hi⟩
    · exact run_done hs hd k _ (step_inv hs hd hi) (step_fuel hs hf)

theorem init_inv (db roots : List Oid) : Inv db roots (init roots) := by
  refine ⟨by simp [init, Function.comp_def], ?_, ?_⟩
  · intro p hp; simp [init] at hp; obtain ⟨r, _, rfl⟩ := hp; exact List.prefix_refl _
  · intro r hr o ho hro hne
    right
    refine ⟨r, by simp [init]; exact hr, ?_⟩
    obtain ⟨t, rfl⟩ := hro
    cases t with
    | nil => simp at hne
    | cons x t =>
      clear hne ho hr
      induction r with
      | nil => simp
      | cons a r ih => simp [ih]



/-- C01 (abstract loop, GETNEXT, conformant agent): termination and completeness -/
theorem multi_complete (db roots : List Oid) (hs : Sorted db) (hd : Disjoint roots) :
    let s := run db roots (db.length + 1) (init roots)
    s.cur = [] ∧ ∀ r ∈ roots, ∀ o ∈ db, r <+: o → o ≠ r → o ∈ s.yielded := by
  have hf : Fuel db (db.length + 1) (init roots) := by
    intro p _
    have : (above db p.2).length ≤ db.length := List.length_filter_le _ _
    omega
  obtain ⟨hc, hi⟩ := run_done hs hd (db.length + 1) (init roots) (init_inv db roots) hf
  refine ⟨hc, ?_⟩
  intro r hr o ho hro hne
  rcases hi.cov r hr o ho hro hne with h | ⟨c, hcm, _⟩
  · exact h
  · rw [hc] at hcm; simp at hcm


end Snmp.WalkAbs
