/-
  The x690 mirror on whole nested structures: any well-formed tree of TLVs — every node in any
  admissible definite length form, constructed nodes of a class registered as a sequence — placed
  anywhere in a datagram is decoded (`decodeAt` + `readNode`, i.e. `Sequence.decode_raw` looping
  over absolute indices) to the tree of the same shape.
-/
import Snmp.Lemmas.BerDecode
namespace Snmp.Ber
open Snmp.Spec (Small)

/-- what an agent writes: a tree of TLVs with a length form chosen at every node -/
inductive Enc where
  | prim (f : LenForm) (t : Nat) (c : Bytes)
  | cons (f : LenForm) (t : Nat) (items : List Enc)
  /-- a PDU: request-id, two integers and the binding list (`PDU.decode_raw` reads exactly four
      TLVs at absolute indices and unpacks every binding into two items) -/
  | pdu (f : LenForm) (t : Nat) (items : List Enc)

mutual
def Enc.bytes : Enc → Bytes
  | .prim f t c => Spec.tlv f t c
  | .cons f t items => Spec.tlv f t (Enc.bytesL items)
  | .pdu f t items => Spec.tlv f t (Enc.bytesL items)
def Enc.bytesL : List Enc → Bytes
  | [] => []
  | e :: es => e.bytes ++ Enc.bytesL es
end

/-- readout of a primitive node by registered kind (the non-constructed cases of `readNode`) -/
def readLeaf (ent : Entry) (tag : Nat) (c : Bytes) : Except BErr Tree :=
  match ent.kind with
  | "int" => .ok (.int ent.name (intDecode ent.signed c))
  | "str" => .ok (.str ent.name c)
  | "ip" => .ok (.str ent.name c)
  | "null" => .ok .null
  | "oid" => (oidDecode c).map .oid
  | "marker" => .ok (.marker ent.name)
  | _ => .ok (.raw ent.name tag c)

mutual
/-- the tree the structure stands for -/
def Enc.tree : Enc → Except BErr Tree
  | .prim _ t c => readLeaf (lookup t) t c
  | .cons _ t items => do
    let ts ← Enc.treeL items
    pure (.seq (lookup t).name ts)
  | .pdu _ t items => do
    let ts ← Enc.treeL items
    pure (.seq (lookup t).name ts)
def Enc.treeL : List Enc → Except BErr (List Tree)
  | [] => pure []
  | e :: es => do
    let t ← e.tree
    let ts ← Enc.treeL es
    pure (t :: ts)
end

def Enc.tag : Enc → Nat
  | .prim _ t _ => t
  | .cons _ t _ => t
  | .pdu _ t _ => t

def Enc.isIntPrim : Enc → Prop
  | .prim _ t _ => (lookup t).kind = "int"
  | _ => False

def Enc.isPair : Enc → Prop
  | .cons _ _ [_, _] => True
  | _ => False

def Enc.isBindList : Enc → Prop
  | .cons _ t items => (lookup t).name = "Sequence" ∧ ∀ it ∈ items, it.isPair
  | _ => False

/-- the shape `PDU.decode_raw` insists on -/
def pduShape : List Enc → Prop
  | [a, b, c, d] => a.isIntPrim ∧ b.isIntPrim ∧ c.isIntPrim ∧ d.isBindList
  | _ => False

mutual
def Enc.WF : Enc → Prop
  | .prim f t c => f.ok c.length ∧ (t ≠ 255 ∧ Gen.noDefaultCtor.contains (lookup t).name = false) ∧ (lookup t).kind ≠ "seq" ∧ (lookup t).kind ≠ "pdu"
  | .cons f t items => f.ok (Enc.bytesL items).length ∧ (t ≠ 255 ∧ Gen.noDefaultCtor.contains (lookup t).name = false) ∧ (lookup t).kind = "seq" ∧ Enc.WFL items
  | .pdu f t items => f.ok (Enc.bytesL items).length ∧ (t ≠ 255 ∧ Gen.noDefaultCtor.contains (lookup t).name = false) ∧ (lookup t).kind = "pdu" ∧ Enc.WFL items ∧ pduShape items
def Enc.WFL : List Enc → Prop
  | [] => True
  | e :: es => e.WF ∧ Enc.WFL es
end

mutual
def Enc.depth : Enc → Nat
  | .prim _ _ _ => 1
  | .cons _ _ items => 1 + Enc.depthL items
  | .pdu _ _ items => 1 + Enc.depthL items
def Enc.depthL : List Enc → Nat
  | [] => 0
  | e :: es => max e.depth (Enc.depthL es)
end

mutual
/-- the longest item list anywhere in the structure (budget of the `while` loop) -/
def Enc.width : Enc → Nat
  | .prim _ _ _ => 0
  | .cons _ _ items => max items.length (Enc.widthL items)
  | .pdu _ _ items => max items.length (Enc.widthL items)
def Enc.widthL : List Enc → Nat
  | [] => 0
  | e :: es => max e.width (Enc.widthL es)
end

theorem Enc.bytes_pos : ∀ e : Enc, 0 < e.bytes.length
  | .prim f t c => by simp [Enc.bytes, Spec.tlv]
  | .cons f t items => by simp [Enc.bytes, Spec.tlv]
  | .pdu f t items => by simp [Enc.bytes, Spec.tlv]

/-- the non-constructed cases of `readNode` -/
theorem readNode_leaf (data : Bytes) (fuel depth : Nat) (n : Node)
    (h1 : n.entry.kind ≠ "seq") (h2 : n.entry.kind ≠ "pdu") :
    readNode data fuel (depth + 1) n = readLeaf n.entry n.tagByte (n.content data) := by
  unfold readNode readLeaf
  split <;> simp_all

/-- `decodeAt` on a TLV in form `f` at offset `|pre|`, with the node spelled out -/
theorem decodeAt_node (f : LenForm) (t : Nat) (c pre rest : Bytes) (hf : f.ok c.length) (ht : t ≠ 255)
    (hctor : Gen.noDefaultCtor.contains (lookup t).name = false) :
    decodeAt (pre ++ Spec.tlv f t c ++ rest) pre.length =
      .ok (⟨lookup t, t, ⟨pre.length + 1 + (specLength f c.length).length,
        ((pre.length + 1 + (specLength f c.length).length + c.length : Nat) : Int)⟩⟩,
        pre.length + (Spec.tlv f t c).length) := by
  have hget : (pre ++ Spec.tlv f t c ++ rest)[pre.length]? = some t := by simp [Spec.tlv]
  unfold decodeAt
  simp only [hget, ht, ↓reduceIte]
  rw [getValueSlice_spec f t c pre rest hf]
  simp only [Except.bind, bind, pure, Except.pure, hctor, Bool.false_eq_true, ↓reduceIte]
  congr 2
  simp [Spec.tlv]; omega

/-- the node found by `decodeAt_node` -/
def nodeAt (f : LenForm) (t : Nat) (c pre : Bytes) : Node :=
  ⟨lookup t, t, ⟨pre.length + 1 + (specLength f c.length).length,
    ((pre.length + 1 + (specLength f c.length).length + c.length : Nat) : Int)⟩⟩

theorem nodeAt_content (f : LenForm) (t : Nat) (c pre rest : Bytes) :
    (nodeAt f t c pre).content (pre ++ Spec.tlv f t c ++ rest) = c := by
  unfold Node.content nodeAt
  simp only
  have : pre ++ Spec.tlv f t c ++ rest = (pre ++ t :: specLength f c.length) ++ c ++ rest := by
    simp [Spec.tlv]
  have hl : (pre ++ t :: specLength f c.length).length = pre.length + 1 + (specLength f c.length).length := by
    simp; omega
  rw [this, ← hl]
  exact pySlice_mid _ c rest

theorem readNode_seq (data : Bytes) (fuel depth : Nat) (n : Node) (h : n.entry.kind = "seq") :
    readNode data fuel (depth + 1) n = (do
      let items ← seqItems data n.slice fuel
      let ts ← items.mapM (readNode data fuel depth)
      pure (.seq n.entry.name ts)) := by
  rw [readNode]
  simp only [h]

theorem mapM_cons_except {α β} (f : α → Except BErr β) (a : α) (as : List α) :
    (a :: as).mapM f = (do let b ← f a; let bs ← as.mapM f; pure (b :: bs)) := by
  simp [List.mapM_cons]

def pairCheck (t : Tree) : Bool := match t with | .seq _ [_, _] => true | _ => false

theorem pair_tree : ∀ (it : Enc) (tr : Tree), it.isPair → it.tree = .ok tr → pairCheck tr = true
  | .cons _ t [x, y], tr, _, h => by
    simp only [Enc.tree, Enc.treeL, bind, Except.bind, pure, Except.pure] at h
    cases hx : x.tree with
    | error e => simp [hx] at h
    | ok tx =>
      cases hy : y.tree with
      | error e => simp [hx, hy] at h
      | ok ty =>
        simp only [hx, hy, Except.ok.injEq] at h
        subst h; rfl
  | .prim _ _ _, _, hp, _ => by simp [Enc.isPair] at hp
  | .pdu _ _ _, _, hp, _ => by simp [Enc.isPair] at hp
  | .cons _ _ [], _, hp, _ => by simp [Enc.isPair] at hp
  | .cons _ _ [_], _, hp, _ => by simp [Enc.isPair] at hp
  | .cons _ _ (_ :: _ :: _ :: _), _, hp, _ => by simp [Enc.isPair] at hp

theorem treeL_pairs : ∀ (items : List Enc) (ts : List Tree), (∀ it ∈ items, it.isPair) →
    Enc.treeL items = .ok ts → ts.all pairCheck = true
  | [], ts, _, h => by
    simp only [Enc.treeL, pure, Except.pure, Except.ok.injEq] at h
    subst h; rfl
  | it :: items, ts, hp, h => by
    simp only [Enc.treeL, bind, Except.bind, pure, Except.pure] at h
    cases hx : it.tree with
    | error e => simp [hx] at h
    | ok tx =>
      cases hr : Enc.treeL items with
      | error e => simp [hx, hr] at h
      | ok trs =>
        simp only [hx, hr, Except.ok.injEq] at h
        subst h
        simp only [List.all_cons, Bool.and_eq_true]
        exact ⟨pair_tree it tx (hp it (by simp)) hx, treeL_pairs items trs (fun i hi => hp i (by simp [hi])) hr⟩

theorem bindList_tree : ∀ (d : Enc) (td : Tree), d.isBindList → d.tree = .ok td →
    ∃ nm its, td = .seq nm its ∧ its.all pairCheck = true
  | .cons _ t items, td, hb, h => by
    simp only [Enc.tree, bind, Except.bind, pure, Except.pure] at h
    cases hr : Enc.treeL items with
    | error e => simp [hr] at h
    | ok trs =>
      simp only [hr, Except.ok.injEq] at h
      exact ⟨_, trs, h.symm, treeL_pairs items trs hb.2 hr⟩
  | .prim _ _ _, _, hb, _ => by simp [Enc.isBindList] at hb
  | .pdu _ _ _, _, hb, _ => by simp [Enc.isBindList] at hb

mutual
/-- **Any well-formed structure decodes to its tree**, wherever it lies in the datagram. -/
theorem decode_enc : ∀ (e : Enc), e.WF → ∀ (pre rest : Bytes) (fuel depth : Nat),
    e.width ≤ fuel → e.depth ≤ depth →
    ∃ n, decodeAt (pre ++ e.bytes ++ rest) pre.length = .ok (n, pre.length + e.bytes.length) ∧
      n.entry = lookup e.tag ∧
      readNode (pre ++ e.bytes ++ rest) fuel depth n = e.tree
  | .prim f t c, h, pre, rest, fuel, depth, _, hd => by
    simp only [Enc.WF] at h
    obtain ⟨hf, ht, hs, hp⟩ := h
    simp only [Enc.depth] at hd
    obtain ⟨d, rfl⟩ : ∃ d, depth = d + 1 := ⟨depth - 1, by omega⟩
    refine ⟨nodeAt f t c pre, ?_, rfl, ?_⟩
    · simp only [Enc.bytes]; exact decodeAt_node f t c pre rest hf ht.1 ht.2
    · simp only [Enc.bytes, Enc.tree]
      rw [readNode_leaf _ _ _ _ (by simpa [nodeAt] using hs) (by simpa [nodeAt] using hp), nodeAt_content]
      rfl
  | .cons f t items, h, pre, rest, fuel, depth, hw, hd => by
    simp only [Enc.WF] at h
    obtain ⟨hf, ht, hk, hitems⟩ := h
    simp only [Enc.depth] at hd
    simp only [Enc.width] at hw
    obtain ⟨d, rfl⟩ : ∃ d, depth = d + 1 := ⟨depth - 1, by omega⟩
    refine ⟨nodeAt f t (Enc.bytesL items) pre, ?_, rfl, ?_⟩
    · simp only [Enc.bytes]; exact decodeAt_node f t _ pre rest hf ht.1 ht.2
    · simp only [Enc.bytes, Enc.tree]
      rw [readNode_seq _ _ _ _ (by simpa [nodeAt] using hk)]
      -- the content of the node as a stretch of the datagram
      have hdata : pre ++ Spec.tlv f t (Enc.bytesL items) ++ rest
          = (pre ++ t :: specLength f (Enc.bytesL items).length) ++ Enc.bytesL items ++ rest := by
        simp [Spec.tlv]
      have hpl : (pre ++ t :: specLength f (Enc.bytesL items).length).length
          = pre.length + 1 + (specLength f (Enc.bytesL items).length).length := by simp; omega
      generalize hp : pre ++ t :: specLength f (Enc.bytesL items).length = p at hdata hpl
      have hslice : (nodeAt f t (Enc.bytesL items) pre).slice
          = ⟨p.length, ((p.length + (Enc.bytesL items).length : Nat) : Int)⟩ := by
        simp [nodeAt, hpl]
      have hname : (nodeAt f t (Enc.bytesL items) pre).entry.name = (lookup t).name := rfl
      rw [hdata, hslice, hname]
      cases items with
      | nil =>
        have : seqItems (p ++ Enc.bytesL [] ++ rest) ⟨p.length, ((p.length + (Enc.bytesL []).length : Nat) : Int)⟩ fuel = .ok [] := by
          unfold seqItems
          have := pySlice_mid p [] rest
          simp only [List.append_nil, List.length_nil, Nat.add_zero] at this
          simp [Enc.bytesL, this]
        rw [this]
        simp [Enc.treeL, bind, Except.bind, pure, Except.pure]
      | cons e es =>
        simp only [Enc.WFL] at hitems
        simp only [Enc.depthL] at hd
        simp only [Enc.widthL, List.length_cons] at hw
        obtain ⟨n1, hdec1, _, hread1⟩ := decode_enc e hitems.1 p (Enc.bytesL es ++ rest) fuel d (by omega) (by omega)
        obtain ⟨nodes, hloop, hmap⟩ := decode_loop es hitems.2 (p ++ e.bytes) rest fuel d fuel [n1] (by omega) (by omega) (by omega)
        have hd1 : p ++ Enc.bytesL (e :: es) ++ rest = p ++ e.bytes ++ (Enc.bytesL es ++ rest) := by
          simp [Enc.bytesL]
        have hd2 : p ++ Enc.bytesL (e :: es) ++ rest = (p ++ e.bytes) ++ Enc.bytesL es ++ rest := by
          simp [Enc.bytesL]
        have hne : (pySlice (p ++ Enc.bytesL (e :: es) ++ rest) p.length ((p.length + (Enc.bytesL (e :: es)).length : Nat) : Int)).isEmpty = false := by
          rw [pySlice_mid]
          have := Enc.bytes_pos e
          cases hb : Enc.bytesL (e :: es) with
          | nil => simp [Enc.bytesL] at hb; simp [hb.1] at this
          | cons _ _ => rfl
        have hstart : ¬ p.length > (p ++ Enc.bytesL (e :: es) ++ rest).length := by simp
        have hstop : ¬ (((p.length + (Enc.bytesL (e :: es)).length : Nat) : Int) = 0) := by
          have := Enc.bytes_pos e
          simp only [Enc.bytesL, List.length_append]
          omega
        have hs : seqItems (p ++ Enc.bytesL (e :: es) ++ rest)
            ⟨p.length, ((p.length + (Enc.bytesL (e :: es)).length : Nat) : Int)⟩ fuel = .ok (n1 :: nodes) := by
          unfold seqItems
          simp only [hne, hstart, decide_false, Bool.or_false, Bool.false_eq_true, ↓reduceIte, hstop]
          rw [hd1, hdec1]
          simp only [bind, Except.bind]
          have e1 : p ++ e.bytes ++ (Enc.bytesL es ++ rest) = (p ++ e.bytes) ++ Enc.bytesL es ++ rest := by simp
          have e2 : ((p.length + (Enc.bytesL (e :: es)).length : Nat) : Int)
              = (((p ++ e.bytes).length + (Enc.bytesL es).length : Nat) : Int) := by
            simp [Enc.bytesL]; omega
          have e3 : p.length + e.bytes.length = (p ++ e.bytes).length := by simp
          rw [e1, e2, e3, hloop]
          simp
        rw [hs]
        simp only [bind, Except.bind]
        rw [mapM_cons_except]
        rw [hd1, hread1]
        simp only [Enc.treeL, bind, Except.bind]
        cases he : e.tree with
        | error err => rfl
        | ok t1 =>
          simp only
          have e1 : p ++ e.bytes ++ (Enc.bytesL es ++ rest) = (p ++ e.bytes) ++ Enc.bytesL es ++ rest := by simp
          rw [e1, hmap]

  | .pdu f t [a, b, c, d], h, pre, rest, fuel, depth, hw, hd => by
    simp only [Enc.WF, Enc.WFL, pduShape] at h
    obtain ⟨hf, ht, hk, ⟨hwa, hwb, hwc, hwd, _⟩, hia, hib, hic, hid⟩ := h
    simp only [Enc.depth, Enc.depthL] at hd
    simp only [Enc.width, Enc.widthL] at hw
    obtain ⟨dd, rfl⟩ : ∃ dd, depth = dd + 1 := ⟨depth - 1, by omega⟩
    refine ⟨nodeAt f t (Enc.bytesL [a, b, c, d]) pre, ?_, rfl, ?_⟩
    · simp only [Enc.bytes]; exact decodeAt_node f t _ pre rest hf ht.1 ht.2
    · simp only [Enc.bytes, Enc.tree]
      have hdata : pre ++ Spec.tlv f t (Enc.bytesL [a, b, c, d]) ++ rest
          = (pre ++ t :: specLength f (Enc.bytesL [a, b, c, d]).length) ++ Enc.bytesL [a, b, c, d] ++ rest := by
        simp [Spec.tlv]
      have hpl : (pre ++ t :: specLength f (Enc.bytesL [a, b, c, d]).length).length
          = pre.length + 1 + (specLength f (Enc.bytesL [a, b, c, d]).length).length := by simp; omega
      generalize hp : pre ++ t :: specLength f (Enc.bytesL [a, b, c, d]).length = p at hdata hpl
      have hstart : (nodeAt f t (Enc.bytesL [a, b, c, d]) pre).slice.start = p.length := by
        simp [nodeAt, hpl]
      have hkind : (nodeAt f t (Enc.bytesL [a, b, c, d]) pre).entry.kind = "pdu" := by simpa [nodeAt] using hk
      have hname : (nodeAt f t (Enc.bytesL [a, b, c, d]) pre).entry.name = (lookup t).name := rfl
      rw [hdata]
      generalize hD : p ++ Enc.bytesL [a, b, c, d] ++ rest = D
      have hDa : D = p ++ a.bytes ++ (b.bytes ++ (c.bytes ++ (d.bytes ++ rest))) := by
        rw [← hD]; simp [Enc.bytesL]
      have hDb : D = (p ++ a.bytes) ++ b.bytes ++ (c.bytes ++ (d.bytes ++ rest)) := by
        rw [hDa]; simp
      have hDc : D = (p ++ a.bytes ++ b.bytes) ++ c.bytes ++ (d.bytes ++ rest) := by
        rw [hDa]; simp
      have hDd : D = (p ++ a.bytes ++ b.bytes ++ c.bytes) ++ d.bytes ++ rest := by
        rw [hDa]; simp
      obtain ⟨na, hdeca, hena, hreada⟩ := decode_enc a hwa p (b.bytes ++ (c.bytes ++ (d.bytes ++ rest))) fuel dd (by omega) (by omega)
      obtain ⟨nb, hdecb, henb, hreadb⟩ := decode_enc b hwb (p ++ a.bytes) (c.bytes ++ (d.bytes ++ rest)) fuel dd (by omega) (by omega)
      obtain ⟨nc, hdecc, henc, hreadc⟩ := decode_enc c hwc (p ++ a.bytes ++ b.bytes) (d.bytes ++ rest) fuel dd (by omega) (by omega)
      obtain ⟨nd, hdecd, hend, hreadd⟩ := decode_enc d hwd (p ++ a.bytes ++ b.bytes ++ c.bytes) rest fuel dd (by omega) (by omega)
      rw [← hDa] at hdeca hreada
      rw [← hDb] at hdecb hreadb
      rw [← hDc] at hdecc hreadc
      rw [← hDd] at hdecd hreadd
      have hi1 : p.length + a.bytes.length = (p ++ a.bytes).length := by simp
      have hi2 : (p ++ a.bytes).length + b.bytes.length = (p ++ a.bytes ++ b.bytes).length := by simp only [List.length_append]
      have hi3 : (p ++ a.bytes ++ b.bytes).length + c.bytes.length = (p ++ a.bytes ++ b.bytes ++ c.bytes).length := by simp only [List.length_append]
      rw [hi1] at hdeca
      rw [hi2] at hdecb
      rw [hi3] at hdecc
      have hne : D.isEmpty = false := by
        rw [hDa]
        have := Enc.bytes_pos a
        cases hb : a.bytes with
        | nil => simp [hb] at this
        | cons _ _ => simp
      have hka : na.entry.kind = "int" := by
        rw [hena]; cases a <;> simp_all [Enc.isIntPrim, Enc.tag]
      have hkb : nb.entry.kind = "int" := by
        rw [henb]; cases b <;> simp_all [Enc.isIntPrim, Enc.tag]
      have hkc : nc.entry.kind = "int" := by
        rw [henc]; cases c <;> simp_all [Enc.isIntPrim, Enc.tag]
      have hkd : nd.entry.name = "Sequence" := by
        rw [hend]; cases d <;> simp_all [Enc.isBindList, Enc.tag]
      rw [readNode]
      simp only [hkind, hne, Bool.false_eq_true, ↓reduceIte, hstart, hdeca, hdecb, hdecc, hdecd, bind, Except.bind,
        hka, hkb, hkc, hkd, bne_self_eq_false, Bool.or_self, hname]
      rw [mapM_cons_except, mapM_cons_except, mapM_cons_except, mapM_cons_except]
      simp only [hreada, hreadb, hreadc, hreadd, Enc.treeL, bind, Except.bind, List.mapM_nil, pure, Except.pure]
      cases hta : a.tree with
      | error e => rfl
      | ok ta =>
        cases htb : b.tree with
        | error e => rfl
        | ok tb =>
          cases htc : c.tree with
          | error e => rfl
          | ok tc =>
            cases htd : d.tree with
            | error e => rfl
            | ok td =>
              obtain ⟨nm, its, rfl, hall⟩ := bindList_tree d td hid htd
              dsimp only
              split
              · rfl
              · rename_i hneg
                refine absurd (Eq.trans (congrArg (List.all its) ?_) hall) hneg
                funext x
                cases x with
                | seq cls l => rcases l with _ | ⟨_, _ | ⟨_, _ | _⟩⟩ <;> rfl
                | _ => rfl
  | .pdu _ _ [], h, _, _, _, _, _, _ => by simp [Enc.WF, pduShape] at h
  | .pdu _ _ [_], h, _, _, _, _, _, _ => by simp [Enc.WF, pduShape] at h
  | .pdu _ _ [_, _], h, _, _, _, _, _, _ => by simp [Enc.WF, pduShape] at h
  | .pdu _ _ [_, _, _], h, _, _, _, _, _, _ => by simp [Enc.WF, pduShape] at h
  | .pdu _ _ (_ :: _ :: _ :: _ :: _ :: _), h, _, _, _, _, _, _ => by simp [Enc.WF, pduShape] at h

/-- the `while next_pos < end` loop of `Sequence.decode_raw` over the remaining items -/
theorem decode_loop : ∀ (es : List Enc), Enc.WFL es → ∀ (pre rest : Bytes) (fuel depth f : Nat) (acc : List Node),
    Enc.widthL es ≤ fuel → Enc.depthL es ≤ depth → es.length ≤ f →
    ∃ nodes, seqItems.loop (pre ++ Enc.bytesL es ++ rest) ((pre.length + (Enc.bytesL es).length : Nat) : Int) f pre.length acc
        = .ok (acc.reverse ++ nodes) ∧
      nodes.mapM (readNode (pre ++ Enc.bytesL es ++ rest) fuel depth) = Enc.treeL es
  | [], _, pre, rest, fuel, depth, f, acc, _, _, _ => by
    refine ⟨[], ?_, by simp [Enc.treeL, pure, Except.pure]⟩
    have hnot : ¬ ((pre.length : Int) < ((pre.length + (Enc.bytesL []).length : Nat) : Int)) := by
      simp [Enc.bytesL]
    cases f with
    | zero => rw [seqItems.loop]; simp only [hnot, ↓reduceIte, List.append_nil]
    | succ f => rw [seqItems.loop]; simp only [hnot, ↓reduceIte, List.append_nil]
  | e :: es, h, pre, rest, fuel, depth, f, acc, hw, hd, hf => by
    simp only [Enc.WFL] at h
    simp only [Enc.depthL] at hd
    simp only [Enc.widthL] at hw
    obtain ⟨f', rfl⟩ : ∃ f', f = f' + 1 := ⟨f - 1, by simp at hf; omega⟩
    obtain ⟨n1, hdec1, _, hread1⟩ := decode_enc e h.1 pre (Enc.bytesL es ++ rest) fuel depth (by omega) (by omega)
    obtain ⟨nodes, hloop, hmap⟩ := decode_loop es h.2 (pre ++ e.bytes) rest fuel depth f' (n1 :: acc) (by omega) (by omega) (by simp at hf; omega)
    have hd1 : pre ++ Enc.bytesL (e :: es) ++ rest = pre ++ e.bytes ++ (Enc.bytesL es ++ rest) := by
      simp [Enc.bytesL]
    have e1 : pre ++ e.bytes ++ (Enc.bytesL es ++ rest) = (pre ++ e.bytes) ++ Enc.bytesL es ++ rest := by simp
    have hlt : (pre.length : Int) < ((pre.length + (Enc.bytesL (e :: es)).length : Nat) : Int) := by
      have := Enc.bytes_pos e
      simp only [Enc.bytesL, List.length_append]
      omega
    refine ⟨n1 :: nodes, ?_, ?_⟩
    · rw [seqItems.loop]
      simp only [hlt, ↓reduceIte]
      rw [hd1, hdec1]
      simp only [bind, Except.bind]
      have e2 : ((pre.length + (Enc.bytesL (e :: es)).length : Nat) : Int)
          = (((pre ++ e.bytes).length + (Enc.bytesL es).length : Nat) : Int) := by
        simp [Enc.bytesL]; omega
      have e3 : pre.length + e.bytes.length = (pre ++ e.bytes).length := by simp
      rw [e1, e2, e3, hloop]
      simp
    · rw [mapM_cons_except, hd1, hread1]
      simp only [Enc.treeL, bind, Except.bind]
      cases he : e.tree with
      | error err => rfl
      | ok t1 =>
        simp only
        rw [e1, hmap]
end

end Snmp.Ber
