/-
  Lemmas about the `tablify` model: dictionary assignment in terms of lookups, and the fold
  invariants (cells present, nothing invented, index key, one row per index).
-/
import Snmp.Model.Table
namespace Snmp.Table
open Snmp.Py

variable {κ ν : Type} [BEq κ] [LawfulBEq κ]

theorem lookup_nil (k : κ) : lookup ([] : List (κ × ν)) k = none := rfl

theorem lookup_cons (p : κ × ν) (d : List (κ × ν)) (k : κ) :
    lookup (p :: d) k = if p.1 == k then some p.2 else lookup d k := by
  unfold lookup
  simp only [List.find?_cons]
  by_cases h : p.1 == k <;> simp [h]

theorem lookup_append (d e : List (κ × ν)) (k : κ) :
    lookup (d ++ e) k = (lookup d k).or (lookup e k) := by
  induction d with
  | nil => simp [lookup_nil]
  | cons p d ih =>
    simp only [List.cons_append, lookup_cons]
    by_cases h : p.1 == k <;> simp [h, ih]

theorem lookup_isSome_iff (d : List (κ × ν)) (k : κ) :
    (lookup d k).isSome = d.any (·.1 == k) := by
  induction d with
  | nil => simp [lookup_nil]
  | cons p d ih =>
    simp only [lookup_cons, List.any_cons]
    by_cases h : p.1 == k <;> simp [h, ih]

theorem lookup_map_replace (d : List (κ × ν)) (k k' : κ) (v : ν) :
    lookup (d.map fun p => if p.1 == k then (p.1, v) else p) k' =
      if k' == k then (if d.any (·.1 == k) then some v else none) else lookup d k' := by
  induction d with
  | nil => by_cases h : k' == k <;> simp [lookup_nil, h]
  | cons p d ih =>
    simp only [List.map_cons, lookup_cons, List.any_cons, ih]
    by_cases hp : p.1 = k
    · by_cases hk : k' = k
      · subst hk; subst hp; simp
      · subst hp
        have h1 : ¬ (p.1 = k') := fun h => hk h.symm
        simp [hk, h1]
    · have hb : (p.1 == k) = false := by simpa using hp
      by_cases hk : k' = k
      · subst hk; simp only [hb, Bool.false_or, Bool.false_eq_true, if_false]
      · have hkb : (k' == k) = false := by simpa using hk
        simp only [hb, hkb, Bool.false_or, Bool.false_eq_true, if_false]

/-- `d[k] = v` in terms of lookups -/
theorem lookup_dictSet (d : List (κ × ν)) (k k' : κ) (v : ν) :
    lookup (dictSet d k v) k' = if k' == k then some v else lookup d k' := by
  unfold dictSet
  by_cases ha : d.any (fun p => p.1 == k) = true
  · simp only [ha, if_true]
    rw [lookup_map_replace]
    by_cases hk : k' == k <;> simp [hk, ha]
  · simp only [ha, Bool.false_eq_true, if_false]
    rw [lookup_append, lookup_cons, lookup_nil]
    by_cases hk : k' == k
    · have : k' = k := eq_of_beq hk
      subst this
      have hn : lookup d k' = none := by
        have := lookup_isSome_iff (ν := ν) d k'
        cases h : lookup d k' with
        | none => rfl
        | some x => rw [h] at this; simp at this; exact absurd this (by simpa using ha)
      simp [hn]
    · have : ¬ (k == k') = true := by
        intro h; have := eq_of_beq h; subst this; simp at hk
      simp [hk, this]

theorem keys_dictSet (d : List (κ × ν)) (k : κ) (v : ν) :
    (dictSet d k v).map (·.1) = if d.any (·.1 == k) then d.map (·.1) else d.map (·.1) ++ [k] := by
  unfold dictSet
  by_cases ha : d.any (fun p => p.1 == k) = true
  · simp only [ha, if_true, List.map_map]
    apply List.map_congr_left
    intro p _
    by_cases hp : p.1 == k <;> simp [hp]
  · simp [ha]

theorem mem_keys_iff_any (d : List (κ × ν)) (k : κ) : k ∈ d.map (·.1) ↔ d.any (·.1 == k) = true := by
  simp only [List.mem_map, List.any_eq_true]
  constructor
  · rintro ⟨p, hp, rfl⟩; exact ⟨p, hp, by simp⟩
  · rintro ⟨p, hp, h⟩; exact ⟨p, hp, eq_of_beq h⟩

theorem nodup_keys_dictSet (d : List (κ × ν)) (k : κ) (v : ν) (h : (d.map (·.1)).Nodup) :
    ((dictSet d k v).map (·.1)).Nodup := by
  rw [keys_dictSet]
  by_cases ha : d.any (fun p => p.1 == k) = true
  · simpa [ha] using h
  · simp only [ha, Bool.false_eq_true, if_false]
    rw [List.nodup_append]
    refine ⟨h, by simp, ?_⟩
    intro a ha' b hb
    simp only [List.mem_singleton] at hb
    subst hb
    intro hab; subst hab
    exact ha ((mem_keys_iff_any d a).mp ha')

theorem mem_keys_dictSet (d : List (κ × ν)) (k k' : κ) (v : ν) :
    k' ∈ (dictSet d k v).map (·.1) ↔ k' ∈ d.map (·.1) ∨ k' = k := by
  rw [keys_dictSet]
  by_cases ha : d.any (fun p => p.1 == k) = true
  · simp only [ha, if_true]
    constructor
    · exact Or.inl
    · rintro (h | rfl)
      · exact h
      · exact (mem_keys_iff_any d k').mpr ha
  · simp [ha]

theorem lookup_some_mem_keys (d : List (κ × ν)) (k : κ) (x : ν) (h : lookup d k = some x) : k ∈ d.map (·.1) := by
  rw [mem_keys_iff_any, ← lookup_isSome_iff, h]; rfl

theorem lookup_mem (d : List (κ × ν)) (k : κ) (x : ν) (h : lookup d k = some x) : (k, x) ∈ d := by
  unfold lookup at h
  simp only [Option.map_eq_some_iff] at h
  rcases h with ⟨p, hp, rfl⟩
  have := List.find?_some hp
  have hk : p.1 = k := eq_of_beq this
  subst hk
  exact List.mem_of_find?_eq_some hp

theorem lookup_of_mem_nodup (d : List (κ × ν)) (k : κ) (x : ν) (hn : (d.map (·.1)).Nodup) (h : (k, x) ∈ d) :
    lookup d k = some x := by
  induction d with
  | nil => cases h
  | cons p d ih =>
    rw [lookup_cons]
    simp only [List.map_cons, List.nodup_cons] at hn
    rcases List.mem_cons.mp h with h | h
    · subst h; simp
    · have hne : ¬ (p.1 == k) = true := by
        intro hb
        have := eq_of_beq hb
        exact hn.1 (by rw [this]; exact List.mem_map.mpr ⟨(k, x), h, rfl⟩)
      simp [hne, ih hn.2 h]

/-- the cell stored for row `id` under column key `k` -/
def cellAt (rows : Rows) (id : List Nat) (k : Nat) : Option Cell := (lookup rows id).bind (lookup · k)

theorem step_ok {n : Nat} {rows rows' : Rows} {vb : VarBind} (h : step n rows vb = .ok rows') :
    ∃ col id, vb.1.drop n = col :: id ∧
      rows' = dictSet rows id (dictSet ((lookup rows id).getD [(0, .idx id)]) col (.val vb.2)) := by
  unfold step at h
  split at h
  · cases h
  · rename_i col id heq
    cases h
    exact ⟨col, id, heq, rfl⟩

theorem cellAt_step {n : Nat} {rows rows' : Rows} {vb : VarBind} {col : Nat} {id : List Nat}
    (h : step n rows vb = .ok rows') (hd : vb.1.drop n = col :: id) (id' : List Nat) (k : Nat) :
    cellAt rows' id' k =
      if id' = id then
        (if k = col then some (.val vb.2)
         else lookup ((lookup rows id).getD [(0, .idx id)]) k)
      else cellAt rows id' k := by
  rcases step_ok h with ⟨c, i, hd', rfl⟩
  rw [hd] at hd'
  cases hd'
  unfold cellAt
  rw [lookup_dictSet]
  by_cases hid : id' = id
  · subst hid
    simp only [beq_self_eq_true, if_true, Option.bind_some]
    rw [lookup_dictSet]
    by_cases hk : k = col <;> simp [hk]
  · have : ¬ (id' == id) = true := by simpa using hid
    simp [this, hid]

theorem fold_ok_of_long (n : Nat) (vbs : List VarBind) (rows : Rows) (h : ∀ vb ∈ vbs, n < vb.1.length) :
    ∃ final, fold n rows vbs = .ok final := by
  induction vbs generalizing rows with
  | nil => exact ⟨rows, rfl⟩
  | cons vb rest ih =>
    have hl := h vb (by simp)
    have hne : vb.1.drop n ≠ [] := by
      intro he
      have := congrArg List.length he
      simp at this; omega
    unfold fold
    unfold step
    cases hd : vb.1.drop n with
    | nil => exact absurd hd hne
    | cons col id => simpa using ih _ (fun v hv => h v (by simp [hv]))

/-- a stored cell survives the rest of the fold if no later binding addresses it -/
theorem cellAt_preserved (n : Nat) (vbs : List VarBind) (rows final : Rows) (id : List Nat) (k : Nat) (c : Cell)
    (hf : fold n rows vbs = .ok final) (hc : cellAt rows id k = some c)
    (hno : ∀ vb ∈ vbs, vb.1.drop n ≠ k :: id) : cellAt final id k = some c := by
  induction vbs generalizing rows with
  | nil => simp only [fold] at hf; cases hf; exact hc
  | cons vb rest ih =>
    unfold fold at hf
    cases hs : step n rows vb with
    | error e => simp [hs] at hf
    | ok rows' =>
      simp only [hs] at hf
      rcases step_ok hs with ⟨col, i, hd, _⟩
      apply ih rows' hf _ (fun v hv => hno v (by simp [hv]))
      rw [cellAt_step hs hd]
      by_cases hid : id = i
      · subst hid
        have hk : k ≠ col := by
          intro hk; subst hk; exact hno vb (by simp) hd
        simp only [if_true, hk, if_false]
        unfold cellAt at hc
        cases hl : lookup rows id with
        | none => simp [hl] at hc
        | some row => simpa [hl] using hc
      · simp [hid, hc]

/-- every binding's value is stored in the row of its index under its column number
    (bindings address pairwise different cells) -/
theorem cells_present (n : Nat) (vbs : List VarBind) (rows final : Rows)
    (hf : fold n rows vbs = .ok final) (hd : (vbs.map (·.1.drop n)).Nodup) :
    ∀ vb ∈ vbs, ∀ col id, vb.1.drop n = col :: id → cellAt final id col = some (.val vb.2) := by
  induction vbs generalizing rows with
  | nil => intro vb hvb; cases hvb
  | cons v rest ih =>
    unfold fold at hf
    cases hs : step n rows v with
    | error e => simp [hs] at hf
    | ok rows' =>
      simp only [hs] at hf
      simp only [List.map_cons, List.nodup_cons] at hd
      intro vb hvb col id hdrop
      rcases List.mem_cons.mp hvb with rfl | hmem
      · apply cellAt_preserved n rest rows' final id col _ hf
        · rw [cellAt_step hs hdrop]; simp
        · intro w hw hweq
          apply hd.1
          rw [hdrop, ← hweq]
          exact List.mem_map.mpr ⟨w, hw, rfl⟩
      · exact ih rows' hf hd.2 vb hmem col id hdrop

/-- nothing is invented: a value cell comes from the initial rows or from a binding that
    addresses exactly that row and column -/
theorem cells_sound (n : Nat) (vbs : List VarBind) (rows final : Rows) (id : List Nat) (k : Nat) (v : Val)
    (hf : fold n rows vbs = .ok final) (hc : cellAt final id k = some (.val v)) :
    cellAt rows id k = some (.val v) ∨ ∃ vb ∈ vbs, vb.1.drop n = k :: id ∧ vb.2 = v := by
  induction vbs generalizing rows with
  | nil => simp only [fold] at hf; cases hf; exact Or.inl hc
  | cons w rest ih =>
    unfold fold at hf
    cases hs : step n rows w with
    | error e => simp [hs] at hf
    | ok rows' =>
      simp only [hs] at hf
      rcases ih rows' hf with h | ⟨vb, hvb, h1, h2⟩
      · rcases step_ok hs with ⟨col, i, hd, _⟩
        rw [cellAt_step hs hd] at h
        by_cases hid : id = i
        · subst hid
          simp only [if_true] at h
          by_cases hk : k = col
          · subst hk
            simp only [if_true, Option.some.injEq, Cell.val.injEq] at h
            exact Or.inr ⟨w, by simp, hd, h⟩
          · simp only [hk, if_false] at h
            cases hl : lookup rows id with
            | none =>
              simp only [hl, Option.getD_none, lookup_cons, lookup_nil] at h
              by_cases h0 : (0 == k) = true <;> simp [h0] at h
            | some row =>
              left
              simpa [cellAt, hl] using h
        · left; simpa [hid] using h
      · exact Or.inr ⟨vb, by simp [hvb], h1, h2⟩

/-- the state invariant of the fold: distinct row ids, every row carries its own index under
    key 0 -/
def Good (rows : Rows) : Prop :=
  (rows.map (·.1)).Nodup ∧ ∀ id row, (id, row) ∈ rows → lookup row 0 = some (.idx id)

theorem good_step {n : Nat} {rows rows' : Rows} {vb : VarBind} (hg : Good rows)
    (h : step n rows vb = .ok rows') (hcol : ∀ col id, vb.1.drop n = col :: id → col ≠ 0) : Good rows' := by
  rcases step_ok h with ⟨col, i, hd, rfl⟩
  have hc := hcol col i hd
  refine ⟨nodup_keys_dictSet _ _ _ hg.1, ?_⟩
  intro id row hmem
  have hl := lookup_of_mem_nodup _ id row (nodup_keys_dictSet _ _ _ hg.1) hmem
  rw [lookup_dictSet] at hl
  by_cases hid : id = i
  · subst hid
    simp only [beq_self_eq_true, if_true, Option.some.injEq] at hl
    subst hl
    rw [lookup_dictSet]
    have : ¬ ((0 : Nat) == col) = true := by simpa using (Ne.symm hc)
    simp only [this, if_false]
    cases hr : lookup rows id with
    | none => simp [lookup_cons]
    | some r => simpa using hg.2 id r (lookup_mem _ _ _ hr)
  · have : ¬ (id == i) = true := by simpa using hid
    simp only [this, if_false] at hl
    exact hg.2 id row (lookup_mem _ _ _ hl)

theorem good_fold (n : Nat) (vbs : List VarBind) (rows final : Rows) (hg : Good rows)
    (hf : fold n rows vbs = .ok final)
    (hcol : ∀ vb ∈ vbs, ∀ col id, vb.1.drop n = col :: id → col ≠ 0) : Good final := by
  induction vbs generalizing rows with
  | nil => simp only [fold] at hf; cases hf; exact hg
  | cons w rest ih =>
    unfold fold at hf
    cases hs : step n rows w with
    | error e => simp [hs] at hf
    | ok rows' =>
      simp only [hs] at hf
      exact ih rows' (good_step hg hs (hcol w (by simp))) hf (fun v hv => hcol v (by simp [hv]))

theorem keys_fold (n : Nat) (vbs : List VarBind) (rows final : Rows)
    (hf : fold n rows vbs = .ok final) (id : List Nat) :
    id ∈ final.map (·.1) ↔ id ∈ rows.map (·.1) ∨ ∃ vb ∈ vbs, ∃ col, vb.1.drop n = col :: id := by
  induction vbs generalizing rows with
  | nil => simp only [fold] at hf; cases hf; simp
  | cons w rest ih =>
    unfold fold at hf
    cases hs : step n rows w with
    | error e => simp [hs] at hf
    | ok rows' =>
      simp only [hs] at hf
      rw [ih rows' hf]
      rcases step_ok hs with ⟨col, i, hd, rfl⟩
      rw [mem_keys_dictSet]
      constructor
      · rintro ((h | h) | ⟨vb, hvb, c, hc⟩)
        · exact Or.inl h
        · subst h; exact Or.inr ⟨w, by simp, col, hd⟩
        · exact Or.inr ⟨vb, by simp [hvb], c, hc⟩
      · rintro (h | ⟨vb, hvb, c, hc⟩)
        · exact Or.inl (Or.inl h)
        · rcases List.mem_cons.mp hvb with rfl | hr
          · rw [hd] at hc; cases hc; exact Or.inl (Or.inr rfl)
          · exact Or.inr ⟨vb, hr, c, hc⟩

end Snmp.Table
