/-
  The strict specification reader on a run of TLVs written in any admissible length forms.
-/
import Snmp.Lemmas.SeqItems
namespace Snmp.Spec
open Snmp Snmp.Ber

theorem readAll_raw : ∀ (xs : List RawTlv), (∀ x ∈ xs, x.f.ok x.c.length) → ∀ (fuel : Nat), xs.length < fuel →
    readAll fuel (rawBytes xs) = some (xs.map fun x => (x.t, x.c))
  | [], _, fuel, hf => by
    cases fuel with
    | zero => omega
    | succ f => simp [readAll, rawBytes]
  | x :: xs, h, fuel, hf => by
    cases fuel with
    | zero => omega
    | succ f =>
      have hx := h x (List.mem_cons_self ..)
      have hne : rawBytes (x :: xs) ≠ [] := by simp [rawBytes, RawTlv.bytes, Spec.tlv]
      rw [readAll]
      · simp only [rawBytes, RawTlv.bytes]
        rw [readTLV_spec x.f x.t x.c _ hx]
        simp only
        rw [readAll_raw xs (fun y hy => h y (List.mem_cons_of_mem _ hy)) f (by simp at hf; omega)]
        simp
      · exact hne

theorem rawBytes_length_ge : ∀ (xs : List RawTlv), xs.length ≤ (rawBytes xs).length
  | [] => by simp [rawBytes]
  | x :: xs => by
    have := rawBytes_length_ge xs
    have := x.bytes_pos
    simp only [rawBytes, List.length_append, List.length_cons]
    omega

/-- the content of a constructed value is read back item by item -/
theorem readSeq_raw (xs : List RawTlv) (h : ∀ x ∈ xs, x.f.ok x.c.length) :
    readSeq (rawBytes xs) = some (xs.map fun x => (x.t, x.c)) := by
  unfold readSeq
  exact readAll_raw xs h _ (by have := rawBytes_length_ge xs; omega)

end Snmp.Spec
