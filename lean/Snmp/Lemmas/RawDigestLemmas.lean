/-
  `reset_raw_digest` on every SNMPv3 datagram an agent may write (any tags, any admissible definite
  length form at each of the ten levels it passes): the window it zeroes is exactly the content
  of the fifth field of the security parameters.
-/
import Snmp.Model.RawDigest
import Snmp.Lemmas.BerDecode
namespace Snmp.RawDigest
open Snmp Snmp.Ber

/-- `get_value_slice` at the start of a TLV found anywhere in the datagram -/
theorem gvs_at (data pre rest c : Bytes) (f : LenForm) (t : Nat) (hf : f.ok c.length)
    (hd : data = pre ++ Spec.tlv f t c ++ rest) (i : Nat) (hi : i = pre.length) :
    gvs data i = .ok (⟨i + 1 + (specLength f c.length).length,
        ((i + 1 + (specLength f c.length).length + c.length : Nat) : Int)⟩,
      i + 1 + (specLength f c.length).length + c.length) := by
  subst hd; subst hi
  unfold gvs
  rw [getValueSlice_spec f t c pre rest hf]

theorem tlv_length (f : LenForm) (t : Nat) (c : Bytes) :
    (Spec.tlv f t c).length = 1 + (specLength f c.length).length + c.length := by
  simp [Spec.tlv]; omega

/-- the forms and tags of the ten TLVs on the way to the digest -/
structure Shape where
  f0 : LenForm
  f1 : LenForm
  f2 : LenForm
  f3 : LenForm
  f4 : LenForm
  f5 : LenForm
  f6 : LenForm
  f7 : LenForm
  f8 : LenForm
  f9 : LenForm
  t0 : Nat
  t1 : Nat
  t2 : Nat
  t3 : Nat
  t4 : Nat
  t5 : Nat
  t6 : Nat
  t7 : Nat
  t8 : Nat
  t9 : Nat

/-- the other contents: version, header, engine id, boots, time, user, what follows the digest
    inside the security parameters (the privacy parameters), what follows the security parameters
    (msgData), and octets after the message -/
structure Parts where
  ver : Bytes
  hdr : Bytes
  eid : Bytes
  boots : Bytes
  time : Bytes
  user : Bytes
  tail : Bytes
  msgData : Bytes
  trailing : Bytes

def inner (s : Shape) (p : Parts) (d : Bytes) : Bytes :=
  Spec.tlv s.f5 s.t5 p.eid ++ Spec.tlv s.f6 s.t6 p.boots ++ Spec.tlv s.f7 s.t7 p.time ++ Spec.tlv s.f8 s.t8 p.user ++
    Spec.tlv s.f9 s.t9 d ++ p.tail

def sec (s : Shape) (p : Parts) (d : Bytes) : Bytes := Spec.tlv s.f4 s.t4 (inner s p d)

def body (s : Shape) (p : Parts) (d : Bytes) : Bytes :=
  Spec.tlv s.f1 s.t1 p.ver ++ Spec.tlv s.f2 s.t2 p.hdr ++ Spec.tlv s.f3 s.t3 (sec s p d) ++ p.msgData

/-- the datagram with `d` in the digest field -/
def wire (s : Shape) (p : Parts) (d : Bytes) : Bytes := Spec.tlv s.f0 s.t0 (body s p d) ++ p.trailing

/-- every length is written in an admissible form -/
def Shape.ok (s : Shape) (p : Parts) (d : Bytes) : Prop :=
  s.f0.ok (body s p d).length ∧ s.f1.ok p.ver.length ∧ s.f2.ok p.hdr.length ∧ s.f3.ok (sec s p d).length ∧
  s.f4.ok (inner s p d).length ∧ s.f5.ok p.eid.length ∧ s.f6.ok p.boots.length ∧ s.f7.ok p.time.length ∧
  s.f8.ok p.user.length ∧ s.f9.ok d.length

/-- everything before the digest octets -/
def before (s : Shape) (p : Parts) (n : Nat) : Bytes :=
  s.t0 :: specLength s.f0 (body s p (List.replicate n 0)).length ++
  (Spec.tlv s.f1 s.t1 p.ver ++ Spec.tlv s.f2 s.t2 p.hdr ++
    (s.t3 :: specLength s.f3 (sec s p (List.replicate n 0)).length ++
      (s.t4 :: specLength s.f4 (inner s p (List.replicate n 0)).length ++
        (Spec.tlv s.f5 s.t5 p.eid ++ Spec.tlv s.f6 s.t6 p.boots ++ Spec.tlv s.f7 s.t7 p.time ++ Spec.tlv s.f8 s.t8 p.user ++
          (s.t9 :: specLength s.f9 n)))))

/-- everything after them -/
def after (p : Parts) : Bytes := p.tail ++ p.msgData ++ p.trailing

theorem inner_length (s : Shape) (p : Parts) (d d' : Bytes) (h : d.length = d'.length) :
    (inner s p d).length = (inner s p d').length := by
  simp [inner, Spec.tlv, h]

theorem sec_length (s : Shape) (p : Parts) (d d' : Bytes) (h : d.length = d'.length) :
    (sec s p d).length = (sec s p d').length := by
  simp [sec, Spec.tlv, inner_length s p d d' h]

theorem body_length (s : Shape) (p : Parts) (d d' : Bytes) (h : d.length = d'.length) :
    (body s p d).length = (body s p d').length := by
  simp [body, Spec.tlv, sec_length s p d d' h]

/-- the datagram is prefix ++ digest ++ suffix, the same prefix and suffix for every digest of
    the same length -/
theorem wire_split (s : Shape) (p : Parts) (d : Bytes) :
    wire s p d = before s p d.length ++ d ++ after p := by
  have hi := inner_length s p d (List.replicate d.length 0) (by simp)
  have hs := sec_length s p d (List.replicate d.length 0) (by simp)
  have hb := body_length s p d (List.replicate d.length 0) (by simp)
  unfold wire before after
  rw [← hi, ← hs, ← hb]
  simp [body, sec, inner, Spec.tlv, List.append_assoc]

theorem skip_succ (data : Bytes) (n i : Nat) (sl : Slice) (nx : Nat) (h : gvs data i = .ok (sl, nx)) :
    skip data (n + 1) i = skip data n nx := by
  simp only [skip, h]

theorem take_drop_split (a d z b : Bytes) (hz : z.length = d.length) :
    (a ++ d ++ b).take a.length ++ z ++ (a ++ d ++ b).drop (a.length + d.length) = a ++ z ++ b := by
  have h1 : (a ++ d ++ b).take a.length = a := by
    rw [List.append_assoc]; exact List.take_left' rfl
  have h2 : (a ++ d ++ b).drop (a.length + d.length) = b := by
    rw [← List.length_append]; exact List.drop_left' rfl
  rw [h1, h2]

/-- `reset_raw_digest` on a datagram of this shape -/
theorem reset_wire (s : Shape) (p : Parts) (d : Bytes) (hok : s.ok p d) :
    resetRawDigest (wire s p d) =
      if d.length = 12 then .ok (wire s p zeros12) else .error .digestLength := by
  obtain ⟨h0, h1, h2, h3, h4, h5, h6, h7, h8, h9⟩ := hok
  -- the prefixes at which the ten TLVs start
  let pre2 : Bytes := s.t0 :: specLength s.f0 (body s p d).length
  let pre3 : Bytes := pre2 ++ Spec.tlv s.f1 s.t1 p.ver
  let pre4 : Bytes := pre3 ++ Spec.tlv s.f2 s.t2 p.hdr
  let pre5 : Bytes := pre4 ++ (s.t3 :: specLength s.f3 (sec s p d).length)
  let pre6 : Bytes := pre5 ++ (s.t4 :: specLength s.f4 (inner s p d).length)
  let pre7 : Bytes := pre6 ++ Spec.tlv s.f5 s.t5 p.eid
  let pre8 : Bytes := pre7 ++ Spec.tlv s.f6 s.t6 p.boots
  let pre9 : Bytes := pre8 ++ Spec.tlv s.f7 s.t7 p.time
  let pre10 : Bytes := pre9 ++ Spec.tlv s.f8 s.t8 p.user
  have c1 := gvs_at (wire s p d) [] p.trailing (body s p d) s.f0 s.t0 h0 (by simp [wire]) 0 rfl
  have c2 := gvs_at (wire s p d) pre2
    (Spec.tlv s.f2 s.t2 p.hdr ++ Spec.tlv s.f3 s.t3 (sec s p d) ++ p.msgData ++ p.trailing) p.ver s.f1 s.t1 h1
    (by simp [wire, body, Spec.tlv, pre2, List.append_assoc]) pre2.length rfl
  have c3 := gvs_at (wire s p d) pre3
    (Spec.tlv s.f3 s.t3 (sec s p d) ++ p.msgData ++ p.trailing) p.hdr s.f2 s.t2 h2
    (by simp [wire, body, Spec.tlv, pre3, pre2, List.append_assoc]) pre3.length rfl
  have c4 := gvs_at (wire s p d) pre4 (p.msgData ++ p.trailing) (sec s p d) s.f3 s.t3 h3
    (by simp [wire, body, Spec.tlv, pre4, pre3, pre2, List.append_assoc]) pre4.length rfl
  have c5 := gvs_at (wire s p d) pre5 (p.msgData ++ p.trailing) (inner s p d) s.f4 s.t4 h4
    (by simp [wire, body, sec, Spec.tlv, pre5, pre4, pre3, pre2, List.append_assoc]) pre5.length rfl
  have c6 := gvs_at (wire s p d) pre6
    (Spec.tlv s.f6 s.t6 p.boots ++ Spec.tlv s.f7 s.t7 p.time ++ Spec.tlv s.f8 s.t8 p.user ++ Spec.tlv s.f9 s.t9 d ++ p.tail ++ p.msgData ++ p.trailing)
    p.eid s.f5 s.t5 h5
    (by simp [wire, body, sec, inner, Spec.tlv, pre6, pre5, pre4, pre3, pre2, List.append_assoc]) pre6.length rfl
  have c7 := gvs_at (wire s p d) pre7
    (Spec.tlv s.f7 s.t7 p.time ++ Spec.tlv s.f8 s.t8 p.user ++ Spec.tlv s.f9 s.t9 d ++ p.tail ++ p.msgData ++ p.trailing)
    p.boots s.f6 s.t6 h6
    (by simp [wire, body, sec, inner, Spec.tlv, pre7, pre6, pre5, pre4, pre3, pre2, List.append_assoc]) pre7.length rfl
  have c8 := gvs_at (wire s p d) pre8
    (Spec.tlv s.f8 s.t8 p.user ++ Spec.tlv s.f9 s.t9 d ++ p.tail ++ p.msgData ++ p.trailing)
    p.time s.f7 s.t7 h7
    (by simp [wire, body, sec, inner, Spec.tlv, pre8, pre7, pre6, pre5, pre4, pre3, pre2, List.append_assoc]) pre8.length rfl
  have c9 := gvs_at (wire s p d) pre9
    (Spec.tlv s.f9 s.t9 d ++ p.tail ++ p.msgData ++ p.trailing)
    p.user s.f8 s.t8 h8
    (by simp [wire, body, sec, inner, Spec.tlv, pre9, pre8, pre7, pre6, pre5, pre4, pre3, pre2, List.append_assoc]) pre9.length rfl
  have c10 := gvs_at (wire s p d) pre10 (p.tail ++ p.msgData ++ p.trailing) d s.f9 s.t9 h9
    (by simp [wire, body, sec, inner, Spec.tlv, pre10, pre9, pre8, pre7, pre6, pre5, pre4, pre3, pre2, List.append_assoc]) pre10.length rfl
  -- the indices the function computes are the lengths of these prefixes
  have e2 : 0 + 1 + (specLength s.f0 (body s p d).length).length = pre2.length := by simp [pre2]; omega
  have e3 : pre2.length + 1 + (specLength s.f1 p.ver.length).length + p.ver.length = pre3.length := by
    simp [pre3, tlv_length]; omega
  have e4 : pre3.length + 1 + (specLength s.f2 p.hdr.length).length + p.hdr.length = pre4.length := by
    simp [pre4, tlv_length]; omega
  have e5 : pre4.length + 1 + (specLength s.f3 (sec s p d).length).length = pre5.length := by simp [pre5]; omega
  have e6 : pre5.length + 1 + (specLength s.f4 (inner s p d).length).length = pre6.length := by simp [pre6]; omega
  have e7 : pre6.length + 1 + (specLength s.f5 p.eid.length).length + p.eid.length = pre7.length := by
    simp [pre7, tlv_length]; omega
  have e8 : pre7.length + 1 + (specLength s.f6 p.boots.length).length + p.boots.length = pre8.length := by
    simp [pre8, tlv_length]; omega
  have e9 : pre8.length + 1 + (specLength s.f7 p.time.length).length + p.time.length = pre9.length := by
    simp [pre9, tlv_length]; omega
  have e10 : pre9.length + 1 + (specLength s.f8 p.user.length).length + p.user.length = pre10.length := by
    simp [pre10, tlv_length]; omega
  rw [e3] at c2; rw [e4] at c3; rw [e7] at c6; rw [e8] at c7; rw [e9] at c8; rw [e10] at c9
  have hskip : skip (wire s p d) 4 pre6.length = .ok pre10.length := by
    rw [skip_succ _ _ _ _ _ c6, skip_succ _ _ _ _ _ c7, skip_succ _ _ _ _ _ c8, skip_succ _ _ _ _ _ c9]; rfl
  unfold resetRawDigest
  simp only [c1, e2, c2, c3, c4, e5, c5, e6, hskip, c10]
  have hb : (before s p d.length).length = pre10.length + 1 + (specLength s.f9 d.length).length := by
    have hi := inner_length s p d (List.replicate d.length 0) (by simp)
    have hs := sec_length s p d (List.replicate d.length 0) (by simp)
    have hbd := body_length s p d (List.replicate d.length 0) (by simp)
    unfold before
    rw [← hi, ← hs, ← hbd]
    simp [pre10, pre9, pre8, pre7, pre6, pre5, pre4, pre3, pre2, Spec.tlv]
    omega
  rw [← hb]
  by_cases hd : d.length = 12
  · have hne : ¬ (((before s p d.length).length + d.length : Nat) : Int) - ((before s p d.length).length : Int) ≠ 12 := by
      omega
    rw [if_neg hne, if_pos hd]
    have hz : zeros12.length = d.length := by simp [zeros12, hd]
    have hw0 := wire_split s p zeros12
    rw [hz] at hw0
    rw [hw0, wire_split s p d, Int.toNat_natCast]
    congr 1
    exact take_drop_split (before s p d.length) d zeros12 (after p) hz
  · have hne : (((before s p d.length).length + d.length : Nat) : Int) - ((before s p d.length).length : Int) ≠ 12 := by
      omega
    rw [if_pos hne, if_neg hd]

end Snmp.RawDigest
