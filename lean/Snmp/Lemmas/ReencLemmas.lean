/-
  Re-encoding of decoded structures (`Snmp.Reenc`): what `bytes(X.decode(data))` writes for a
  well-formed `data` in any admissible length forms is the same run of TLVs — same identifier
  octets, same contents (integers re-written minimally from their values) — with the length octets
  `x690.encode_length` produces; and that is again well-formed, so decoding it yields the same
  fields.
-/
import Snmp.Model.Reenc
import Snmp.Lemmas.V3GlueLemmas
import Snmp.Lemmas.BerInt
namespace Snmp.Reenc
open Snmp Snmp.Ber Snmp.V3Glue
open Snmp.Spec (Small)

/-- the length form `x690.encode_length` writes: minimal, except 127 (`81 7f`) -/
def formOf (n : Nat) : LenForm := if n = 127 then .long 1 else .minimal

theorem toBE_127 : toBE 127 = [127] := by
  rw [toBE]; simp; rw [toBE]; simp

theorem encodeLength_formOf (n : Nat) : encodeLength n = specLength (formOf n) n := by
  unfold formOf
  by_cases h : n = 127
  · subst h
    simp only [↓reduceIte, encodeLength, specLength, toBE_127]
    decide
  · simp only [h, ↓reduceIte]
    exact encodeLength_eq_spec n h

theorem formOf_ok (n : Nat) (h : Small n) : (formOf n).ok n := by
  unfold formOf
  by_cases h127 : n = 127
  · subst h127; simp [LenForm.ok]
  · simp only [h127, ↓reduceIte, LenForm.ok]; exact h

/-- `X690Type.__bytes__` writes a TLV of the specification with the form `encode_length` chooses -/
theorem tlv_eq_spec (t : Nat) (c : Bytes) : Ber.tlv t c = Spec.tlv (formOf c.length) t c := by
  simp [Ber.tlv, Spec.tlv, encodeLength_formOf]

/-- a TLV as `bytes(obj)` writes it -/
def norm (t : Nat) (c : Bytes) : RawTlv := ⟨formOf c.length, t, c⟩

theorem norm_bytes (t : Nat) (c : Bytes) : (norm t c).bytes = Ber.tlv t c := by
  simp [norm, RawTlv.bytes, tlv_eq_spec]

theorem tag_str : tagOf "OctetString" = 4 := by decide
theorem tag_seq : tagOf "Sequence" = 48 := by decide
theorem tag_int : tagOf "Integer" = 2 := by decide

/-! ### USM security parameters -/

/-- the forms `bytes(USMSecurityParameters)` uses -/
def normForms (p : UsmParams.Params) : ParamForms :=
  ⟨formOf p.engineId.length, formOf (intEncode p.boots).length, formOf (intEncode p.time).length,
   formOf p.user.length, formOf p.auth.length, formOf p.priv.length⟩

theorem encodeUsm_eq (p : UsmParams.Params) :
    encodeUsmParams p.engineId p.boots p.time p.user p.auth p.priv =
      Spec.tlv (formOf (rawBytes (paramItems (normForms p) p (intEncode p.boots) (intEncode p.time))).length) 48
        (rawBytes (paramItems (normForms p) p (intEncode p.boots) (intEncode p.time))) := by
  have hc : rawBytes (paramItems (normForms p) p (intEncode p.boots) (intEncode p.time)) =
      Ber.tlv 4 p.engineId ++ Ber.tlv 2 (intEncode p.boots) ++ Ber.tlv 2 (intEncode p.time) ++ Ber.tlv 4 p.user
        ++ Ber.tlv 4 p.auth ++ Ber.tlv 4 p.priv := by
    simp [paramItems, rawBytes, RawTlv.bytes, tStr, tInt, normForms, tlv_eq_spec, List.append_assoc]
  rw [← tlv_eq_spec, hc]
  rfl

/-- sizes below 256^126 octets (anything that fits into a datagram) -/
def SmallParams (p : UsmParams.Params) : Prop :=
  Small p.engineId.length ∧ Small (intEncode p.boots).length ∧ Small (intEncode p.time).length ∧ Small p.user.length ∧
  Small p.auth.length ∧ Small p.priv.length ∧
  Small (rawBytes (paramItems (normForms p) p (intEncode p.boots) (intEncode p.time))).length

/-- `bytes(USMSecurityParameters.decode(block))` for a block in any length forms: the six fields
    re-written from their values; decoding that again gives the same six values. -/
theorem reencUsm_wire (f : LenForm) (F : ParamForms) (p : UsmParams.Params) (boots time : Bytes)
    (hF : F.ok p boots time) (hf : f.ok (rawBytes (paramItems F p boots time)).length)
    (hb : p.boots = intDecode true boots) (ht : p.time = intDecode true time) (hs : SmallParams p)
    (fuel : Nat) (hfuel : 5 ≤ fuel) :
    reencUsm (Spec.tlv f 48 (rawBytes (paramItems F p boots time))) fuel
        = .ok (encodeUsmParams p.engineId p.boots p.time p.user p.auth p.priv) ∧
    UsmParams.ofBytes (encodeUsmParams p.engineId p.boots p.time p.user p.auth p.priv) fuel = .ok p := by
  constructor
  · unfold reencUsm
    rw [params_wire f F p boots time hF hf hb ht fuel hfuel]
  · rw [encodeUsm_eq]
    obtain ⟨h1, h2, h3, h4, h5, h6, h7⟩ := hs
    apply params_wire _ (normForms p) p (intEncode p.boots) (intEncode p.time) _ (formOf_ok _ h7)
      ((intDecode_intEncode p.boots).1.symm) ((intDecode_intEncode p.time).1.symm) fuel hfuel
    exact ⟨formOf_ok _ h1, formOf_ok _ h2, formOf_ok _ h3, formOf_ok _ h4, formOf_ok _ h5, formOf_ok _ h6⟩

/-! ### scoped PDU -/

/-- `bytes(obj)` of a decoded OCTET STRING: identifier octet 4, the content as received -/
theorem objBytes_str (data : Bytes) (n : Node) (he : n.entry = lookup 4) :
    objBytes data n = .ok (Ber.tlv 4 (n.content data)) := by
  obtain ⟨_, r4, _⟩ := look
  unfold objBytes classTag
  rw [he, r4]
  simp only [tag_str]
  by_cases hc : (n.content data).isEmpty = true
  · have : n.content data = [] := List.isEmpty_iff.mp hc
    simp [this, Ber.tlv, encodeLength]
  · simp [hc]

/-- `bytes(obj)` of a decoded object with content, of a class whose identifier octet is the one received -/
theorem objBytes_same (data : Bytes) (n : Node) (t : Nat) (he : n.entry = lookup t) (ht : tagOf (lookup t).name = t)
    (hk : (lookup t).kind ≠ "null") (hc : n.content data ≠ []) :
    objBytes data n = .ok (Ber.tlv t (n.content data)) := by
  unfold objBytes classTag
  rw [he]
  have h1 : ((lookup t).kind == "null") = false := by simpa using hk
  have h2 : (n.content data).isEmpty = false := by simpa [List.isEmpty_iff] using hc
  simp [h1, h2, ht]

/-- the three items of a scoped PDU as an agent writes them -/
def scopedItems (fe fn : LenForm) (e nm : Bytes) (pdu : RawTlv) : List RawTlv := [tStr fe e, tStr fn nm, pdu]

/-- `bytes(ScopedPDU.decode(data))`: the same three TLVs — contextEngineID, contextName and the PDU
    with the content octets as received — under the length octets `encode_length` writes. -/
theorem reencScoped_wire (f fe fn : LenForm) (e nm : Bytes) (pdu : RawTlv) (trailing : Bytes) (fuel : Nat)
    (hf : f.ok (rawBytes (scopedItems fe fn e nm pdu)).length) (hfe : fe.ok e.length) (hfn : fn.ok nm.length)
    (hpdu : pdu.ok) (hpt : tagOf (lookup pdu.t).name = pdu.t) (hpk : (lookup pdu.t).kind ≠ "null") (hpc : pdu.c ≠ [])
    (hfuel : 2 ≤ fuel) :
    reencScoped (Spec.tlv f 48 (rawBytes (scopedItems fe fn e nm pdu)) ++ trailing) fuel =
      .ok (Ber.tlv 48 (rawBytes [norm 4 e, norm 4 nm, norm pdu.t pdu.c])) := by
  obtain ⟨r2, r4, r48⟩ := look
  let I := scopedItems fe fn e nm pdu
  let c0 := rawBytes I
  let pre0 : Bytes := 48 :: specLength f c0.length
  have hoks : ∀ y ∈ I, y.ok := by
    intro y hy
    simp only [I, scopedItems, List.mem_cons, List.not_mem_nil, or_false] at hy
    rcases hy with rfl | rfl | rfl
    · exact ok_of_form _ 4 _ hfe (by simp)
    · exact ok_of_form _ 4 _ hfn (by simp)
    · exact hpdu
  have hdec := decodeAt_node f 48 c0 [] trailing hf (by decide) (by rw [r48]; decide)
  have hdec' : decodeAt (Spec.tlv f 48 c0 ++ trailing) 0 = .ok (nodeAtLen f 48 c0 0, (Spec.tlv f 48 c0).length) := by
    have := hdec
    simp only [List.nil_append, List.length_nil, Nat.zero_add] at this
    rw [this]; simp [nodeAtLen]
  have hitems := items_seq f (tStr fe e) [tStr fn nm, pdu] [] trailing fuel hoks (by simp; omega)
  simp only [List.nil_append, List.length_nil] at hitems
  have hdata0 : Spec.tlv f 48 c0 ++ trailing = pre0 ++ rawBytes I ++ trailing := by
    simp [Spec.tlv, pre0, c0]
  have hc := rawNodes_content I pre0 trailing
  have he := rawNodes_entry I pre0.length
  rw [← hdata0] at hc
  unfold reencScoped
  rw [hdec']
  have hinst : UsmParams.isInstance (nodeAtLen f 48 c0 0).entry.name "Sequence" = true := by
    simp [nodeAtLen, r48]; decide
  simp only [hinst, Bool.not_true, Bool.false_eq_true, ↓reduceIte]
  unfold scopedBytes
  have hko : ((nodeAtLen f 48 c0 0).entry.kind == "oid") = false := by simp [nodeAtLen, r48]
  simp only [hko, Bool.false_eq_true, ↓reduceIte]
  rw [show items (Spec.tlv f 48 c0 ++ trailing) (nodeAtLen f 48 c0 0) fuel = .ok (rawNodes pre0.length I) from hitems]
  simp only [I, scopedItems, rawNodes, List.map_cons, List.map_nil, List.cons.injEq, and_true, tStr] at hc he ⊢
  obtain ⟨c1, c2, c3⟩ := hc
  obtain ⟨e1, e2, e3⟩ := he
  rw [objBytes_str _ _ e1, objBytes_str _ _ e2, objBytes_same _ _ pdu.t e3 hpt hpk (by show Node.content (Spec.tlv f 48 c0 ++ trailing) _ ≠ []; rw [c3]; exact hpc)]
  simp only [c0, I, scopedItems, tStr] at c1 c2 c3
  rw [c1, c2, c3]
  simp only [tag_seq, rawBytes, norm_bytes, List.append_nil, List.append_assoc]

/-! ### the whole message -/

theorem objBytes_int (data : Bytes) (n : Node) (he : n.entry = lookup 2) :
    objBytes data n = .ok (Ber.tlv 2 (n.content data)) := by
  obtain ⟨r2, _, _⟩ := look
  unfold objBytes classTag
  rw [he, r2]
  simp only [tag_int]
  by_cases hc : (n.content data).isEmpty = true
  · have : n.content data = [] := List.isEmpty_iff.mp hc
    simp [this, Ber.tlv, encodeLength]
  · simp [hc]

theorem headerInt_int (data : Bytes) (n : Node) (he : n.entry = lookup 2) :
    headerInt data n = .ok (intDecode true (n.content data)) := by
  obtain ⟨r2, _, _⟩ := look
  unfold headerInt
  rw [he, r2]
  simp

/-- what `Message.decode` + `bytes()` do with msgData -/
def payloadBytes (data : Bytes) (flags : Nat) (pl : Node) (fuel : Nat) : Except Err Bytes :=
  if flags / 2 % 2 == 1 then objBytes data pl else scopedBytes data pl fuel

/-- **Re-encoding a decoded SNMPv3 message.**  For every well-formed message — any admissible
    length form at each TLV of the wrapper, anything behind it — `bytes(Message.decode(data))` is:
    msgVersion with the content received, the four header fields re-written from their values (the
    flags through `V3Flags`), msgSecurityParameters with the octets received, and msgData as
    `payloadBytes` re-writes it (two lemmas below), under the length octets `encode_length` writes. -/
theorem reencMsg_wire (G : MsgForms) (F : ParamForms) (h : HdrC) (p : UsmParams.Params) (boots time : Bytes)
    (pl : RawTlv) (trailing : Bytes) (fuel : Nat) (payload : Bytes)
    (hok : G.ok F h p boots time pl)
    (hpay : payloadBytes (v3wire G F h p boots time pl trailing) (fromBE h.flg) (plNode G F h p boots time pl) fuel = .ok payload)
    (hfuel : 5 ≤ fuel) :
    reencMsg (v3wire G F h p boots time pl trailing) fuel =
      .ok (assemble (Ber.tlv 2 h.ver) (intDecode true h.mid) (intDecode true h.mms) (flagsNorm (fromBE h.flg))
            (intDecode true h.mdl) (spBlock G F p boots time) payload) := by
  obtain ⟨r2, r4, r48⟩ := look
  obtain ⟨h0, hv, hh, hm, hs, hl, ho, hsp, hsi, hpl⟩ := hok
  let I := msgItems G F h p boots time pl
  let c0 := rawBytes I
  let pre0 : Bytes := 48 :: specLength G.f0 c0.length
  have hoksI : ∀ y ∈ I, y.ok := by
    intro y hy
    simp only [I, msgItems, List.mem_cons, List.not_mem_nil, or_false] at hy
    rcases hy with rfl | rfl | rfl | rfl
    · exact ok_of_form _ 2 _ hv (by simp)
    · exact ok_of_form _ 48 _ hh (by simp)
    · exact ok_of_form _ 4 _ hsp (by simp)
    · exact hpl
  have hdec := decodeAt_node G.f0 48 c0 [] trailing h0 (by decide) (by rw [r48]; decide)
  have hdec' : decodeAt (v3wire G F h p boots time pl trailing) 0
      = .ok (nodeAtLen G.f0 48 c0 0, (Spec.tlv G.f0 48 c0).length) := by
    have := hdec
    simp only [List.nil_append, List.length_nil, Nat.zero_add] at this
    show decodeAt (Spec.tlv G.f0 48 c0 ++ trailing) 0 = _
    rw [this]; simp [nodeAtLen]
  have hitems0 := items_seq G.f0 (tInt G.fv h.ver)
    [tSeq G.fh (rawBytes (hdrItems G h)), tStr G.fsp (spBlock G F p boots time), pl] [] trailing fuel hoksI (by simp; omega)
  simp only [List.nil_append, List.length_nil] at hitems0
  let Pv : Bytes := pre0 ++ (tInt G.fv h.ver).bytes
  let Rh : Bytes := (tStr G.fsp (spBlock G F p boots time)).bytes ++ (pl.bytes ++ trailing)
  have hdataH : v3wire G F h p boots time pl trailing = Pv ++ Spec.tlv G.fh 48 (rawBytes (hdrItems G h)) ++ Rh := by
    simp [v3wire, msgItems, rawBytes, RawTlv.bytes, tSeq, tInt, tStr, Spec.tlv, Pv, Rh, pre0, c0, I, List.append_assoc]
  have hoksH : ∀ y ∈ hdrItems G h, y.ok := by
    intro y hy
    simp only [hdrItems, List.mem_cons, List.not_mem_nil, or_false] at hy
    rcases hy with rfl | rfl | rfl | rfl
    · exact ok_of_form _ 2 _ hm (by simp)
    · exact ok_of_form _ 2 _ hs (by simp)
    · exact ok_of_form _ 4 _ hl (by simp)
    · exact ok_of_form _ 2 _ ho (by simp)
  have hitemsH := items_seq G.fh (tInt G.fm h.mid) [tInt G.fs h.mms, tStr G.fl h.flg, tInt G.fo h.mdl] Pv Rh fuel hoksH (by simp; omega)
  have hdata0 : v3wire G F h p boots time pl trailing = pre0 ++ rawBytes I ++ trailing := by
    simp [v3wire, Spec.tlv, pre0, c0, I]
  have hc0 := rawNodes_content I pre0 trailing
  have he0 := rawNodes_entry I pre0.length
  have hcH := rawNodes_content (hdrItems G h) (Pv ++ 48 :: specLength G.fh (rawBytes (hdrItems G h)).length) Rh
  have heH := rawNodes_entry (hdrItems G h) (Pv ++ 48 :: specLength G.fh (rawBytes (hdrItems G h)).length).length
  unfold reencMsg msgNodes
  rw [hdec']
  have hinst : UsmParams.isInstance (nodeAtLen G.f0 48 c0 0).entry.name "Sequence" = true := by
    simp [nodeAtLen, r48]; decide
  simp only [hinst, Bool.not_true, Bool.false_eq_true, ↓reduceIte]
  rw [show items (v3wire G F h p boots time pl trailing) (nodeAtLen G.f0 48 c0 0) fuel
        = .ok (rawNodes pre0.length I) from hitems0]
  rw [← hdata0] at hc0
  simp only [I, msgItems, rawNodes, List.map_cons, List.map_nil, List.cons.injEq, and_true, tStr, tInt, tSeq] at hc0 he0 ⊢
  obtain ⟨c1, c2, c3, c4⟩ := hc0
  obtain ⟨e1, e2, e3, e4⟩ := he0
  have hPv : Pv.length = pre0.length + ({ f := G.fv, t := 2, c := h.ver } : RawTlv).bytes.length := by
    simp [Pv, tInt]
  have hitemsH' : items (v3wire G F h p boots time pl trailing)
      (nodeAtLen G.fh 48 (rawBytes (hdrItems G h)) (pre0.length + ({ f := G.fv, t := 2, c := h.ver } : RawTlv).bytes.length)) fuel
      = .ok (rawNodes (Pv ++ 48 :: specLength G.fh (rawBytes (hdrItems G h)).length).length (hdrItems G h)) := by
    rw [hdataH, ← hPv]; exact hitemsH
  rw [hitemsH']
  have hm4 : nodeAtLen pl.f pl.t pl.c (pre0.length + ({ f := G.fv, t := 2, c := h.ver } : RawTlv).bytes.length
      + ({ f := G.fh, t := 48, c := rawBytes (hdrItems G h) } : RawTlv).bytes.length
      + ({ f := G.fsp, t := 4, c := spBlock G F p boots time } : RawTlv).bytes.length) = plNode G F h p boots time pl := rfl
  rw [hm4] at c4 e4 ⊢
  generalize nodeAtLen G.fsp 4 (spBlock G F p boots time) _ = m3 at *
  generalize nodeAtLen G.fv 2 h.ver _ = nv at *
  have hdataH2 : v3wire G F h p boots time pl trailing
      = (Pv ++ 48 :: specLength G.fh (rawBytes (hdrItems G h)).length) ++ rawBytes (hdrItems G h) ++ Rh := by
    rw [hdataH]; simp [Spec.tlv]
  rw [← hdataH2] at hcH
  simp only [hdrItems, rawNodes, List.map_cons, List.map_nil, List.cons.injEq, and_true, tStr, tInt] at hcH heH ⊢
  obtain ⟨d1, d2, d3, d4⟩ := hcH
  obtain ⟨g1, g2, g3, g4⟩ := heH
  generalize nodeAtLen G.fm 2 h.mid _ = n1 at *
  generalize nodeAtLen G.fs 2 h.mms _ = n2 at *
  generalize nodeAtLen G.fl 4 h.flg _ = n3 at *
  generalize nodeAtLen G.fo 2 h.mdl _ = n4 at *
  have hoct : octetsOf (v3wire G F h p boots time pl trailing) n3 = some h.flg := by
    simp [octetsOf, g3, r4, d3]; decide
  have hoctsp : octetsOf (v3wire G F h p boots time pl trailing) m3 = some (spBlock G F p boots time) := by
    simp [octetsOf, e3, r4, c3]; decide
  have i1 := headerInt_int (v3wire G F h p boots time pl trailing) n1 g1
  have i2 := headerInt_int (v3wire G F h p boots time pl trailing) n2 g2
  have i4 := headerInt_int (v3wire G F h p boots time pl trailing) n4 g4
  have ov := objBytes_int (v3wire G F h p boots time pl trailing) nv e1
  rw [d1] at i1; rw [d2] at i2; rw [d4] at i4; rw [c1] at ov
  have hpay' := hpay
  unfold payloadBytes at hpay'
  simp only [hoct, hoctsp, i1, i2, i4, ov, hpay']

/-- msgData of an encrypted message (priv flag set, an OCTET STRING): the ciphertext as received -/
theorem payloadBytes_encrypted (G : MsgForms) (F : ParamForms) (h : HdrC) (p : UsmParams.Params) (boots time : Bytes)
    (fpl : LenForm) (cipher trailing : Bytes) (fuel flags : Nat) (hpriv : flags / 2 % 2 = 1) :
    payloadBytes (v3wire G F h p boots time (tStr fpl cipher) trailing) flags
      (plNode G F h p boots time (tStr fpl cipher)) fuel = .ok (Ber.tlv 4 cipher) := by
  unfold payloadBytes
  have hp' : (flags / 2 % 2 == 1) = true := by simp [hpriv]
  simp only [hp', ↓reduceIte]
  have he : (plNode G F h p boots time (tStr fpl cipher)).entry = lookup 4 := by simp [plNode, nodeAtLen, tStr]
  rw [objBytes_str _ _ he, plNode_content]
  rfl

/-- msgData of a plain message: a fresh SEQUENCE around contextEngineID, contextName and the PDU as received -/
theorem payloadBytes_plain (G : MsgForms) (F : ParamForms) (h : HdrC) (p : UsmParams.Params) (boots time : Bytes)
    (fpl fe fn : LenForm) (e nm : Bytes) (pdu : RawTlv) (trailing : Bytes) (fuel flags : Nat)
    (hplain : flags / 2 % 2 = 0) (hfe : fe.ok e.length) (hfn : fn.ok nm.length)
    (hpdu : pdu.ok) (hpt : tagOf (lookup pdu.t).name = pdu.t) (hpk : (lookup pdu.t).kind ≠ "null") (hpc : pdu.c ≠ [])
    (hfuel : 2 ≤ fuel) :
    payloadBytes (v3wire G F h p boots time (tSeq fpl (rawBytes (scopedItems fe fn e nm pdu))) trailing) flags
        (plNode G F h p boots time (tSeq fpl (rawBytes (scopedItems fe fn e nm pdu)))) fuel
      = .ok (Ber.tlv 48 (rawBytes [norm 4 e, norm 4 nm, norm pdu.t pdu.c])) := by
  obtain ⟨_, r4, r48⟩ := look
  unfold payloadBytes scopedBytes
  have hp' : (flags / 2 % 2 == 1) = false := by simp [hplain]
  simp only [hp', Bool.false_eq_true, ↓reduceIte]
  have hoks : ∀ y ∈ scopedItems fe fn e nm pdu, y.ok := by
    intro y hy
    simp only [scopedItems, List.mem_cons, List.not_mem_nil, or_false] at hy
    rcases hy with rfl | rfl | rfl
    · exact ok_of_form _ 4 _ hfe (by simp)
    · exact ok_of_form _ 4 _ hfn (by simp)
    · exact hpdu
  have hw := v3wire_pl G F h p boots time (tSeq fpl (rawBytes (scopedItems fe fn e nm pdu))) trailing
  have hn := plNode_eq G F h p boots time (tSeq fpl (rawBytes (scopedItems fe fn e nm pdu)))
  rw [hn, hw]
  simp only [tSeq]
  generalize beforePl G F h p boots time { f := fpl, t := 48, c := rawBytes (scopedItems fe fn e nm pdu) } = B
  have hitems := items_seq fpl (tStr fe e) [tStr fn nm, pdu] B trailing fuel hoks (by simp; omega)
  have hcont := rawNodes_content (scopedItems fe fn e nm pdu) (B ++ 48 :: specLength fpl (rawBytes (scopedItems fe fn e nm pdu)).length) trailing
  have hent := rawNodes_entry (scopedItems fe fn e nm pdu) (B ++ 48 :: specLength fpl (rawBytes (scopedItems fe fn e nm pdu)).length).length
  have hd2 : B ++ Spec.tlv fpl 48 (rawBytes (scopedItems fe fn e nm pdu)) ++ trailing
      = (B ++ 48 :: specLength fpl (rawBytes (scopedItems fe fn e nm pdu)).length) ++ rawBytes (scopedItems fe fn e nm pdu) ++ trailing := by
    simp [Spec.tlv]
  rw [← hd2] at hcont
  simp only [scopedItems] at hitems hcont hent ⊢
  have hko : ((nodeAtLen fpl 48 (rawBytes [tStr fe e, tStr fn nm, pdu]) B.length).entry.kind == "oid") = false := by
    simp [nodeAtLen, r48]
  simp only [hko, Bool.false_eq_true, ↓reduceIte]
  rw [hitems]
  simp only [rawNodes, List.map_cons, List.map_nil, List.cons.injEq, and_true, tStr] at hcont hent ⊢
  obtain ⟨k1, k2, k3⟩ := hcont
  obtain ⟨q1, q2, q3⟩ := hent
  rw [objBytes_str _ _ q1, objBytes_str _ _ q2, objBytes_same _ _ pdu.t q3 hpt hpk (by rw [k3]; exact hpc)]
  rw [k1, k2, k3]
  simp only [tag_seq, rawBytes, norm_bytes, List.append_nil, List.append_assoc]

/-! ### the re-encoding is again a well-formed message with the same field values -/

/-- header contents after re-encoding: integers re-written from their values, flags normalised -/
def normHdr (h : HdrC) : HdrC :=
  ⟨h.ver, intEncode (intDecode true h.mid), intEncode (intDecode true h.mms), [flagsNorm (fromBE h.flg)],
   intEncode (intDecode true h.mdl)⟩

/-- the length forms of the re-encoding (`encode_length` everywhere, except inside
    msgSecurityParameters, whose octets are kept as received) -/
def normMsgForms (G : MsgForms) (F : ParamForms) (h : HdrC) (p : UsmParams.Params) (boots time : Bytes) (pl' : RawTlv) : MsgForms :=
  let h' := normHdr h
  let G1 : MsgForms := ⟨.minimal, formOf h'.ver.length, .minimal, formOf h'.mid.length, formOf h'.mms.length,
    formOf h'.flg.length, formOf h'.mdl.length, .minimal, G.fsi⟩
  let G2 : MsgForms := { G1 with fh := formOf (rawBytes (hdrItems G1 h')).length, fsp := formOf (spBlock G1 F p boots time).length }
  { G2 with f0 := formOf (rawBytes (msgItems G2 F h' p boots time pl')).length }

theorem assemble_eq_wire (G : MsgForms) (F : ParamForms) (h : HdrC) (p : UsmParams.Params) (boots time : Bytes) (pl' : RawTlv) :
    assemble (Ber.tlv 2 h.ver) (intDecode true h.mid) (intDecode true h.mms) (flagsNorm (fromBE h.flg))
        (intDecode true h.mdl) (spBlock G F p boots time) pl'.bytes
      = v3wire (normMsgForms G F h p boots time pl') F (normHdr h) p boots time pl' [] := by
  simp [assemble, encodeHeader, v3wire, msgItems, hdrItems, rawBytes, RawTlv.bytes, tInt, tStr, tSeq, normMsgForms, normHdr,
    spBlock, tlv_eq_spec, tag_seq, tag_str, List.append_assoc]

theorem flagsNorm_small : ∀ f : Nat, f < 8 → flagsNorm f = f
  | 0, _ => by decide
  | 1, _ => by decide
  | 2, _ => by decide
  | 3, _ => by decide
  | 4, _ => by decide
  | 5, _ => by decide
  | 6, _ => by decide
  | 7, _ => by decide
  | n + 8, h => by omega

/-- the values of the re-written header fields are the values received -/
theorem normHdr_values (h : HdrC) :
    intDecode true (normHdr h).mid = intDecode true h.mid ∧ intDecode true (normHdr h).mms = intDecode true h.mms ∧
    intDecode true (normHdr h).mdl = intDecode true h.mdl ∧ fromBE (normHdr h).flg = flagsNorm (fromBE h.flg) ∧ (normHdr h).ver = h.ver := by
  refine ⟨(intDecode_intEncode _).1, (intDecode_intEncode _).1, (intDecode_intEncode _).1, ?_, rfl⟩
  simp [normHdr, fromBE]

/-- every level of the re-encoding is shorter than 256^126 octets (anything that fits a datagram) -/
def SmallMsg (G : MsgForms) (F : ParamForms) (h : HdrC) (p : UsmParams.Params) (boots time : Bytes) (pl' : RawTlv) : Prop :=
  Small (rawBytes (msgItems (normMsgForms G F h p boots time pl') F (normHdr h) p boots time pl')).length ∧
  Small (normHdr h).ver.length ∧ Small (rawBytes (hdrItems (normMsgForms G F h p boots time pl') (normHdr h))).length ∧
  Small (normHdr h).mid.length ∧ Small (normHdr h).mms.length ∧ Small (normHdr h).flg.length ∧ Small (normHdr h).mdl.length ∧
  Small (spBlock (normMsgForms G F h p boots time pl') F p boots time).length

theorem normForms_ok (G : MsgForms) (F : ParamForms) (h : HdrC) (p : UsmParams.Params) (boots time : Bytes) (pl' : RawTlv)
    (hs : SmallMsg G F h p boots time pl') (hsi : G.fsi.ok (rawBytes (paramItems F p boots time)).length) (hpl : pl'.ok) :
    (normMsgForms G F h p boots time pl').ok F (normHdr h) p boots time pl' := by
  obtain ⟨s0, s1, s2, s3, s4, s5, s6, s7⟩ := hs
  exact ⟨formOf_ok _ s0, formOf_ok _ s1, formOf_ok _ s2, formOf_ok _ s3, formOf_ok _ s4, formOf_ok _ s5, formOf_ok _ s6,
    formOf_ok _ s7, hsi, hpl⟩

end Snmp.Reenc
