/-
  Lemmas about the x690 mirror `Snmp.Ber`: big-endian numbers, length octets, two's-complement
  integers, base-128 sub-identifiers.
-/
import Snmp.Model.BerSpec
namespace Snmp.Ber

/-! ### big-endian numbers -/

theorem fromBE_append_single (bs : Bytes) (b : Nat) : fromBE (bs ++ [b]) = fromBE bs * 256 + b := by
  simp [fromBE, List.foldl_append]

theorem fromBE_toBE (n : Nat) : fromBE (toBE n) = n := by
  induction n using Nat.strongRecOn with
  | _ n ih =>
    rw [toBE]
    split
    · subst_vars; simp [fromBE]
    · rw [fromBE_append_single, ih (n / 256) (by omega)]; omega

theorem toBE_bytes (n : Nat) : ∀ b ∈ toBE n, b < 256 := by
  induction n using Nat.strongRecOn with
  | _ n ih =>
    rw [toBE]
    split
    · simp
    · intro b hb
      rcases List.mem_append.mp hb with h | h
      · exact ih (n / 256) (by omega) b h
      · simp at h; omega

theorem toBE_length_le (n k : Nat) (h : n < 256 ^ k) : (toBE n).length ≤ k := by
  induction k generalizing n with
  | zero =>
    have : n = 0 := by simpa using h
    subst this; rw [toBE]; simp
  | succ k ih =>
    rw [toBE]; split
    · simp
    · have : n / 256 < 256 ^ k := by rw [Nat.pow_succ] at h; omega
      have := ih (n / 256) this
      simp; omega

theorem toBE_ne_nil (n : Nat) (h : n ≠ 0) : toBE n ≠ [] := by
  rw [toBE]; simp [h]

theorem toBE_length_pos (n : Nat) (h : n ≠ 0) : 0 < (toBE n).length := by
  have := toBE_ne_nil n h
  cases hb : toBE n with
  | nil => exact absurd hb this
  | cons _ _ => simp

theorem fromBE_foldl (acc : Nat) (bs : Bytes) :
    bs.foldl (fun a b => a * 256 + b) acc = acc * 256 ^ bs.length + fromBE bs := by
  induction bs generalizing acc with
  | nil => simp [fromBE]
  | cons b bs ih =>
    simp only [List.foldl_cons, List.length_cons, fromBE]
    rw [ih, ih (0 * 256 + b)]
    simp [Nat.pow_succ, Nat.add_mul, Nat.mul_assoc, Nat.mul_comm 256, Nat.add_assoc]

theorem fromBE_cons (b : Nat) (bs : Bytes) : fromBE (b :: bs) = b * 256 ^ bs.length + fromBE bs := by
  simp only [fromBE, List.foldl_cons]
  rw [fromBE_foldl]; simp [fromBE]

theorem fromBE_zeros (z : Nat) (bs : Bytes) : fromBE (List.replicate z 0 ++ bs) = fromBE bs := by
  induction z with
  | zero => simp
  | succ z ih => rw [List.replicate_succ, List.cons_append, fromBE_cons, ih]; simp

/-! ### length octets -/

/-- `decode_length` only looks at the octets from `index` on -/
theorem decodeLength_drop (pre suf : Bytes) :
    decodeLength (pre ++ suf) pre.length = decodeLength suf 0 := by
  unfold decodeLength
  cases suf with
  | nil => simp
  | cons d0 rest =>
    have h1 : (pre ++ d0 :: rest)[pre.length]? = some d0 := by simp
    simp only [h1, List.getElem?_cons_zero]
    have h2 : List.drop (pre.length + 1) (pre ++ d0 :: rest) = rest := by
      rw [List.drop_append]; simp
    have h3 : List.drop (0 + 1) (d0 :: rest) = rest := by simp
    rw [h2, h3]

/-- x690's own length octets read back (any trailing octets) -/
theorem decodeLength_encodeLength (n : Nat) (hn : n < 256 ^ 126) (rest : Bytes) :
    decodeLength (encodeLength n ++ rest) 0 = .ok (.definite n (encodeLength n).length) := by
  unfold encodeLength
  split
  · rename_i h
    have h1 : ¬ n = 255 := by omega
    have h2 : n < 128 := by omega
    simp [decodeLength, h1, h2]
  · have hl := toBE_length_le n 126 hn
    have hpos : 0 < (toBE n).length := toBE_length_pos n (by omega)
    have h1 : ¬ (128 + (toBE n).length = 255) := by omega
    have h2 : ¬ (128 + (toBE n).length < 128) := by omega
    have h3 : ¬ (128 + (toBE n).length = 128) := by omega
    simp only [List.cons_append, decodeLength, List.getElem?_cons_zero, h1, h2, h3, ↓reduceIte, List.length_cons]
    have : 128 + (toBE n).length - 128 = (toBE n).length := by omega
    simp only [this, Nat.zero_add, List.drop_succ_cons, List.drop_zero, List.take_left', fromBE_toBE]

/-- every admissible definite length form is read back by `decode_length`, with the number of
    length octets as offset -/
theorem decodeLength_specLength (f : LenForm) (n : Nat) (hf : f.ok n) (rest : Bytes) :
    decodeLength (specLength f n ++ rest) 0 = .ok (.definite n (specLength f n).length) := by
  cases f with
  | minimal =>
    simp only [LenForm.ok] at hf
    simp only [specLength]
    by_cases h : n < 128
    · have h1 : ¬ n = 255 := by omega
      simp [decodeLength, h1, h]
    · have hl := toBE_length_le n 126 hf
      have hpos : 0 < (toBE n).length := toBE_length_pos n (by omega)
      have h1 : ¬ (128 + (toBE n).length = 255) := by omega
      have h2 : ¬ (128 + (toBE n).length < 128) := by omega
      have h3 : ¬ (128 + (toBE n).length = 128) := by omega
      simp only [h, ↓reduceIte, List.cons_append, decodeLength, List.getElem?_cons_zero, h1, h2, h3, List.length_cons]
      have : 128 + (toBE n).length - 128 = (toBE n).length := by omega
      simp only [this, Nat.zero_add, List.drop_succ_cons, List.drop_zero, List.take_left', fromBE_toBE]
  | long k =>
    simp only [LenForm.ok] at hf
    rcases hf with ⟨hk1, hk2, hn⟩
    have hl := toBE_length_le n k hn
    simp only [specLength]
    have h1 : ¬ (128 + k = 255) := by omega
    have h2 : ¬ (128 + k < 128) := by omega
    have h3 : ¬ (128 + k = 128) := by omega
    simp only [List.cons_append, decodeLength, List.getElem?_cons_zero, h1, h2, h3, ↓reduceIte, List.length_cons]
    have hk : 128 + k - 128 = k := by omega
    have hlen : (List.replicate (k - (toBE n).length) 0 ++ toBE n).length = k := by simp; omega
    simp only [hk, Nat.zero_add, List.drop_succ_cons, List.drop_zero]
    have htake : (List.replicate (k - (toBE n).length) 0 ++ toBE n ++ rest).take k
        = List.replicate (k - (toBE n).length) 0 ++ toBE n := List.take_left' hlen
    rw [htake, fromBE_zeros, fromBE_toBE, hlen]

theorem encodeLength_eq_spec (n : Nat) (h : n ≠ 127) : encodeLength n = specLength .minimal n := by
  simp only [encodeLength, specLength]
  by_cases h1 : n < 127
  · have : n < 128 := by omega
    simp [h1, this]
  · have : ¬ n < 128 := by omega
    simp [h1, this]

end Snmp.Ber
