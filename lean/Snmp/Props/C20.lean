/-
  C20 — no datagram, however malformed, can hang the client or exhaust memory.
  Model: the index-based x690 mirror `Snmp.Ber` with an iteration budget for the loop of
  `Sequence.decode_raw`.  The full statement is FALSE for the dependency as it is
  (`C20_loop_counterexample`: the real loop restarts at offset 1 forever on `30 04 01 00 04 80`);
  what is proved is the bound under a decidable guard on the datagram (`C20_cost_partial`).
  Partial by nature: CPU time, big-integer cost and memory are runtime facts the model only
  bounds through iteration counts.
-/
import Snmp.Model.Ber
import Snmp.Model.UsmParams
namespace Snmp.Props.C20
open Snmp Snmp.Ber

/-- the only way `get_value_slice` fails to advance: indefinite length octet with no `00 00` behind -/
def BadHeader (data : Bytes) (pos : Nat) : Prop := data[pos + 1]? = some 128 ∧ find00 data pos = none

/-- the decidable guard: no position of the datagram is such a header -/
def Guard (data : Bytes) : Prop := ∀ pos, ¬ BadHeader data pos

theorem find00_go_ge (bs : Bytes) : ∀ (i e : Nat), find00.go bs i = some e → i ≤ e := by
  induction bs with
  | nil => intro i e h; simp [find00.go] at h
  | cons a rest ih =>
    intro i e h
    cases rest with
    | nil => cases a <;> simp [find00.go] at h
    | cons b r =>
      cases a with
      | zero =>
        cases b with
        | zero => simp [find00.go] at h; omega
        | succ b' => simp only [find00.go] at h; exact Nat.le_of_succ_le (ih (i + 1) e h)
      | succ a' => simp only [find00.go] at h; exact Nat.le_of_succ_le (ih (i + 1) e h)

theorem find00_ge (data : Bytes) (frm e : Nat) (h : find00 data frm = some e) : frm ≤ e :=
  find00_go_ge _ _ _ h

theorem decodeLength_not_fuel (data : Bytes) (i : Nat) : decodeLength data i ≠ .error .outOfFuel := by
  unfold decodeLength
  cases hb : data[i]? with
  | none => simp
  | some d0 =>
    simp only
    by_cases h1 : d0 = 255
    · simp [h1]
    · by_cases h2 : d0 < 128
      · simp [h1, h2]
      · by_cases h3 : d0 = 128 <;> simp [h1, h2, h3]

/-- `get_value_slice` never fails for lack of fuel (it does not loop) -/
theorem getValueSlice_not_fuel (data : Bytes) (pos : Nat) : getValueSlice data pos ≠ .error .outOfFuel := by
  unfold getValueSlice
  cases hl : decodeLength data (pos + 1) with
  | error e =>
    simp only [bind, Except.bind]
    intro h; cases h
    exact decodeLength_not_fuel data (pos + 1) hl
  | ok li =>
    cases li with
    | definite len off =>
      simp only [bind, Except.bind]
      by_cases hs : pos + 1 + off + len > data.length
      · simp [hs, throw, throwThe, MonadExceptOf.throw]
      · simp [hs, pure, Except.pure]
    | indefinite =>
      simp only [bind, Except.bind]
      cases hf : find00 data pos <;> simp [pure, Except.pure]

/-- every located value either moves the cursor forward or sits on a bad header -/
theorem getValueSlice_progress (data : Bytes) (pos : Nat) (sl : Slice) (nxt : Nat)
    (h : getValueSlice data pos = .ok (sl, nxt)) : pos < nxt ∨ BadHeader data pos := by
  unfold getValueSlice at h
  cases hl : decodeLength data (pos + 1) with
  | error e => simp [hl, bind, Except.bind] at h
  | ok li =>
    cases li with
    | definite len off =>
      simp only [hl, bind, Except.bind] at h
      by_cases hs : pos + 1 + off + len > data.length
      · simp [hs, throw, throwThe, MonadExceptOf.throw] at h
      · simp only [hs, ↓reduceIte, pure, Except.pure, Except.ok.injEq, Prod.mk.injEq] at h
        left; omega
    | indefinite =>
      simp only [hl, bind, Except.bind] at h
      cases hf : find00 data pos with
      | some e =>
        simp only [hf, pure, Except.pure, Except.ok.injEq, Prod.mk.injEq] at h
        have := find00_ge data pos e hf
        left; omega
      | none =>
        right
        refine ⟨?_, hf⟩
        unfold decodeLength at hl
        cases hb : data[pos + 1]? with
        | none => simp [hb] at hl
        | some d0 =>
          simp only [hb] at hl
          by_cases h1 : d0 = 255
          · simp [h1] at hl
          · by_cases h2 : d0 < 128
            · simp [h1, h2] at hl
            · by_cases h3 : d0 = 128
              · rw [h3]
              · simp [h1, h2, h3] at hl

/-- what a successful `x690.decode` went through: the value was located -/
theorem decodeAt_ok (data : Bytes) (pos : Nat) (n : Node) (nxt : Nat)
    (h : decodeAt data pos = .ok (n, nxt)) : ∃ sl, getValueSlice data pos = .ok (sl, nxt) := by
  unfold decodeAt at h
  cases hd : data[pos]? with
  | none => simp [hd] at h
  | some t =>
    simp only [hd] at h
    by_cases ht : t = 255
    · simp [ht] at h
    · simp only [ht, ↓reduceIte] at h
      cases hg : getValueSlice data pos with
      | error e => simp [hg, bind, Except.bind] at h
      | ok r =>
        obtain ⟨sl, nx⟩ := r
        simp only [hg, bind, Except.bind] at h
        split at h
        · simp [throw, throwThe, MonadExceptOf.throw] at h
        · simp only [pure, Except.pure, Except.ok.injEq, Prod.mk.injEq] at h
          exact ⟨sl, by rw [h.2]⟩

/-- a decode error is never `outOfFuel` -/
theorem decodeAt_not_fuel (data : Bytes) (pos : Nat) : decodeAt data pos ≠ .error .outOfFuel := by
  unfold decodeAt
  cases hd : data[pos]? with
  | none => simp
  | some t =>
    simp only
    by_cases ht : t = 255
    · simp [ht]
    · simp only [ht, ↓reduceIte]
      cases hg : getValueSlice data pos with
      | error e =>
        simp only [bind, Except.bind]
        intro h; cases h
        exact getValueSlice_not_fuel data pos hg
      | ok r =>
        obtain ⟨sl, nx⟩ := r
        simp only [bind, Except.bind]
        split <;> simp [throw, throwThe, MonadExceptOf.throw, pure, Except.pure]

/-- every successfully decoded TLV either moves the cursor forward or sits on a bad header -/
theorem decodeAt_progress (data : Bytes) (pos : Nat) (n : Node) (nxt : Nat)
    (h : decodeAt data pos = .ok (n, nxt)) : pos < nxt ∨ BadHeader data pos := by
  obtain ⟨sl, hg⟩ := decodeAt_ok data pos n nxt h
  exact getValueSlice_progress data pos sl nxt hg

/-- the loop of `Sequence.decode_raw`, started at `pos` with `k` octets of the datagram still
    ahead, never exhausts a budget of `k + 1` iterations on a guarded datagram -/
theorem loop_terminates (data : Bytes) (hg : Guard data) (stop : Int) :
    ∀ (k pos : Nat) (acc : List Node), data.length ≤ pos + k →
      seqItems.loop data stop (k + 1) pos acc ≠ .error .outOfFuel := by
  intro k
  induction k with
  | zero =>
    intro pos acc hk
    unfold seqItems.loop
    by_cases hlt : (pos : Int) < stop
    · simp only [hlt, ↓reduceIte]
      have : decodeAt data pos = .error .index := by
        unfold decodeAt
        have : data[pos]? = none := by simp; omega
        simp [this]
      simp [this, bind, Except.bind]
    · simp [hlt]
  | succ k ih =>
    intro pos acc hk
    unfold seqItems.loop
    by_cases hlt : (pos : Int) < stop
    · simp only [hlt, ↓reduceIte]
      cases hd : decodeAt data pos with
      | error e =>
        simp only [hd, bind, Except.bind]
        intro h; cases h
        exact decodeAt_not_fuel data pos hd
      | ok r =>
        rcases r with ⟨item, nxt⟩
        simp only [hd, bind, Except.bind]
        rcases decodeAt_progress data pos item nxt hd with hp | hb
        · exact ih nxt (item :: acc) (by omega)
        · exact absurd hb (hg pos)
    · simp [hlt]

/-- **Bound under the guard.**  For every datagram none of whose positions is an indefinite
    length octet without a later `00 00`, reading any sequence found in it takes at most
    `|datagram| + 1` iterations of the decode loop (each creating one lazy node): it ends with the
    items or with an exception, never by running on. -/
theorem C20_cost_partial (data : Bytes) (hg : Guard data) (sl : Slice) :
    seqItems data sl (data.length + 1) ≠ .error .outOfFuel := by
  unfold seqItems
  split
  · intro h; cases h
  · cases hd : decodeAt data sl.start with
    | error e =>
      simp only [hd, bind, Except.bind]
      intro h; cases h
      exact decodeAt_not_fuel data sl.start hd
    | ok r =>
      rcases r with ⟨first, next⟩
      simp only [hd, bind, Except.bind]
      exact loop_terminates data hg _ data.length next [first] (by omega)

/-- the full statement: every datagram is processed within a linear iteration budget -/
def C20_cost_statement : Prop := ∀ (data : Bytes) (sl : Slice), seqItems data sl (data.length + 1) ≠ .error .outOfFuel

/-- It is false: on `30 04 01 00 04 80` the loop over the outer sequence's content comes back to
    offset 1 again and again — the budget is exhausted for this datagram (and, the state
    recurring, for any budget).  Known finding in the x690 dependency. -/
theorem C20_loop_counterexample : ¬ C20_cost_statement := by
  intro h
  exact h [48, 4, 1, 0, 4, 128] ⟨2, 6⟩ rfl

/-- the state of the loop recurs: two iterations after offset 1 the cursor is at offset 1 again -/
theorem C20_loop_recurs :
    (decodeAt [48, 4, 1, 0, 4, 128] 1).toOption.map (·.2) = some 4 ∧
    (decodeAt [48, 4, 1, 0, 4, 128] 4).toOption.map (·.2) = some 1 := by decide

/-- processing a response touches only two slots of the message-processing instance: the
    security model (created once, identical every time) and the discovery cache, which is
    *forgotten* when the security model raises (the next request runs the discovery again) —
    so an exception raised for one datagram leaves the client's configuration and credentials as
    they were and the client usable for the next request (generated write footprint of
    `V3MPM.decode`). -/
theorem C20_usable_after_error :
    (Gen.selfWrites.filter (fun w => w.1 == "V3MPM" && w.2.1 == "decode")).map (·.2.2.1) = ["disco", "security_model"] := by
  decide

/- non-vacuity: an ordinary response satisfies the guard -/
/-- executable form of the guard -/
def guardB (data : Bytes) : Bool :=
  (List.range data.length).all fun pos => !(data[pos + 1]? == some 128 && (find00 data pos).isNone)

theorem guard_of_guardB (data : Bytes) (h : guardB data = true) : Guard data := by
  intro pos hb
  rcases hb with ⟨h1, h2⟩
  have hlt : pos < data.length := by
    have : pos + 1 < data.length := by
      cases hx : data[pos + 1]? with
      | none => rw [hx] at h1; cases h1
      | some v => exact (List.getElem?_eq_some_iff.mp hx).1
    omega
  unfold guardB at h
  rw [List.all_eq_true] at h
  have := h pos (List.mem_range.mpr hlt)
  simp [h1, h2] at this

example : Guard [48, 6, 2, 1, 5, 4, 1, 97] := guard_of_guardB _ (by decide)

/-- What enters the discovery cache (and what every incoming message is authenticated with) was
    read from items of exactly the universal classes OCTET STRING / INTEGER: a parameter block in
    which an item carries an SNMP application tag — TimeTicks (0x43) for the boots, whose value
    would be handed on as a `timedelta`; Counter, Gauge, Opaque … — is refused as malformed and
    nothing is cached (generated: `type(item) is cls` in `from_snmp_type`). -/
theorem C20_disco_params_typed (data : Bytes) (fuel : Nat) (p : UsmParams.Params)
    (h : UsmParams.ofBytes data fuel = .ok p) :
    UsmParams.acceptedClasses data fuel =
      some ["OctetString", "Integer", "Integer", "OctetString", "OctetString", "OctetString"] := by
  unfold UsmParams.ofBytes at h
  unfold UsmParams.acceptedClasses
  cases h1 : decodeAt data 0 with
  | error e => simp [UsmParams.lift, h1] at h
  | ok r =>
    obtain ⟨n, nx⟩ := r
    simp only [UsmParams.lift, h1] at h
    split at h
    · cases h
    · cases h2 : seqItems data n.slice fuel with
      | error e => simp [h2] at h
      | ok items =>
        simp only [h2] at h
        split at h
        · cases h
        · rename_i hc
          match items, h, hc with
          | [e, b, t, u, a, q], _, hc =>
            simp [UsmParams.classOk, Gen.usmParamExact, Gen.usmParamClasses] at hc
            simp only [h2]
            simp [hc]
          | [], h, _ => simp at h
          | [_], h, _ => simp at h
          | [_, _], h, _ => simp at h
          | [_, _, _], h, _ => simp at h
          | [_, _, _, _], h, _ => simp at h
          | [_, _, _, _, _], h, _ => simp at h
          | _ :: _ :: _ :: _ :: _ :: _ :: _ :: _, h, _ => simp at h

/-- non-vacuity: the parameter block of an ordinary discovery reply is accepted; with the boots
    tagged TimeTicks it is refused -/
example : UsmParams.ofBytes [48, 16, 4, 2, 128, 0, 2, 1, 3, 2, 1, 9, 4, 0, 4, 0, 4, 0] 32
      = .ok ⟨[128, 0], 3, 9, [], [], []⟩
    ∧ UsmParams.ofBytes [48, 16, 4, 2, 128, 0, 67, 1, 3, 2, 1, 9, 4, 0, 4, 0, 4, 0] 32 = .error .malformed :=
  ⟨by rfl, by rfl⟩

end Snmp.Props.C20
