/-
  C11 — USM privacy: the scoped PDU only ever travels as the plug-in's ciphertext.
  Model: `Snmp.Usm.generate` / `extractScoped`, for every privacy plug-in `(enc, dec)`.
-/
import Snmp.Gen.Facts
import Snmp.Lemmas.UsmLemmas
import Snmp.Props.C05
import Snmp.Props.C09
namespace Snmp.Props.C11
open Snmp Snmp.Usm Snmp.Ber

/-- With privacy credentials the msgData field of the datagram is `OCTET STRING ciphertext`,
    where the ciphertext is what the plug-in returned for the serialised scoped PDU under the
    privacy pass-phrase localised to the discovered engine id (with the user's authentication
    hash: `loc`) and the discovered boots / time; the plug-in's salt is msgPrivacyParameters. -/
theorem C11_wire (cr : Crypto) (c : Creds) (pp : Bytes) (hc : c.priv = some pp) (d : Disco) (ce cn : Bytes)
    (r : Ops.PduReq) (p : Emit.V3Params) (md dg : Bytes) (h : generate cr c d ce cn r = some (p, md, dg)) :
    ∃ spdu, Emit.scopedBytes (baseParams c d ce cn r) r = some spdu ∧
      md = Ber.tlv 4 (cr.enc (cr.loc pp d.engineId) d.engineId d.boots d.time spdu).1 ∧
      p.privParams = (cr.enc (cr.loc pp d.engineId) d.engineId d.boots d.time spdu).2 ∧
      dg = Emit.v3Around p md := by
  rcases generate_some cr c d ce cn r p md dg h with ⟨spdu, hs, hmd, hp, hdg⟩
  refine ⟨spdu, hs, ?_, ?_, hdg⟩
  · rw [hmd]; simp [encryptStep, hc]
  · rw [hp]; unfold authStep; cases c.auth <;> simp [encryptStep, hc]

/-- …and an independent reader finds exactly that in the datagram: identifier octet 4 and the
    ciphertext as msgData, the salt as privacy parameters — no other field carries the scoped PDU. -/
theorem C11_wire_read (p : Emit.V3Params) (cipher : Bytes)
    (hs : Spec.Small (Emit.v3Around p (Ber.tlv 4 cipher)).length) :
    Spec.readV3Msg (Emit.v3Around p (Ber.tlv 4 cipher)) =
      some ⟨p.msgId, p.maxSize, p.flags, 3, p.engineId, p.boots, p.time, p.user, p.authParams, p.privParams, 4, cipher⟩ :=
  C05.C05_v3_request p 4 cipher hs

/-- the datagram depends on the scoped PDU only through the plug-in's output: two requests whose
    ciphertext and salt coincide produce the same datagram (nothing of the plaintext leaks) -/
theorem C11_only_ciphertext (cr : Crypto) (c : Creds) (pp : Bytes) (hc : c.priv = some pp) (d : Disco) (ce cn : Bytes)
    (r r' : Ops.PduReq) (p p' : Emit.V3Params) (md md' dg dg' : Bytes)
    (h : generate cr c d ce cn r = some (p, md, dg)) (h' : generate cr c d ce cn r' = some (p', md', dg'))
    (hrid : r.requestId = r'.requestId) (hkind : isConfirmed r.kind = isConfirmed r'.kind)
    (henc : ∀ s s', Emit.scopedBytes (baseParams c d ce cn r) r = some s →
      Emit.scopedBytes (baseParams c d ce cn r') r' = some s' →
      cr.enc (cr.loc pp d.engineId) d.engineId d.boots d.time s = cr.enc (cr.loc pp d.engineId) d.engineId d.boots d.time s') :
    dg = dg' := by
  rcases generate_some cr c d ce cn r p md dg h with ⟨s, hs, hmd, hp, hdg⟩
  rcases generate_some cr c d ce cn r' p' md' dg' h' with ⟨s', hs', hmd', hp', hdg'⟩
  have he := henc s s' hs hs'
  have hbase : baseParams c d ce cn r = baseParams c d ce cn r' := by
    simp [baseParams, hrid, hkind]
  have hmdeq : md = md' := by rw [hmd, hmd']; simp [encryptStep, hc, he]
  have hpeq : p = p' := by
    rw [hp, hp', hmdeq]
    simp [encryptStep, hc, he, hbase]
  rw [hdg, hdg', hmdeq, hpeq]

/-- Encrypted responses are decrypted with the privacy key localised to the engine id found in
    the message and the boots / time / salt found in the message (see also `C09_accept_priv`). -/
theorem C11_incoming (cr : Crypto) (c : Creds) (pp : Bytes) (hc : c.priv = some pp) (im : InMsg)
    (s : Spec.ScopedPdu) (h : processIncoming cr c im = .ok s) :
    ∃ plain sc rest,
      cr.dec (cr.loc pp im.m.engineId) im.m.engineId im.m.boots im.m.time im.m.privParams im.m.data = some plain ∧
      Spec.readTLV plain = some (48, sc, rest) ∧ Spec.readScoped sc = some s :=
  (C09.C09_accept_priv cr c pp hc im s h).2.2

/-- Any plug-in whose decrypt inverts its encrypt round-trips: a payload encrypted by the peer
    with the same key and the parameters it put into the message is recovered exactly. -/
theorem C11_roundtrip (cr : Crypto) (c : Creds) (pp : Bytes) (hc : c.priv = some pp) (m : Spec.V3Msg)
    (s : Spec.ScopedPdu) (plain sc rest : Bytes)
    (hinv : ∀ k e b t x, cr.dec k e b t (cr.enc k e b t x).2 (cr.enc k e b t x).1 = some x)
    (hflag : privFlag m = true) (htag : m.dataTag = 4)
    (hdata : m.data = (cr.enc (cr.loc pp m.engineId) m.engineId m.boots m.time plain).1)
    (hsalt : m.privParams = (cr.enc (cr.loc pp m.engineId) m.engineId m.boots m.time plain).2)
    (hparse : Spec.readTLV plain = some (48, sc, rest)) (hs : Spec.readScoped sc = some s) :
    extractScoped cr c m = .ok s := by
  apply payload_priv cr c pp hc m s plain sc rest hflag htag _ hparse hs
  rw [hdata, hsalt]
  exact hinv _ _ _ _ _


/-- the engine the privacy key is localised to is the discovered (authoritative) one, never the
    context engine named by the caller (shape of `V3MPM.encode`, generated) -/
theorem C11_engine_id_shape : Snmp.Gen.securityEngineIsDiscovered = true := by decide

end Snmp.Props.C11
