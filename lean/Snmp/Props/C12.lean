/-
  C12 — discovery happens first and timeliness is kept for the client's whole life.
  Model: `Snmp.Disco` (0.1 s ticks; agent clock, reboots; the client's cache of the discovery
  result; `_send` repeating a request once after a notInTimeWindow report).
-/
import Snmp.Model.Disco
import Snmp.Gen.Facts
namespace Snmp.Props.C12
open Snmp.Disco

def isReq : Wire → Bool
  | .req .. => true
  | .probe => false

theorem run_append (auth : Bool) (ctx : Bytes) (s : St) (a b : List Ev) :
    run auth ctx s (a ++ b) = ((run auth ctx (run auth ctx s a).1 b).1, (run auth ctx s a).2 ++ (run auth ctx (run auth ctx s a).1 b).2) := by
  induction a generalizing s with
  | nil => simp [run]
  | cons e a ih => simp [run, ih, List.append_assoc]

theorem inWindow_of (a : Agent) (now boots t : Nat) (hb : boots = a.boots) (h1 : t ≤ a.time now)
    (h2 : a.time now ≤ t + 1) : inWindow a now boots t = true := by
  unfold inWindow
  simp only [hb, beq_self_eq_true, Bool.true_and, Bool.and_eq_true, decide_eq_true_eq]
  omega

/-- a request sent right after a discovery carries the agent's own boots and time -/
theorem sendWith_discover (s : St) (ctx : Bytes) :
    sendWith s.agent s.now ctx (discover s) =
      (.req s.agent.engineId (if ctx == [] then s.agent.engineId else ctx) s.agent.boots (s.agent.time s.now) true, true) := by
  have : inWindow s.agent s.now s.agent.boots (s.agent.time s.now) = true :=
    inWindow_of _ _ _ _ rfl (Nat.le_refl _) (Nat.le_succ _)
  simp [sendWith, discover, this]

/-- the two ways one request can go -/
theorem request_cases (auth : Bool) (ctx : Bytes) (s : St) :
    let c := s.disco.getD (discover s)
    let pre : List Wire := if s.disco.isSome then [] else [.probe]
    ((auth && !(sendWith s.agent s.now ctx c).2) = false ∧
      request auth ctx s = ({ s with disco := some c }, pre ++ [(sendWith s.agent s.now ctx c).1])) ∨
    ((auth && !(sendWith s.agent s.now ctx c).2) = true ∧
      request auth ctx s = ({ s with disco := some (discover s) },
        pre ++ [(sendWith s.agent s.now ctx c).1, .probe, (sendWith s.agent s.now ctx (discover s)).1])) := by
  intro c pre
  cases hb : (auth && !(sendWith s.agent s.now ctx c).2)
  · left
    refine ⟨rfl, ?_⟩
    unfold request
    cases hd : s.disco with
    | none => simp only [c, hd, Option.getD_none] at hb; simp [hb, pre, hd, c]
    | some c0 => simp only [c, hd, Option.getD_some] at hb; simp [hb, pre, hd, c]
  · right
    refine ⟨rfl, ?_⟩
    unfold request
    cases hd : s.disco with
    | none =>
      simp only [c, hd, Option.getD_none] at hb
      rw [sendWith_discover] at hb
      simp at hb
    | some c0 => simp only [c, hd, Option.getD_some] at hb; simp [hb, pre, hd, c, sendWith_discover]

/-- Before its first SNMPv3 request a client performs engine discovery: whatever the history,
    the first thing a fresh client puts on the wire is a discovery probe. -/
theorem C12_discovery_first (auth : Bool) (ctx : Bytes) (s : St) (evs : List Ev) (h : s.disco = none) :
    (run auth ctx s evs).2 = [] ∨ (run auth ctx s evs).2.head? = some .probe := by
  induction evs generalizing s with
  | nil => left; rfl
  | cons e evs ih =>
    cases e with
    | request =>
      right
      rcases request_cases auth ctx s with ⟨_, hr⟩ | ⟨_, hr⟩ <;> simp [run, step, hr, h]
    | advance dt =>
      have := ih { s with now := s.now + dt } h
      simpa [run, step] using this
    | reboot =>
      have := ih { s with agent := { s.agent with boots := s.agent.boots + 1, bootAt := s.now } } h
      simpa [run, step] using this
    | requestBadReply => right; simp [run, step, requestBad, h]

/-- the engine-id part of the state invariant -/
def IdInv (s : St) : Prop := ∀ c, s.disco = some c → c.engineId = s.agent.engineId

theorem getD_engineId (s : St) (h : IdInv s) : (s.disco.getD (discover s)).engineId = s.agent.engineId := by
  cases hd : s.disco with
  | none => rfl
  | some c => exact h c hd

theorem idInv_request (auth : Bool) (ctx : Bytes) (s : St) (h : IdInv s) :
    IdInv (request auth ctx s).1 ∧
    ∀ w ∈ (request auth ctx s).2, ∀ eid cid b t iw, w = .req eid cid b t iw →
      eid = s.agent.engineId ∧ cid = (if ctx == [] then s.agent.engineId else ctx) := by
  have hg := getD_engineId s h
  have hw1 : ∀ eid cid b t iw, (sendWith s.agent s.now ctx (s.disco.getD (discover s))).1 = .req eid cid b t iw →
      eid = s.agent.engineId ∧ cid = (if ctx == [] then s.agent.engineId else ctx) := by
    intro eid cid b t iw he
    simp only [sendWith, Wire.req.injEq] at he
    rw [hg] at he
    exact ⟨he.1.symm, he.2.1.symm⟩
  have hw2 : ∀ eid cid b t iw, (sendWith s.agent s.now ctx (discover s)).1 = .req eid cid b t iw →
      eid = s.agent.engineId ∧ cid = (if ctx == [] then s.agent.engineId else ctx) := by
    intro eid cid b t iw he
    rw [sendWith_discover] at he
    simp only [Wire.req.injEq] at he
    exact ⟨he.1.symm, he.2.1.symm⟩
  rcases request_cases auth ctx s with ⟨_, hr⟩ | ⟨_, hr⟩
  · rw [hr]
    refine ⟨fun c hc => by simp only [Option.some.injEq] at hc; rw [← hc]; exact hg, ?_⟩
    intro w hw eid cid b t iw hweq
    simp only [List.mem_append, List.mem_singleton] at hw
    rcases hw with hw | hw
    · split at hw
      · simp at hw
      · simp only [List.mem_singleton] at hw; subst hw; cases hweq
    · subst hw; exact hw1 eid cid b t iw hweq
  · rw [hr]
    refine ⟨fun c hc => by simp only [Option.some.injEq] at hc; rw [← hc]; rfl, ?_⟩
    intro w hw eid cid b t iw hweq
    simp only [List.mem_append, List.mem_cons, List.not_mem_nil, or_false] at hw
    rcases hw with hw | hw | hw | hw
    · split at hw
      · simp at hw
      · simp only [List.mem_singleton] at hw; subst hw; cases hweq
    · subst hw; exact hw1 eid cid b t iw hweq
    · subst hw; cases hweq
    · subst hw; exact hw2 eid cid b t iw hweq

theorem idInv_step (auth : Bool) (ctx : Bytes) (s : St) (e : Ev) (h : IdInv s) :
    IdInv (step auth ctx s e).1 ∧
    ∀ w ∈ (step auth ctx s e).2, ∀ eid cid b t iw, w = .req eid cid b t iw →
      eid = s.agent.engineId ∧ cid = (if ctx == [] then s.agent.engineId else ctx) := by
  cases e with
  | advance dt => exact ⟨fun c hc => h c hc, by simp [step]⟩
  | reboot => exact ⟨fun c hc => h c hc, by simp [step]⟩
  | request => exact idInv_request auth ctx s h
  | requestBadReply =>
    simp only [step, requestBad]
    cases hd : s.disco with
    | none =>
      refine ⟨by simpa [hd] using h, ?_⟩
      intro w hw eid cid b t iw hweq
      simp at hw
      subst hw; cases hweq
    | some c =>
      have hc := h c hd
      have hw1 : ∀ eid cid b t iw, (sendWith s.agent s.now ctx c).1 = .req eid cid b t iw →
          eid = s.agent.engineId ∧ cid = (if ctx == [] then s.agent.engineId else ctx) := by
        intro eid cid b t iw he
        simp only [sendWith, Wire.req.injEq] at he
        rw [hc] at he
        exact ⟨he.1.symm, he.2.1.symm⟩
      simp only
      split
      · refine ⟨fun c' hc' => by simp at hc', ?_⟩
        intro w hw eid cid b t iw hweq
        simp only [List.mem_cons, List.not_mem_nil, or_false] at hw
        rcases hw with hw | hw
        · subst hw; exact hw1 eid cid b t iw hweq
        · subst hw; cases hweq
      · refine ⟨h, ?_⟩
        intro w hw eid cid b t iw hweq
        simp only [List.mem_singleton] at hw
        subst hw; exact hw1 eid cid b t iw hweq

theorem request_keeps (auth : Bool) (ctx : Bytes) (s : St) :
    (request auth ctx s).1.agent = s.agent ∧ (request auth ctx s).1.now = s.now := by
  rcases request_cases auth ctx s with ⟨_, hr⟩ | ⟨_, hr⟩ <;> rw [hr] <;> exact ⟨rfl, rfl⟩

theorem requestBad_keeps (auth : Bool) (ctx : Bytes) (s : St) :
    (requestBad auth ctx s).1.agent = s.agent ∧ (requestBad auth ctx s).1.now = s.now := by
  unfold requestBad
  cases s.disco with
  | none => exact ⟨rfl, rfl⟩
  | some c => simp only; split <;> exact ⟨rfl, rfl⟩

theorem agent_id_step (auth : Bool) (ctx : Bytes) (s : St) (e : Ev) : (step auth ctx s e).1.agent.engineId = s.agent.engineId := by
  cases e with
  | advance dt => rfl
  | reboot => rfl
  | request => simp only [step]; rw [(request_keeps auth ctx s).1]
  | requestBadReply => simp only [step]; rw [(requestBad_keeps auth ctx s).1]

/-- The discovered engine id is used as security engine id of every request, and as context
    engine id unless the client was configured with one. -/
theorem C12_engine_ids (auth : Bool) (ctx : Bytes) (s : St) (evs : List Ev) (h : IdInv s) :
    ∀ w ∈ (run auth ctx s evs).2, ∀ eid cid b t iw, w = .req eid cid b t iw →
      eid = s.agent.engineId ∧ cid = (if ctx == [] then s.agent.engineId else ctx) := by
  induction evs generalizing s with
  | nil => simp [run]
  | cons e evs ih =>
    intro w hw eid cid b t iw hweq
    have hs := idInv_step auth ctx s e h
    simp only [run, List.mem_append] at hw
    rcases hw with hw | hw
    · exact hs.2 w hw eid cid b t iw hweq
    · have := ih (step auth ctx s e).1 hs.1 w hw eid cid b t iw hweq
      rw [agent_id_step] at this
      exact this

/-- an operation succeeded: the last thing it sent is a request inside the agent's window -/
def opOk (ws : List Wire) : Prop := ∃ e c b t, ws.getLast? = some (.req e c b t true)

/-- **Timeliness for the client's whole life, reboots included.**  After ANY history — requests,
    clock advances from tenths of a second to days, agent reboots, refused discovery replies — a
    request by an authenticated user ends with a request that lies inside the agent's 150-second
    window (boots equal, time within the window): a request that succeeds right after discovery
    succeeds when issued any time later. -/
theorem C12_in_window (ctx : Bytes) (s : St) : opOk (request true ctx s).2 := by
  rcases request_cases true ctx s with ⟨hb, hr⟩ | ⟨_, hr⟩
  · rw [hr]
    simp only [Bool.true_and, Bool.not_eq_false'] at hb
    generalize s.disco.getD (discover s) = c0 at *
    refine ⟨c0.engineId, (if ctx == [] then c0.engineId else ctx), c0.boots, c0.time + (s.now - c0.stamp) / 10, ?_⟩
    rw [List.getLast?_concat]
    simp only [sendWith, Option.some.injEq, Wire.req.injEq, true_and]
    simpa [sendWith] using hb
  · rw [hr]
    refine ⟨s.agent.engineId, (if ctx == [] then s.agent.engineId else ctx), s.agent.boots, s.agent.time s.now, ?_⟩
    rw [List.getLast?_append]
    simp [sendWith_discover]

/-- a discovery exchange that takes no time is the ordinary request -/
theorem C12_slow_zero (auth : Bool) (ctx : Bytes) (s : St) : requestSlow 0 auth ctx s = request auth ctx s := by
  have ht : tick 0 s = s := by cases s; simp [tick]
  unfold requestSlow
  cases hd : s.disco with
  | none => simp only [ht]
  | some c => simp only [ht, request, hd, List.nil_append]

/-- **Time passing during the discovery exchange.**  However long the probe takes to reach the
    engine (`lat` ticks: a slow path, retransmissions) and whatever the state before, a request by
    an authenticated user still ends with a request inside the engine's window: the time stamp of
    the discovery data is read when the Report has arrived, so the cached engine time is the
    engine's time at that very instant (seeded change C05-42 moved the stamp in front of the
    exchange). -/
theorem C12_slow_discovery_in_window (lat : Nat) (ctx : Bytes) (s : St) : opOk (requestSlow lat true ctx s).2 := by
  unfold requestSlow
  cases hd : s.disco with
  | none => exact C12_in_window ctx (tick lat s)
  | some c =>
    simp only [Bool.true_and]
    cases hiw : (sendWith s.agent s.now ctx c).2
    · -- outside the window: re-discovery (slow), then a request with fresh data
      have h2 := sendWith_discover (tick lat s) ctx
      simp only [Bool.not_false, ↓reduceIte]
      refine ⟨s.agent.engineId, (if ctx == [] then s.agent.engineId else ctx), s.agent.boots, (tick lat s).agent.time (tick lat s).now, ?_⟩
      have hag : (tick lat s).agent = s.agent := rfl
      rw [hag] at h2 ⊢
      simp [h2]
    · simp only [Bool.not_true, Bool.false_eq_true, ↓reduceIte]
      refine ⟨c.engineId, (if ctx == [] then c.engineId else ctx), c.boots, c.time + (s.now - c.stamp) / 10, ?_⟩
      simp only [List.getLast?_singleton, Option.some.injEq]
      simpa [sendWith] using hiw


/-- **The engine time sent, generated from `V3MPM.encode`.**  The expression the code puts into a
    request (`self.disco.authoritative_engine_time + int(time.monotonic() - self.disco_timestamp)`,
    translated by `tools/extract.py` over instants in tenths of a second) is the one the model's
    `sendWith` uses: the cached engine time plus the whole seconds elapsed since the stamp. -/
theorem C12_engine_time_rule (a : Agent) (now : Nat) (ctx : Bytes) (c : Cached) (h : c.stamp ≤ now) :
    ∃ e x b t iw, (sendWith a now ctx c).1 = .req e x b t iw ∧ (t : Int) = Snmp.Gen.engineTimeSent c.time now c.stamp := by
  refine ⟨_, _, _, _, _, rfl, ?_⟩
  unfold Snmp.Gen.engineTimeSent
  omega

/-- … and the time stamp of the discovery data is read after the discovery exchange has returned
    (statement order in `V3MPM.encode`, generated): the assumption `requestSlow` is built on. -/
theorem C12_stamp_after_discovery : Snmp.Gen.stampAfterDiscovery = true := by decide

/-- … in particular after every history starting from a fresh client -/
theorem C12_in_window_after_any_history (ctx eid : Bytes) (boots start : Nat) (evs : List Ev) :
    opOk (request true ctx (run true ctx (init eid boots start) evs).1).2 :=
  C12_in_window ctx _

/-- one operation sends at most one request that is outside the window, and if it does, a new
    discovery and a request inside the window follow at once (no endless re-synchronisation) -/
theorem C12_retry_once (auth : Bool) (ctx : Bytes) (s : St) :
    ((request auth ctx s).2.filter (fun w => match w with | .req _ _ _ _ false => true | _ => false)).length ≤ 1 ∨
    auth = false := by
  rcases request_cases auth ctx s with ⟨hb, hr⟩ | ⟨hb, hr⟩
  · cases auth with
    | false => right; rfl
    | true =>
      left
      rw [hr]
      simp only [Bool.true_and, Bool.not_eq_false'] at hb
      have hw : (sendWith s.agent s.now ctx (s.disco.getD (discover s))).1 =
          .req (s.disco.getD (discover s)).engineId
            (if ctx == [] then (s.disco.getD (discover s)).engineId else ctx)
            (s.disco.getD (discover s)).boots
            ((s.disco.getD (discover s)).time + (s.now - (s.disco.getD (discover s)).stamp) / 10) true := by
        simp only [sendWith, Wire.req.injEq, true_and]
        simpa [sendWith] using hb
      rw [hw]
      split <;> simp
  · left
    rw [hr, sendWith_discover]
    simp only [List.filter_append]
    have : ∀ w : Wire, ([w].filter (fun w => match w with | .req _ _ _ _ false => true | _ => false)).length ≤ 1 := by
      intro w; simp only [List.filter_cons, List.filter_nil]; split <;> simp
    have h1 := this (sendWith s.agent s.now ctx (s.disco.getD (discover s))).1
    split <;> simp [List.filter_cons] <;> (split <;> simp)

/-- timeliness invariant: what the client would send now is exactly the agent's boots / time -/
def TimeInv (s : St) : Prop :=
  s.agent.bootAt ≤ s.now ∧
  ∀ c, s.disco = some c → c.boots = s.agent.boots ∧ s.agent.bootAt ≤ c.stamp ∧ c.stamp ≤ s.now ∧
    c.time = (c.stamp - s.agent.bootAt) / 10

def noReboot (evs : List Ev) : Prop := ∀ e ∈ evs, e ≠ .reboot

theorem timeInv_getD (s : St) (h : TimeInv s) :
    let c := s.disco.getD (discover s)
    c.boots = s.agent.boots ∧ s.agent.bootAt ≤ c.stamp ∧ c.stamp ≤ s.now ∧ c.time = (c.stamp - s.agent.bootAt) / 10 := by
  cases hd : s.disco with
  | none => simp [discover, Agent.time]; exact h.1
  | some c => simpa using h.2 c hd

/-- with the invariant, the first attempt is within one second of the agent's clock -/
theorem sendWith_accurate (s : St) (ctx : Bytes) (h : TimeInv s) :
    ∃ t, (sendWith s.agent s.now ctx (s.disco.getD (discover s))) =
      (.req (s.disco.getD (discover s)).engineId (if ctx == [] then (s.disco.getD (discover s)).engineId else ctx)
        s.agent.boots t true, true) ∧ t ≤ s.agent.time s.now ∧ s.agent.time s.now ≤ t + 1 := by
  obtain ⟨h1, h2, h3, h4⟩ := timeInv_getD s h
  generalize s.disco.getD (discover s) = c at *
  have hb := h.1
  have e1 : c.time + (s.now - c.stamp) / 10 ≤ (s.now - s.agent.bootAt) / 10 := by rw [h4]; omega
  have e2 : (s.now - s.agent.bootAt) / 10 ≤ c.time + (s.now - c.stamp) / 10 + 1 := by rw [h4]; omega
  have e1' : c.time + (s.now - c.stamp) / 10 ≤ s.agent.time s.now := by simpa [Agent.time] using e1
  have e2' : s.agent.time s.now ≤ c.time + (s.now - c.stamp) / 10 + 1 := by simpa [Agent.time] using e2
  refine ⟨c.time + (s.now - c.stamp) / 10, ?_, e1', e2'⟩
  have hiw := inWindow_of s.agent s.now c.boots _ h1 e1' e2'
  rw [h1] at hiw
  simp only [sendWith, hiw, h1]

theorem timeInv_request (auth : Bool) (ctx : Bytes) (s : St) (h : TimeInv s) :
    TimeInv (request auth ctx s).1 ∧
    ∀ w ∈ (request auth ctx s).2, ∀ eid cid b t iw, w = .req eid cid b t iw →
      b = s.agent.boots ∧ t ≤ s.agent.time s.now ∧ s.agent.time s.now ≤ t + 1 ∧ iw = true := by
  obtain ⟨t0, hsw, ht1, ht2⟩ := sendWith_accurate s ctx h
  rcases request_cases auth ctx s with ⟨_, hr⟩ | ⟨hb, hr⟩
  · rw [hr]
    refine ⟨⟨h.1, ?_⟩, ?_⟩
    · intro c hc
      simp only [Option.some.injEq] at hc
      rw [← hc]
      exact timeInv_getD s h
    · intro w hw eid cid b t iw hweq
      simp only [List.mem_append, List.mem_singleton] at hw
      rcases hw with hw | hw
      · split at hw
        · simp at hw
        · simp only [List.mem_singleton] at hw; subst hw; cases hweq
      · subst hw
        rw [hsw] at hweq
        simp only [Wire.req.injEq] at hweq
        obtain ⟨_, _, rfl, rfl, rfl⟩ := hweq
        exact ⟨rfl, ht1, ht2, rfl⟩
  · -- the first attempt is inside the window, so there is no second one
    rw [hsw] at hb
    simp at hb

theorem timeInv_step (auth : Bool) (ctx : Bytes) (s : St) (e : Ev) (h : TimeInv s) (hne : e ≠ .reboot) :
    TimeInv (step auth ctx s e).1 ∧
    ∀ w ∈ (step auth ctx s e).2, ∀ eid cid b t iw, w = .req eid cid b t iw →
      b = s.agent.boots ∧ t ≤ s.agent.time s.now ∧ s.agent.time s.now ≤ t + 1 ∧ iw = true := by
  cases e with
  | reboot => exact absurd rfl hne
  | advance dt =>
    refine ⟨⟨by simp [step]; have := h.1; omega, ?_⟩, by simp [step]⟩
    intro c hc
    have := h.2 c (by simpa [step] using hc)
    simp only [step]
    exact ⟨this.1, this.2.1, by omega, this.2.2.2⟩
  | request => exact timeInv_request auth ctx s h
  | requestBadReply =>
    simp only [step, requestBad]
    cases hd : s.disco with
    | none =>
      refine ⟨by simpa [hd] using h, ?_⟩
      intro w hw eid cid b t iw hweq
      simp at hw
      subst hw; cases hweq
    | some c =>
      obtain ⟨t0, hsw, ht1, ht2⟩ := sendWith_accurate s ctx h
      simp only [hd, Option.getD_some] at hsw
      simp only [hsw, Bool.not_true, Bool.and_false, Bool.false_eq_true, ↓reduceIte]
      refine ⟨h, ?_⟩
      intro w hw eid cid b t iw hweq
      simp only [List.mem_singleton] at hw
      subst hw
      simp only [Wire.req.injEq] at hweq
      obtain ⟨_, _, rfl, rfl, rfl⟩ := hweq
      exact ⟨rfl, ht1, ht2, rfl⟩

theorem agent_step_noreboot (auth : Bool) (ctx : Bytes) (s : St) (e : Ev) (hne : e ≠ .reboot) :
    (step auth ctx s e).1.agent = s.agent := by
  cases e with
  | reboot => exact absurd rfl hne
  | advance dt => rfl
  | request => simp only [step]; exact (request_keeps auth ctx s).1
  | requestBadReply => simp only [step]; exact (requestBad_keeps auth ctx s).1

/-- While the agent does not reboot — any number of requests, any clock advances (tenths of
    seconds to days) — EVERY request on the wire carries the agent's current boots and an engine
    time within one second of the agent's: no attempt is ever outside the window, nothing is sent
    twice. -/
theorem C12_first_attempt_in_window (auth : Bool) (ctx : Bytes) (s : St) (evs : List Ev) (h : TimeInv s) (hn : noReboot evs) :
    ∀ w ∈ (run auth ctx s evs).2, ∀ eid cid b t iw, w = .req eid cid b t iw →
      b = s.agent.boots ∧ iw = true := by
  induction evs generalizing s with
  | nil => simp [run]
  | cons e evs ih =>
    intro w hw eid cid b t iw hweq
    have hne : e ≠ .reboot := hn e (by simp)
    have hs := timeInv_step auth ctx s e h hne
    simp only [run, List.mem_append] at hw
    rcases hw with hw | hw
    · have := hs.2 w hw eid cid b t iw hweq
      exact ⟨this.1, this.2.2.2⟩
    · have := ih (step auth ctx s e).1 hs.1 (fun x hx => hn x (by simp [hx])) w hw eid cid b t iw hweq
      rw [agent_step_noreboot auth ctx s e hne] at this
      exact this

theorem init_timeInv (eid : Bytes) (boots start : Nat) : TimeInv (init eid boots start) :=
  ⟨by simp [init], by intro c hc; simp [init] at hc⟩

/-- A discovery reply whose message id does not match the probe is refused with
    InvalidResponseId, one without bindings with SnmpError; nothing is cached in either case. -/
theorem C12_bad_reply_refused (probeId : Int) (now : Nat) (r : Reply) :
    (r.msgId ≠ probeId → acceptReply probeId now r = .error .invalidResponseId) ∧
    (r.msgId = probeId → r.varbinds = 0 → acceptReply probeId now r = .error .snmpError) ∧
    (r.msgId = probeId → r.varbinds ≠ 0 → acceptReply probeId now r = .ok ⟨r.engineId, r.boots, r.time, now⟩) := by
  refine ⟨fun h => by simp [acceptReply, h], fun h1 h2 => by simp [acceptReply, h1, h2],
    fun h1 h2 => by simp [acceptReply, h1, h2]⟩

/- non-vacuity: days pass between requests -/
example : (run true [] (init [1] 3 100) [.request, .advance 2008, .request, .advance 1000000, .request]).2 =
    [.probe, .req [1] [1] 3 10 true, .req [1] [1] 3 210 true, .req [1] [1] 3 100210 true] := by decide

/- the agent reboots between two requests: one stale attempt, a new discovery, success -/
example : (run true [] (init [1] 3 100) [.request, .reboot, .advance 50, .request]).2 =
    [.probe, .req [1] [1] 3 10 true, .req [1] [1] 3 15 false, .probe, .req [1] [1] 4 5 true] := by decide


/-- `Client._send` repeats a request after `NotInTimeWindow` ONCE: the handler calls `_send_once`, not
    itself, and there is no loop (shape of the code, generated) — what `Disco.request` and
    `C12_retry_once` are built on. -/
theorem C12_retry_shape : Snmp.Gen.retryOnceShape = true := by decide


/-- in `V3MPM.encode` the security engine id — for the timing data and for the request's security
    parameters and keys — is the DISCOVERED one, and the caller's engine id is only the context engine
    id, defaulting to the discovered one (shape of the code, generated): what `sendWith` and
    `C12_engine_ids` are built on (seeded C05-43 / C10-51 / C11-42 merged the two variables) -/
theorem C12_engine_id_shape : Snmp.Gen.securityEngineIsDiscovered = true := by decide

end Snmp.Props.C12
