/-
  C12 — discovery happens first and timeliness is kept for the client's whole life.
  Model: `Snmp.Disco`.  The full statement (arbitrary histories with agent reboots) does not
  hold for the code — see `C12_reboot_counterexample` and the known finding; the proved part is
  `C12_in_window_partial` (histories without reboot, arbitrary clock advances).
-/
import Snmp.Model.Disco
namespace Snmp.Props.C12
open Snmp.Disco

def isReq : Wire → Bool
  | .req .. => true
  | .probe => false

theorem run_append (auth : Bool) (ctx : Bytes) (s : St) (a b : List Ev) :
    run auth ctx s (a ++ b) = ((run auth ctx (run auth ctx s a).1 b).1, (run auth ctx s a).2 ++ (run auth ctx (run auth ctx s a).1 b).2) := by
  induction a generalizing s with
  | nil => simp [run]
  | cons e a ih => simp [run, ih, List.append_assoc]

/-- Before its first SNMPv3 request a client performs engine discovery: whatever the history,
    the first thing a fresh client puts on the wire is a discovery probe. -/
theorem C12_discovery_first (auth : Bool) (ctx : Bytes) (s : St) (evs : List Ev) (h : s.disco = none) :
    (run auth ctx s evs).2 = [] ∨ (run auth ctx s evs).2.head? = some .probe := by
  induction evs generalizing s with
  | nil => left; rfl
  | cons e evs ih =>
    cases e with
    | request => right; simp [run, step, request, h]
    | advance dt =>
      have := ih { s with now := s.now + dt } h
      simpa [run, step] using this
    | reboot =>
      have := ih { s with agent := { s.agent with boots := s.agent.boots + 1, bootAt := s.now } } h
      simpa [run, step] using this
    | requestBadReply => right; simp [run, step, h]

/-- the engine-id part of the state invariant -/
def IdInv (s : St) : Prop := ∀ c, s.disco = some c → c.engineId = s.agent.engineId

theorem idInv_request (auth : Bool) (ctx : Bytes) (s : St) (h : IdInv s) :
    IdInv (request auth ctx s).1 ∧
    ∀ w ∈ (request auth ctx s).2, ∀ eid cid b t iw, w = .req eid cid b t iw →
      eid = s.agent.engineId ∧ cid = (if ctx == [] then s.agent.engineId else ctx) := by
  cases hd : s.disco with
  | none =>
    constructor
    · intro c hc; simp [request, hd] at hc; rw [← hc.2]; simp [request, hd]
    · intro w hw eid cid b t iw hweq
      simp [request, hd] at hw
      rcases hw with rfl | rfl
      · cases hweq
      · cases hweq; exact ⟨rfl, by simp⟩
  | some c0 =>
    have hc0 := h c0 hd
    constructor
    · intro c hc; simp [request, hd] at hc; rw [← hc.2]; exact hc0
    · intro w hw eid cid b t iw hweq
      simp [request, hd] at hw
      subst hw
      cases hweq
      rw [hc0]; exact ⟨rfl, by simp⟩

theorem idInv_step (auth : Bool) (ctx : Bytes) (s : St) (e : Ev) (h : IdInv s) :
    IdInv (step auth ctx s e).1 ∧
    ∀ w ∈ (step auth ctx s e).2, ∀ eid cid b t iw, w = .req eid cid b t iw →
      eid = s.agent.engineId ∧ cid = (if ctx == [] then s.agent.engineId else ctx) := by
  cases e with
  | advance dt => exact ⟨fun c hc => h c hc, by simp [step]⟩
  | reboot => exact ⟨fun c hc => h c hc, by simp [step]⟩
  | request => exact idInv_request auth ctx s h
  | requestBadReply =>
    cases hd : s.disco with
    | none =>
      refine ⟨by simpa [step, hd] using h, ?_⟩
      intro w hw eid cid b t iw hweq
      simp [step, hd] at hw
      subst hw; cases hweq
    | some c =>
      have : step auth ctx s .requestBadReply = request auth ctx s := by simp [step, hd]
      rw [this]; exact idInv_request auth ctx s h

theorem agent_id_step (auth : Bool) (ctx : Bytes) (s : St) (e : Ev) : (step auth ctx s e).1.agent.engineId = s.agent.engineId := by
  cases e <;> simp [step, request]
  split <;> rfl

/-- The discovered engine id is used as security engine id of every request, and as context
    engine id unless the client was configured with one. -/
theorem C12_engine_ids (auth : Bool) (ctx : Bytes) (s : St) (evs : List Ev) (h : IdInv s) :
    ∀ w ∈ (run auth ctx s evs).2, ∀ eid cid b t iw, w = .req eid cid b t iw →
      eid = s.agent.engineId ∧ cid = (if ctx == [] then s.agent.engineId else ctx) := by
  induction evs generalizing s with
  | nil => simp [run]
  | cons e evs ih =>
    intro w hw eid cid b t iw hweq
    have hs := idInv_step auth ctx s e h
    simp only [run, List.mem_append] at hw
    rcases hw with hw | hw
    · exact hs.2 w hw eid cid b t iw hweq
    · have := ih (step auth ctx s e).1 hs.1 w hw eid cid b t iw hweq
      rw [agent_id_step] at this
      exact this

/-- timeliness invariant: what the client would send now is exactly the agent's boots / time -/
def TimeInv (s : St) : Prop :=
  s.agent.bootAt ≤ s.now ∧
  ∀ c, s.disco = some c → c.boots = s.agent.boots ∧ s.agent.bootAt ≤ c.stamp ∧ c.stamp ≤ s.now ∧
    c.time = (c.stamp - s.agent.bootAt) / 10

def noReboot (evs : List Ev) : Prop := ∀ e ∈ evs, e ≠ .reboot

theorem inWindow_of (a : Agent) (now boots t : Nat) (hb : boots = a.boots) (h1 : t ≤ a.time now)
    (h2 : a.time now ≤ t + 1) : inWindow a now boots t = true := by
  unfold inWindow
  simp only [hb, beq_self_eq_true, Bool.true_and, Bool.and_eq_true, decide_eq_true_eq]
  omega

theorem timeInv_request (auth : Bool) (ctx : Bytes) (s : St) (h : TimeInv s) :
    TimeInv (request auth ctx s).1 ∧
    ∀ w ∈ (request auth ctx s).2, ∀ eid cid b t iw, w = .req eid cid b t iw →
      b = s.agent.boots ∧ t ≤ s.agent.time s.now ∧ s.agent.time s.now ≤ t + 1 ∧ iw = true := by
  have hb := h.1
  cases hd : s.disco with
  | none =>
    constructor
    · refine ⟨by simpa [request, hd] using h.1, ?_⟩
      intro c hc
      simp [request, hd] at hc
      rw [← hc.2]
      simp [request, hd, Agent.time]
      exact hb
    · intro w hw eid cid b t iw hweq
      simp [request, hd] at hw
      rcases hw with rfl | rfl
      · cases hweq
      · cases hweq
        simp [inWindow, Agent.time]
  | some c0 =>
    have hc0 := h.2 c0 hd
    constructor
    · refine ⟨by simpa [request, hd] using h.1, ?_⟩
      intro c hc
      simp [request, hd] at hc
      rw [← hc.2]
      simpa [request, hd] using hc0
    · intro w hw eid cid b t iw hweq
      simp [request, hd] at hw
      subst hw
      cases hweq
      rcases hc0 with ⟨h1, h2, h3, h4⟩
      have e1 : c0.time + (s.now - c0.stamp) / 10 ≤ (s.now - s.agent.bootAt) / 10 := by rw [h4]; omega
      have e2 : (s.now - s.agent.bootAt) / 10 ≤ c0.time + (s.now - c0.stamp) / 10 + 1 := by rw [h4]; omega
      have e1' : c0.time + (s.now - c0.stamp) / 10 ≤ s.agent.time s.now := by simpa [Agent.time] using e1
      have e2' : s.agent.time s.now ≤ c0.time + (s.now - c0.stamp) / 10 + 1 := by simpa [Agent.time] using e2
      exact ⟨h1, e1', e2', inWindow_of _ _ _ _ h1 e1' e2'⟩

theorem timeInv_step (auth : Bool) (ctx : Bytes) (s : St) (e : Ev) (h : TimeInv s) (hne : e ≠ .reboot) :
    TimeInv (step auth ctx s e).1 ∧
    ∀ w ∈ (step auth ctx s e).2, ∀ eid cid b t iw, w = .req eid cid b t iw →
      b = s.agent.boots ∧ t ≤ s.agent.time s.now ∧ s.agent.time s.now ≤ t + 1 ∧ iw = true := by
  cases e with
  | reboot => exact absurd rfl hne
  | advance dt =>
    refine ⟨⟨by simp [step]; have := h.1; omega, ?_⟩, by simp [step]⟩
    intro c hc
    have := h.2 c (by simpa [step] using hc)
    simp only [step]
    exact ⟨this.1, this.2.1, by omega, this.2.2.2⟩
  | request => exact timeInv_request auth ctx s h
  | requestBadReply =>
    cases hd : s.disco with
    | none =>
      refine ⟨by simpa [step, hd] using h, ?_⟩
      intro w hw eid cid b t iw hweq
      simp [step, hd] at hw
      subst hw; cases hweq
    | some c =>
      have : step auth ctx s .requestBadReply = request auth ctx s := by simp [step, hd]
      rw [this]; exact timeInv_request auth ctx s h

theorem agent_step_noreboot (auth : Bool) (ctx : Bytes) (s : St) (e : Ev) (hne : e ≠ .reboot) :
    (step auth ctx s e).1.agent = s.agent := by
  cases e with
  | reboot => exact absurd rfl hne
  | advance dt => rfl
  | request => simp [step, request]
  | requestBadReply => simp [step, request]; split <;> rfl

/-- proved part of the timeliness clause: in every history in which the agent does not reboot —
    any number of requests, any clock advances (tenths of seconds to days) — every request carries
    the agent's current boots and an engine time within one second of the agent's, hence lies
    inside the 150-second window: a request that succeeds right after discovery succeeds any time later. -/
theorem C12_in_window_partial (auth : Bool) (ctx : Bytes) (s : St) (evs : List Ev) (h : TimeInv s) (hn : noReboot evs) :
    ∀ w ∈ (run auth ctx s evs).2, ∀ eid cid b t iw, w = .req eid cid b t iw →
      b = s.agent.boots ∧ iw = true := by
  induction evs generalizing s with
  | nil => simp [run]
  | cons e evs ih =>
    intro w hw eid cid b t iw hweq
    have hne : e ≠ .reboot := hn e (by simp)
    have hs := timeInv_step auth ctx s e h hne
    simp only [run, List.mem_append] at hw
    rcases hw with hw | hw
    · have := hs.2 w hw eid cid b t iw hweq
      exact ⟨this.1, this.2.2.2⟩
    · have := ih (step auth ctx s e).1 hs.1 (fun x hx => hn x (by simp [hx])) w hw eid cid b t iw hweq
      rw [agent_step_noreboot auth ctx s e hne] at this
      exact this

theorem init_timeInv (eid : Bytes) (boots start : Nat) : TimeInv (init eid boots start) :=
  ⟨by simp [init], by intro c hc; simp [init] at hc⟩

/-- Self-healing: when an authenticated request turns out to be outside the agent's window (after
    an agent reboot), the discovery data is forgotten — so the invariant holds again, the next
    request starts with a new discovery and every request after it is inside the window. -/
theorem C12_resync_after_failure (ctx : Bytes) (s : St) (hb : s.agent.bootAt ≤ s.now)
    (hfail : ∃ e c b t, Wire.req e c b t false ∈ (request true ctx s).2) :
    (request true ctx s).1.disco = none ∧ TimeInv (request true ctx s).1 := by
  have hnone : (request true ctx s).1.disco = none := by
    rcases hfail with ⟨e, c, b, t, hw⟩
    unfold request at hw ⊢
    cases hd : s.disco with
    | none =>
      simp only [hd, List.mem_append, List.mem_cons, List.not_mem_nil, or_false] at hw
      rcases hw with hw | hw
      · cases hw
      · simp only [Wire.req.injEq] at hw
        have h5 := hw.2.2.2.2.symm
        simp only [Nat.sub_self, Nat.zero_div, Nat.add_zero] at h5
        simp [hd, h5]
    | some c0 =>
      simp only [hd, List.nil_append, List.mem_cons, List.not_mem_nil, or_false, Wire.req.injEq] at hw
      simp [hd, hw.2.2.2.2.symm]
  refine ⟨hnone, ?_, ?_⟩
  · have : (request true ctx s).1.now = s.now ∧ (request true ctx s).1.agent = s.agent := by
      unfold request; split <;> simp
    rw [this.1, this.2]; exact hb
  · intro c hc; rw [hnone] at hc; cases hc

/-- the timeliness clause at full strength (histories may contain agent reboots) -/
def C12_in_window_statement : Prop :=
  ∀ (auth : Bool) (ctx eid : Bytes) (boots start : Nat) (evs : List Ev),
    ∀ w ∈ (run auth ctx (init eid boots start) evs).2, ∀ e c b t iw, w = .req e c b t iw → iw = true

/-- It does not hold: after an agent reboot the cached boots value is stale and every later
    request is outside the window (the client never re-synchronises).  Known finding. -/
theorem C12_reboot_counterexample : ¬ C12_in_window_statement := by
  intro h
  have := h true [] [1] 3 100 [.request, .reboot, .request]
    (.req [1] [1] 3 10 false) (by simp [run, step, request, init, inWindow, Agent.time]) [1] [1] 3 10 false rfl
  cases this

/-- A discovery reply whose message id does not match the probe is refused with
    InvalidResponseId, one without bindings with SnmpError; nothing is cached in either case. -/
theorem C12_bad_reply_refused (probeId : Int) (now : Nat) (r : Reply) :
    (r.msgId ≠ probeId → acceptReply probeId now r = .error .invalidResponseId) ∧
    (r.msgId = probeId → r.varbinds = 0 → acceptReply probeId now r = .error .snmpError) ∧
    (r.msgId = probeId → r.varbinds ≠ 0 → acceptReply probeId now r = .ok ⟨r.engineId, r.boots, r.time, now⟩) := by
  refine ⟨fun h => by simp [acceptReply, h], fun h1 h2 => by simp [acceptReply, h1, h2],
    fun h1 h2 => by simp [acceptReply, h1, h2]⟩

/- non-vacuity: days pass between requests -/
example : (run true [] (init [1] 3 100) [.request, .advance 2008, .request, .advance 1000000, .request]).2 =
    [.probe, .req [1] [1] 3 10 true, .req [1] [1] 3 210 true, .req [1] [1] 3 100210 true] := by decide

end Snmp.Props.C12
