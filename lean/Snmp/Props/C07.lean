/-
  C07 — only the response to the request actually sent is ever returned.  Property theorems
  over the PDU-level model `Snmp.Ops` (every operation = one clock read `rid`, one request, one
  interpreted answer; the read count is compared with the implementation by correspondence).
-/
import Snmp.Model.Ops
import Snmp.Gen.Facts
import Snmp.Props.C06
namespace Snmp.Props.C07
open Snmp Snmp.Ops

/-- Anything `_send` hands back carries the id it was validated against. -/
theorem C07_recv_ok_id (proto : Proto) (rid : Int) (r : Except Err RespMsg) (p : PduResp)
    (h : recv proto rid r = .ok p) : p.requestId = rid := by
  unfold recv at h
  cases r with
  | error e => simp [bind, Except.bind] at h
  | ok m =>
    simp only [bind, Except.bind] at h
    cases hd : mpmDecode proto m with
    | error e => simp [hd] at h
    | ok q =>
      simp only [hd] at h
      cases hf : forcePdu q with
      | error e => simp [hf] at h
      | ok q' =>
        simp only [hf] at h
        by_cases hid : q'.requestId = rid
        · simp [hid, pure, Except.pure] at h
          subst h; exact hid
        · simp [hid, throw, throwThe, MonadExceptOf.throw] at h

theorem mpmDecode_ok (proto : Proto) (m : RespMsg) (q : PduResp) (hd : mpmDecode proto m = .ok q) :
    q = m.pdu := by
  unfold mpmDecode at hd
  cases proto with
  | v2c c =>
    simp only at hd
    split at hd
    · simp at hd
    · split at hd
      · simp at hd
      · simp at hd; exact hd.symm
  | v1 c =>
    simp only [bind, Except.bind] at hd
    cases hf : forcePdu m.pdu with
    | error e => simp [hf] at hd
    | ok _ =>
      simp only [hf] at hd
      split at hd
      · simp at hd
      · split at hd
        · simp at hd
        · simp at hd; exact hd.symm
  | v3 =>
    simp only [bind, Except.bind] at hd
    cases hf : forcePdu m.pdu with
    | error e => simp [hf] at hd
    | ok _ => simp [hf] at hd; exact hd.symm

/-- and it is the PDU that arrived -/
theorem recv_ok_pdu (proto : Proto) (rid : Int) (m : RespMsg) (p : PduResp)
    (h : recv proto rid (.ok m) = .ok p) : p = m.pdu ∧ m.pdu.errorStatus = 0 := by
  unfold recv at h
  simp only [bind, Except.bind] at h
  cases hd : mpmDecode proto m with
  | error e => simp [hd] at h
  | ok q =>
    have hq : q = m.pdu := mpmDecode_ok proto m q hd
    subst hq
    simp only [hd] at h
    unfold forcePdu at h
    by_cases he : m.pdu.errorStatus = 0
    · simp only [he, ne_eq, not_true_eq_false, ↓reduceIte] at h
      by_cases hid : m.pdu.requestId = rid
      · simp [hid, pure, Except.pure] at h; exact ⟨h.symm, he⟩
      · simp [hid, throw, throwThe, MonadExceptOf.throw] at h
    · simp [he] at h

/-- The id placed into the request PDU is the id the response is validated against — for
    every operation and every clock value (so however the clock advances between reads). -/
theorem C07_same_id (proto : Proto) (rid : Int) (oids : List Oid) (oid : Oid) (vbs : List VarBind)
    (v : Val) (scalars reps : List Oid) (maxList : Int) :
    ((multiget proto oids).request rid).requestId = rid ∧
    ((Ops.get proto oid).request rid).requestId = rid ∧
    ((multigetnext proto oids).request rid).requestId = rid ∧
    ((getnext proto oid).request rid).requestId = rid ∧
    ((multiset proto vbs).request rid).requestId = rid ∧
    ((Ops.set proto oid v).request rid).requestId = rid ∧
    ((bulkget proto scalars reps maxList).request rid).requestId = rid := by
  simp [multiget, Ops.get, multigetnext, getnext, multiset, Ops.set, bulkget, bulkVarbinds]

/-- The id test is the one in the source: `validate_response_id` (translated from the working tree
    on every run, `Gen.responseIdRefused`) raises exactly when the two ids differ. -/
theorem C07_id_rule (rid respId : Int) : Gen.responseIdRefused rid respId = true ↔ respId ≠ rid := by
  simp [Gen.responseIdRefused]

/-- A response whose id differs from the request's never yields a result: when the wrapper
    checks pass and no error-status is set the call raises `InvalidResponseId`. -/
theorem C07_mismatch (proto : Proto) (rid : Int) (m : RespMsg)
    (hd : mpmDecode proto m = .ok m.pdu) (he : m.pdu.errorStatus = 0) (hne : m.pdu.requestId ≠ rid) :
    recv proto rid (.ok m) = .error .invalidResponseId := by
  unfold recv
  simp [bind, Except.bind, hd, forcePdu, he, hne, throw, throwThe, MonadExceptOf.throw]

/-- … and in *no* case is there a result (whatever the wrapper and error fields say). -/
theorem C07_mismatch_never_result (proto : Proto) (rid : Int) (m : RespMsg) (p : PduResp)
    (hne : m.pdu.requestId ≠ rid) : recv proto rid (.ok m) ≠ .ok p := by
  intro h
  have h1 := C07_recv_ok_id proto rid _ p h
  have h2 := (recv_ok_pdu proto rid m p h).1
  subst h2
  exact hne h1

/-- The retransmission after a notInTimeWindow report is under the same rule: whichever of the
    two exchanges produced the result, its request-id is the id of the request. -/
theorem C07_retry_rule (proto : Proto) (rid : Int) (first : FirstExchange) (second : Except Err RespMsg) (p : PduResp)
    (h : sendRetry proto rid first second = .ok p) : p.requestId = rid := by
  cases first with
  | answer r => exact C07_recv_ok_id proto rid r p h
  | timeWindowReport => exact C07_recv_ok_id proto rid second p h

/-- … and a foreign id in the answer to the retransmitted request never yields a result. -/
theorem C07_retry_mismatch (proto : Proto) (rid : Int) (m : RespMsg) (p : PduResp)
    (hne : m.pdu.requestId ≠ rid) : sendRetry proto rid .timeWindowReport (.ok m) ≠ .ok p :=
  C07_mismatch_never_result proto rid m p hne

/-- A conformant agent that echoes the request id (right version, right community, no
    error) is always accepted, for v1, v2c and v3. -/
theorem C07_echo_accepted (community : Bytes) (rid : Int) (pdu : PduResp)
    (he : pdu.errorStatus = 0) (hid : pdu.requestId = rid) (c' : Bytes) (ver : Int) :
    recv (.v2c community) rid (.ok ⟨1, community, pdu⟩) = .ok pdu ∧
    recv (.v1 community) rid (.ok ⟨0, community, pdu⟩) = .ok pdu ∧
    recv .v3 rid (.ok ⟨ver, c', pdu⟩) = .ok pdu := by
  simp [recv, mpmDecode, forcePdu, bind, Except.bind, he, hid, pure, Except.pure]

/-- Community-based responses with another community string or protocol version are refused. -/
theorem C07_community_version (community : Bytes) (rid : Int) (m : RespMsg) (p : PduResp)
    (hbad : m.community ≠ community ∨ m.version ≠ 1) :
    recv (.v2c community) rid (.ok m) ≠ .ok p := by
  intro h
  unfold recv at h
  simp only [bind, Except.bind, mpmDecode] at h
  rcases hbad with hc | hv
  · by_cases hv : m.version = 1 <;> simp [hv, hc] at h
  · simp [hv] at h

theorem C07_community_version_v1 (community : Bytes) (rid : Int) (m : RespMsg) (p : PduResp)
    (hbad : m.community ≠ community ∨ m.version ≠ 0) :
    recv (.v1 community) rid (.ok m) ≠ .ok p := by
  intro h
  unfold recv at h
  simp only [bind, Except.bind, mpmDecode] at h
  cases hf : forcePdu m.pdu with
  | error e => simp [hf] at h
  | ok q =>
    simp only [hf] at h
    rcases hbad with hc | hv
    · by_cases hv : m.version = 0 <;> simp [hv, hc] at h
    · simp [hv] at h

/-- Every operation's result is derived from a `recv`-accepted response: a result exists
    only if the answer was a message whose PDU id equals the id in the request sent. -/
theorem C07_result_implies_id (proto : Proto) (rid : Int) (r : Except Err RespMsg)
    (oids : List Oid) (out : List Val) (h : (multiget proto oids).result rid r = .ok out) :
    ∃ m, r = .ok m ∧ m.pdu.requestId = ((multiget proto oids).request rid).requestId := by
  cases r with
  | error e => simp [multiget, recv, bind, Except.bind] at h
  | ok m =>
    refine ⟨m, rfl, ?_⟩
    simp only [multiget, bind, Except.bind] at h
    cases hr : recv proto rid (.ok m) with
    | error e => simp [hr] at h
    | ok p =>
      have := C07_recv_ok_id proto rid _ p hr
      have h2 := (recv_ok_pdu proto rid m p hr).1
      subst h2
      simpa [multiget] using this

-- non-vacuity: an echoing answer is accepted, an off-by-one answer is not
example : recv (.v2c [112]) 7 (.ok ⟨1, [112], ⟨7, 0, 0, []⟩⟩) = .ok ⟨7, 0, 0, []⟩ := by
  simp [recv, mpmDecode, forcePdu, bind, Except.bind, pure, Except.pure]
example : recv (.v2c [112]) 7 (.ok ⟨1, [112], ⟨8, 0, 0, []⟩⟩) = .error .invalidResponseId := by
  simp [recv, mpmDecode, forcePdu, bind, Except.bind, throw, throwThe, MonadExceptOf.throw]

/-- **From the octets on.**  Whatever community response message an agent writes — any PDU class, any
    bindings, any admissible length form at every TLV (`Glue.WritesMsg`) — with the expected version and
    community and no error-status: if the request-id it carries is not the id of the request sent,
    every operation of the client (decoder, unpacking glue, wrapper checks, id check) raises
    `InvalidResponseId`; if it is, `_send` hands on exactly the PDU the agent wrote. -/
theorem C07_from_wire (e : Ber.Enc) (m : RespMsg) (cls : String) (hw : Glue.WritesMsg e m cls) (community : Bytes) (rid : Int)
    (hver : m.version = 1) (hcom : m.community = community) (hes : m.pdu.errorStatus = 0)
    (fuel depth : Nat) (hwd : e.width ≤ fuel) (hd : e.depth ≤ depth) :
    (m.pdu.requestId ≠ rid → recv (.v2c community) rid (C06.fromWire e.bytes fuel depth) = .error .invalidResponseId) ∧
    (m.pdu.requestId = rid → recv (.v2c community) rid (C06.fromWire e.bytes fuel depth) = .ok m.pdu) := by
  unfold C06.fromWire
  rw [C06.C06_message_readback e m cls hw fuel depth hwd hd]
  constructor
  · intro hne
    exact C07_mismatch (.v2c community) rid m (by simp [mpmDecode, hver, hcom]) hes hne
  · intro heq
    simp [recv, mpmDecode, forcePdu, hver, hcom, hes, heq, bind, Except.bind, pure, Except.pure]


/-- in `Client._send_once` the id check follows the decoding unconditionally and precedes the only
    `return` (shape of the code, generated) — what `Ops.recv` is built on -/
theorem C07_check_shape : Snmp.Gen.idCheckedBeforeReturn = true := by decide

end Snmp.Props.C07
