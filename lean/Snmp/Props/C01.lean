/-
  C01 — walk exactness.  Property theorems.
  (abstract loop level; the refinement from the Python-faithful model `Snmp.Walk.multiwalk`
  is in Snmp/Lemmas/WalkRefine.lean — see DESIGN.md for what is proved at which level)
-/
import Snmp.Gen.Facts
import Snmp.Lemmas.WalkAbs
import Snmp.Lemmas.WalkFaithful
import Snmp.Lemmas.WalkRefine
namespace Snmp.Props.C01
open Snmp Snmp.WalkAbs

/-- Multi-root GETNEXT walk (abstract loop), every strictly sorted database, every ascending
    list of prefix-free roots: the loop ends within `|db|+1` rounds with no unfinished root and
    has yielded every entry strictly below a root. -/
theorem C01_abs_complete (db roots : List Oid) (hs : Sorted db) (hd : Disjoint roots) :
    let s := run db roots (db.length + 1) (init roots)
    s.cur = [] ∧ ∀ r ∈ roots, ∀ o ∈ db, r <+: o → o ≠ r → o ∈ s.yielded :=
  multi_complete db roots hs hd

/-- Single root: the walk yields exactly the database entries above the root that lie inside
    it, in ascending order (they are a `takeWhile` of the sorted suffix). -/
theorem C01_abs_single_sorted (db : List Oid) (root : Oid) (hs : Sorted db) :
    walk1 db root (db.length + 1) root = (above db root).takeWhile (inside root) :=
  walk1_eq db root hs (db.length + 1) root (by
    have : (above db root).length ≤ db.length := List.length_filter_le _ _
    omega)

/-- Subtree convexity: what makes "stop at the first binding outside the root" and "cut at the
    first endOfMibView" lossless for ascending cursors. -/
theorem C01_convex (root a b c : Oid) (ha : root <+: a) (hc : root <+: c)
    (hab : a ≤ b) (hbc : b ≤ c) : root <+: b := convex root a b c ha hc hab hbc

/-- **On the Python-faithful model**: the outcome does not depend on the order in which the roots
    were listed — requests, yields and ending of `multiwalk` are identical for every permutation
    (any fetcher, any mode). -/
theorem C01_order_independent (fetch : Fetcher) (roots roots' : List Oid) (h : roots'.Perm roots)
    (lenient : Bool) (fuel : Nat) :
    Walk.multiwalk fetch roots' lenient fuel = Walk.multiwalk fetch roots lenient fuel :=
  Walk.multiwalk_perm fetch roots roots' h lenient fuel

/-- **On the Python-faithful model, for ANY agent** (conformant or not): every yielded binding lies
    inside one of the requested roots, and no OID is yielded more than once. -/
theorem C01_sound_nodup (fetch : Fetcher) (roots : List Oid) (lenient : Bool) (fuel : Nat) :
    (Walk.yieldOids (Walk.multiwalk fetch roots lenient fuel).events).Nodup ∧
    ∀ y ∈ Walk.yieldOids (Walk.multiwalk fetch roots lenient fuel).events, ∃ r ∈ roots, r <+: y := by
  have h := Walk.multiwalk_good fetch roots lenient fuel
  refine ⟨h.1, ?_⟩
  intro y hy
  rcases h.2 y hy with ⟨r, hr, hin⟩
  have hr' : r ∈ roots := by
    have := (List.mergeSort_perm roots Walk.oidLe).mem_iff (a := r)
    exact this.mp hr
  exact ⟨r, hr', (inside_iff r y).mp hin⟩

/-- **Completeness and termination on the Python-faithful model.**  Against the conformant agent
    holding any strictly ascending database (no stored value being the endOfMibView marker), for
    pairwise disjoint roots listed in any order, strict or lenient mode, and any loop budget of at
    least `|db|` iterations: `Client.multiwalk` (hence `walk`) ends normally and has yielded every
    database entry — OID and value — lying strictly below a requested root; everything it yields
    is an entry of the database.  (Exactly-once and inside-the-roots hold for any agent:
    `C01_sound_nodup`.) -/
theorem C01_complete (dbv : List VarBind) (pol : BulkPolicy) (roots : List Oid) (lenient : Bool) (fuel : Nat)
    (hs : Sorted (dbv.map (·.1))) (hv : ∀ vb ∈ dbv, vb.2.isEom = false)
    (hd : Walk.PrefixFree roots) (hfuel : dbv.length ≤ fuel) :
    let r := Walk.walkGetnext (Walk.exchangeOf (Agent.conformant dbv) dbv pol) roots lenient fuel
    r.outcome = .done ∧
    (∀ vb ∈ dbv, (∃ root ∈ roots, root <+: vb.1 ∧ vb.1 ≠ root) → vb ∈ r.yields) ∧
    (∀ vb ∈ r.yields, vb ∈ dbv) := by
  intro r
  have hds := Walk.prefixFree_sorted roots hd
  have href := Walk.multiwalk_refines dbv pol roots lenient fuel hs hv hds
  have hcomp := multi_complete (dbv.map (·.1)) (Walk.sortOids roots) hs hds
  simp only [List.length_map] at hcomp
  -- more budget than |db|+1 rounds changes nothing once no cursor is left
  have hrun : run (dbv.map (·.1)) (Walk.sortOids roots) (fuel + 1) (init (Walk.sortOids roots))
      = run (dbv.map (·.1)) (Walk.sortOids roots) (dbv.length + 1) (init (Walk.sortOids roots)) := by
    obtain ⟨j, rfl⟩ : ∃ j, fuel = dbv.length + j := ⟨fuel - dbv.length, by omega⟩
    rw [show dbv.length + j + 1 = (dbv.length + 1) + j by omega, Walk.run_add, Walk.run_nil _ _ _ _ hcomp.1]
  rw [hrun] at href
  refine ⟨href.1 hcomp.1, ?_, ?_⟩
  · intro vb hvb ⟨root, hroot, hpre, hne⟩
    have hroot' : root ∈ Walk.sortOids roots := (List.mergeSort_perm roots Walk.oidLe).mem_iff.mpr hroot
    have ho := hcomp.2 root hroot' vb.1 (List.mem_map_of_mem (f := (·.1)) hvb) hpre hne
    have hy := href.2.1 vb.1 ho
    rw [Walk.yieldOids_eq] at hy
    obtain ⟨vb', hvb', heq⟩ := List.mem_map.mp hy
    have hdb' := href.2.2 vb' hvb'
    have : vb' = vb := Walk.sorted_keys_inj dbv hs vb' hdb' vb hvb heq
    rw [Walk.yields_eq]
    exact this ▸ hvb'
  · intro vb hvb
    rw [Walk.yields_eq] at hvb
    exact href.2.2 vb hvb

/-- **Single root, on the Python-faithful model, for ANY agent**: the instances come in strictly
    ascending OID order. -/
theorem C01_single_ascending (x : Exchange) (root : Oid) (lenient : Bool) (fuel : Nat) :
    (Walk.yieldOids (Walk.walkGetnext x [root] lenient fuel).events).Pairwise (· < ·) :=
  Walk.walk_single_ascending x root lenient fuel

/-- the hypotheses of `C01_complete` are satisfiable by a non-trivial database, with the roots
    listed in descending order, and the walk is then the expected one -/
example : Sorted ([([1,3,1,1], Val.int 1), ([1,3,2,1], Val.null), ([1,3,2,2], Val.int 7)].map (·.1))
    ∧ Walk.PrefixFree [[1,3,2],[1,3,1]] := by
  refine ⟨by unfold Sorted; decide, by unfold Walk.PrefixFree; decide⟩

example : Sorted [[1,3,1,1],[1,3,2,1]] ∧ Disjoint [[1,3,1],[1,3,2]] := by
  refine ⟨by unfold Sorted; decide, by unfold Disjoint; decide⟩


/-- the loop of `Client.multiwalk` has the shape the model `Walk.multiwalk` renders (generated from the
    AST): roots sorted for the first request, `yielded` a local of the generator, one
    `while unfinished_oids:` loop, `NoSuchOID` ends it, `FaultySNMPImplementation` ends it in lenient
    mode and is re-raised otherwise, every response goes through `group_varbinds`,
    `get_unfinished_walk_oids` and `deduped_varbinds(oids, …, yielded)` -/
theorem C01_loop_shape : Snmp.Gen.walkLoopShape = true := by decide

end Snmp.Props.C01
