/-
  C01 — walk exactness.  Property theorems.
  (abstract loop level; the refinement from the Python-faithful model `Snmp.Walk.multiwalk`
  is in Snmp/Lemmas/WalkRefine.lean — see DESIGN.md for what is proved at which level)
-/
import Snmp.Lemmas.WalkAbs
import Snmp.Lemmas.WalkFaithful
namespace Snmp.Props.C01
open Snmp Snmp.WalkAbs

/-- Multi-root GETNEXT walk (abstract loop), every strictly sorted database, every ascending
    list of prefix-free roots: the loop ends within `|db|+1` rounds with no unfinished root and
    has yielded every entry strictly below a root. -/
theorem C01_abs_complete (db roots : List Oid) (hs : Sorted db) (hd : Disjoint roots) :
    let s := run db roots (db.length + 1) (init roots)
    s.cur = [] ∧ ∀ r ∈ roots, ∀ o ∈ db, r <+: o → o ≠ r → o ∈ s.yielded :=
  multi_complete db roots hs hd

/-- Single root: the walk yields exactly the database entries above the root that lie inside
    it, in ascending order (they are a `takeWhile` of the sorted suffix). -/
theorem C01_abs_single_sorted (db : List Oid) (root : Oid) (hs : Sorted db) :
    walk1 db root (db.length + 1) root = (above db root).takeWhile (inside root) :=
  walk1_eq db root hs (db.length + 1) root (by
    have : (above db root).length ≤ db.length := List.length_filter_le _ _
    omega)

/-- Subtree convexity: what makes "stop at the first binding outside the root" and "cut at the
    first endOfMibView" lossless for ascending cursors. -/
theorem C01_convex (root a b c : Oid) (ha : root <+: a) (hc : root <+: c)
    (hab : a ≤ b) (hbc : b ≤ c) : root <+: b := convex root a b c ha hc hab hbc

/-- **On the Python-faithful model**: the outcome does not depend on the order in which the roots
    were listed — requests, yields and ending of `multiwalk` are identical for every permutation
    (any fetcher, any mode). -/
theorem C01_order_independent (fetch : Fetcher) (roots roots' : List Oid) (h : roots'.Perm roots)
    (lenient : Bool) (fuel : Nat) :
    Walk.multiwalk fetch roots' lenient fuel = Walk.multiwalk fetch roots lenient fuel :=
  Walk.multiwalk_perm fetch roots roots' h lenient fuel

/-- **On the Python-faithful model, for ANY agent** (conformant or not): every yielded binding lies
    inside one of the requested roots, and no OID is yielded more than once. -/
theorem C01_sound_nodup (fetch : Fetcher) (roots : List Oid) (lenient : Bool) (fuel : Nat) :
    (Walk.yieldOids (Walk.multiwalk fetch roots lenient fuel).events).Nodup ∧
    ∀ y ∈ Walk.yieldOids (Walk.multiwalk fetch roots lenient fuel).events, ∃ r ∈ roots, r <+: y := by
  have h := Walk.multiwalk_good fetch roots lenient fuel
  refine ⟨h.1, ?_⟩
  intro y hy
  rcases h.2 y hy with ⟨r, hr, hin⟩
  have hr' : r ∈ roots := by
    have := (List.mergeSort_perm roots Walk.oidLe).mem_iff (a := r)
    exact this.mp hr
  exact ⟨r, hr', (inside_iff r y).mp hin⟩

example : Sorted [[1,3,1,1],[1,3,2,1]] ∧ Disjoint [[1,3,1],[1,3,2]] := by
  refine ⟨by unfold Sorted; decide, by unfold Disjoint; decide⟩

end Snmp.Props.C01
