/-
  C18 — temporary reconfiguration applies inside its block and is undone exactly.
  Property theorems only; the model is `Snmp.Model.Cfg`, the tables are generated facts.
-/
import Snmp.Model.Cfg
import Snmp.Gen.Facts
namespace Snmp.Props.C18
open Snmp.Cfg

/-- The settings that can be overridden are the documented ones (generated from `ClientConfig`). -/
theorem C18_config_fields :
    Gen.configFields = ["credentials", "context", "lcd", "timeout", "retries"] := by decide

/-- Leaving a `reconfigure` block — normally, by an exception of the body, by an exception of
    the inner `configure` — leaves `config` and the message-processing instance exactly as they
    were on entry, whatever the body did (nested blocks, permanent `configure` calls inside,
    requests, exceptions), at any depth. -/
theorem C18_restore (kw : Kwargs) (body : List Prog) (s : St) :
    (exec (.reconfigure kw body) s).state.config = s.config ∧
    (exec (.reconfigure kw body) s).state.mpm = s.mpm := by
  unfold exec
  cases configure kw s <;> simp

/-- statements that make no permanent change: anything but a `configure` outside every block -/
def temporary : Prog → Bool
  | .configure _ => false
  | .catch body => body.attach.all fun ⟨p, _⟩ => temporary p
  | _ => true
termination_by p => sizeOf p
decreasing_by simp_wf; have := List.sizeOf_lt_of_mem ‹_›; omega

mutual
theorem temp_exec (p : Prog) (s : St) (h : temporary p = true) :
    (exec p s).state.config = s.config ∧ (exec p s).state.mpm = s.mpm := by
  cases p with
  | request =>
    simp only [exec, request]
    split <;> simp
  | peek => simp [exec]
  | configure kw => simp [temporary] at h
  | reconfigure kw body => exact C18_restore kw body s
  | raise => simp [exec]
  | «catch» body =>
    have hb : ∀ p ∈ body, temporary p = true := by
      intro p hp
      unfold temporary at h
      simp only [List.all_eq_true] at h
      exact h ⟨p, hp⟩ (List.mem_attach _ _)
    have := temp_execList body s hb
    unfold exec
    generalize execList body s = r at *
    rcases r with ⟨st, o, e⟩
    rcases e with _ | e
    · simpa using this
    · cases e <;> simpa using this
theorem temp_execList (ps : List Prog) (s : St) (h : ∀ p ∈ ps, temporary p = true) :
    (execList ps s).state.config = s.config ∧ (execList ps s).state.mpm = s.mpm := by
  cases ps with
  | nil => simp [execList]
  | cons p ps =>
    have h1 := temp_exec p s (h p (by simp))
    have h2 := temp_execList ps (exec p s).state (fun q hq => h q (by simp [hq]))
    unfold execList
    generalize exec p s = r at *
    rcases r with ⟨st, o, e⟩
    rcases e with _ | e
    · simp only at h1 h2 ⊢
      exact ⟨h2.1.trans h1.1, h2.2.trans h1.2⟩
    · simpa using h1
end

/-- A whole program made of requests, blocks (with anything inside), exceptions and handlers —
    but no permanent `configure` at its own level — ends with the configuration it started with. -/
theorem C18_restore_program (ps : List Prog) (s : St) (h : ∀ p ∈ ps, temporary p = true) :
    (execList ps s).state.config = s.config ∧ (execList ps s).state.mpm = s.mpm :=
  temp_execList ps s h

/-- Requests issued inside the block show exactly the overridden configuration at the seam:
    the observations of the block start with those of a request made in the configured state. -/
theorem C18_inside (kw : Kwargs) (rest : List Prog) (s s' : St) (h : configure kw s = .ok s') :
    (request s').2 <+: (exec (.reconfigure kw (.request :: rest)) s).obs := by
  unfold exec
  simp only [h]
  unfold execList
  simp only [exec]
  cases (execList rest (request s').1).err <;> simp

def getField (c : Config) (k : String) : KwVal :=
  if k = "credentials" then .cred c.credentials
  else if k = "context" then .ident c.context
  else if k = "lcd" then .ident c.lcd
  else if k = "timeout" then .num c.timeout
  else .num c.retries

def wellTyped (k : String) (v : KwVal) : Bool :=
  match k, v with
  | "credentials", .cred _ => true
  | "context", .ident _ => true
  | "lcd", .ident _ => true
  | "timeout", .num _ => true
  | "retries", .num _ => true
  | _, _ => false

theorem setField_other (c : Config) (k k' : String) (v : KwVal) (hk : k' ≠ k)
    (hkn : Gen.configFields.contains k = true) : getField (setField c k' v) k = getField c k := by
  have hk5 : k = "credentials" ∨ k = "context" ∨ k = "lcd" ∨ k = "timeout" ∨ k = "retries" := by
    simpa [Gen.configFields] using hkn
  unfold setField
  split <;> rcases hk5 with h | h | h | h | h <;> subst h <;> first | rfl | (exact absurd rfl hk)

theorem setField_same (c : Config) (k : String) (v : KwVal) (hw : wellTyped k v = true) :
    getField (setField c k v) k = v := by
  unfold wellTyped at hw
  split at hw <;> first | rfl | (exact absurd hw (by decide))

theorem foldl_other (kw : Kwargs) (c : Config) (k : String) (hkn : Gen.configFields.contains k = true)
    (h : ∀ p ∈ kw, p.1 ≠ k) :
    getField (kw.foldl (fun c p => setField c p.1 p.2) c) k = getField c k := by
  induction kw generalizing c with
  | nil => rfl
  | cons p kw ih =>
    simp only [List.foldl_cons]
    rw [ih _ (fun q hq => h q (by simp [hq]))]
    exact setField_other c k p.1 p.2 (h p (by simp)) hkn

theorem foldl_sets (kw : Kwargs) (c : Config) (k : String) (v : KwVal)
    (hkn : Gen.configFields.contains k = true) (hd : kw.Pairwise (fun a b => a.1 ≠ b.1))
    (hm : (k, v) ∈ kw) (hw : wellTyped k v = true) :
    getField (kw.foldl (fun c p => setField c p.1 p.2) c) k = v := by
  induction kw generalizing c with
  | nil => simp at hm
  | cons p kw ih =>
    simp only [List.foldl_cons]
    rw [List.pairwise_cons] at hd
    rcases List.mem_cons.mp hm with h | h
    · subst h
      rw [foldl_other kw _ k hkn (fun q hq => (hd.1 q hq).symm)]
      exact setField_same c k v hw
    · exact ih _ hd.2 h

/-- Every overridden setting has exactly the supplied value after `configure` (keyword
    arguments are distinct, as Python guarantees); settings not named keep their value. -/
theorem C18_configure_values (kw : Kwargs) (s s' : St) (h : configure kw s = .ok s')
    (hd : kw.Pairwise (fun a b => a.1 ≠ b.1)) (k : String)
    (hkn : Gen.configFields.contains k = true) :
    (∀ v, (k, v) ∈ kw → wellTyped k v = true → getField s'.config k = v) ∧
    ((∀ p ∈ kw, p.1 ≠ k) → getField s'.config k = getField s.config k) := by
  have hc : s'.config = kw.foldl (fun c p => setField c p.1 p.2) s.config := by
    unfold configure at h
    split at h
    · cases h
    · split at h
      · split at h
        · split at h
          · cases h
          · split at h
            · cases h
            · cases h; rfl
        · cases h; rfl
      · cases h; rfl
  rw [hc]
  exact ⟨fun v hm hw => foldl_sets kw _ k v hkn hd hm hw, fun hn => foldl_other kw _ k hkn hn⟩

/-- Permanent reconfiguration persists: a request after `configure` shows the new configuration
    and the state stays configured. -/
theorem C18_permanent (kw : Kwargs) (s s' : St) (h : configure kw s = .ok s') :
    (execList [.configure kw, .request] s).obs = (request s').2 ∧
    (execList [.configure kw, .request] s).state = (request s').1 ∧
    (execList [.configure kw, .request] s).err = none := by
  simp [execList, exec, h]

/-- Unknown settings are refused with `TypeError` and change nothing, permanently or temporarily. -/
theorem C18_unknown_refused (kw : Kwargs) (body : List Prog) (s : St)
    (h : ∃ p ∈ kw, Gen.configFields.contains p.1 = false) :
    exec (.configure kw) s = ⟨s, [], some .typeError⟩ ∧
    exec (.reconfigure kw body) s = ⟨s, [], some .typeError⟩ := by
  have hk : knownKeys kw = false := by
    unfold knownKeys
    rcases h with ⟨p, hp, hf⟩
    rw [Bool.eq_false_iff]
    intro hall
    rw [List.all_eq_true] at hall
    have := hall p hp
    rw [hf] at this
    cases this
  have hc : configure kw s = .error .typeError := by simp [configure, hk]
  simp [exec, hc]

/-- the protocol version each credential family speaks -/
def versionOf : Family → Nat
  | .v1 => 0 | .v2c => 1 | .v3 => 3

/-- Switching the credential family switches the message-processing model to the new
    family's protocol version (a fresh instance); same family keeps the instance. -/
theorem C18_family_switch (kw : Kwargs) (c : Cred) (s : St) (hk : knownKeys kw = true)
    (hc : credOf kw = some c) :
    ∃ s', configure kw s = .ok s' ∧
      (c.family ≠ s.config.credentials.family →
        s'.mpm = ⟨versionOf c.family, s.fresh⟩ ∧ s'.fresh = s.fresh + 1) ∧
      (c.family = s.config.credentials.family → s'.mpm = s.mpm) := by
  unfold configure
  simp only [hk, hc]
  by_cases hf : c.family = s.config.credentials.family
  · simp [hf]
  · cases hfam : c.family <;>
      simp [credMpm, mpmCreate, Gen.credentialMpm, Gen.mpmIdentifiers, Family.name, versionOf] <;>
      simp_all

/-- A request is sent with the protocol version of the current message-processing instance and
    with the current timeout, retries and credentials; its engine discovery (SNMPv3, first use
    of an instance) goes through the seam with the same timeout and retries. -/
theorem C18_request_shows_config (s : St) :
    ∀ o ∈ (request s).2, o.timeout = s.config.timeout ∧ o.retries = s.config.retries ∧
      o.version = s.mpm.ident ∧ o.inst = s.mpm.inst ∧
      (o.kind = 0 → o.cred = some s.config.credentials.ident) := by
  intro o ho
  unfold request at ho
  by_cases hc : s.mpm.ident = 3 ∧ ¬ s.discovered.contains s.mpm.inst
  · rw [if_pos hc] at ho
    simp only [List.mem_cons, List.not_mem_nil, or_false] at ho
    rcases ho with h | h <;> subst h <;> simp
  · rw [if_neg hc] at ho
    simp only [List.mem_cons, List.not_mem_nil, or_false] at ho
    subst ho; simp

/- non-vacuity: a nested block with a family switch inside and an exceptional exit -/
def s0 : St := ⟨⟨⟨.v2c, 0⟩, 0, 0, 6, 10⟩, ⟨1, 0⟩, 1, []⟩
example : (execList [.reconfigure [("credentials", .cred ⟨.v3, 1⟩), ("timeout", .num 2)]
            [.request, .catch [.reconfigure [("retries", .num 1)] [.request, .raise]], .configure [("timeout", .num 9)]],
          .request] s0).obs.map (fun o => (o.kind, o.timeout, o.retries, o.version)) =
    [(1, 2, 10, 3), (0, 2, 10, 3), (0, 2, 1, 3), (0, 6, 10, 1)] := by decide
example : (configure [("credentials", .cred ⟨.v3, 1⟩)] s0).toOption.map (fun s => (s.mpm, s.fresh, s.config.credentials)) =
    some (⟨3, 1⟩, 2, ⟨.v3, 1⟩) := by decide


/-- `Client.reconfigure` puts the saved `config` and `mpm` back in a `finally` around
    `configure(**kwargs); yield` (shape of the code, generated) — what the `Cfg` interpreter's
    handling of exceptional exits is built on -/
theorem C18_restore_shape : Snmp.Gen.reconfigureRestoresInFinally = true := by decide

end Snmp.Props.C18
