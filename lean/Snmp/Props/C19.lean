/-
  C19 — registered trap listeners receive every matching notification, with its origin.
  Model: `Snmp.Trap`.
-/
import Snmp.Model.Trap
import Snmp.Gen.Facts
import Snmp.Lemmas.TrapWireLemmas
import Snmp.Props.C06
namespace Snmp.Props.C19
open Snmp Snmp.Trap

/-- a well-formed SNMPv2c notification for the listener's community -/
def matching (community : Bytes) (d : Dgram) : Prop :=
  ∃ m, d = .msg m ∧ versionOk m.version = true ∧ m.community = community

/-- Delivered exactly once, as a trap carrying the sender's address and exactly the bindings
    sent (uptime, trap OID, payload). -/
theorem C19_delivered_once (community : Bytes) (src : Source) (vbs : List VarBind) :
    deliveries community [(src, .msg ⟨1, community, 7, vbs⟩)] = [⟨some src, 7, vbs⟩] := by
  simp [deliveries, receive, versionOk]

/-- Datagrams with a different community, an unknown protocol version, or malformed content are
    never delivered. -/
theorem C19_dropped (community : Bytes) (src : Source) (d : Dgram) (h : ¬ matching community d) :
    deliveries community [(src, d)] = [] := by
  cases d with
  | malformed => simp [deliveries, receive]
  | msg m =>
    have : ¬ (versionOk m.version = true ∧ m.community = community) := fun hh => h ⟨m, rfl, hh.1, hh.2⟩
    simp [deliveries, receive, this]

/-- in particular: a foreign community is never delivered, whatever else the datagram holds -/
theorem C19_foreign_community (community : Bytes) (src : Source) (m : Msg) (h : m.community ≠ community) :
    deliveries community [(src, .msg m)] = [] :=
  C19_dropped community src (.msg m) (by rintro ⟨m', hm, _, hc⟩; cases hm; exact h hc)

/-- The listener is compositional: what is delivered for a sequence is the concatenation of what
    is delivered for its parts — no datagram, valid or not, influences the handling of another. -/
theorem C19_compositional (community : Bytes) (a b : List (Source × Dgram)) :
    deliveries community (a ++ b) = deliveries community a ++ deliveries community b := by
  simp [deliveries, List.filterMap_append]

/-- In particular a foreign or malformed datagram never stops later notifications. -/
theorem C19_later_unaffected (community : Bytes) (src : Source) (d : Dgram) (rest : List (Source × Dgram))
    (h : ¬ matching community d) :
    deliveries community ((src, d) :: rest) = deliveries community rest := by
  have := C19_compositional community [(src, d)] rest
  simp only [List.singleton_append] at this
  rw [this, C19_dropped community src d h]
  rfl

/-- Every matching notification of any sequence is delivered, in arrival order, each once: the
    deliveries are exactly the matching datagrams of the sequence. -/
theorem C19_exactly_matching (community : Bytes) (ds : List (Source × Dgram)) :
    deliveries community ds =
      (ds.filter fun p => match p.2 with
        | .msg m => decide (versionOk m.version = true ∧ m.community = community)
        | .malformed => false).filterMap fun p => match p.2 with
        | .msg m => some ⟨if m.tag = 7 then some p.1 else none, m.tag, m.vbs⟩
        | .malformed => none := by
  induction ds with
  | nil => rfl
  | cons p ds ih =>
    rcases p with ⟨src, d⟩
    cases d with
    | malformed =>
      simp only [deliveries, List.filterMap_cons, receive, List.filter_cons]
      simpa [deliveries] using ih
    | msg m =>
      by_cases hm : versionOk m.version = true ∧ m.community = community
      · simp only [deliveries, List.filterMap_cons, receive, hm, and_self, if_true, List.filter_cons, decide_true]
        simpa [deliveries] using ih
      · simp only [deliveries, List.filterMap_cons, receive, hm, if_false, List.filter_cons, decide_false]
        simpa [deliveries] using ih

/-- The pythonic view of a delivered trap: origin = sender address, uptime / trap OID = first /
    second binding pythonised, values = the remaining bindings keyed by dotted OID; all built-in. -/
theorem C19_trapinfo (src : Source) (up oid : VarBind) (rest : List VarBind) :
    trapInfo ⟨some src, 7, up :: oid :: rest⟩ =
      some (.tuple [.str src.address, Pyth.pythonize up.2, Pyth.pythonize oid.2,
        .dict (rest.map fun vb => (.str (Pyth.dotted vb.1), Pyth.pythonize vb.2))]) := rfl

example : deliveries [112] [(⟨"10.0.0.1", 5000⟩, .malformed), (⟨"10.0.0.2", 5001⟩, .msg ⟨1, [112], 7, []⟩),
    (⟨"10.0.0.3", 5002⟩, .msg ⟨1, [113], 7, []⟩)] = [⟨some ⟨"10.0.0.2", 5001⟩, 7, []⟩] := by
  simp [deliveries, List.filterMap_cons, receive, versionOk]

/-- **From the octets on.**  For EVERY SNMPv2c notification an agent writes — message wrapper,
    version 1, the listener's community, a Trap PDU with any bindings, every TLV in its own admissible
    length form, every value TLV one the specification reads as intended (`Glue.WritesMsg e m "Trap"`) —
    the per-datagram decoder of `register_trap_callback` (forced sequence readout, version → model,
    x690 mirror, wrapper glue, community / version check, bindings taken apart) delivers exactly one
    Trap carrying the sender's address and exactly the bindings sent. -/
theorem C19_from_wire (e : Ber.Enc) (m : Ops.RespMsg) (h : Glue.WritesMsg e m "Trap") (community : Bytes) (src : Source)
    (hv : m.version = 1) (hc : m.community = community) (hes : m.pdu.errorStatus = 0)
    (fuel depth : Nat) (hw : e.width ≤ fuel) (hd : e.depth ≤ depth) :
    receiveWire community src e.bytes fuel depth = some ⟨some src, 7, m.pdu.varbinds⟩ := by
  have hread := C06.C06_message_readback e m "Trap" h fuel depth hw hd
  obtain ⟨hwf, tr, htree, hmsg⟩ := Glue.writesMsg_read h
  obtain ⟨f, t, ev, ec, ep, rfl, _⟩ := h
  have hforced := forced_cons f t [ev, ec, ep] hwf fuel depth hw (by omega)
  obtain ⟨n, vc, cc, sc, p, rfl⟩ := msgOfTree_shape hmsg
  simp only [Ber.Enc.tree, bind, Except.bind, pure, Except.pure] at htree
  cases htl : Ber.Enc.treeL [ev, ec, ep] with
  | error err => simp [htl] at htree
  | ok ts =>
    simp only [htl, Except.ok.injEq, Ber.Tree.seq.injEq] at htree
    rw [htl] at hforced
    simp only [Except.map, htree.2] at hforced
    unfold receiveWire
    rw [hforced, hread]
    simp [hv, Ops.mpmDecode, hc, Ops.forcePdu, hes, bind, Except.bind, pduTagOf]
    decide

/-- … and a foreign community is dropped, whatever else the datagram holds -/
theorem C19_from_wire_foreign (e : Ber.Enc) (m : Ops.RespMsg) (cls : String) (h : Glue.WritesMsg e m cls) (community : Bytes)
    (src : Source) (hc : m.community ≠ community) (fuel depth : Nat) (hw : e.width ≤ fuel) (hd : e.depth ≤ depth) :
    receiveWire community src e.bytes fuel depth = none := by
  have hread := C06.C06_message_readback e m cls h fuel depth hw hd
  unfold receiveWire
  split
  · rename_i ver _ _
    simp only [hread]
    by_cases h1 : ver = 1
    · simp [h1, Ops.mpmDecode, hc, bind, Except.bind]
    · by_cases h0 : ver = 0
      · simp only [h1, h0, ↓reduceIte]
        simp only [Ops.mpmDecode, bind, Except.bind]
        cases Ops.forcePdu m.pdu <;> simp [hc]
      · simp [h1, h0]
  · rfl


/-- the per-datagram decoder of `register_trap_callback` creates its message-processing model and its
    local configuration inside the closure and declares nothing `nonlocal` (shape of the code,
    generated) — why the listener is a `filterMap` of a stateless decision -/
theorem C19_stateless_shape : Snmp.Gen.trapDecoderStateless = true := by decide

end Snmp.Props.C19
