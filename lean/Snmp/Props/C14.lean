/-
  C14 — concurrent operations on a shared client do not disturb one another.
  Model: `Snmp.Conc` (coroutine trees, one shared discovery cache, schedules = order in which
  pending sender calls are answered).  Partial by nature: asyncio's run-to-completion between
  awaits is the modelling assumption; the correspondence suite enumerates real schedules.
-/
import Snmp.Model.Conc
namespace Snmp.Props.C14
open Snmp.Conc

variable {Req Resp Disco Res : Type}

def reqsOf : List (Wire Req) → List Req
  | [] => []
  | .probe :: w => reqsOf w
  | .req q :: w => q :: reqsOf w

theorem reqsOf_append (a b : List (Wire Req)) : reqsOf (a ++ b) = reqsOf a ++ reqsOf b := by
  induction a with
  | nil => rfl
  | cons x a ih => cases x <;> simp [reqsOf, ih]

def probes : List (Wire Req) → Nat
  | [] => 0
  | .probe :: w => probes w + 1
  | .req _ :: w => probes w

/-- what a suspended process will still return / still request when run to the end -/
def denoteSt (answer : Req → Resp) (d₀ : Disco) : PState Req Resp Disco Res → Res
  | .waiting q k => denote answer d₀ (k (answer q))
  | .probing k => denote answer d₀ (k d₀)
  | .finished r => r

def restReqs (answer : Req → Resp) (d₀ : Disco) : PState Req Resp Disco Res → List Req
  | .waiting q k => soloReqs answer d₀ (k (answer q))
  | .probing k => soloReqs answer d₀ (k d₀)
  | .finished _ => []

/-- running a task to its next suspension neither changes what it will return nor what it
    will request, whether the discovery cache is empty or holds the agent's answer -/
theorem settle_spec (answer : Req → Resp) (d₀ : Disco) (shared : Option Disco)
    (hs : shared = none ∨ shared = some d₀) (p : Proc Req Resp Disco Res) :
    denoteSt answer d₀ (settle shared p).1 = denote answer d₀ p ∧
    reqsOf (settle shared p).2 ++ restReqs answer d₀ (settle shared p).1 = soloReqs answer d₀ p ∧
    probes (settle shared p).2 ≤ 1 := by
  induction p with
  | done r => simp [settle, denoteSt, denote, reqsOf, restReqs, soloReqs, probes]
  | exchange q k _ => simp [settle, denoteSt, denote, reqsOf, restReqs, soloReqs, probes]
  | needDisco k ih =>
    rcases hs with rfl | rfl
    · simp [settle, denoteSt, denote, reqsOf, restReqs, soloReqs, probes]
    · simpa [settle, denote, soloReqs] using ih d₀

/-- the invariant of every reachable state -/
def Inv (answer : Req → Resp) (d₀ : Disco) (ps : List (Proc Req Resp Disco Res)) (s : State Req Resp Disco Res) : Prop :=
  (s.shared = none ∨ s.shared = some d₀) ∧ s.procs.length = ps.length ∧
  ∀ (i : Nat) (p : Proc Req Resp Disco Res), ps[i]? = some p → ∃ st h, s.procs[i]? = some (st, h) ∧
    denoteSt answer d₀ st = denote answer d₀ p ∧
    reqsOf h ++ restReqs answer d₀ st = soloReqs answer d₀ p

theorem inv_start (answer : Req → Resp) (d₀ : Disco) (ps : List (Proc Req Resp Disco Res)) :
    Inv answer d₀ ps (start ps) := by
  refine ⟨Or.inl rfl, by simp [start], ?_⟩
  intro i p hp
  have h := settle_spec answer d₀ (none : Option Disco) (Or.inl rfl) p
  refine ⟨(settle none p).1, (settle none p).2, ?_, h.1, h.2.1⟩
  simp [start, List.getElem?_map, hp]

theorem inv_deliver (answer : Req → Resp) (forgets : Req → Resp → Bool) (d₀ : Disco) (ps : List (Proc Req Resp Disco Res))
    (s : State Req Resp Disco Res) (j : Nat) (h : Inv answer d₀ ps s) :
    Inv answer d₀ ps (deliver answer forgets d₀ s j) := by
  rcases h with ⟨hsh, hlen, hall⟩
  unfold deliver
  split
  · -- waiting
    rename_i q k hist hj
    have hsh' : (if forgets q (answer q) then none else s.shared) = none ∨
        (if forgets q (answer q) then none else s.shared) = some d₀ := by
      split
      · exact Or.inl rfl
      · exact hsh
    have hspec := settle_spec answer d₀ _ hsh' (k (answer q))
    refine ⟨hsh', by simpa using hlen, ?_⟩
    intro i p hp
    rcases hall i p hp with ⟨st, hh, hget, hden, hreq⟩
    by_cases hij : j = i
    · subst hij
      rw [hj] at hget
      cases hget
      have hlt : j < s.procs.length := by
        rcases List.getElem?_eq_some_iff.mp hj with ⟨hlt, _⟩; exact hlt
      refine ⟨_, _, by simp only [List.getElem?_set, hlt, if_true]; rfl, ?_, ?_⟩
      · rw [hspec.1]; simpa [denoteSt] using hden
      · rw [reqsOf_append, List.append_assoc, hspec.2.1]; simpa [restReqs] using hreq
    · exact ⟨st, hh, by simp [List.getElem?_set, hij, hget], hden, hreq⟩
  · -- probing
    rename_i k hist hj
    have hspec := settle_spec answer d₀ (some d₀) (Or.inr rfl) (k d₀)
    refine ⟨Or.inr rfl, by simpa using hlen, ?_⟩
    intro i p hp
    rcases hall i p hp with ⟨st, hh, hget, hden, hreq⟩
    by_cases hij : j = i
    · subst hij
      rw [hj] at hget
      cases hget
      have hlt : j < s.procs.length := by
        rcases List.getElem?_eq_some_iff.mp hj with ⟨hlt, _⟩; exact hlt
      refine ⟨_, _, by simp only [List.getElem?_set, hlt, if_true]; rfl, ?_, ?_⟩
      · rw [hspec.1]; simpa [denoteSt] using hden
      · rw [reqsOf_append, List.append_assoc, hspec.2.1]; simpa [restReqs] using hreq
    · exact ⟨st, hh, by simp [List.getElem?_set, hij, hget], hden, hreq⟩
  · exact ⟨hsh, hlen, hall⟩

theorem inv_run (answer : Req → Resp) (forgets : Req → Resp → Bool) (d₀ : Disco) (ps : List (Proc Req Resp Disco Res))
    (s : State Req Resp Disco Res) (sched : List Nat) (h : Inv answer d₀ ps s) :
    Inv answer d₀ ps (runSched answer forgets d₀ s sched) := by
  induction sched generalizing s with
  | nil => exact h
  | cons j sched ih => exact ih _ (inv_deliver answer forgets d₀ ps s j h)

/-- Under every schedule, every operation that finishes returns exactly what it returns when
    run alone, and the requests it has put on the wire are exactly the requests of its solo run
    (so results, users, keys and request contents are never mixed between operations) — whichever
    answers make the client forget its discovery data (`forgets`, e.g. error-status replies). -/
theorem C14_schedule_independent (answer : Req → Resp) (forgets : Req → Resp → Bool) (d₀ : Disco)
    (ps : List (Proc Req Resp Disco Res)) (sched : List Nat) (i : Nat) (p : Proc Req Resp Disco Res)
    (r : Res) (h : List (Wire Req)) (hp : ps[i]? = some p)
    (hfin : (runSched answer forgets d₀ (start ps) sched).procs[i]? = some (.finished r, h)) :
    r = denote answer d₀ p ∧ reqsOf h = soloReqs answer d₀ p := by
  have hinv := inv_run answer forgets d₀ ps (start ps) sched (inv_start answer d₀ ps)
  rcases hinv.2.2 i p hp with ⟨st, hh, hget, hden, hreq⟩
  rw [hfin] at hget
  cases hget
  exact ⟨by simpa [denoteSt] using hden, by simpa [restReqs] using hreq⟩

/-- At every moment of every schedule, what an operation has requested so far is a prefix of its
    solo run: the only additional traffic under concurrency is discovery probes. -/
theorem C14_discovery_only_repeats (answer : Req → Resp) (forgets : Req → Resp → Bool) (d₀ : Disco)
    (ps : List (Proc Req Resp Disco Res)) (sched : List Nat) (i : Nat) (p : Proc Req Resp Disco Res)
    (hp : ps[i]? = some p) :
    ∃ st h, (runSched answer forgets d₀ (start ps) sched).procs[i]? = some (st, h) ∧
      reqsOf h <+: soloReqs answer d₀ p := by
  have hinv := inv_run answer forgets d₀ ps (start ps) sched (inv_start answer d₀ ps)
  rcases hinv.2.2 i p hp with ⟨st, hh, hget, _, hreq⟩
  exact ⟨st, hh, hget, ⟨_, hreq⟩⟩

/-- Progress: a suspended operation can always be resumed, and a delivery to it never touches
    any other operation's state. -/
theorem C14_progress (answer : Req → Resp) (forgets : Req → Resp → Bool) (d₀ : Disco) (s : State Req Resp Disco Res) (i j : Nat)
    (hij : i ≠ j) : (deliver answer forgets d₀ s i).procs[j]? = s.procs[j]? := by
  unfold deliver
  split <;> simp [List.getElem?_set, hij]

/-- Each API operation is such a coroutine tree: a GET is one discovery read and one exchange. -/
def getProc (mkReq : Disco → Req) (result : Resp → Res) : Proc Req Resp Disco Res :=
  .needDisco fun d => .exchange (mkReq d) fun resp => .done (result resp)

/- non-vacuity: two operations on a fresh v3 client, both probe, results not mixed -/
example :
    let ps : List (Proc Nat Nat Nat Nat) := [getProc (· + 1) (· * 2), getProc (· + 5) (· * 3)]
    let s := runSched (fun q => q + 100) (fun _ _ => false) 7 (start ps) [1, 0, 0, 1]
    s.procs.map (fun x => match x.1 with | .finished r => some r | _ => none) = [some 216, some 336] ∧
    s.log.map (fun e => (e.1, match e.2 with | .probe => 0 | .req q => q)) = [(0, 0), (1, 0), (1, 12), (0, 8)] := by
  decide

end Snmp.Props.C14
